package main

import (
	"fmt"
	"strings"
	"sync"
	"time"

	frugal "github.com/Workiva/frugal/lib/go"
	"github.com/nats-io/nats.go"

	"verif/rig"
	"verif/wire"
	"vh/gen/base"
	"vh/gen/mainsvc"
)

// pubCase is one generated publish and what the subscriber callback saw.
type pubCase struct {
	Proto  string
	Index  int
	Op     string // Sent | Num | Ping
	Token  string
	CID    string
	CIDCls string
	TOms   int64
	TOCls  string
	Req    headerSet

	pubReqAfter map[string]string // publisher's ctx.RequestHeaders() after Publish returned
	pubTimeout  time.Duration
	seen        chan subObs
}

type subObs struct {
	req, rsp map[string]string
	timeout  time.Duration
}

func (pc *pubCase) witness(o *subObs, extra map[string]interface{}) map[string]interface{} {
	w := map[string]interface{}{
		"leg": "nats-pubsub/" + pc.Proto, "case_index": pc.Index, "operation": pc.Op,
		"correlation_id_given": qs(pc.CID), "timeout_ms_set": pc.TOms,
		"request_headers_set":       qpairs(pc.Req.Pairs),
		"publisher_request_headers": qmap(pc.pubReqAfter),
		"replay":                    "case list is a pure function of (VERIF_SEED, tier, protocol, case_index)",
	}
	if o != nil {
		w["subscriber_request_headers"] = qmap(o.req)
		w["subscriber_response_headers"] = qmap(o.rsp)
		w["subscriber_timeout_ns"] = int64(o.timeout)
		w["publisher_timeout_ns"] = int64(pc.pubTimeout)
	}
	for k, v := range extra {
		w[k] = v
	}
	return w
}

// runPubSub publishes n generated messages per protocol through the generated
// publishers over NATS and compares what the generated subscribers' callbacks
// receive.
func (m *monitor) runPubSub(ns *rig.NatsServer, n int) {
	conn, err := ns.Connect()
	if err != nil {
		m.run.Inconclusive("pub/sub: cannot connect to the embedded broker: " + err.Error())
		return
	}
	defer conn.Close()
	tapc, err := ns.Connect()
	if err != nil {
		m.run.Inconclusive("pub/sub: cannot connect the tap: " + err.Error())
		return
	}
	defer tapc.Close()
	var tapMu sync.Mutex
	tapFrames := map[string]map[string]string{} // publisher op id -> headers on the wire
	tapc.Subscribe("frugal.>", func(msg *nats.Msg) {
		h, _, err := wire.ParseFrame(msg.Data)
		if err != nil {
			m.run.Add("pubsub_tap_unparsable", 1)
			return
		}
		tapMu.Lock()
		tapFrames[h["_opid"]] = h
		tapMu.Unlock()
	})
	tapc.Flush()

	for _, proto := range rig.Protocols {
		name := "nats-pubsub/" + proto
		pf := rig.ProtocolFactory(proto)
		user := fmt.Sprintf("u%d%s", m.run.Seed, proto)
		provider := frugal.NewFScopeProvider(frugal.NewFNatsPublisherTransportFactory(conn), frugal.NewFNatsSubscriberTransportFactory(conn), pf)
		var mu sync.Mutex
		pending := map[string]*pubCase{}
		deliver := func(token string, ctx frugal.FContext) {
			o := subObs{req: ctx.RequestHeaders(), rsp: ctx.ResponseHeaders(), timeout: ctx.Timeout()}
			mu.Lock()
			pc := pending[token]
			mu.Unlock()
			if pc == nil {
				m.run.Violation("C09:subscriber-unknown-message:"+name, "a subscriber callback received a message that was not published",
					map[string]interface{}{"leg": name, "token": qs(token), "subscriber_request_headers": qmap(o.req)})
				return
			}
			select {
			case pc.seen <- o:
			default:
				m.run.Add("pubsub_duplicate_deliveries", 1)
			}
		}
		esub := mainsvc.NewEventsSubscriber(provider)
		s1, err1 := esub.SubscribeSent(user, func(ctx frugal.FContext, p *mainsvc.Payload) {
			tok := ""
			if p != nil && p.Last != nil {
				tok = p.Last.Big
			}
			deliver(tok, ctx)
		})
		s2, err2 := esub.SubscribeNum(user, func(ctx frugal.FContext, t *base.Thing) { deliver(t.AString, ctx) })
		s3, err3 := mainsvc.NewPlainSubscriber(provider).SubscribePing(func(ctx frugal.FContext, t *base.Thing) { deliver(t.AString, ctx) })
		if err1 != nil || err2 != nil || err3 != nil {
			m.run.Inconclusive(fmt.Sprintf("%s: subscribe failed: %v %v %v", name, err1, err2, err3))
			return
		}
		epub := mainsvc.NewEventsPublisher(provider)
		ppub := mainsvc.NewPlainPublisher(provider)
		if err := epub.Open(); err != nil {
			m.run.Inconclusive(name + ": publisher open: " + err.Error())
			return
		}
		if err := ppub.Open(); err != nil {
			m.run.Inconclusive(name + ": publisher open: " + err.Error())
			return
		}
		m.run.Add("pubsub_legs_run", 1)
		for i := 0; i < n; i++ {
			rng := m.run.Rand(fmt.Sprintf("c09-pub-%s-%d", proto, i))
			pc := &pubCase{Proto: proto, Index: i, Op: []string{"Sent", "Num", "Ping"}[rng.Intn(3)], seen: make(chan subObs, 1)}
			pc.Token = fmt.Sprintf("p%s%d", proto, i)
			pc.CID, pc.CIDCls = genCID(rng, pc.Token)
			pc.TOms, pc.TOCls = genTimeoutMS(rng)
			pc.Req = genHeaders(rng, 12, nil, 64<<10)
			mu.Lock()
			pending[pc.Token] = pc
			mu.Unlock()

			ctx := frugal.NewFContext(pc.CID)
			if pc.TOms > 0 {
				ctx.SetTimeout(time.Duration(pc.TOms) * time.Millisecond)
			}
			if i%5 == 1 || rng.Intn(8) == 0 {
				// "no deadline": nothing waits on a publish, so it always completes
				d, cls := genNoDeadline(rng)
				ctx.SetTimeout(d)
				pc.TOCls, pc.TOms = cls, int64(d/time.Millisecond)
				m.run.Add("pubsub_no_deadline_timeouts", 1)
			}
			for _, p := range pc.Req.Pairs {
				ctx.AddRequestHeader(p.Name, p.Value)
			}
			before := ctx.RequestHeaders()
			pubOp := before["_opid"]
			if other, fresh := m.claimOpID(pubOp, "publisher "+name+" "+pc.Token); !fresh {
				m.run.Violation("C09:caller-opid-collides:"+name, "a new FContext carries an op id already seen on another context ("+other+")", pc.witness(nil, nil))
			}
			m.run.Eval(1)
			m.run.Add("publishes", 1)
			var perr error
			switch pc.Op {
			case "Sent":
				perr = epub.PublishSent(ctx, user, &mainsvc.Payload{Last: &mainsvc.BigLast{N: int32(i), Nums: []int64{1}, Big: pc.Token}})
			case "Num":
				perr = epub.PublishNum(ctx, user, &base.Thing{AnID: int32(i), AString: pc.Token})
			default:
				perr = ppub.PublishPing(ctx, &base.Thing{AnID: int32(i), AString: pc.Token})
			}
			pc.pubReqAfter = ctx.RequestHeaders()
			pc.pubTimeout = ctx.Timeout()
			if perr != nil {
				m.run.Inconclusive(fmt.Sprintf("%s case %d: publish failed: %v", name, i, perr))
				break
			}
			// what the generated publisher may add on its own: _topic_<variable> headers
			for k, v := range pc.pubReqAfter {
				if b, ok := before[k]; ok && b == v {
					continue
				}
				if strings.HasPrefix(k, "_topic_") {
					m.run.Add("publisher_added_topic_headers", 1)
					continue
				}
				m.run.Violation("C09:publisher-changed-request-header:"+name, "publishing changed a request header of the caller's FContext other than adding _topic_<variable>", pc.witness(nil, map[string]interface{}{"header": qs(k)}))
			}
			var o subObs
			select {
			case o = <-pc.seen:
			case <-time.After(callWatchdog):
				m.run.Inconclusive(fmt.Sprintf("%s case %d (%s): message was not delivered within %s", name, i, pc.Op, callWatchdog))
				mu.Lock()
				delete(pending, pc.Token)
				mu.Unlock()
				goto nextProto
			}
			mu.Lock()
			delete(pending, pc.Token)
			mu.Unlock()
			m.run.Add("subscriber_observations", 1)
			m.run.Distinct(fmt.Sprintf("%s|%s|cid:%s|to:%s|req:%s:%s", name, pc.Op, pc.CIDCls, pc.TOCls, bucket(len(pc.Req.Pairs)), pc.Req.flags()))
			if i < 2 {
				m.run.Sample(map[string]interface{}{"leg": name, "operation": pc.Op, "publisher_request_headers": qmap(pc.pubReqAfter), "subscriber_request_headers": qmap(o.req), "subscriber_response_headers": qmap(o.rsp)})
			}
			{
				want := without(pc.pubReqAfter, "_opid")
				got := without(o.req, "_opid")
				if !mapsEqual(want, got) {
					kind := "subscriber-request-headers-differ"
					if want["_cid"] != got["_cid"] {
						kind = "subscriber-cid-differs"
					} else if want["_timeout"] != got["_timeout"] {
						kind = "subscriber-timeout-header-differs"
					}
					m.run.Violation("C09:"+kind+":"+name, "the request headers the subscriber callback observes differ from the publisher's FContext", pc.witness(&o, map[string]interface{}{"diff": diffMaps(want, got)}))
				}
				placed := 5 * time.Second
				if pc.TOms != 0 || pc.TOCls == "zero" || pc.TOCls == "negative" {
					placed = time.Duration(pc.TOms) * time.Millisecond
				}
				if o.timeout != placed {
					m.run.Violation("C09:subscriber-timeout-differs:"+name, "subscriber-side ctx.Timeout() is not the timeout the publisher placed on the FContext with SetTimeout (whole milliseconds; 0 or negative = no deadline)", pc.witness(&o, map[string]interface{}{"placed_timeout_ns": int64(placed)}))
				} else if o.timeout != pc.pubTimeout {
					m.run.Violation("C09:subscriber-timeout-differs:"+name, "subscriber-side ctx.Timeout() differs from the publisher's", pc.witness(&o, nil))
				}
				sop, ok := o.req["_opid"]
				switch {
				case !ok:
					m.run.Violation("C09:subscriber-opid-missing:"+name, "the context given to the subscriber callback has no op id", pc.witness(&o, nil))
				case sop == pubOp:
					m.run.Violation("C09:subscriber-opid-equals-publishers:"+name, "the context given to the subscriber callback carries the publisher's op id, not a fresh one", pc.witness(&o, nil))
				default:
					if other, fresh := m.claimOpID(sop, "subscriber "+name+" "+pc.Token); !fresh {
						m.run.Violation("C09:subscriber-opid-not-fresh:"+name, "the op id of the context given to the subscriber callback was already seen on another context ("+other+")", pc.witness(&o, nil))
					} else {
						m.run.Add("fresh_subscriber_opids", 1)
					}
				}
				// the wire: what the publisher put in the frame
				var onWire map[string]string
				for tries := 0; tries < 200; tries++ {
					tapMu.Lock()
					onWire = tapFrames[pubOp]
					delete(tapFrames, pubOp)
					tapMu.Unlock()
					if onWire != nil {
						break
					}
					time.Sleep(10 * time.Millisecond)
				}
				if onWire == nil {
					m.run.Add("pubsub_tap_not_seen", 1)
				} else {
					m.run.Add("pubsub_tap_frames", 1)
					if !mapsEqual(onWire, pc.pubReqAfter) {
						m.run.Violation("C09:publish-frame-headers-differ:"+name, "the published frame does not carry the publisher's request headers", pc.witness(&o, map[string]interface{}{"diff": diffMaps(pc.pubReqAfter, onWire)}))
					}
				}
			}
		}
	nextProto:
		s1.Unsubscribe()
		s2.Unsubscribe()
		s3.Unsubscribe()
		epub.Close()
		ppub.Close()
	}
}
