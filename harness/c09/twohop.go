package main

import (
	"errors"
	"fmt"
	"sync"
	"time"

	frugal "github.com/Workiva/frugal/lib/go"

	"verif/rig"
	"verif/wire"
	"vh/e2e"
	"vh/gen/base"
	"vh/gen/mainsvc"
)

// Two-hop histories: caller -> service A -> service B.  A's handler sets
// response headers on its inbound context, makes 1-2 onward calls to B, and
// may set more headers afterwards.  Each onward call is made either on
// frugal.Clone(inbound) or on the INBOUND CONTEXT ITSELF (the context given to
// a handler carries a fresh request op id precisely so that it can be used for
// onward calls; its response-header map then holds what the handler has set so
// far for its own caller).  B's handler sets a same-named header with another
// value and extra headers.  Asserted:
//   - the ORIGINAL caller sees every response header A's handler set: exactly
//     the model "A's headers set before the onward calls, then what B set in
//     each onward call made on the inbound context (such a call is a call of
//     this property whose caller context is the inbound one), then A's headers
//     set afterwards" + the _cid echo.  Nothing of B's when every onward call
//     was on a clone.  Where A's earlier value and B's value meet on one name
//     either is accepted at the original caller; names only B set may be absent
//     there (a later onward call on the same context may shed them); the
//     caller's map equals A's context at handler return minus _opid;
//   - on the context used for the onward call (clone or inbound) A sees every
//     header B set, with B's value, when the onward call returns; an onward
//     call on the inbound context leaves its response op id (the caller's) as
//     it was;
//   - B's handler observes that context's request headers (same _cid and user
//     headers as the caller's) under a fresh op id, and B's reply is addressed
//     to that context's op id; a clone's op id is fresh, the inbound context's
//     op id is not the caller's.

type hopCase struct {
	Leg, LegB string
	Index     int
	AOutcome  string
	ASetPre   []wire.Pair // set before the onward calls
	ASetPost  []wire.Pair // set after them
	BSets     [][]wire.Pair
	OnInbound []bool // per onward call: made on the inbound context itself (true) or on frugal.Clone(inbound)
	Req       headerSet

	mu            sync.Mutex
	inboundOpID   string
	inboundRspPre map[string]string
	cloneOpIDs    []string
	cloneReq      []map[string]string
	cloneRspAfter []map[string]string
	inboundAfter  []map[string]string // the inbound context's response headers after each onward call
	onwardErrs    []string
	bReq          []map[string]string
	bRspEntry     []map[string]string
	aFinal        map[string]string
}

func (hc *hopCase) witness(extra map[string]interface{}) map[string]interface{} {
	w := map[string]interface{}{"leg_A": hc.Leg, "leg_B": hc.LegB, "case_index": hc.Index, "A_outcome": hc.AOutcome,
		"caller_request_headers_set": qpairs(hc.Req.Pairs), "A_sets_before_onward_calls": qpairs(hc.ASetPre), "A_sets_after_onward_calls": qpairs(hc.ASetPost),
		"A_final_response_headers": qmap(hc.aFinal), "onward_call_errors": hc.onwardErrs, "onward_call_made_on": hc.onwardModes(),
		"replay": "case list is a pure function of (VERIF_SEED, tier, leg_A, case_index)"}
	for i, b := range hc.BSets {
		w[fmt.Sprintf("B_sets_in_onward_call_%d", i+1)] = qpairs(b)
	}
	for i, c := range hc.cloneRspAfter {
		w[fmt.Sprintf("onward_context_%d_response_headers_after_onward_call", i+1)] = qmap(c)
	}
	for i, c := range hc.inboundAfter {
		w[fmt.Sprintf("A_inbound_response_headers_after_onward_call_%d", i+1)] = qmap(c)
	}
	if hc.inboundRspPre != nil {
		w["A_inbound_response_headers_before_onward_calls"] = qmap(hc.inboundRspPre)
	}
	for k, v := range extra {
		w[k] = v
	}
	return w
}

func (hc *hopCase) onwardModes() []string {
	var out []string
	for i := range hc.BSets {
		if i < len(hc.OnInbound) && hc.OnInbound[i] {
			out = append(out, "inbound-context")
		} else {
			out = append(out, "clone")
		}
	}
	return out
}

func (hc *hopCase) anyOnInbound() bool {
	for _, b := range hc.OnInbound {
		if b {
			return true
		}
	}
	return false
}

// callerModel is what the original caller may see for every name: the list of
// acceptable values (the last one is what a sequential reading gives).  A's
// headers set before the onward calls, then B's headers of every onward call
// made on the inbound context (B's value joins A's as acceptable on a shared
// name), then A's headers set afterwards (A's value alone).  Names that only B
// set are optional at the original caller (second result): A's handler did not
// set them, they arrived on its context through an onward call, and a context
// that is used for a further call may legally shed what an earlier call left
// on it (same reading as the reuse dimension); what the property requires for
// them is asserted where it applies - on the inbound context when the onward
// call returns - and the reply is compared with A's final map separately.
func (hc *hopCase) callerModel() (map[string][]string, map[string]bool) {
	model := map[string][]string{}
	optional := map[string]bool{}
	defer func() {
		for k := range model {
			optional[k] = true
		}
		for _, p := range append(append([]wire.Pair{}, hc.ASetPre...), hc.ASetPost...) {
			delete(optional, p.Name)
		}
	}()
	for _, p := range hc.ASetPre {
		model[p.Name] = []string{p.Value}
	}
	for i, set := range hc.BSets {
		if i >= len(hc.OnInbound) || !hc.OnInbound[i] {
			continue
		}
		for _, p := range set {
			model[p.Name] = append(model[p.Name], p.Value)
		}
	}
	for _, p := range hc.ASetPost {
		model[p.Name] = []string{p.Value}
	}
	return model, optional
}

func pairsMap(ps []wire.Pair) map[string]string {
	m := map[string]string{}
	for _, p := range ps {
		m[p.Name] = p.Value
	}
	return m
}

func (m *monitor) runTwoHop(ns *rig.NatsServer, specA, specB legSpec, legIdx, n int) {
	name := specA.String()
	legA, err := e2e.StartLeg(specA.Kind, specA.Proto, ns, rig.LegOptions{})
	if err != nil {
		m.run.Inconclusive("two-hop leg A " + name + " did not start: " + err.Error())
		return
	}
	defer legA.Stop()
	legB, err := e2e.StartLeg(specB.Kind, specB.Proto, ns, rig.LegOptions{})
	if err != nil {
		m.run.Inconclusive("two-hop leg B " + specB.String() + " did not start: " + err.Error())
		return
	}
	defer legB.Stop()
	clientA, _, err := legA.Client()
	if err != nil {
		m.run.Inconclusive("two-hop client A: " + err.Error())
		return
	}
	clientB, _, err := legB.Client() // used by A's handler
	if err != nil {
		m.run.Inconclusive("two-hop client B: " + err.Error())
		return
	}
	var cur *hopCase
	var hop int
	legB.Handler.OnCall = func(c *e2e.Call) {
		hc := cur
		hc.mu.Lock()
		i := hop
		hc.bReq = append(hc.bReq, c.ReqHdrs)
		hc.bRspEntry = append(hc.bRspEntry, c.RspHdrs)
		hc.mu.Unlock()
		if i < len(hc.BSets) {
			for _, p := range hc.BSets[i] {
				c.Ctx.AddResponseHeader(p.Name, p.Value)
			}
		}
	}
	legA.Handler.OnCall = func(c *e2e.Call) {
		hc := cur
		hc.inboundOpID = c.ReqHdrs["_opid"]
		for _, p := range hc.ASetPre {
			c.Ctx.AddResponseHeader(p.Name, p.Value)
		}
		hc.inboundRspPre = c.Ctx.ResponseHeaders()
		for i := range hc.BSets {
			hop = i
			var clone frugal.FContext
			if hc.OnInbound[i] {
				clone = c.Ctx // the context the handler was given, as is
			} else {
				clone = frugal.Clone(c.Ctx)
				clone.SetTimeout(10 * time.Second)
			}
			creq := clone.RequestHeaders()
			var oerr error
			if i%2 == 0 {
				_, oerr = clientB.Add(clone, 7, int64(i))
			} else {
				_, oerr = clientB.EchoThing(clone, &base.Thing{AnID: int32(i), AString: "onward"})
			}
			hc.mu.Lock()
			hc.cloneOpIDs = append(hc.cloneOpIDs, creq["_opid"])
			hc.cloneReq = append(hc.cloneReq, creq)
			hc.cloneRspAfter = append(hc.cloneRspAfter, clone.ResponseHeaders())
			hc.inboundAfter = append(hc.inboundAfter, c.Ctx.ResponseHeaders())
			hc.onwardErrs = append(hc.onwardErrs, fmt.Sprint(oerr))
			hc.mu.Unlock()
		}
		for _, p := range hc.ASetPost {
			c.Ctx.AddResponseHeader(p.Name, p.Value)
		}
		hc.aFinal = c.Ctx.ResponseHeaders()
	}
	legA.Handler.Behave = func(c *e2e.Call) *e2e.Outcome {
		switch cur.AOutcome {
		case "declared":
			return &e2e.Outcome{Err: &mainsvc.Oops{Why: "declared"}}
		case "undeclared":
			return &e2e.Outcome{Err: errors.New("undeclared")}
		}
		return nil
	}

	for q := 0; q < n; q++ {
		rng := m.run.Rand(fmt.Sprintf("c09-twohop-%s-%d", name, q))
		hc := &hopCase{Leg: name, LegB: specB.String(), Index: q, AOutcome: []string{"ok", "ok", "declared", "undeclared"}[rng.Intn(4)]}
		hc.Req = genHeaders(rng, 5, nil, 2048)
		// A's names, B's same-named (other value) + extra names
		used := map[string]bool{}
		fresh := func() string {
			for {
				nm, _ := genName(rng, true)
				if !used[nm] {
					used[nm] = true
					return nm
				}
			}
		}
		val := func(tag string) string { v, _ := genValue(rng, false, 0); return v + tag }
		for i := 1 + rng.Intn(3); i > 0; i-- {
			hc.ASetPre = append(hc.ASetPre, wire.Pair{Name: fresh(), Value: val("/A")})
		}
		for i := rng.Intn(2); i > 0; i-- {
			hc.ASetPost = append(hc.ASetPost, wire.Pair{Name: fresh(), Value: val("/A-post")})
		}
		for b := 1 + rng.Intn(2); b > 0; b-- {
			var set []wire.Pair
			set = append(set, wire.Pair{Name: hc.ASetPre[rng.Intn(len(hc.ASetPre))].Name, Value: val(fmt.Sprintf("/B%d", b))}) // same name, other value
			if len(hc.ASetPost) > 0 && rng.Intn(2) == 0 {
				set = append(set, wire.Pair{Name: hc.ASetPost[0].Name, Value: val("/B-early")})
			}
			for i := 1 + rng.Intn(2); i > 0; i-- {
				set = append(set, wire.Pair{Name: fresh(), Value: val("/B-extra")})
			}
			hc.BSets = append(hc.BSets, set)
		}
		// which context carries each onward call: by case index all on a clone /
		// all on the inbound context / drawn per call (so every leg has all
		// three kinds at every seed, also with quick's 3 cases)
		if q%3 == 1 && len(hc.ASetPre) < 2 {
			// all-inbound case: at least one header of A's that B does not touch
			hc.ASetPre = append(hc.ASetPre, wire.Pair{Name: fresh(), Value: val("/A")})
		}
		for range hc.BSets {
			switch q % 3 {
			case 0:
				hc.OnInbound = append(hc.OnInbound, false)
			case 1:
				hc.OnInbound = append(hc.OnInbound, true)
			default:
				hc.OnInbound = append(hc.OnInbound, rng.Intn(2) == 0)
			}
		}
		cur = hc
		cid, _ := genCID(rng, fmt.Sprintf("h%d-%d", legIdx, q))
		ctx := frugal.NewFContext(cid)
		ctx.SetTimeout(15 * time.Second)
		for _, p := range hc.Req.Pairs {
			ctx.AddRequestHeader(p.Name, p.Value)
		}
		callerReq := ctx.RequestHeaders()
		callerOp := callerReq["_opid"]
		m.claimOpID(callerOp, "two-hop caller "+name)
		m.run.Eval(1)
		m.run.Add("two_hop_calls", 1)
		done := make(chan error, 1)
		go func() {
			_, err := clientA.Echo(ctx, &mainsvc.Payload{Last: &mainsvc.BigLast{N: 1, Nums: []int64{1}, Big: "x"}}, "hop")
			done <- err
		}()
		var callErr error
		select {
		case callErr = <-done:
		case <-time.After(callWatchdog):
			m.run.Inconclusive(fmt.Sprintf("two-hop %s case %d: the call did not return within %s", name, q, callWatchdog))
			return
		}
		if (hc.AOutcome == "ok") != (callErr == nil) || hc.aFinal == nil {
			m.run.Inconclusive(fmt.Sprintf("two-hop %s case %d: unexpected result %v (A's handler reached: %v)", name, q, callErr, hc.aFinal != nil))
			return
		}
		got := ctx.ResponseHeaders()
		viol := func(kind, what string, extra map[string]interface{}) {
			if extra == nil {
				extra = map[string]interface{}{}
			}
			extra["caller_response_headers_after"] = qmap(got)
			m.run.Violation("C09:"+kind+":"+name, what, hc.witness(extra))
		}
		m.run.Distinct(fmt.Sprintf("twohop|%s>%s|%s|onward=%v|post=%d", name, hc.LegB, hc.AOutcome, hc.onwardModes(), len(hc.ASetPost)))
		// 1. the original caller: every header A's handler set (model above)
		model, optional := hc.callerModel()
		model["_cid"] = []string{ctx.CorrelationID()}
		want := map[string]string{} // sequential reading of the model, for the diff
		callerOK := true
		for k := range got {
			if _, known := model[k]; !known {
				callerOK = false // a name nobody set
			}
		}
		for k, vals := range model {
			g, ok := got[k]
			if !ok && optional[k] {
				continue
			}
			want[k] = vals[len(vals)-1]
			found := false
			for _, v := range vals {
				found = found || (ok && g == v)
			}
			callerOK = callerOK && found
		}
		if !callerOK {
			kind, what := "caller-response-headers-differ", "after a two-hop call the caller's response headers are not the ones service A's handler set (+ the _cid echo)"
			for i, set := range hc.BSets {
				if hc.OnInbound[i] {
					continue
				}
				for _, p := range set {
					if g, ok := got[p.Name]; ok && g == p.Value && want[p.Name] != p.Value {
						kind, what = "onward-call-response-leaked-to-caller", "a response header set by the DOWNSTREAM service B (received by A on a Clone of its inbound context) reached the original caller: it replaced A's value / appeared although A never set it"
					}
				}
			}
			if hc.anyOnInbound() {
				// a header A's handler had set BEFORE an onward call made on its
				// inbound context is absent at the caller, or has a value neither A
				// nor (through such an onward call) B gave it
				for _, p := range hc.ASetPre {
					g, ok := got[p.Name]
					acceptable := false
					for _, v := range model[p.Name] {
						acceptable = acceptable || (ok && g == v)
					}
					if !acceptable {
						kind, what = "response-header-set-before-onward-call-on-inbound-context-lost", "a response header the handler set on the context it was given, BEFORE it used that same context for an onward call, is not visible on the caller's FContext when the call returns (absent, or a value nobody set)"
						break
					}
				}
			}
			viol(kind, what, map[string]interface{}{"diff": diffMaps(want, got)})
		} else {
			m.run.Add("two_hop_caller_observations", 1)
			// the reply carried A's context as it was when the handler returned
			if !mapsEqual(without(hc.aFinal, "_opid"), got) {
				viol("caller-response-headers-differ-from-handlers-final", "the caller's response headers are not the response headers A's context held when its handler returned (minus _opid)", map[string]interface{}{"diff": diffMaps(without(hc.aFinal, "_opid"), got)})
			}
			if hc.anyOnInbound() {
				m.run.Add("two_hop_caller_observations_after_onward_call_on_inbound_context", 1)
			}
		}
		// 2. per onward call: A sees B's headers on the clone; B saw the clone's context
		for i, set := range hc.BSets {
			if i >= len(hc.cloneRspAfter) || i >= len(hc.bReq) {
				m.run.Inconclusive(fmt.Sprintf("two-hop %s case %d: onward call %d was not observed", name, q, i+1))
				break
			}
			if hc.onwardErrs[i] != "<nil>" {
				m.run.Inconclusive(fmt.Sprintf("two-hop %s case %d: onward call %d failed: %s", name, q, i+1, hc.onwardErrs[i]))
				break
			}
			for k, v := range pairsMap(set) {
				if g, ok := hc.cloneRspAfter[i][k]; !ok || g != v {
					viol("onward-call-response-headers-differ", "a header the downstream handler set is not visible (with its value) on the context A used for the onward call ("+hc.onwardModes()[i]+") when that call returned", map[string]interface{}{"onward_call": i + 1, "header": qs(k), "expected": qs(v), "observed": qs(g)})
					break
				}
			}
			cop := hc.cloneOpIDs[i]
			if hc.OnInbound[i] {
				// the onward call travelled under the inbound context's own op id
				if cop != hc.inboundOpID || cop == callerOp {
					viol("handler-opid-not-fresh", "the context given to A's handler, used as is for an onward call, carries the caller's op id (or changed its op id)", map[string]interface{}{"onward_call": i + 1, "onward_opid": cop, "inbound_opid": hc.inboundOpID, "caller_opid": callerOp})
				}
				if hc.inboundAfter[i]["_opid"] != callerOp {
					viol("inbound-response-opid-changed-by-onward-call", "after an onward call on the inbound context its response op id is no longer the caller's: A's reply would not carry the request's op id", map[string]interface{}{"onward_call": i + 1, "caller_opid": callerOp})
				}
				m.run.Add("two_hop_onward_calls_on_inbound_context", 1)
			} else if cop == hc.inboundOpID || cop == callerOp {
				viol("clone-opid-not-fresh", "frugal.Clone(inbound) carries the op id of the inbound / the caller's context", map[string]interface{}{"clone_opid": cop})
			} else if other, fr := m.claimOpID(cop, "two-hop clone "+name); !fr {
				viol("clone-opid-not-fresh", "the clone's op id was already seen on another context ("+other+")", map[string]interface{}{"clone_opid": cop})
			}
			if !mapsEqual(without(hc.cloneReq[i], "_opid"), without(hc.bReq[i], "_opid")) {
				viol("handler-request-headers-differ", "service B's handler does not observe the request headers of the cloned context", map[string]interface{}{"onward_call": i + 1, "diff": diffMaps(without(hc.cloneReq[i], "_opid"), without(hc.bReq[i], "_opid"))})
			}
			if !mapsEqual(without(hc.cloneReq[i], "_opid", "_timeout"), without(callerReq, "_opid", "_timeout")) {
				viol("clone-request-headers-differ", "the clone of A's inbound context does not carry the caller's correlation id and user request headers", map[string]interface{}{"onward_call": i + 1, "diff": diffMaps(without(callerReq, "_opid", "_timeout"), without(hc.cloneReq[i], "_opid", "_timeout"))})
			}
			if hc.bRspEntry[i]["_opid"] != cop {
				viol("handler-response-opid-differs", "service B's reply is not addressed to the clone's op id", map[string]interface{}{"onward_call": i + 1})
			}
			m.run.Add("two_hop_onward_observations", 1)
		}
		if hc.inboundRspPre["_opid"] != callerOp {
			viol("handler-response-opid-differs", "A's inbound response op id is not the caller's", nil)
		}
		if q == 0 {
			m.run.Sample(map[string]interface{}{"two_hop": hc.witness(map[string]interface{}{"caller_response_headers_after": qmap(got)})})
		}
		legA.Handler.Reset()
		legB.Handler.Reset()
		legA.Tap.Reset()
		legB.Tap.Reset()
	}
}
