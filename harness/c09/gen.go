package main

import (
	"crypto/sha256"
	"fmt"
	"math/rand"
	"sort"
	"strconv"
	"strings"
	"time"

	"verif/wire"
)

// reserved request header names: never generated as user headers.
var reserved = map[string]bool{"_cid": true, "_opid": true, "_timeout": true}

// names the generated publishers add themselves.
func avoidName(n string) bool { return reserved[n] || strings.HasPrefix(n, "_topic_") }

var asciiWords = []string{"a", "id", "user", "trace", "x-request", "Content-Type", "k", "session", "auth", "v1", "baggage", "tenant"}
var underscoreNames = []string{"_", "__", "_x", "_cid_", "_cidx", "_ci", "_CID", "_opid2", "_opi", "_OPID", "_timeout_", "_timeou", "_Timeout", "_t", "_frugal", "_c", "__cid", "_ cid"}
var nonASCII = []string{"ключ", "键", "clé", "🙂", "naïve-κ", "ｈｄｒ", "é", " nb"}
var oddNames = []string{"a b", "x:y", "new\nline", "\x00z", "tab\there", "UPPER", "with=eq", "%25", "a/b", "q?x", "{}", "\"quoted\""}

func word(rng *rand.Rand, n int) string {
	b := make([]byte, n)
	for i := range b {
		b[i] = byte('a' + rng.Intn(26))
	}
	return string(b)
}

// genName returns a header name and its class.
func genName(rng *rand.Rand, allowEmpty bool) (string, string) {
	for {
		var n, cls string
		switch k := rng.Intn(100); {
		case k < 35:
			n, cls = asciiWords[rng.Intn(len(asciiWords))]+word(rng, rng.Intn(4)), "ascii"
		case k < 60:
			n, cls = underscoreNames[rng.Intn(len(underscoreNames))], "underscore"
			if rng.Intn(3) == 0 {
				n += word(rng, 1+rng.Intn(3))
			}
		case k < 75:
			n, cls = nonASCII[rng.Intn(len(nonASCII))]+word(rng, rng.Intn(3)), "nonascii"
		case k < 88:
			n, cls = oddNames[rng.Intn(len(oddNames))]+word(rng, rng.Intn(3)), "odd"
		case k < 92:
			if !allowEmpty {
				continue
			}
			n, cls = "", "emptyname"
		case k < 96:
			n, cls = word(rng, 200+rng.Intn(400)), "longname"
		default:
			b := make([]byte, 1+rng.Intn(6))
			rng.Read(b)
			n, cls = string(b), "binaryname"
		}
		if avoidName(n) {
			continue
		}
		return n, cls
	}
}

// genValue returns a header value and its class.  maxLong bounds long values.
func genValue(rng *rand.Rand, allowLong bool, maxLong int) (string, string) {
	switch k := rng.Intn(100); {
	case k < 15:
		return "", "empty"
	case k < 50:
		return word(rng, 1+rng.Intn(24)), "ascii"
	case k < 68:
		return nonASCII[rng.Intn(len(nonASCII))] + " — " + nonASCII[rng.Intn(len(nonASCII))] + word(rng, rng.Intn(5)), "utf8"
	case k < 80:
		b := make([]byte, 1+rng.Intn(40))
		rng.Read(b)
		return string(b), "binary"
	case k < 88:
		return []string{"_opid", "_cid", "0", "-1", "18446744073709551615", " ", "\x00", "\n"}[rng.Intn(8)], "tricky"
	case k < 94:
		return strings.Repeat(word(rng, 7), 50+rng.Intn(200)), "kilobytes"
	case k < 98:
		return word(rng, 30+rng.Intn(300)), "ascii"
	default:
		if !allowLong {
			return word(rng, 300), "ascii"
		}
		n := 4096 << uint(rng.Intn(5)) // 4 KiB .. 64 KiB
		if n > maxLong {
			n = maxLong
		}
		if rng.Intn(4) == 0 {
			n = maxLong
		}
		unit := nonASCII[rng.Intn(len(nonASCII))] + word(rng, 5)
		s := strings.Repeat(unit, n/len(unit)+1)
		return s[:n], "long"
	}
}

// headerSet is an ordered list of distinct names with values, and the classes
// it exercises.
type headerSet struct {
	Pairs   []wire.Pair
	Classes map[string]bool
}

func (h headerSet) asMap() map[string]string {
	m := make(map[string]string, len(h.Pairs))
	for _, p := range h.Pairs {
		m[p.Name] = p.Value
	}
	return m
}

// flags condenses the classes into the features the property's quantifier
// names: U underscore-leading name, N non-ASCII/odd/binary name, E empty name,
// e empty value, b non-ASCII or binary value, L 4-64 KiB value, B block padded
// to a 4096-byte boundary, S name
// shadowing a request header.
func (h headerSet) flags() string {
	f := ""
	for _, c := range []struct{ flag, cls string }{{"U", "n:underscore"}, {"N", "n:nonascii"}, {"N", "n:odd"}, {"N", "n:binaryname"}, {"E", "n:emptyname"}, {"S", "n:shadow"},
		{"e", "v:empty"}, {"b", "v:utf8"}, {"b", "v:binary"}, {"L", "v:long"}, {"B", "v:boundary"}} {
		if h.Classes[c.cls] && !strings.Contains(f, c.flag) {
			f += c.flag
		}
	}
	return f
}

func bucket(n int) string {
	switch {
	case n == 0:
		return "0"
	case n == 1:
		return "1"
	case n <= 4:
		return "2-4"
	case n <= 10:
		return "5-10"
	}
	return "11+"
}

// genHeaders generates up to max distinct user headers; shadow lists names
// that may be reused (response headers named like request headers).
func genHeaders(rng *rand.Rand, max int, shadow []string, maxLong int) headerSet {
	hs := headerSet{Classes: map[string]bool{}}
	n := 0
	switch k := rng.Intn(10); {
	case k == 0:
		n = 0
	case k < 4:
		n = 1 + rng.Intn(2)
	case k < 8:
		n = 2 + rng.Intn(6)
	default:
		n = max/2 + rng.Intn(max/2+1)
	}
	if n > max {
		n = max
	}
	seen := map[string]bool{}
	longs := 0
	for len(hs.Pairs) < n {
		var name, ncls string
		if len(shadow) > 0 && rng.Intn(3) == 0 {
			name, ncls = shadow[rng.Intn(len(shadow))], "shadow"
		} else {
			name, ncls = genName(rng, true)
		}
		if seen[name] {
			continue
		}
		seen[name] = true
		v, vcls := genValue(rng, longs < 2, maxLong)
		if vcls == "long" {
			longs++
		}
		hs.Pairs = append(hs.Pairs, wire.Pair{Name: name, Value: v})
		hs.Classes["n:"+ncls] = true
		hs.Classes["v:"+vcls] = true
	}
	// sometimes pad the block so that its end lands within 64 bytes of a
	// multiple of 4096 (buffer boundaries of the stream readers)
	if rng.Intn(20) == 0 && !seen["pad"] {
		size := 0
		for _, p := range hs.Pairs {
			size += 8 + len(p.Name) + len(p.Value)
		}
		size += 60 // roughly the reserved headers
		k := []int{1, 2, 2, 3, 16}[rng.Intn(5)]
		target := 4096*k + rng.Intn(129) - 64
		if pad := target - size - 11; pad > 0 && pad <= maxLong+4096 {
			hs.Pairs = append(hs.Pairs, wire.Pair{Name: "pad", Value: strings.Repeat("p", pad)})
			hs.Classes["v:boundary"] = true
		}
	}
	return hs
}

// timeouts (whole milliseconds) that cannot expire during the run.
func genTimeoutMS(rng *rand.Rand) (int64, string) {
	switch k := rng.Intn(10); {
	case k < 2:
		return 0, "default" // SetTimeout not called: 5 s default
	case k < 4:
		return []int64{5000, 5001, 86400000, 86399999, 60000, 3600000, 7777, 10000}[rng.Intn(8)], "odd"
	case k < 7:
		return 5000 + rng.Int63n(55000), "seconds"
	default:
		return 5000 + rng.Int63n(86400000-5000+1), "hours"
	}
}

// genNoDeadline returns a non-positive timeout: SetTimeout keeps it on the
// wire (whole milliseconds; 0 = "no deadline"), and the receiver must observe
// exactly what ctx.Timeout() reports on the caller's side.  Only used where
// such a call can complete: adapter (pipe, tcp) legs and pub/sub - the NATS
// and HTTP clients give up at once on a timeout <= 0.
func genNoDeadline(rng *rand.Rand) (time.Duration, string) {
	switch rng.Intn(5) {
	case 0, 1:
		return 0, "zero"
	case 2:
		return -500 * time.Microsecond, "zero" // truncates to 0 ms
	case 3:
		return -time.Millisecond, "negative"
	}
	return -5 * time.Second, "negative"
}

func genCID(rng *rand.Rand, token string) (string, string) {
	switch k := rng.Intn(10); {
	case k < 3:
		return "", "generated"
	case k < 7:
		return "cid-" + token + "-" + word(rng, 6), "ascii"
	case k < 9:
		return nonASCII[rng.Intn(len(nonASCII))] + "/" + token, "utf8"
	default:
		b := make([]byte, 4)
		rng.Read(b)
		return token + "\x00" + string(b) + " spaced", "binary"
	}
}

// ---- rendering for witnesses ------------------------------------------------

func qs(s string) string {
	if len(s) > 160 {
		return fmt.Sprintf("%s...(len=%d sha256=%x)", strconv.Quote(s[:48]), len(s), sha256.Sum256([]byte(s)))
	}
	return strconv.Quote(s)
}

func qmap(m map[string]string) map[string]string {
	if m == nil {
		return nil
	}
	out := make(map[string]string, len(m))
	for k, v := range m {
		out[qs(k)] = qs(v)
	}
	return out
}

func qpairs(ps []wire.Pair) []string {
	out := make([]string, 0, len(ps))
	for _, p := range ps {
		out = append(out, qs(p.Name)+"="+qs(p.Value))
	}
	return out
}

func copyMap(m map[string]string) map[string]string {
	out := make(map[string]string, len(m))
	for k, v := range m {
		out[k] = v
	}
	return out
}

func without(m map[string]string, names ...string) map[string]string {
	out := copyMap(m)
	for _, n := range names {
		delete(out, n)
	}
	return out
}

// diffMaps lists how got differs from want.
func diffMaps(want, got map[string]string) []string {
	var d []string
	for k, v := range want {
		g, ok := got[k]
		if !ok {
			d = append(d, "missing "+qs(k)+" (want "+qs(v)+")")
		} else if g != v {
			d = append(d, "altered "+qs(k)+": want "+qs(v)+" got "+qs(g))
		}
	}
	for k, v := range got {
		if _, ok := want[k]; !ok {
			d = append(d, "extra "+qs(k)+"="+qs(v))
		}
	}
	sort.Strings(d)
	if len(d) > 12 {
		d = append(d[:12], fmt.Sprintf("... %d more", len(d)-12))
	}
	return d
}

func mapsEqual(a, b map[string]string) bool {
	if len(a) != len(b) {
		return false
	}
	for k, v := range a {
		if w, ok := b[k]; !ok || w != v {
			return false
		}
	}
	return true
}
