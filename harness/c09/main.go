// Monitor for property C09 (DESIGN.md §4 C09): it runs next to the code the
// compiler under test emitted for /verif/fixtures, against the runtime under
// test, and is the check itself (owns the ev.Run, writes evidence/C09.json).
//
// Observation points: the caller's FContext before and after the call, the
// recording handler (e2e.Handler: request headers, response headers at entry
// and at return, Timeout()), the wire tap (whole request / reply frames parsed
// with the reference codec verif/wire), and for pub/sub the generated
// subscribers' callbacks plus a raw NATS tap.
package main

import (
	"fmt"
	"os"
	"sync"

	frugal "github.com/Workiva/frugal/lib/go"
	"github.com/sirupsen/logrus"

	"verif/ev"
	"verif/rig"
)

func main() {
	rig.Quiet()
	if os.Getenv("C09_LOG") != "" {
		frugal.SetLogger(logrus.StandardLogger())
	}
	run := ev.New("C09", ev.ArgTier(), "exploration")
	run.Rule("one evaluation = one generated RPC call or publish: (method / scope operation, outcome ok|declared exception|undeclared error, correlation id given|generated, timeout in whole ms from 5 s to 24 h or default, 0-12 user request headers, 0-20 handler response headers incl. names shadowing request headers) drawn from PRNG(VERIF_SEED, leg, index); names: ascii, leading underscore (not _cid/_opid/_timeout), non-ASCII, odd punctuation/control bytes, empty, long, binary; values: empty, ascii, UTF-8, binary, tricky, kilobytes, 4-64 KiB. distinct = (leg, method, outcome, cid class, timeout class, header count bucket and name/value classes of both maps) of cases whose handler observation was reached; in 1/5 of the calls the handler adds 32 response headers from 8 goroutines at once (joined before it returns); plus, on all 12 legs, sequences of 2-4 calls on ONE reused FContext (request headers / timeout changed between calls; handler response headers overlapping by name with different values, some only in earlier calls; outcomes ok / declared / application exception); timeouts also 0 / negative (no deadline) on adapter legs and pub/sub; plus (quick, every seed) 240 calls by 8 overlapping callers on one tcp and one pipe adapter connection; plus too-large replies on the 6 NATS / HTTP(response limit) legs (handler sets headers, result over the limit -> RESPONSE_TOO_LARGE reply must carry them); plus two-hop histories on all 12 legs (A's handler sets response headers and makes 1-2 onward calls to a service B on another leg, each on frugal.Clone(inbound) or on the inbound context itself - by case index all-clone / all-inbound / drawn per call, so every leg has each kind at every seed; B sets same-named headers with other values and extra ones; the caller must see A's headers set before and after the onward calls, B's where the onward call ran on the inbound context); plus 6 directed NATS-server scenarios (3 protocols x fault kinds processor-error-after-output / reply larger than a lowered broker max_payload; 1 worker): faulted request, retry on the same FContext, request on a fresh FContext; plus, at every seed, a directed sweep on the 6 stream legs (pipe, tcp x 3 protocols): add() on a fresh connection with the request header block padded to exactly 4030..4100 and 8120..8200 bytes (4096-byte reader buffer boundaries inside the message body)")
	run.Assume("trusted: the reference frame codec verif/wire, the recording handler harness/e2e, the rig's wire taps (frames copied at the transport boundary), embedded nats-server; timeouts below 5 s are excluded because such calls may legitimately expire (C13 covers expiry); STOMP pub/sub is not exercised (no broker helper in the rig yet) - pub/sub is covered over NATS only")
	run.Set("asserted_shape", "handler request headers = caller's with _opid replaced by an id never seen on any other context of the run; handler Timeout() = caller's; handler response headers at entry = {_cid,_opid of request}; caller response headers after return = headers the handler set + _cid echo = handler's final map minus _opid; reply frame _opid,_cid = request frame's and reply frame headers = handler's final map; request frame headers = caller's map. Subscriber callback: request headers = publisher's (incl. the _topic_<var> header the generated publisher adds) modulo _opid, Timeout() equal, _opid observed fresh (asserted, same ReadRequestHeader path as RPC)")
	run.Set("stomp_pubsub", "skipped: no STOMP broker helper in the rig")

	ns, err := rig.StartNats()
	if err != nil {
		run.Inconclusive("embedded nats-server did not start: " + err.Error())
		os.Exit(run.Finish())
	}
	defer ns.Stop()
	m := &monitor{run: run, opids: map[string]string{}}

	legs := allLegs()
	type job struct {
		spec            legSpec
		idx, n, workers int
	}
	var jobs []job
	pubN := 0
	if run.Thorough() {
		for i, l := range legs {
			jobs = append(jobs, job{l, i, 1667, 8})
		}
		pubN = 700
	} else {
		start := int(((run.Seed%4)+4)%4) * 3
		for k := 0; k < 3; k++ {
			i := (start + k) % 12
			w := 1
			if k == 0 {
				w = 4 // multiplexed callers on one connection
			}
			if legs[i].Proto == "json" && (legs[i].Kind == "pipe" || legs[i].Kind == "tcp") && os.Getenv("C09_QUICK_PIPELINE_JSON") == "" {
				// quick tier: keep stream+JSON legs sequential so that the case
				// list alone (not the scheduler) decides what the server's
				// buffered JSON reader sees; thorough pipelines on every leg
				w = 1
			}
			jobs = append(jobs, job{legs[i], i, 100, w})
		}
		// overlapping calls on ONE adapter transport (stream legs), at every
		// seed: 8 callers share a connection, every call has its own response
		// headers (the read loop hands frames to callers that decode them later)
		p := int(((run.Seed % 3) + 3) % 3)
		jobs = append(jobs, job{legSpec{"tcp", rig.Protocols[p]}, 12, 240, 8}, job{legSpec{"pipe", rig.Protocols[(p+1)%3]}, 13, 240, 8})
		pubN = 20
	}
	// replay / diagnosis: "--leg kind/proto [--calls n] [--workers n]" runs that
	// leg alone with the same per-case generators
	rest := ev.ArgRest()
	legOnly := false
	for i := 0; i+1 < len(rest); i++ {
		switch rest[i] {
		case "--leg":
			legOnly = true
			var only []job
			for li, l := range legs {
				if l.String() == rest[i+1] {
					only = append(only, job{l, li, 100, 1})
					for _, j := range jobs {
						if j.spec == l {
							only[0] = j
						}
					}
				}
			}
			jobs = only
		case "--calls":
			for k := range jobs {
				fmt.Sscan(rest[i+1], &jobs[k].n)
			}
		case "--workers":
			for k := range jobs {
				fmt.Sscan(rest[i+1], &jobs[k].workers)
			}
		}
	}
	var names []string
	for _, j := range jobs {
		names = append(names, j.spec.String())
	}
	run.Set("legs", names)
	var wg sync.WaitGroup
	for _, j := range jobs {
		wg.Add(1)
		go func(j job) {
			defer wg.Done()
			m.runLeg(ns, j.spec, j.idx, j.n, j.workers)
		}(j)
	}
	wg.Add(1)
	go func() {
		defer wg.Done()
		m.runPubSub(ns, pubN)
	}()
	// directed: replies over the limit (NATS server, HTTP with a response limit)
	if !legOnly {
		for i, l := range legs {
			if l.Kind == "nats" || l.Kind == "http" {
				wg.Add(1)
				go func(i int, l legSpec) {
					defer wg.Done()
					m.runTooLarge(ns, l, i)
				}(i, l)
			}
		}
	}
	// two-hop histories: caller -> A -> B with onward calls on Clone(inbound) or
	// on the inbound context itself
	if !legOnly {
		nh := 3
		if run.Thorough() {
			nh = 60
		}
		for i, l := range legs {
			wg.Add(1)
			go func(i int, l legSpec) {
				defer wg.Done()
				m.runTwoHop(ns, l, legs[(i+5)%12], i, nh)
			}(i, l)
		}
	}
	// directed: fault at reply publish on the NATS server leg, then further
	// requests on the same worker
	if !legOnly {
		for _, proto := range rig.Protocols {
			for _, kind := range []string{"process-error", "max-payload"} {
				wg.Add(1)
				go func(proto, kind string) {
					defer wg.Done()
					m.runNatsReplyFault(proto, kind)
				}(proto, kind)
			}
		}
	}
	// reuse dimension: sequences of calls on one FContext, every leg, every tier
	if !legOnly {
		nseq := 6
		if run.Thorough() {
			nseq = 150
		}
		for i, l := range legs {
			wg.Add(1)
			go func(i int, l legSpec) {
				defer wg.Done()
				m.runReuse(ns, l, i, nseq)
			}(i, l)
		}
	}
	// directed sweep of header block sizes around the stream readers' buffer
	// boundaries: every tier, every seed, every stream leg
	if !legOnly {
		for i, l := range legs {
			if l.Kind == "pipe" || l.Kind == "tcp" {
				wg.Add(1)
				go func(i int, l legSpec) {
					defer wg.Done()
					m.runBoundary(ns, l, i)
				}(i, l)
			}
		}
	}
	wg.Wait()
	if !legOnly && run.Violations() == 0 && (run.Count("two_hop_onward_calls_on_inbound_context") == 0 || run.Count("two_hop_caller_observations_after_onward_call_on_inbound_context") == 0) {
		run.Inconclusive("no two-hop history with an onward call on the handler's inbound context was observed to the end")
	}
	m.opMu.Lock()
	run.Set("op_ids_seen", len(m.opids))
	if len(m.undelivered) > 0 {
		run.Set("calls_not_delivered_samples", m.undelivered)
		fmt.Printf("NOTE property=C09 %d call(s) never reached the handler (see calls_not_delivered_samples), first: %s\n", run.Count("calls_not_delivered"), m.undelivered[0])
	}
	m.opMu.Unlock()
	// sanity gate: every observation point must have been reached
	for _, k := range []string{"handler_observations", "caller_after_observations", "tap_request_reply_pairs", "subscriber_observations", "fresh_handler_opids"} {
		if run.Count(k) == 0 && run.Violations() == 0 {
			run.Inconclusive(fmt.Sprintf("observation point %q was never reached", k))
		}
	}
	os.Exit(run.Finish())
}
