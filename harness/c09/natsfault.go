package main

import (
	"encoding/binary"
	"fmt"
	"strings"
	"sync/atomic"
	"time"

	frugal "github.com/Workiva/frugal/lib/go"

	"verif/rig"
	"verif/wire"
	"vh/e2e"
	"vh/gen/mainsvc"
)

// Directed class "fault at reply publish" on the NATS server leg (1 worker):
// the reply of one request cannot be delivered, then further requests are
// served by the same worker.  Fault kinds:
//
//	process-error  the FProcessor returns an error after the generated
//	               processor has written its reply (nothing is published)
//	max-payload    the broker's max_payload is lowered below the reply
//	               (the server's Publish fails)
//
// Steps: (1) faulted request on context A, handler sets attempt=1 and
// only-first=x; expected to fail at the caller; (2) retry on the SAME context
// A, handler sets attempt=2; (3) a request on a fresh context B, handler sets
// who=B.  Steps 2 and 3 are ordinary requests on a healthy broker: each must
// return to its caller with exactly the response headers its own handler
// invocation set, in a reply frame that carries its own op id.

type faultProcessor struct {
	inner frugal.FProcessor
	fail  int32 // 1: return an error after the inner processor has run
}

func (p *faultProcessor) Process(in, out *frugal.FProtocol) error {
	err := p.inner.Process(in, out)
	if atomic.LoadInt32(&p.fail) != 0 {
		return fmt.Errorf("injected processor failure after the reply was written")
	}
	return err
}
func (p *faultProcessor) AddMiddleware(m frugal.ServiceMiddleware) { p.inner.AddMiddleware(m) }
func (p *faultProcessor) Annotations() map[string]map[string]string {
	return p.inner.Annotations()
}

// firstFrame cuts the first size-prefixed frame out of a message (a message
// may wrongly hold more than one) and parses it with the reference codec.
func firstFrame(msg []byte) (map[string]string, bool, error) {
	if len(msg) < 4 {
		return nil, false, fmt.Errorf("message of %d bytes", len(msg))
	}
	n := int(binary.BigEndian.Uint32(msg))
	if n+4 > len(msg) {
		return nil, false, fmt.Errorf("size field %d exceeds message of %d bytes", n, len(msg))
	}
	h, _, err := wire.ParseFrame(msg[:4+n])
	return h, n+4 == len(msg), err
}

func (m *monitor) runNatsReplyFault(proto, kind string) {
	name := "nats/" + proto
	label := "nats-reply-fault/" + kind + "/" + proto
	const maxPayload = 64 << 10
	var ns *rig.NatsServer
	var err error
	if kind == "max-payload" {
		ns, err = rig.StartNatsMaxPayload(maxPayload)
	} else {
		ns, err = rig.StartNats()
	}
	if err != nil {
		m.run.Inconclusive(label + ": broker did not start: " + err.Error())
		return
	}
	defer ns.Stop()
	h := &e2e.Handler{}
	fp := &faultProcessor{inner: mainsvc.NewFFooProcessor(h)}
	rl, err := rig.StartRPCLeg("nats", proto, fp, ns, rig.LegOptions{NatsWorkers: 1})
	if err != nil {
		m.run.Inconclusive(label + ": leg did not start: " + err.Error())
		return
	}
	defer rl.Stop()
	tr, err := rl.NewClient()
	if err != nil {
		m.run.Inconclusive(label + ": client: " + err.Error())
		return
	}
	client := mainsvc.NewFFooClient(frugal.NewFServiceProvider(tr, rl.PF))

	var stage int32
	var handlerRan [4]int32
	h.OnCall = func(c *e2e.Call) {
		s := atomic.LoadInt32(&stage)
		atomic.AddInt32(&handlerRan[s], 1)
		switch s {
		case 1:
			c.Ctx.AddResponseHeader("attempt", "1")
			c.Ctx.AddResponseHeader("only-first", "x")
		case 2:
			c.Ctx.AddResponseHeader("attempt", "2")
		case 3:
			c.Ctx.AddResponseHeader("who", "B")
		}
	}
	m.run.Eval(1)
	m.run.Add("nats_reply_fault_scenarios", 1)
	witness := func(extra map[string]interface{}) map[string]interface{} {
		w := map[string]interface{}{"leg": name, "fault": kind, "nats_server_workers": 1,
			"steps": []string{"1: request on context A whose reply cannot be delivered (handler sets attempt=1, only-first=x)", "2: retry on the same context A (handler sets attempt=2)", "3: request on a fresh context B (handler sets who=B)"}}
		if kind == "max-payload" {
			w["broker_max_payload"] = maxPayload
			w["step1_reply"] = "getBig(200000) -> reply larger than max_payload"
		}
		for k, v := range extra {
			w[k] = v
		}
		return w
	}

	// step 1: the faulted request
	ctxA := frugal.NewFContext("fault-A-" + kind + "-" + proto)
	ctxA.SetTimeout(700 * time.Millisecond)
	atomic.StoreInt32(&stage, 1)
	var err1 error
	if kind == "max-payload" {
		_, err1 = client.GetBig(ctxA, 200000, "big")
	} else {
		atomic.StoreInt32(&fp.fail, 1)
		_, err1 = client.Add(ctxA, 1, 1)
		atomic.StoreInt32(&fp.fail, 0)
	}
	if err1 == nil || atomic.LoadInt32(&handlerRan[1]) != 1 {
		m.run.Inconclusive(fmt.Sprintf("%s: the fault was not established (step 1 returned %v, handler ran %d time(s))", label, err1, handlerRan[1]))
		return
	}
	m.run.Add("nats_reply_faults_established", 1)

	// steps 2 and 3: ordinary requests served by the same worker
	ctxB := frugal.NewFContext("fault-B-" + kind + "-" + proto)
	for _, st := range []struct {
		n    int32
		ctx  frugal.FContext
		want map[string]string
	}{
		{2, ctxA, map[string]string{"attempt": "2"}},
		{3, ctxB, map[string]string{"who": "B"}},
	} {
		st.ctx.SetTimeout(3 * time.Second)
		opid, _ := st.ctx.RequestHeader("_opid")
		time.Sleep(20 * time.Millisecond)
		rl.Tap.Reset()
		atomic.StoreInt32(&stage, st.n)
		r, err := client.Add(st.ctx, 20, int64(st.n))
		got := st.ctx.ResponseHeaders()
		// the reply frame of this step, as published by the server
		var frames []map[string]interface{}
		var replyOp string
		sole := true
		deadline := time.Now().Add(2 * time.Second)
		if err == nil {
			deadline = time.Now().Add(500 * time.Millisecond) // the tap is a separate subscriber
		}
		for {
			_, reps := rl.Tap.Snapshot()
			if len(reps) > 0 || time.Now().After(deadline) {
				for _, f := range reps {
					hd, single, perr := firstFrame(f)
					frames = append(frames, map[string]interface{}{"message_bytes": len(f), "first_frame_headers": qmap(hd), "message_is_one_frame": single, "parse_error": fmt.Sprint(perr)})
					if perr == nil {
						replyOp = hd["_opid"]
						sole = sole && single
					}
				}
				break
			}
			time.Sleep(20 * time.Millisecond)
		}
		extra := map[string]interface{}{"step": st.n, "call_error": fmt.Sprint(err), "caller_response_headers": qmap(got), "handler_set": st.want,
			"handler_invocations_this_step": atomic.LoadInt32(&handlerRan[st.n]), "request_opid": opid, "reply_messages_on_the_wire": frames}
		m.run.Add("nats_reply_fault_steps", 1)
		m.run.Distinct(fmt.Sprintf("%s|step%d", label, st.n))
		switch {
		case err != nil && atomic.LoadInt32(&handlerRan[st.n]) == 1:
			what := "after a reply of the same NATS server worker could not be delivered, the next request's handler ran and set response headers but its caller got no reply"
			if replyOp != "" && replyOp != opid {
				what += " (the reply message published for it starts with another request's frame / op id)"
			}
			m.run.Violation("C09:reply-not-delivered-after-reply-fault:"+name, what, witness(extra))
			continue
		case err != nil:
			m.run.Inconclusive(fmt.Sprintf("%s step %d: call failed (%v) and the handler ran %d time(s)", label, st.n, err, handlerRan[st.n]))
			return
		}
		if r != 20+int64(st.n) {
			m.run.Add("nats_reply_fault_wrong_results", 1)
		}
		for k, v := range st.want {
			if g, ok := got[k]; !ok || g != v {
				sig := "response-of-earlier-request-delivered"
				what := "after a reply of the same NATS server worker could not be delivered, the caller of the next request reads the response headers of the EARLIER request, not those its own handler invocation set"
				if !strings.Contains(fmt.Sprint(got), "attempt") && st.n == 2 {
					sig, what = "caller-response-headers-differ", "a header the handler set is not visible on the caller's FContext"
				}
				m.run.Violation("C09:"+sig+":"+name, what, witness(extra))
				break
			}
		}
		if st.n == 3 {
			if _, stale := got["attempt"]; stale {
				m.run.Violation("C09:response-of-earlier-request-delivered:"+name, "a fresh context received response headers set for another request", witness(extra))
			}
		}
		if replyOp != "" && (replyOp != opid || !sole) {
			m.run.Violation("C09:reply-opid-differs:"+name, "the reply message published for this request does not consist of exactly one frame carrying the request's op id", witness(extra))
		} else if replyOp != "" {
			m.run.Add("nats_reply_fault_frames_checked", 1)
		}
	}
}
