package main

import (
	"errors"
	"fmt"
	"os"
	"strings"
	"time"

	frugal "github.com/Workiva/frugal/lib/go"

	"verif/rig"
	"vh/e2e"
)

// Directed class "reply too large": the handler sets response headers and
// returns a result that does not fit the reply limit (NATS server: 1 MiB
// output buffer; HTTP: the limit the client asked for).  The server answers
// with a RESPONSE_TOO_LARGE error reply: that reply is still the response of
// this call, so the caller's FContext must carry every header the handler set
// and the _cid echo.
func (m *monitor) runTooLarge(ns *rig.NatsServer, spec legSpec, idx int) {
	name := spec.String()
	opt := rig.LegOptions{}
	big := int32(1<<20 + 4096)
	if spec.Kind == "http" {
		opt.HTTPResponseLimit = 64 << 10
		big = 100000
	}
	leg, err := e2e.StartLeg(spec.Kind, spec.Proto, ns, opt)
	if err != nil {
		m.run.Inconclusive("too-large leg " + name + " did not start: " + err.Error())
		return
	}
	defer leg.Stop()
	client, _, err := leg.Client()
	if err != nil {
		m.run.Inconclusive("too-large client " + name + ": " + err.Error())
		return
	}
	rng := m.run.Rand("c09-toolarge-" + name)
	for q := 0; q < 3; q++ {
		set := genHeaders(rng, 6, nil, 2048)
		if len(set.Pairs) == 0 {
			set.Pairs = append(set.Pairs, struct{ Name, Value string }{"x-only", "v"})
		}
		if os.Getenv("C09_PROBE_BIGHDR") != "" && q == 0 {
			set.Pairs = append(set.Pairs, struct{ Name, Value string }{"huge", strings.Repeat("h", int(big))})
		}
		leg.Handler.OnCall = func(c *e2e.Call) {
			for _, p := range set.Pairs {
				c.Ctx.AddResponseHeader(p.Name, p.Value)
			}
		}
		cid, _ := genCID(rng, fmt.Sprintf("tl%d-%d", idx, q))
		ctx := frugal.NewFContext(cid)
		ctx.SetTimeout(10 * time.Second)
		size := big
		if os.Getenv("C09_PROBE_BIGHDR") != "" && q == 0 {
			size = 10
		}
		m.run.Eval(1)
		m.run.Add("too_large_reply_calls", 1)
		_, callErr := client.GetBig(ctx, size, "big")
		got := ctx.ResponseHeaders()
		if os.Getenv("C09_PROBE_BIGHDR") != "" && q == 0 {
			fmt.Printf("PROBE %s: response headers alone over the limit: call error %T %v; caller response header names %d\n", name, callErr, callErr, len(got))
			continue
		}
		var te interface{ TypeId() int }
		if callErr == nil || !errors.As(callErr, &te) || te.TypeId() != frugal.TRANSPORT_EXCEPTION_RESPONSE_TOO_LARGE {
			m.run.Inconclusive(fmt.Sprintf("too-large %s case %d: expected a RESPONSE_TOO_LARGE error, got %T %v", name, q, callErr, callErr))
			return
		}
		want := set.asMap()
		want["_cid"] = ctx.CorrelationID()
		m.run.Distinct(fmt.Sprintf("too-large|%s|%s", name, bucket(len(set.Pairs))))
		if !mapsEqual(want, got) && spec.Kind == "http" {
			// The HTTP server signals an over-limit reply with status 413 and no
			// frugal frame at all (http_transport.go:101-107), so no response
			// header can travel.  Recorded, reported to the lead as a candidate,
			// not asserted here: there is no reply frame whose content C09 could judge.
			m.run.Add("too_large_http_status_413_without_frame", 1)
			m.run.Set("too_large_http_note", "HTTP: RESPONSE_TOO_LARGE is signalled by status 413 without a frame; the handler's response headers and the _cid echo are not on the caller's FContext (observed, not asserted)")
		} else if !mapsEqual(want, got) {
			m.run.Violation("C09:caller-response-headers-differ-on-too-large-reply:"+name,
				"the call returned RESPONSE_TOO_LARGE (the handler ran and set response headers) but the caller's FContext does not carry the handler's response headers and the _cid echo",
				map[string]interface{}{"leg": name, "case_index": q, "handler_set": qpairs(set.Pairs), "caller_response_headers_after": qmap(got), "diff": diffMaps(want, got), "call_error": callErr.Error(), "result_bytes": big})
		} else {
			m.run.Add("too_large_reply_observations", 1)
		}
	}
}
