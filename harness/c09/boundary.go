package main

import (
	"sync"
	"sync/atomic"
	"time"

	"verif/rig"
	"vh/e2e"
)

// blockWindows are the request header block sizes of the directed sweep: the
// stream servers read through 4096-byte buffers (the framed transport's and,
// for JSON, the protocol's own), so the block sizes that put a buffer boundary
// at or inside the Thrift message body are visited one by one.
func blockWindows() []int {
	var out []int
	for h := 4030; h <= 4100; h++ { // body straddles the first 4096-byte fill
		out = append(out, h)
	}
	for h := 8120; h <= 8200; h++ { // body straddles the second fill
		out = append(out, h)
	}
	return out
}

// runBoundary makes one add(1, id) call per block size on a fresh connection
// of a stream leg and judges it like any other case.  It runs in every tier
// and at every seed (the sizes do not depend on the seed).
func (m *monitor) runBoundary(ns *rig.NatsServer, spec legSpec, legIdx int) {
	lr := &legRun{m: m, spec: spec, name: spec.String(), issued: map[string]bool{}}
	leg, err := e2e.StartLeg(spec.Kind, spec.Proto, ns, rig.LegOptions{})
	if err != nil {
		m.run.Inconclusive("leg " + lr.name + " did not start: " + err.Error())
		return
	}
	defer leg.Stop()
	lr.leg = leg
	leg.Handler.OnCall = lr.onCall
	leg.Handler.Behave = lr.behave
	// one connection per call: a rejected request leaves a stream connection
	// out of step, and each size is to be judged on its own
	sizes := blockWindows()
	next := int64(-1)
	var wg sync.WaitGroup
	for w := 0; w < 8; w++ {
		wg.Add(1)
		go func() {
			defer wg.Done()
			for {
				i := int(atomic.AddInt64(&next, 1))
				if i >= len(sizes) || atomic.LoadInt32(&lr.abort) != 0 {
					return
				}
				h := sizes[i]
				cs := &callCase{Leg: lr.name, Index: 1000000 + h, ID: int64(legIdx)*100000 + 50000 + int64(i), handlerDone: make(chan struct{}),
					Method: "add", Outcome: "ok", CIDCls: "ascii", TOms: 5000, TOCls: "seconds", BlockTarget: h,
					Req: headerSet{Classes: map[string]bool{"v:boundary": true}}, Rsp: headerSet{Classes: map[string]bool{}}}
				cs.Token = "k" + itoa(cs.ID)
				cs.CID = "c-" + cs.Token
				if i%4 == 0 {
					// every 4th directed call asks for "no deadline" (timeout 0 / negative)
					d := []time.Duration{0, -time.Millisecond, -500 * time.Microsecond}[(i/4)%3]
					cs.TOSpecial, cs.TOms, cs.TOCls = &d, 0, "zero"
				}
				m.run.Add("boundary_calls", 1)
				if cc := lr.newConn(); cc != nil {
					lr.oneCallOn(cc, cs)
				}
			}
		}()
	}
	wg.Wait()
	lr.checkTap()
}

func itoa(n int64) string {
	if n == 0 {
		return "0"
	}
	var b []byte
	for n > 0 {
		b = append([]byte{byte('0' + n%10)}, b...)
		n /= 10
	}
	return string(b)
}
