package main

import (
	"errors"
	"fmt"
	"strings"
	"sync"
	"sync/atomic"
	"time"

	frugal "github.com/Workiva/frugal/lib/go"

	"verif/ev"
	"verif/rig"
	"verif/wire"
	"vh/e2e"
	"vh/gen/base"
	"vh/gen/mainsvc"
)

// monitor holds what is shared by all legs of one run.
type monitor struct {
	run *ev.Run

	opMu  sync.Mutex
	opids map[string]string // every op id seen on any context in the run -> owner

	undelivered []string
}

// noteUndelivered keeps the first few descriptions of calls that were rejected
// before reaching the handler.
func (m *monitor) noteUndelivered(s string) {
	m.opMu.Lock()
	defer m.opMu.Unlock()
	if len(m.undelivered) < 8 {
		m.undelivered = append(m.undelivered, s)
	}
}

// blockSize is the encoded size of a header map (8 + name + value per pair).
func blockSize(h map[string]string) int {
	n := 0
	for k, v := range h {
		n += 8 + len(k) + len(v)
	}
	return n
}

// claimOpID records that owner's context carries op id; it returns the other
// owner if the id was already seen on a different context.
func (m *monitor) claimOpID(id, owner string) (string, bool) {
	m.opMu.Lock()
	defer m.opMu.Unlock()
	if o, ok := m.opids[id]; ok {
		return o, false
	}
	m.opids[id] = owner
	return "", true
}

type legSpec struct{ Kind, Proto string }

func (l legSpec) String() string { return l.Kind + "/" + l.Proto }

// allLegs lists the 12 legs so that any 3 consecutive entries (cyclically)
// have 3 different transports.
func allLegs() []legSpec {
	var out []legSpec
	for i := 0; i < 12; i++ {
		out = append(out, legSpec{rig.RPCKinds[i%4], rig.Protocols[(i/4+i%4)%3]})
	}
	return out
}

var methods = []string{"add", "add", "add", "echo", "echo", "echo", "echoThing", "echoThing", "getBig", "blob", "nextColor", "things", "nothing", "nothing", "basePing", "basePing", "fire", "fire"}

// callCase is one generated call and everything observed about it.
type callCase struct {
	Leg     string
	Index   int
	ID      int64
	Token   string
	Method  string
	Outcome string // ok | declared | undeclared
	CID     string // "" = let NewFContext generate one
	CIDCls  string
	TOms    int64
	// TOSpecial != nil: SetTimeout(*TOSpecial) instead (non-positive values)
	TOSpecial *time.Duration
	TOCls     string
	Req       headerSet
	Rsp       headerSet
	// FanOut > 1: the handler adds its response headers from that many
	// goroutines concurrently
	FanOut int
	// BlockTarget > 0: pad the request header block to exactly this many bytes
	BlockTarget int
	// reuse sequences: the FContext shared by the steps, the 1-based step and
	// what earlier steps' handlers had set
	ctx     frugal.FContext
	Step    int
	Earlier []map[string]string
	SeqID   string

	mu              sync.Mutex
	callerReqBefore map[string]string
	callerOpID      string
	callerCID       string
	callerTimeout   time.Duration
	handlerCount    int
	handlerReq      map[string]string
	handlerRspEntry map[string]string
	handlerRspFinal map[string]string
	handlerTimeout  int64
	handlerDone     chan struct{}
	callerRspAfter  map[string]string
	callErr         error
	completed       bool
}

// placedTimeout is the timeout the caller placed on a fresh FContext.
func (cs *callCase) placedTimeout() (time.Duration, bool) {
	switch {
	case cs.Step > 0:
		return 0, false // reuse steps change the context outside the case
	case cs.TOSpecial != nil:
		return (*cs.TOSpecial / time.Millisecond) * time.Millisecond, true
	case cs.TOms > 0:
		return time.Duration(cs.TOms) * time.Millisecond, true
	}
	return 5 * time.Second, true
}

func (cs *callCase) oneway() bool { return cs.Method == "fire" }

func (cs *callCase) witness(extra map[string]interface{}) map[string]interface{} {
	w := map[string]interface{}{
		"leg": cs.Leg, "case_index": cs.Index, "method": cs.Method, "outcome": cs.Outcome,
		"correlation_id_given": qs(cs.CID), "timeout_ms_set": cs.TOms, "timeout_special_set": cs.TOSpecial,
		"request_headers_set":      qpairs(cs.Req.Pairs),
		"response_headers_handler": qpairs(cs.Rsp.Pairs), "handler_fan_out_goroutines": cs.FanOut,
		"caller_request_headers":     qmap(cs.callerReqBefore),
		"handler_request_headers":    qmap(cs.handlerReq),
		"handler_response_at_entry":  qmap(cs.handlerRspEntry),
		"handler_response_at_return": qmap(cs.handlerRspFinal),
		"caller_response_after":      qmap(cs.callerRspAfter),
		"caller_timeout_ns":          int64(cs.callerTimeout),
		"handler_timeout_ns":         cs.handlerTimeout,
		"replay":                     "case list is a pure function of (VERIF_SEED, tier, leg, case_index)",
	}
	if cs.callErr != nil {
		w["call_error"] = cs.callErr.Error()
	}
	for k, v := range extra {
		w[k] = v
	}
	return w
}

func genCase(run *ev.Run, leg string, legIdx, i int, maxLong int) *callCase {
	rng := run.Rand(fmt.Sprintf("c09-rpc-%s-%d", leg, i))
	cs := &callCase{Leg: leg, Index: i, ID: int64(legIdx)*100000 + int64(i) + 1, handlerDone: make(chan struct{})}
	cs.Token = fmt.Sprintf("k%d", cs.ID)
	cs.Method = methods[rng.Intn(len(methods))]
	cs.Outcome = "ok"
	if !cs.oneway() {
		switch k := rng.Intn(10); {
		case k < 2 && (cs.Method == "echo" || cs.Method == "nothing" || cs.Method == "echoThing"):
			cs.Outcome = "declared"
		case k == 2:
			cs.Outcome = "undeclared"
		}
	}
	cs.CID, cs.CIDCls = genCID(rng, cs.Token)
	cs.TOms, cs.TOCls = genTimeoutMS(rng)
	if (strings.HasPrefix(leg, "pipe/") || strings.HasPrefix(leg, "tcp/")) && rng.Intn(8) == 0 {
		d, cls := genNoDeadline(rng)
		cs.TOSpecial, cs.TOCls, cs.TOms = &d, cls, 0
	}
	cs.Req = genHeaders(rng, 12, nil, maxLong)
	var names []string
	for _, p := range cs.Req.Pairs {
		names = append(names, p.Name)
	}
	cs.Rsp = genHeaders(rng, 20, names, maxLong)
	if rng.Intn(5) == 0 {
		// fan-out handler: 8 goroutines x 4 headers, distinct names
		cs.FanOut = 8
		cs.Rsp = headerSet{Classes: map[string]bool{"n:fanout": true}}
		seen := map[string]bool{}
		for len(cs.Rsp.Pairs) < 32 {
			n, _ := genName(rng, false)
			if seen[n] {
				n += fmt.Sprint(len(cs.Rsp.Pairs))
			}
			if seen[n] || avoidName(n) {
				continue
			}
			seen[n] = true
			v, _ := genValue(rng, false, 0)
			cs.Rsp.Pairs = append(cs.Rsp.Pairs, wire.Pair{Name: n, Value: v})
		}
	}
	return cs
}

func (cs *callCase) shape() string {
	if cs.BlockTarget > 0 {
		return fmt.Sprintf("%s|%s|block=%d", cs.Leg, cs.Method, cs.BlockTarget)
	}
	shadow := ""
	if cs.Rsp.Classes["n:shadow"] {
		shadow = "S"
	}
	if cs.FanOut > 1 {
		shadow = "F"
	}
	gen := "given"
	if cs.CID == "" {
		gen = "generated"
	}
	return fmt.Sprintf("%s|%s|cid:%s|to:%s|req:%s:%s|rsp:%s%s", cs.Leg, cs.Method, gen, cs.TOCls,
		bucket(len(cs.Req.Pairs)), cs.Req.flags(), bucket(len(cs.Rsp.Pairs)), shadow)
}

// keyOfCall identifies the generated case from what the handler received,
// using the arguments where the method has any and the correlation id otherwise.
func keyOfCall(c *e2e.Call) string {
	defer func() { recover() }()
	switch c.Method {
	case "add":
		return fmt.Sprintf("k%d", c.Args[1].(int64))
	case "echo", "getBig":
		return c.Args[1].(string)
	case "fire":
		return c.Args[0].(string)
	case "things":
		for k := range c.Args[0].(map[string]*base.Thing) {
			return k
		}
	case "nextColor":
		return fmt.Sprintf("k%d", int64(c.Args[0].(base.Color)))
	case "blob":
		return string(c.Args[0].([]byte))
	case "echoThing":
		return c.Args[0].(*base.Thing).AString
	case "nothing", "basePing":
		return "cid:" + c.ReqHdrs["_cid"]
	}
	return ""
}

type legRun struct {
	m      *monitor
	spec   legSpec
	name   string
	leg    *e2e.Leg
	cases  sync.Map // key -> *callCase
	abort  int32
	connMu sync.Mutex
	conn   *clientConn

	nNotDelivered, nVerified, nUnexpected int64
	summary                               []caseSummary
	issued                                map[string]bool // op ids of every call issued in the current batch
	sumMu                                 sync.Mutex
}

// caseSummary is what is kept of a case for the wire-tap pass at the end.
type caseSummary struct {
	cs          *callCase
	opid, cid   string
	reqDigest   map[string]string
	rspFinal    map[string]string // handler's final response headers
	gotReply    bool
	oneway      bool
	callerAfter map[string]string
}

func (lr *legRun) violation(kind string, what string, cs *callCase, extra map[string]interface{}) {
	lr.m.run.Violation("C09:"+kind+":"+lr.name, what, cs.witness(extra))
}

func (lr *legRun) onCall(c *e2e.Call) {
	key := keyOfCall(c)
	v, ok := lr.cases.Load(key)
	if !ok {
		lr.m.run.Violation("C09:handler-unknown-call:"+lr.name,
			"the handler received a call that matches no call made (neither by its arguments nor by its correlation id)",
			map[string]interface{}{"leg": lr.name, "method": c.Method, "key": qs(key), "handler_request_headers": qmap(c.ReqHdrs), "handler_response_headers": qmap(c.RspHdrs)})
		return
	}
	cs := v.(*callCase)
	cs.mu.Lock()
	cs.handlerCount++
	first := cs.handlerCount == 1
	if first {
		cs.handlerReq = c.ReqHdrs
		cs.handlerRspEntry = c.RspHdrs
		cs.handlerTimeout = c.Timeout
	}
	cs.mu.Unlock()
	if cs.FanOut > 1 {
		// the handler fans out: several goroutines add their response headers
		// to the inbound context at once (FContext is documented thread-safe),
		// joined before the handler returns
		var wg sync.WaitGroup
		start := make(chan struct{})
		for g := 0; g < cs.FanOut; g++ {
			wg.Add(1)
			go func(g int) {
				defer wg.Done()
				<-start
				for i := g; i < len(cs.Rsp.Pairs); i += cs.FanOut {
					c.Ctx.AddResponseHeader(cs.Rsp.Pairs[i].Name, cs.Rsp.Pairs[i].Value)
				}
			}(g)
		}
		close(start)
		wg.Wait()
	} else {
		for _, p := range cs.Rsp.Pairs {
			c.Ctx.AddResponseHeader(p.Name, p.Value)
		}
	}
	if first {
		fin := c.Ctx.ResponseHeaders()
		cs.mu.Lock()
		cs.handlerRspFinal = fin
		cs.mu.Unlock()
		close(cs.handlerDone)
	}
}

func (lr *legRun) behave(c *e2e.Call) *e2e.Outcome {
	v, ok := lr.cases.Load(keyOfCall(c))
	if !ok {
		return nil
	}
	cs := v.(*callCase)
	switch cs.Outcome {
	case "declared":
		switch cs.Method {
		case "echoThing":
			return &e2e.Outcome{Err: &base.ApiError{Message: "declared " + cs.Token, Code: 7}}
		default:
			return &e2e.Outcome{Err: &mainsvc.Oops{Why: "declared " + cs.Token}}
		}
	case "undeclared":
		return &e2e.Outcome{Err: errors.New("undeclared failure " + cs.Token)}
	}
	return nil
}

func invoke(c *mainsvc.FFooClient, cs *callCase, ctx frugal.FContext) error {
	var err error
	switch cs.Method {
	case "add":
		_, err = c.Add(ctx, 1, cs.ID)
	case "echo":
		_, err = c.Echo(ctx, &mainsvc.Payload{Last: &mainsvc.BigLast{N: 1, Nums: []int64{1, 2}, Big: "zz"}}, cs.Token)
	case "getBig":
		_, err = c.GetBig(ctx, int32(cs.ID%97), cs.Token)
	case "fire":
		err = c.Fire(ctx, cs.Token)
	case "things":
		_, err = c.Things(ctx, map[string]*base.Thing{cs.Token: {AnID: 1, AString: "s"}}, map[int32]bool{1: true})
	case "nextColor":
		_, err = c.NextColor(ctx, base.Color(cs.ID))
	case "blob":
		_, err = c.Blob(ctx, []byte(cs.Token))
	case "echoThing":
		_, err = c.EchoThing(ctx, &base.Thing{AnID: 3, AString: cs.Token})
	case "nothing":
		err = c.Nothing(ctx)
	case "basePing":
		err = c.BasePing(ctx)
	default:
		err = fmt.Errorf("no such method %s", cs.Method)
	}
	return err
}

const callWatchdog = 20 * time.Second

// isTimeout reports whether err is the transport's request-timed-out error.
func isTimeout(err error) bool {
	var te interface{ TypeId() int }
	if errors.As(err, &te) && te.TypeId() == frugal.TRANSPORT_EXCEPTION_TIMED_OUT {
		return true
	}
	return false
}

// runLeg executes n generated calls with the given number of caller goroutines
// sharing one generated client (one connection), then checks the wire tap.
func (m *monitor) runLeg(ns *rig.NatsServer, spec legSpec, legIdx, n, workers int) {
	lr := &legRun{m: m, spec: spec, name: spec.String(), issued: map[string]bool{}}
	leg, err := e2e.StartLeg(spec.Kind, spec.Proto, ns, rig.LegOptions{NatsWorkers: 4})
	if err != nil {
		m.run.Inconclusive("leg " + lr.name + " did not start: " + err.Error())
		return
	}
	defer leg.Stop()
	lr.leg = leg
	leg.Handler.OnCall = lr.onCall
	leg.Handler.Behave = lr.behave
	if lr.current() == nil {
		return
	}
	m.run.Add("legs_run", 1)
	maxLong := 64 << 10
	// calls are made in batches; between batches nothing is in flight, so the
	// wire tap can be judged and forgotten (bounds memory with 64 KiB values)
	const batch = 200
	for lo := 0; lo < n && atomic.LoadInt32(&lr.abort) == 0; lo += batch {
		hi := lo + batch
		if hi > n {
			hi = n
		}
		next := int64(lo) - 1
		var wg sync.WaitGroup
		for w := 0; w < workers; w++ {
			wg.Add(1)
			go func() {
				defer wg.Done()
				for {
					i := int(atomic.AddInt64(&next, 1))
					if i >= hi || atomic.LoadInt32(&lr.abort) != 0 {
						return
					}
					lr.oneCall(genCase(m.run, lr.name, legIdx, i, maxLong))
				}
			}()
		}
		wg.Wait()
		lr.checkTap()
		if atomic.LoadInt32(&lr.abort) == 0 {
			leg.Tap.Reset()
			leg.Handler.Reset()
			lr.cases.Range(func(k, _ interface{}) bool { lr.cases.Delete(k); return true })
			lr.sumMu.Lock()
			lr.summary = nil
			lr.issued = map[string]bool{}
			lr.sumMu.Unlock()
		}
	}
}

// clientConn is one generated client on one connection of the leg.
type clientConn struct {
	c    *mainsvc.FFooClient
	bad  chan struct{}
	once sync.Once
}

func (cc *clientConn) markBad() { cc.once.Do(func() { close(cc.bad) }) }
func (cc *clientConn) isBad() bool {
	select {
	case <-cc.bad:
		return true
	default:
		return false
	}
}

// current returns the connection shared by the callers, replacing it when a
// request was rejected below the handler (a stream connection is then out of
// step and answers nothing any more).
func (lr *legRun) current() *clientConn {
	lr.connMu.Lock()
	defer lr.connMu.Unlock()
	if lr.conn != nil && !lr.conn.isBad() {
		return lr.conn
	}
	c, _, err := lr.leg.Client()
	if err != nil {
		lr.m.run.Inconclusive("leg " + lr.name + " client: " + err.Error())
		atomic.StoreInt32(&lr.abort, 1)
		return nil
	}
	lr.m.run.Add("client_connections", 1)
	lr.conn = &clientConn{c: c, bad: make(chan struct{})}
	return lr.conn
}

func (lr *legRun) oneCall(cs *callCase) {
	if cc := lr.current(); cc != nil {
		lr.oneCallOn(cc, cs)
	}
}

// newConn opens a connection of its own (directed cases).
func (lr *legRun) newConn() *clientConn {
	c, _, err := lr.leg.Client()
	if err != nil {
		lr.m.run.Inconclusive("leg " + lr.name + " client: " + err.Error())
		atomic.StoreInt32(&lr.abort, 1)
		return nil
	}
	lr.m.run.Add("client_connections", 1)
	return &clientConn{c: c, bad: make(chan struct{})}
}

func (lr *legRun) oneCallOn(cc *clientConn, cs *callCase) {
	m := lr.m
	reused := cs.ctx != nil // a step of a reuse sequence: the FContext was used before
	ctx := cs.ctx
	if !reused {
		ctx = frugal.NewFContext(cs.CID)
		if cs.TOms > 0 {
			ctx.SetTimeout(time.Duration(cs.TOms) * time.Millisecond)
		}
		if cs.TOSpecial != nil {
			ctx.SetTimeout(*cs.TOSpecial)
		}
		for _, p := range cs.Req.Pairs {
			ctx.AddRequestHeader(p.Name, p.Value)
		}
	}
	if cs.BlockTarget > 0 {
		// directed case: pad the header block to exactly BlockTarget bytes
		if pad := cs.BlockTarget - blockSize(ctx.RequestHeaders()) - (8 + len("pad")); pad >= 0 {
			v := strings.Repeat("x", pad)
			ctx.AddRequestHeader("pad", v)
			cs.Req.Pairs = append(cs.Req.Pairs, wire.Pair{Name: "pad", Value: v})
		}
	}
	cs.callerReqBefore = ctx.RequestHeaders()
	cs.callerOpID = cs.callerReqBefore["_opid"]
	cs.callerCID = ctx.CorrelationID()
	cs.callerTimeout = ctx.Timeout()
	// sanity of the inputs themselves (caller side of the oracle)
	if !reused && cs.CID != "" && cs.callerCID != cs.CID {
		lr.violation("caller-cid-not-kept", "NewFContext(cid).CorrelationID() differs from the given correlation id", cs, nil)
	}
	if !reused && cs.CID == "" && cs.callerCID == "" {
		lr.violation("caller-cid-not-generated", "NewFContext(\"\") did not generate a correlation id", cs, nil)
	}
	if !reused && cs.TOSpecial != nil && cs.callerTimeout != (*cs.TOSpecial/time.Millisecond)*time.Millisecond {
		lr.violation("caller-timeout-not-kept", "ctx.Timeout() is not the (whole-millisecond) value given to SetTimeout", cs, nil)
	}
	if !reused && cs.TOms > 0 && cs.callerTimeout != time.Duration(cs.TOms)*time.Millisecond {
		lr.violation("caller-timeout-not-kept", "ctx.Timeout() differs from the value given to SetTimeout", cs, nil)
	}
	if other, fresh := m.claimOpID(cs.callerOpID, "caller "+lr.name+" "+cs.Token); !fresh && !(reused && cs.Step > 1) {
		lr.violation("caller-opid-collides", "a new FContext carries an op id already seen on another context ("+other+")", cs, nil)
	}
	lr.sumMu.Lock()
	lr.issued[cs.callerOpID] = true
	lr.sumMu.Unlock()
	lr.cases.Store(cs.Token, cs)
	if cs.Method == "nothing" || cs.Method == "basePing" {
		lr.cases.Store("cid:"+cs.callerCID, cs)
	}
	m.run.Eval(1)
	m.run.Add("rpc_calls", 1)

	done := make(chan error, 1)
	go func() { done <- invoke(cc.c, cs, ctx) }()
	wd := time.NewTimer(callWatchdog)
	defer wd.Stop()
	select {
	case err := <-done:
		cs.callErr = err
	case <-cc.bad:
		// an earlier request on this connection was rejected below the handler;
		// the connection answers nothing any more
		select {
		case err := <-done:
			cs.callErr = err
		case <-time.After(300 * time.Millisecond):
			m.run.Add("calls_abandoned_on_broken_connection", 1)
			return
		}
	case <-wd.C:
		cs.callErr = errors.New("monitor watchdog: the call did not return within " + callWatchdog.String())
		lr.settleLostReply(cs, cc)
		return
	}
	cs.callerRspAfter = ctx.ResponseHeaders()
	if isTimeout(cs.callErr) {
		if cc.isBad() {
			m.run.Add("calls_abandoned_on_broken_connection", 1)
			return
		}
		lr.settleLostReply(cs, cc)
		return
	}
	cs.mu.Lock()
	reached := cs.handlerCount > 0
	cs.mu.Unlock()
	if cs.callErr != nil && !reached {
		// the request was rejected before the handler ran; a stream connection
		// is out of step afterwards
		if cc.isBad() {
			m.run.Add("calls_abandoned_on_broken_connection", 1)
			return
		}
		cc.markBad()
		lr.notDelivered(cs, "error reply produced before the handler")
		return
	}
	// did the call end the way the handler decided?
	switch {
	case cs.Outcome == "ok" && cs.callErr != nil,
		cs.Outcome != "ok" && cs.callErr == nil:
		m.run.Inconclusive(fmt.Sprintf("%s case %d (%s, outcome %s): unexpected call result %v", lr.name, cs.Index, cs.Method, cs.Outcome, cs.callErr))
		if atomic.AddInt64(&lr.nUnexpected, 1) >= 4 {
			atomic.StoreInt32(&lr.abort, 1) // something is broken below the property: stop this leg
		}
		return
	}
	cs.completed = true
	if cs.oneway() {
		reached := false
		select {
		case <-cs.handlerDone:
			reached = true
		case <-cc.bad:
			select {
			case <-cs.handlerDone:
				reached = true
			case <-time.After(300 * time.Millisecond):
			}
		case <-wd.C:
		}
		if !reached {
			if cc.isBad() {
				m.run.Add("calls_abandoned_on_broken_connection", 1)
				return
			}
			cc.markBad()
			cs.callErr = errors.New("oneway request sent, handler not invoked within " + callWatchdog.String())
			lr.notDelivered(cs, "oneway request never reached the handler")
			return
		}
	}
	lr.verify(cs)
}

// settleLostReply decides what a call that did not get its reply means:
//   - the wire tap saw a reply for this call's correlation id under another op
//     id: the reply did not carry the request's op id (violation; the leg stops)
//   - the handler was never reached and no reply frame exists: the request was
//     dropped below the handler (violation request-not-delivered; the
//     connection is replaced and the leg goes on)
//   - otherwise nothing can be said (inconclusive; the leg stops).
func (lr *legRun) settleLostReply(cs *callCase, cc *clientConn) {
	deadline := time.Now().Add(200 * time.Millisecond)
	if lr.spec.Kind == "nats" {
		deadline = time.Now().Add(3 * time.Second) // the tap is a separate subscriber
	}
	for {
		_, reps := lr.leg.Tap.Snapshot()
		for _, f := range reps {
			if len(f) <= 4 {
				continue
			}
			h, _, err := wire.ParseFrame(f)
			if err != nil {
				continue
			}
			if h["_cid"] == cs.callerCID && h["_opid"] != cs.callerOpID {
				atomic.StoreInt32(&lr.abort, 1)
				cc.markBad()
				lr.violation("reply-opid-differs", "the reply frame for this call does not carry the request's op id, so the caller never got it", cs,
					map[string]interface{}{"reply_frame_headers": qmap(h), "request_opid": cs.callerOpID})
				return
			}
		}
		if time.Now().After(deadline) {
			break
		}
		time.Sleep(50 * time.Millisecond)
	}
	cs.mu.Lock()
	reached := cs.handlerCount > 0
	cs.mu.Unlock()
	if !reached {
		if cc.isBad() {
			// queued behind a request that was already judged on this connection
			lr.m.run.Add("calls_abandoned_on_broken_connection", 1)
			return
		}
		cc.markBad()
		lr.notDelivered(cs, "no reply frame and no handler invocation")
		return
	}
	atomic.StoreInt32(&lr.abort, 1)
	cc.markBad()
	lr.m.run.Inconclusive(fmt.Sprintf("%s case %d (%s): the handler ran but the call got no reply (%v) and the wire tap shows no misaddressed reply", lr.name, cs.Index, cs.Method, cs.callErr))
}

// notDelivered reports a call whose request never reached the handler: the
// context the caller built was not handed over at all.
func (lr *legRun) notDelivered(cs *callCase, how string) {
	lr.m.run.Add("calls_not_delivered", 1)
	// circuit breaker: the verdict is settled by the first such call; when
	// nothing gets through at all, or it keeps happening, stop issuing calls on
	// this leg (each one costs a timeout)
	if nd := atomic.AddInt64(&lr.nNotDelivered, 1); (nd >= 2 && atomic.LoadInt64(&lr.nVerified) == 0) || nd >= 12 {
		if atomic.CompareAndSwapInt32(&lr.abort, 0, 1) {
			lr.m.run.Add("legs_stopped_after_repeated_non_delivery", 1)
		}
	}
	size := blockSize(cs.callerReqBefore)
	lr.m.noteUndelivered(fmt.Sprintf("%s case %d (%s, request header block %d bytes): %s: %v", lr.name, cs.Index, cs.Method, size, how, cs.callErr))
	lr.violation("request-not-delivered", "a call with a legal FContext was rejected or dropped below the handler ("+how+"): the handler never observed the caller's headers", cs,
		map[string]interface{}{"request_header_block_bytes": size, "request_frame_bytes_mod_4096": (size + 9) % 4096, "how": how})
}

func (lr *legRun) verify(cs *callCase) {
	m := lr.m
	cs.mu.Lock()
	hCount := cs.handlerCount
	hReq, hEntry, hFinal, hTO := cs.handlerReq, cs.handlerRspEntry, cs.handlerRspFinal, cs.handlerTimeout
	cs.mu.Unlock()
	if hCount == 0 {
		m.run.Inconclusive(fmt.Sprintf("%s case %d (%s): the call returned but the handler was not reached", lr.name, cs.Index, cs.Method))
		return
	}
	atomic.AddInt64(&lr.nVerified, 1)
	m.run.Add("handler_observations", 1)
	m.run.Distinct(cs.shape())
	m.run.Sample(map[string]interface{}{"leg": cs.Leg, "method": cs.Method, "outcome": cs.Outcome, "caller_request_headers": qmap(cs.callerReqBefore),
		"handler_request_headers": qmap(hReq), "handler_response_at_return": qmap(hFinal), "caller_response_after": qmap(cs.callerRspAfter)})

	// 1. handler-side request headers = caller's, modulo _opid
	want := without(cs.callerReqBefore, "_opid")
	got := without(hReq, "_opid")
	if !mapsEqual(want, got) {
		kind := "handler-request-headers-differ"
		if got["_cid"] != want["_cid"] {
			kind = "handler-cid-differs"
		} else if got["_timeout"] != want["_timeout"] {
			kind = "handler-timeout-header-differs"
		}
		lr.violation(kind, "the request headers the handler observes differ from those the caller placed on the FContext", cs, map[string]interface{}{"diff": diffMaps(want, got)})
	}
	// 2. timeout
	if time.Duration(hTO) != cs.callerTimeout {
		lr.violation("handler-timeout-differs", "handler-side ctx.Timeout() differs from the caller's", cs, nil)
	} else if placed, ok := cs.placedTimeout(); ok && time.Duration(hTO) != placed {
		lr.violation("handler-timeout-differs", "handler-side ctx.Timeout() is not the timeout the caller placed on the FContext with SetTimeout (whole milliseconds; 0 or negative = no deadline; 5 s when none was set)", cs,
			map[string]interface{}{"placed_timeout_ns": int64(placed)})
	}
	// 3. fresh op id on the handler's context
	hop, ok := hReq["_opid"]
	switch {
	case !ok:
		lr.violation("handler-opid-missing", "the context given to the handler has no op id", cs, nil)
	case hop == cs.callerOpID:
		lr.violation("handler-opid-equals-callers", "the context given to the handler carries the caller's op id, not a fresh one", cs, nil)
	default:
		if other, fresh := m.claimOpID(hop, "handler "+lr.name+" "+cs.Token); !fresh {
			lr.violation("handler-opid-not-fresh", "the op id of the context given to the handler was already seen on another context ("+other+")", cs, nil)
		} else {
			m.run.Add("fresh_handler_opids", 1)
		}
	}
	// 4. response headers at handler entry = {_cid, _opid of the request}
	wantEntry := map[string]string{"_cid": cs.callerCID, "_opid": cs.callerOpID}
	if !mapsEqual(wantEntry, hEntry) {
		kind := "handler-response-headers-at-entry-differ"
		if hEntry["_opid"] != cs.callerOpID {
			kind = "handler-response-opid-differs"
		} else if hEntry["_cid"] != cs.callerCID {
			kind = "handler-response-cid-differs"
		}
		lr.violation(kind, "the response headers prepared for the handler are not {_cid, _opid} of the request", cs, map[string]interface{}{"diff": diffMaps(wantEntry, hEntry)})
	}
	sum := caseSummary{cs: cs, opid: cs.callerOpID, cid: cs.callerCID, oneway: cs.oneway(), rspFinal: hFinal, reqDigest: cs.callerReqBefore}
	// 5. caller's response headers after return
	if cs.Step > 0 {
		lr.verifyReuseStep(cs, hFinal)
		return
	}
	if !cs.oneway() {
		m.run.Add("caller_after_observations", 1)
		wantAfter := cs.Rsp.asMap()
		wantAfter["_cid"] = cs.callerCID
		if !mapsEqual(wantAfter, cs.callerRspAfter) {
			kind := "caller-response-headers-differ"
			if cs.FanOut > 1 {
				kind = "concurrently-added-response-headers-lost"
			}
			lr.violation(kind, "after the call returned, the caller's response headers are not the handler's (those it set plus the _cid echo)", cs,
				map[string]interface{}{"diff": diffMaps(wantAfter, cs.callerRspAfter)})
		} else if !mapsEqual(without(hFinal, "_opid"), cs.callerRspAfter) {
			lr.violation("caller-response-headers-differ", "after the call returned, the caller's response headers are not the handler's final response headers minus _opid", cs,
				map[string]interface{}{"diff": diffMaps(without(hFinal, "_opid"), cs.callerRspAfter)})
		}
		sum.gotReply = true
		sum.callerAfter = cs.callerRspAfter
	}
	lr.sumMu.Lock()
	lr.summary = append(lr.summary, sum)
	lr.sumMu.Unlock()
}

// checkTap compares the frames seen at the transport boundary with the
// caller's and the handler's maps.
func (lr *legRun) checkTap() {
	m := lr.m
	lr.sumMu.Lock()
	sums := lr.summary
	known := lr.issued
	lr.sumMu.Unlock()
	wantReq, wantRep := 0, 0
	for _, s := range sums {
		wantReq++
		if s.gotReply {
			wantRep++
		}
	}
	// the NATS tap is a separate subscriber: give it time to catch up
	deadline := time.Now().Add(10 * time.Second)
	var reqs, reps [][]byte
	for {
		reqs, reps = lr.leg.Tap.Snapshot()
		nrep := 0
		for _, f := range reps {
			if len(f) > 4 {
				nrep++
			}
		}
		if (len(reqs) >= wantReq && nrep >= wantRep) || time.Now().After(deadline) {
			break
		}
		time.Sleep(20 * time.Millisecond)
	}
	reqBy := map[string]map[string]string{}
	for _, f := range reqs {
		h, _, err := wire.ParseFrame(f)
		if err != nil {
			m.run.Add("tap_unparsable_frames", 1)
			continue
		}
		m.run.Add("tap_request_frames", 1)
		reqBy[h["_opid"]] = h
	}
	repBy := map[string][]map[string]string{}
	for _, f := range reps {
		if len(f) <= 4 {
			m.run.Add("tap_empty_replies", 1) // HTTP answer to a oneway
			continue
		}
		h, _, err := wire.ParseFrame(f)
		if err != nil {
			m.run.Add("tap_unparsable_frames", 1)
			continue
		}
		m.run.Add("tap_reply_frames", 1)
		repBy[h["_opid"]] = append(repBy[h["_opid"]], h)
	}
	for _, s := range sums {
		rq, ok := reqBy[s.opid]
		if !ok {
			m.run.Add("tap_request_not_seen", 1)
			continue
		}
		if !mapsEqual(rq, s.reqDigest) {
			lr.violation("request-frame-headers-differ", "the request frame on the wire does not carry the caller's request headers", s.cs, map[string]interface{}{"diff": diffMaps(s.reqDigest, rq)})
		}
		if !s.gotReply {
			continue
		}
		rps := repBy[s.opid]
		if len(rps) == 0 {
			// a reply reached the caller, so a frame exists: find it by correlation id
			found := false
			for op, hs := range repBy {
				for _, h := range hs {
					if h["_cid"] == s.cid && !known[op] {
						found = true
						lr.violation("reply-opid-differs", "the reply frame carries an op id other than the request's", s.cs, map[string]interface{}{"reply_frame_headers": qmap(h), "request_frame_headers": qmap(rq)})
					}
				}
			}
			if !found {
				m.run.Add("tap_reply_not_seen", 1)
			}
			continue
		}
		if len(rps) > 1 {
			lr.violation("reply-duplicated", "more than one reply frame carries this request's op id", s.cs, map[string]interface{}{"replies": len(rps)})
		}
		rp := rps[0]
		m.run.Add("tap_request_reply_pairs", 1)
		if rp["_cid"] != rq["_cid"] {
			lr.violation("reply-cid-differs", "the reply frame's _cid is not the request frame's", s.cs, map[string]interface{}{"reply_frame_headers": qmap(rp), "request_frame_headers": qmap(rq)})
		}
		if !mapsEqual(rp, s.rspFinal) {
			lr.violation("reply-frame-headers-differ", "the reply frame does not carry the response headers the handler's context held when it returned", s.cs, map[string]interface{}{"diff": diffMaps(s.rspFinal, rp)})
		}
	}
	for op, hs := range repBy {
		if !known[op] {
			// replies of calls that were not verified (aborted leg) are not judged
			if atomic.LoadInt32(&lr.abort) != 0 {
				continue
			}
			lr.m.run.Violation("C09:reply-opid-unknown:"+lr.name, "a reply frame carries an op id that no request of this leg had",
				map[string]interface{}{"leg": lr.name, "reply_frame_headers": qmap(hs[0])})
		}
	}
}
