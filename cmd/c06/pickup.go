package main

// Leg (g): the caller of a request picks its response up WHILE the reader is
// handling a further frame for the same op id.
//
// History: requests A and B.. are in flight.  A's caller is held between
// registering and waiting ("lost the CPU for a moment": parked at the yield
// point request.registered, or inside the Timeout() accessor of its FContext,
// which on NATS lies between the publish and the wait).  The inbound sequence
// is [response(A), response(A) xN, response(B)..].  The first response(A) is
// dispatched while nobody receives (it sits in A's registration); the caller
// step "A receives, unregisters and returns" is interleaved with the reader's
// handling of the duplicate:
//
//   - during-log: every log call the library makes while the reader is inside
//     the handling of the duplicate (send.begin(A) #k+1 seen, send.end(A) #k+1
//     not yet) is a scheduling point: the log sink (a logrus hook installed
//     with frugal.SetLogger — a slow sink in production) lets A's caller run to
//     completion before the log call returns.  Deterministic.
//   - race: A's caller is let go at the moment the duplicate is fed; no hook
//     decides the order (repeated).
//
// (The orders "caller first, then duplicate" and "duplicate handled, then
// caller" are leg (a).)
//
// Oracle (logical): every other in-flight request must return its own
// response once it was fed.  A stall is established when a delivery to A's
// registration began and did not end (send.begin(A) > send.end(A)), A's caller
// has returned (nobody is left who could receive from or send to A's result
// channel), a goroutine is parked on a channel operation inside the registry's
// dispatch that was not there before the trial, and all of this still holds a
// second later.  Watchdogs alone end inconclusive.

import (
	"fmt"
	"io"
	"regexp"
	"runtime"
	"strings"
	"sync"
	"sync/atomic"
	"time"

	frugal "github.com/Workiva/frugal/lib/go"
	"github.com/sirupsen/logrus"

	"verif/ev"
	"verif/rig"
	"verif/wire"
)

type pickupSpec struct {
	leg    string // adapter | nats
	hold   string // hook-registered | context-timeout
	pickup string // during-log | race
	others int    // other requests in flight on the transport
	dups   int    // further frames for A's op id
}

func (s pickupSpec) String() string {
	return fmt.Sprintf("%s hold=%s pickup=%s others=%d dups=%d", s.leg, s.hold, s.pickup, s.others, s.dups)
}

type pickupResult struct {
	bad          string
	cls          string
	inconclusive string
	correlation  string
	placed       string // where A's pick-up ended up relative to the duplicate
	witness      interface{}
}

// pickupState is what the log sink needs to know about the running trial.
type pickupState struct {
	ctl        *rig.Controller
	begin, end rig.HookEvent
	armed      atomic.Bool
	released   atomic.Bool
	release    func()
	doneA      chan struct{}
	inLog      atomic.Bool
	logStack   atomic.Value // string: where the library logged from
	gateErr    atomic.Value // string
}

var pickupCur atomic.Pointer[pickupState]

type pickupSink struct{}

func (pickupSink) Levels() []logrus.Level { return logrus.AllLevels }
func (pickupSink) Fire(*logrus.Entry) error {
	st := pickupCur.Load()
	if st == nil || !st.armed.Load() {
		return nil
	}
	b, e := st.ctl.Arrived(st.begin), st.ctl.Arrived(st.end)
	if b < 2 || b != e+1 {
		return nil // the reader is not inside the handling of a further frame for A
	}
	if !st.released.CompareAndSwap(false, true) {
		return nil
	}
	buf := make([]byte, 8192)
	st.logStack.Store(frugalFrames(string(buf[:runtime.Stack(buf, false)])))
	st.inLog.Store(true)
	st.release()
	select {
	case <-st.doneA:
	case <-time.After(syncWatchdog):
		st.gateErr.Store("A's caller did not return while the log call of the reader was in progress")
	}
	return nil
}

func frugalFrames(stack string) string {
	var keep []string
	for _, l := range strings.Split(stack, "\n") {
		if strings.Contains(l, "frugal/lib/go.") {
			keep = append(keep, strings.TrimSpace(l))
		}
	}
	if len(keep) > 6 {
		keep = keep[:6]
	}
	return strings.Join(keep, " <- ")
}

var pickupHdr = regexp.MustCompile(`^goroutine \d+ \[([^\]]+)\]:`)

// dispatchParked counts goroutines parked on a channel operation inside the
// client registry's dispatch.
func dispatchParked() (int, string) {
	buf := make([]byte, 8<<20)
	n := runtime.Stack(buf, true)
	count, sample := 0, ""
	for _, blk := range strings.Split(string(buf[:n]), "\n\n") {
		m := pickupHdr.FindStringSubmatch(blk)
		if m == nil || !strings.Contains(blk, "(*fRegistryImpl).dispatch") {
			continue
		}
		if strings.HasPrefix(m[1], "chan receive") || strings.HasPrefix(m[1], "chan send") || strings.HasPrefix(m[1], "select") {
			count++
			sample = blk
		}
	}
	if len(sample) > 1800 {
		sample = sample[:1800]
	}
	return count, sample
}

type pickupCaller struct {
	op   uint64
	done chan struct{}
	tok  string
	err  error
}

func pickupTrial(sp pickupSpec, nats *rig.NatsServer) *pickupResult {
	res := &pickupResult{placed: "not-placed"}
	var leg rig.MuxLeg
	if sp.leg == "adapter" {
		leg = rig.NewAdapterLeg()
	} else {
		leg = rig.NewNatsLeg(nats)
	}
	tr, err := leg.Open()
	if err != nil {
		leg.Close()
		res.inconclusive = "open: " + err.Error()
		return res
	}
	var ctl *rig.Controller
	if sp.hold == "hook-registered" {
		ctl = rig.NewController("request.registered")
	} else {
		ctl = rig.NewController()
	}
	var owned []uint64
	baseline, _ := dispatchParked()
	defer func() {
		pickupCur.Store(nil)
		ctl.Disown(owned...)
		leg.Close()
	}()
	issue := func(c *pickupCaller, ctx frugal.FContext, hdr frugal.FContext, payload string) {
		go func() {
			defer close(c.done)
			rt, err := tr.Request(ctx, wire.BuildFrame(wire.MapToPairs(hdr.RequestHeaders()), []byte(payload)))
			if err != nil {
				c.err = err
				return
			}
			c.tok, c.err = readToken(rt)
		}()
	}
	reg := func(op uint64) rig.HookEvent { return rig.HookEvent{Point: "request.registered", Opid: op} }

	// the other requests: in flight, waiting
	bs := make([]*pickupCaller, sp.others)
	for i := range bs {
		fctx := frugal.NewFContext("")
		fctx.SetTimeout(120 * time.Second)
		b := &pickupCaller{op: rig.OpidOf(fctx), done: make(chan struct{})}
		bs[i] = b
		ctl.Own(b.op)
		owned = append(owned, b.op)
		issue(b, fctx, fctx, fmt.Sprintf("req:other:%d", i))
		if !ctl.Await(reg(b.op), 1, syncWatchdog) {
			res.inconclusive = "another request did not reach request.registered"
			return res
		}
		if sp.hold == "hook-registered" {
			for k := 0; !ctl.Release(reg(b.op)); k++ {
				if k > 100000 {
					res.inconclusive = "another request was not parked at request.registered"
					return res
				}
				runtime.Gosched()
			}
		}
	}

	// request A: held between registering and waiting
	inner := frugal.NewFContext("")
	inner.SetTimeout(120 * time.Second)
	a := &pickupCaller{op: rig.OpidOf(inner), done: make(chan struct{})}
	ctl.Own(a.op)
	owned = append(owned, a.op)
	var ctx frugal.FContext = inner
	var pc *parkedContext
	if sp.hold == "context-timeout" {
		pc = &parkedContext{FContext: inner, entered: make(chan struct{}), release: make(chan struct{})}
		ctx = pc
	}
	var relOnce sync.Once
	release := func() {
		relOnce.Do(func() {
			if pc != nil {
				close(pc.release)
			} else {
				ctl.Release(reg(a.op))
			}
		})
	}
	defer release()
	st := &pickupState{ctl: ctl, begin: rig.HookEvent{Point: "send.begin", Opid: a.op}, end: rig.HookEvent{Point: "send.end", Opid: a.op}, release: release, doneA: a.done}
	unknownA := rig.HookEvent{Point: "dispatch.unknown", Opid: a.op}
	pickupCur.Store(st)
	issue(a, ctx, inner, "req:A")
	if pc != nil {
		select {
		case <-pc.entered:
		case <-a.done:
			res.inconclusive = fmt.Sprintf("request A returned before the transport asked for its timeout (err=%v)", a.err)
			return res
		case <-time.After(syncWatchdog):
			res.inconclusive = "A's caller did not reach the Timeout() accessor of its context"
			return res
		}
		if ctl.Arrived(reg(a.op)) == 0 {
			res.inconclusive = "the transport asked for the timeout before it registered the request"
			return res
		}
	} else {
		if !ctl.Await(reg(a.op), 1, syncWatchdog) {
			res.inconclusive = "A's caller did not reach request.registered"
			return res
		}
		for k := 0; !ctl.IsParked(reg(a.op)); k++ {
			if k > 100000 {
				res.inconclusive = "A's caller was not parked at request.registered"
				return res
			}
			runtime.Gosched()
		}
	}

	history := []string{"callers B..: in flight, waiting", "caller A: Register(A) done, parked at " + sp.hold + " (before it waits)"}
	bFed := false
	feedOthers := func() {
		if bFed {
			return
		}
		bFed = true
		for i, b := range bs {
			leg.Inject(b.op, rig.FrameFor(b.op, ownToken(b.op)))
			history = append(history, fmt.Sprintf("wire: response(B%d) fed", i))
		}
	}
	witness := func() map[string]interface{} {
		var outs []map[string]interface{}
		for i, c := range append([]*pickupCaller{a}, bs...) {
			name := "A"
			if i > 0 {
				name = fmt.Sprintf("B%d", i-1)
			}
			o := map[string]interface{}{"caller": name, "opid": c.op,
				"deliveries_begun":    ctl.Arrived(rig.HookEvent{Point: "send.begin", Opid: c.op}),
				"deliveries_ended":    ctl.Arrived(rig.HookEvent{Point: "send.end", Opid: c.op}),
				"looked_up_unknown":   ctl.Arrived(rig.HookEvent{Point: "dispatch.unknown", Opid: c.op}),
				"response_frame_hex":  fmt.Sprintf("%x", rig.FrameFor(c.op, ownToken(c.op))),
				"budget":              "120s",
				"returned":            false,
				"fed_after_duplicate": i > 0 && bFed,
			}
			select {
			case <-c.done:
				o["returned"] = true
				o["got_payload"] = c.tok
				if c.err != nil {
					o["err"] = c.err.Error()
				}
			default:
			}
			outs = append(outs, o)
		}
		w := map[string]interface{}{"case": sp.String(), "history": history, "callers": outs, "pickup_placed": res.placed}
		if s, _ := st.logStack.Load().(string); s != "" {
			w["library_log_call_during_which_A_picked_up"] = s
		}
		return w
	}
	// stalled reports the logical blocked-for-ever condition.
	cond := func() (bool, int, int, string) {
		select {
		case <-a.done:
		default:
			return false, 0, 0, ""
		}
		b, e := ctl.Arrived(st.begin), ctl.Arrived(st.end)
		if b <= e {
			return false, b, e, ""
		}
		n, sample := dispatchParked()
		return n > baseline, b, e, sample
	}
	establish := func() bool {
		ok, b1, e1, _ := cond()
		if !ok {
			return false
		}
		time.Sleep(time.Second)
		ok, b2, e2, sample := cond()
		if !ok || b1 != b2 || e1 != e2 {
			return false
		}
		feedOthers()
		time.Sleep(time.Second)
		ok, b3, e3, sample2 := cond()
		if !ok || b3 != b2 || e3 != e2 {
			return false
		}
		if sample2 != "" {
			sample = sample2
		}
		waiting := 0
		for _, b := range bs {
			select {
			case <-b.done:
			default:
				waiting++
			}
		}
		res.cls = "reader-parked-in-delivery"
		res.bad = fmt.Sprintf("delivery #%d to the registration of request A (op id %d) began and never ended: A's caller picked the buffered response up and returned while the reader was handling a further frame for the same op id, so nobody is left to receive from or send to A's result channel, and the reader is parked on it inside dispatch; %d other in-flight request(s) whose responses were fed afterwards are still waiting (120 s budget each)", b3, a.op, waiting)
		w := witness()
		w["goroutine_parked_in_dispatch"] = sample
		res.witness = w
		return true
	}
	// wait waits for ch, looking for an established stall meanwhile.
	wait := func(ch <-chan struct{}, what string) bool {
		deadline := time.Now().Add(30 * time.Second)
		tick := 300 * time.Millisecond
		for {
			select {
			case <-ch:
				return true
			case <-time.After(tick):
			}
			if establish() {
				return false
			}
			if time.Now().After(deadline) {
				if g, _ := st.gateErr.Load().(string); g != "" {
					what += " (" + g + ")"
				}
				res.inconclusive = what
				return false
			}
		}
	}
	// 1. response(A) arrives while A's caller is not waiting
	leg.Inject(a.op, rig.FrameFor(a.op, ownToken(a.op)))
	history = append(history, "wire: response(A) fed")
	if !ctl.Await(st.end, 1, syncWatchdog) {
		res.inconclusive = "the first response of A was not dispatched to its registration within the watchdog"
		return res
	}
	history = append(history, "reader: response(A) dispatched to A's registration (send.end observed); nobody is receiving")

	// 2. further frames for A; A's caller picks up meanwhile
	if sp.pickup == "during-log" {
		st.armed.Store(true)
	}
	for k := 1; k <= sp.dups; k++ {
		if sp.pickup == "race" && k == 1 {
			st.released.Store(true)
			go release()
			res.placed = "raced-with-duplicate"
			history = append(history, "caller A: let go at the moment the duplicate is fed")
		}
		leg.Inject(a.op, rig.FrameFor(a.op, ownToken(a.op)))
		history = append(history, fmt.Sprintf("wire: duplicate #%d of response(A) fed", k))
	}
	// every further frame was handled: delivered/discarded (send.end) or found unknown
	handled := make(chan struct{})
	go func() {
		deadline := time.Now().Add(40 * time.Second)
		for time.Now().Before(deadline) {
			if ctl.Arrived(st.end)+ctl.Arrived(unknownA) >= 1+sp.dups {
				close(handled)
				return
			}
			ctl.AwaitAny([]rig.HookEvent{st.end, unknownA}, []int{ctl.Arrived(st.end) + 1, ctl.Arrived(unknownA) + 1}, 50*time.Millisecond)
		}
	}()
	if !wait(handled, "the further frames for A's op id were not seen to be handled by the reader") {
		return res
	}
	st.armed.Store(false)
	if st.inLog.Load() {
		res.placed = "during-a-log-call-of-the-reader-handling-the-duplicate"
		history = append(history, "caller A: let go inside a log call made by the reader while it handled the duplicate; received, unregistered and returned before the log call returned")
	} else if !st.released.Load() {
		res.placed = "after-the-duplicate-was-handled"
		history = append(history, "caller A: let go after the duplicates were handled (the reader made no log call while handling them)")
	}
	st.released.Store(true)
	release()
	if !wait(a.done, "A's caller did not return after it was let go") {
		return res
	}

	// 3. the responses of the other requests
	feedOthers()
	for i, b := range bs {
		if !wait(b.done, fmt.Sprintf("other request %d did not return and no stall could be established", i)) {
			return res
		}
	}
	if g, _ := st.gateErr.Load().(string); g != "" {
		res.inconclusive = g
		return res
	}
	switch {
	case a.err != nil:
		res.cls = "buffered-response-not-returned"
		res.bad = fmt.Sprintf("request A (op id %d, 120 s budget): its response was dispatched to its registration before its caller started to wait, %d duplicate(s) followed, and the caller returned error %q", a.op, sp.dups, a.err)
		res.witness = witness()
		return res
	case a.tok != ownToken(a.op):
		res.correlation = fmt.Sprintf("request A completed with payload %q", a.tok)
	}
	for i, b := range bs {
		switch {
		case b.err != nil:
			res.cls = "response-of-other-request-not-delivered"
			res.bad = fmt.Sprintf("in-flight request B%d (op id %d, 120 s budget), whose response was fed after the duplicate response(s) of A, returned error %q", i, b.op, b.err)
			res.witness = witness()
			return res
		case b.tok != ownToken(b.op):
			res.correlation = fmt.Sprintf("request B%d completed with payload %q", i, b.tok)
		}
	}
	return res
}

// pickups is leg (g).  One trial at a time: the log sink is process-wide and
// the stall criterion reads goroutine dumps.
func pickups(run *ev.Run, nats *rig.NatsServer) {
	raceReps := 6
	if run.Thorough() {
		raceReps = 60
	}
	l := logrus.New()
	l.SetOutput(io.Discard)
	l.SetLevel(logrus.TraceLevel)
	l.AddHook(pickupSink{})
	frugal.SetLogger(l)
	defer rig.Quiet()

	var specs []pickupSpec
	for _, leg := range []string{"adapter", "nats"} {
		for _, hold := range []string{"hook-registered", "context-timeout"} {
			for _, sh := range [][2]int{{1, 1}, {3, 2}} {
				specs = append(specs, pickupSpec{leg, hold, "during-log", sh[0], sh[1]})
			}
		}
	}
	for r := 0; r < raceReps; r++ {
		for _, leg := range []string{"adapter", "nats"} {
			for _, hold := range []string{"hook-registered", "context-timeout"} {
				specs = append(specs, pickupSpec{leg, hold, "race", 1 + r%3, 1 + r%2})
			}
		}
	}
	trials, inside := 0, 0
	established := map[string]bool{}
	for _, sp := range specs {
		if established[sp.leg] {
			continue // the parked reader of an established stall stays in the dumps; one witness per leg
		}
		pr := pickupTrial(sp, nats)
		run.Eval(1)
		trials++
		if strings.HasPrefix(pr.placed, "during") {
			inside++
		}
		switch {
		case pr.bad != "":
			established[sp.leg] = true
			run.Violation("C06:pickup-during-duplicate:"+sp.leg+":"+pr.cls, pr.bad, pr.witness)
		case pr.inconclusive != "":
			run.Inconclusive("pick-up trial (" + sp.String() + "): " + pr.inconclusive)
		case pr.correlation != "":
			run.Add("pickup_trials_with_a_correlation_failure_(see_C01)", 1)
		default:
			run.Distinct("pickup " + sp.String() + " placed=" + pr.placed)
		}
	}
	run.Set("pickup_during_duplicate_trials", trials)
	run.Set("pickup_trials_with_the_caller_consuming_inside_the_reader's_handling_of_the_duplicate", inside)
}
