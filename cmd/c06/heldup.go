package main

// Leg (d): a requester that is held up, facing a responder that answers at
// once.  The FContext handed to the transport is a wrapper whose accessors
// (RequestHeader, Timeout: every point at which the transport consults the
// context of the request it is issuing) do not return before the inbound side
// is settled: whatever the request has put on the wire so far has been seen by
// the responder, the responder's answer has travelled back and the transport's
// inbound handler has dealt with it (send.end / dispatch.unknown observed).
// That is the requester "losing the CPU for a moment" made reproducible: the
// response of a request that is on the wire is always handled before the
// requester takes its next step.  A response is the response of an in-flight
// request from the moment the request can be answered; it must reach the
// caller whatever the caller was doing when it arrived.
//
// Verdict is logical: the op id of a request that the responder has seen and
// answered was looked up by the reader and found unknown (dispatch.unknown)
// while its caller, with a 120 s budget, has not returned; nobody will send
// another frame for it.

import (
	"fmt"
	"io"
	"strconv"
	"sync"
	"sync/atomic"
	"time"

	frugal "github.com/Workiva/frugal/lib/go"
	"github.com/nats-io/nats.go"

	"verif/rig"
	"verif/wire"
)

const syncWatchdog = 10 * time.Second

// heldContext holds the calling goroutine up at every accessor the transports
// use while they issue a request.
type heldContext struct {
	frugal.FContext
	gate func()
}

func (c *heldContext) RequestHeader(name string) (string, bool) {
	c.gate()
	return c.FContext.RequestHeader(name)
}

func (c *heldContext) Timeout() time.Duration {
	c.gate()
	return c.FContext.Timeout()
}

func opidOfFrame(frame []byte) (uint64, bool) {
	if len(frame) < 4 {
		return 0, false
	}
	pairs, _, err := wire.DecodeHeaders(frame[4:])
	if err != nil {
		return 0, false
	}
	m, _ := wire.PairsToMap(pairs)
	op, err := strconv.ParseUint(m["_opid"], 10, 64)
	return op, err == nil
}

func ownToken(op uint64) string { return "resp:own:" + strconv.FormatUint(op, 10) }

// promptLeg is a client transport whose peer answers every request the
// instant it sees it.
type promptLeg interface {
	name() string
	open() (frugal.FTransport, error)
	// settle returns once everything the client has put on the wire has been
	// seen by the responder and every answer of the responder has reached the
	// client transport's inbound side.
	settle() error
	answered(op uint64) int
	close()
}

type answerLog struct {
	mu sync.Mutex
	n  map[uint64]int
}

func (a *answerLog) add(op uint64) {
	a.mu.Lock()
	if a.n == nil {
		a.n = map[uint64]int{}
	}
	a.n[op]++
	a.mu.Unlock()
}

func (a *answerLog) answered(op uint64) int {
	a.mu.Lock()
	defer a.mu.Unlock()
	return a.n[op]
}

// ---- adapter: the scripted peer feeds the response from inside Flush -------

type adapterPrompt struct {
	answerLog
	leg *rig.AdapterLeg
}

func newAdapterPrompt() *adapterPrompt { return &adapterPrompt{leg: rig.NewAdapterLeg()} }
func (a *adapterPrompt) name() string  { return "adapter" }
func (a *adapterPrompt) open() (frugal.FTransport, error) {
	a.leg.St.OnFrame = func(frame []byte) {
		if op, ok := opidOfFrame(frame); ok {
			a.leg.St.Feed(rig.FrameFor(op, ownToken(op)))
			a.add(op)
		}
	}
	return a.leg.Open()
}
func (a *adapterPrompt) settle() error { return nil }
func (a *adapterPrompt) close()        { a.leg.Close() }

// ---- NATS: a subscriber on the service subject replies to msg.Reply --------

type natsPrompt struct {
	answerLog
	srv         *rig.NatsServer
	client, raw *nats.Conn
	sub         *nats.Subscription
	tr          frugal.FTransport
}

var natsPromptSeq uint64

func newNatsPrompt(srv *rig.NatsServer) *natsPrompt { return &natsPrompt{srv: srv} }
func (n *natsPrompt) name() string                  { return "nats" }
func (n *natsPrompt) open() (frugal.FTransport, error) {
	var err error
	if n.client, err = n.srv.Connect(); err != nil {
		return nil, err
	}
	if n.raw, err = n.srv.Connect(); err != nil {
		return nil, err
	}
	id := atomic.AddUint64(&natsPromptSeq, 1)
	subject := fmt.Sprintf("verif.c06.prompt.%d", id)
	inbox := fmt.Sprintf("_INBOX.c06prompt%d", id)
	if n.sub, err = n.raw.Subscribe(subject, func(m *nats.Msg) {
		op, ok := opidOfFrame(m.Data)
		if !ok || m.Reply == "" {
			return
		}
		if n.raw.Publish(m.Reply, rig.FrameFor(op, ownToken(op))) == nil {
			n.add(op)
		}
	}); err != nil {
		return nil, err
	}
	if err = n.raw.FlushTimeout(syncWatchdog); err != nil {
		return nil, err
	}
	n.tr = frugal.NewFNatsTransport(n.client, subject, inbox)
	if err = n.tr.Open(); err != nil {
		return nil, err
	}
	return n.tr, n.client.FlushTimeout(syncWatchdog)
}

// settle: round trips order everything (NATS keeps the order of one
// connection's stream): the client's publishes are at the broker, what the
// broker routed to the responder has been received by it, the responder's
// callback has run for every message received (pending count 0: nats.go
// decrements it after the callback returned), the answers are at the broker and
// have been received by the client connection.
func (n *natsPrompt) settle() error {
	if err := n.client.FlushTimeout(syncWatchdog); err != nil {
		return fmt.Errorf("flush of the client connection: %v", err)
	}
	if err := n.raw.FlushTimeout(syncWatchdog); err != nil {
		return fmt.Errorf("flush of the responder connection: %v", err)
	}
	deadline := time.Now().Add(syncWatchdog)
	for {
		p, _, err := n.sub.Pending()
		if err != nil {
			return fmt.Errorf("responder subscription: %v", err)
		}
		if p == 0 {
			break
		}
		if time.Now().After(deadline) {
			return fmt.Errorf("the responder did not drain its subscription")
		}
		time.Sleep(100 * time.Microsecond)
	}
	if err := n.raw.FlushTimeout(syncWatchdog); err != nil {
		return fmt.Errorf("flush of the responder connection: %v", err)
	}
	if err := n.client.FlushTimeout(syncWatchdog); err != nil {
		return fmt.Errorf("flush of the client connection: %v", err)
	}
	return nil
}

func (n *natsPrompt) close() {
	if n.tr != nil {
		done := make(chan struct{})
		go func() { n.tr.Close(); close(done) }()
		select {
		case <-done:
		case <-time.After(2 * time.Second):
		}
	}
	if n.client != nil {
		n.client.Close()
	}
	if n.raw != nil {
		n.raw.Close()
	}
}

// ---- the trial -------------------------------------------------------------

type heldResult struct {
	bad          string
	cls          string
	inconclusive string
	correlation  string // a caller completed with a frame that is not its own (C01's verdict)
	gates        int
	witness      interface{}
}

// heldUpTrial issues n concurrent requests with held-up contexts against a
// prompt responder, then one ordinary request.
func heldUpTrial(leg promptLeg, n int) *heldResult {
	res := &heldResult{}
	ctl := rig.NewController()
	tr, err := leg.open()
	if err != nil {
		leg.close()
		res.inconclusive = "open: " + err.Error()
		return res
	}
	type caller struct {
		op      uint64
		done    chan struct{}
		tok     string
		err     error
		gates   int32
		gateErr atomic.Value
	}
	var owned []uint64
	defer func() {
		ctl.Disown(owned...)
		leg.close()
	}()
	handled := func(op uint64) (delivered, unknown int) {
		return ctl.Arrived(rig.HookEvent{Point: "send.end", Opid: op}), ctl.Arrived(rig.HookEvent{Point: "dispatch.unknown", Opid: op})
	}
	issue := func(c *caller, ctx frugal.FContext, req []byte) {
		go func() {
			defer close(c.done)
			rt, err := tr.Request(ctx, req)
			if err != nil {
				c.err = err
				return
			}
			if rt == nil {
				c.err = fmt.Errorf("nil transport, nil error")
				return
			}
			body, _ := io.ReadAll(rt)
			_, used, perr := wire.DecodeHeaders(body)
			if perr != nil {
				c.err = fmt.Errorf("unparseable frame returned: %v", perr)
				return
			}
			c.tok = string(body[used:])
		}()
	}
	cs := make([]*caller, n)
	for i := range cs {
		inner := frugal.NewFContext("")
		inner.SetTimeout(120 * time.Second)
		c := &caller{op: rig.OpidOf(inner), done: make(chan struct{})}
		cs[i] = c
		ctl.Own(c.op)
		owned = append(owned, c.op)
		held := &heldContext{FContext: inner, gate: func() {
			atomic.AddInt32(&c.gates, 1)
			if err := leg.settle(); err != nil {
				c.gateErr.Store("the wire did not settle: " + err.Error())
				return
			}
			if k := leg.answered(c.op); k > 0 {
				if ctl.AwaitAny([]rig.HookEvent{{Point: "send.end", Opid: c.op}, {Point: "dispatch.unknown", Opid: c.op}}, []int{1, 1}, syncWatchdog) < 0 {
					c.gateErr.Store("the response reached the client connection and was not handled by the inbound handler within the watchdog")
				}
			}
		}}
		issue(c, held, wire.BuildFrame(wire.MapToPairs(inner.RequestHeaders()), []byte(fmt.Sprintf("req:held:%d", i))))
	}
	witness := func() interface{} {
		var outs []map[string]interface{}
		for i, c := range cs {
			d, u := handled(c.op)
			o := map[string]interface{}{"caller": i, "opid": c.op, "responder_answers": leg.answered(c.op), "reader_delivered": d, "reader_found_unknown": u, "context_accesses_held": atomic.LoadInt32(&c.gates)}
			select {
			case <-c.done:
				o["returned"] = true
				o["got_payload"] = c.tok
				if c.err != nil {
					o["err"] = c.err.Error()
				}
			default:
				o["returned"] = false
			}
			outs = append(outs, o)
		}
		return map[string]interface{}{"leg": leg.name(), "callers": outs, "schedule": "every accessor of the request's FContext (RequestHeader, Timeout) returns only after the wire has settled: request seen by the responder, answer published, answer handled by the transport's inbound handler"}
	}
	start := time.Now()
	for i, c := range cs {
		for waiting := true; waiting; {
			select {
			case <-c.done:
				waiting = false
			case <-time.After(time.Second):
				if _, u := handled(c.op); u > 0 && leg.answered(c.op) > 0 {
					// corroborate: nothing else can complete the caller
					select {
					case <-c.done:
						waiting = false
						continue
					case <-time.After(2 * time.Second):
					}
					res.cls = "response-discarded-as-unknown"
					res.bad = fmt.Sprintf("request %d (op id %d, 120 s budget) was on the wire — the responder saw it and published its response — when the client's reader looked its op id up and found it unknown: the response of an in-flight request was discarded; the caller is still waiting and nobody will send another frame for it", i, c.op)
					res.witness = witness()
					return res
				}
				if time.Since(start) > 30*time.Second {
					if g, _ := c.gateErr.Load().(string); g != "" {
						res.inconclusive = fmt.Sprintf("caller %d: %s", i, g)
					} else if d, _ := handled(c.op); d > 0 {
						res.cls = "response-delivered-caller-not-completed"
						res.bad = fmt.Sprintf("request %d (op id %d, 120 s budget): the reader completed the delivery of its response (send.end) and the caller has not returned", i, c.op)
						res.witness = witness()
					} else {
						res.inconclusive = fmt.Sprintf("caller %d did not return and its response was not seen to be handled", i)
					}
					return res
				}
			}
		}
		res.gates += int(atomic.LoadInt32(&c.gates))
		if g, _ := c.gateErr.Load().(string); g != "" {
			res.inconclusive = fmt.Sprintf("caller %d: %s", i, g)
			return res
		}
		switch {
		case c.err != nil:
			res.cls = "response-not-delivered"
			res.bad = fmt.Sprintf("request %d (op id %d, 120 s budget) was answered by the responder the instant it was on the wire and returned error %q", i, c.op, c.err)
			res.witness = witness()
			return res
		case c.tok != ownToken(c.op):
			res.correlation = fmt.Sprintf("request %d (op id %d) completed with payload %q", i, c.op, c.tok)
		}
	}
	// an ordinary request afterwards
	fctx := frugal.NewFContext("")
	fctx.SetTimeout(120 * time.Second)
	f := &caller{op: rig.OpidOf(fctx), done: make(chan struct{})}
	issue(f, fctx, wire.BuildFrame(wire.MapToPairs(fctx.RequestHeaders()), []byte("req:fresh")))
	select {
	case <-f.done:
		if f.err != nil {
			res.cls = "fresh-request-failed"
			res.bad = fmt.Sprintf("a fresh request issued after %d held-up requests returned error %q", n, f.err)
			res.witness = witness()
		}
	case <-time.After(20 * time.Second):
		res.inconclusive = "the fresh request after the held-up requests did not return"
	}
	return res
}
