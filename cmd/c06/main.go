// Command c06 decides property C06 (the inbound path never stalls) by runtime
// monitoring: the schedules of the mux engine are enforced on the real
// transports and the reader's progress is judged logically (a delivery that
// began and cannot end because no goroutine can receive), then a fresh request
// after every adversarial history must be answered.
package main

import (
	"fmt"
	"os"
	"strings"
	"sync"
	"sync/atomic"

	"verif/ev"
	"verif/rig"
)

type job struct {
	leg   string
	plan  *rig.MuxPlan
	sched []rig.MuxAction
}

func planString(p *rig.MuxPlan) string {
	var b strings.Builder
	for i, f := range p.Fates {
		fmt.Fprintf(&b, "c%d:%s ", i, []string{"answered", "timeout"}[f])
	}
	for j, f := range p.Frames {
		fmt.Fprintf(&b, "f%d->c%d#%d ", j, f.Target, f.Copy)
	}
	return strings.TrimSpace(b.String())
}

// plan builds a plan from copies per caller (negative = caller times out and
// gets -n-1 late copies) and a number of unknown-id frames.
func plan(unknown int, callers ...int) *rig.MuxPlan {
	p := &rig.MuxPlan{}
	for i, c := range callers {
		n := c
		if c < 0 {
			p.Fates = append(p.Fates, rig.FateTimeout)
			n = -c - 1
		} else {
			p.Fates = append(p.Fates, rig.FateAnswered)
		}
		for k := 0; k < n; k++ {
			p.Frames = append(p.Frames, rig.MuxFrame{Target: i, Copy: k})
		}
	}
	for k := 0; k < unknown; k++ {
		p.Frames = append(p.Frames, rig.MuxFrame{Target: -1, Copy: k})
	}
	return p
}

func main() {
	ev.Supervise("C06", ev.ArgTier(), "exploration", "the monitor runs in a child process; a panic or runtime fatal error on a goroutine of the library (inbound reader, dispatch) ends every in-flight request and is a violation attributed to the first library frame of the dying goroutine")
	run := ev.New("C06", ev.ArgTier(), "exploration")
	run.Rule("(a) enforced schedules over plans with up to 4 duplicates per op id, late frames for timed-out callers and never-issued ids: all interleavings (or a seeded sample when the DFS exceeds its bound) of lookup / delivery with the callers' receive / timeout / unregister+return steps, callers held after their receive so that their registration outlives several duplicates; after every schedule a fresh request must be answered; (b) hook-free stress: up to 64 concurrent callers, up to 4 back-to-back duplicates written in one burst. Verdict is logical: send.begin(opid) without send.end(opid) while the only possible receiver is past its receive. (c) well-formed responses fed as an arbitrary byte stream; (d) requesters held up at every access to their FContext until the wire has settled (and by a busy registry) against a responder that answers at once: a response handled by the reader as unknown while its request is on the wire and its caller waits is a lost response; (e) the send of one request fails for a reason of its own (refused payload, own deadline inside Flush, request-specific Flush error; nothing of it reaches the wire) while others are in flight on a healthy connection: their responses, fed after the failed send ended, and a fresh request must complete; (f) the response of a request is the last frame of the session and the end of the session (EOF, read error, Close) is processed right behind it while the caller is parked between registering and waiting (yield point request.registered / Timeout() accessor of its FContext): a response whose dispatch to the registration completed before the close must be what the request returns; (g) the response of request A is dispatched while A's caller is parked between registering and waiting, further frames for A's op id follow, and A's caller receives, unregisters and returns WHILE the reader handles the duplicate (inside every log call the reader makes there, through a log sink installed with SetLogger; and hook-free, let go at the moment the duplicate is fed): the responses of the other in-flight requests, fed afterwards, must be returned; stall = delivery to A begun and not ended, A's caller gone, a goroutine parked on a channel inside dispatch, persisting. distinct = distinct (leg, plan, schedule) strings + stress / trial shapes")
	run.Assume("yield points compiled in with -tags verif do not change behaviour when no goroutine is parked")
	type cfg struct {
		p     *rig.MuxPlan
		limit int
	}
	var cfgs []cfg
	lim := func(q, t int) int {
		if run.Thorough() {
			return t
		}
		return q
	}
	cfgs = append(cfgs,
		cfg{plan(0, 3), 100000}, cfg{plan(0, 4), lim(2000, 100000)}, cfg{plan(1, 3), lim(1500, 100000)},
		cfg{plan(0, -3), 100000}, cfg{plan(0, -4), lim(1500, 100000)},
		cfg{plan(0, 3, 1), lim(1200, 8000)}, cfg{plan(0, 3, -1), lim(1200, 8000)}, cfg{plan(1, 2, 2), lim(1200, 8000)},
		cfg{plan(0, 3, 3), lim(800, 6000)}, cfg{plan(0, -3, 2), lim(800, 6000)}, cfg{plan(0, 4, -2), lim(400, 4000)},
		cfg{plan(0, 3, 1, 1), lim(400, 3000)}, cfg{plan(1, 3, -2, 1), lim(300, 3000)},
	)
	nats, err := rig.StartNats()
	if err != nil {
		run.Inconclusive("embedded nats-server: " + err.Error())
		os.Exit(run.Finish())
	}
	defer nats.Stop()
	rng := run.Rand("c06-sched")
	var jobs []job
	exh, smp := 0, 0
	for _, c := range cfgs {
		var scheds [][]rig.MuxAction
		_, complete := c.p.Enumerate(c.limit, func(s []rig.MuxAction) bool { scheds = append(scheds, s); return true })
		if complete {
			exh++
		} else {
			smp++
			seen := map[string]bool{}
			keep := scheds[:len(scheds)/4]
			for _, s := range keep {
				seen[rig.ScheduleString(s)] = true
			}
			for tries := 0; len(keep) < c.limit && tries < 4*c.limit; tries++ {
				s := c.p.RandomSchedule(rng.Intn)
				if key := rig.ScheduleString(s); !seen[key] {
					seen[key] = true
					keep = append(keep, s)
				}
			}
			scheds = keep
		}
		for i, s := range scheds {
			jobs = append(jobs, job{"adapter", c.p, s})
			if i%3 == 0 {
				jobs = append(jobs, job{"nats", c.p, s})
			}
		}
	}
	run.Set("plans_enumerated_exhaustively", exh)
	run.Set("plans_sampled", smp)

	results := make(chan *rig.MuxResult, 64)
	jobc := make(chan job)
	var wg sync.WaitGroup
	var established int32 // stalls established so far: exploration stops after a few (each costs seconds)
	for w := 0; w < 16; w++ {
		wg.Add(1)
		go func() {
			defer wg.Done()
			for j := range jobc {
				if atomic.LoadInt32(&established) >= 8 {
					continue
				}
				var leg rig.MuxLeg
				if j.leg == "adapter" {
					leg = rig.NewAdapterLeg()
				} else {
					leg = rig.NewNatsLeg(nats)
				}
				r := rig.ExecuteSchedule(leg, j.plan, j.sched)
				r.Leg = j.leg + " | " + planString(j.plan)
				if r.Stalled != "" {
					atomic.AddInt32(&established, 1)
				}
				results <- r
			}
		}()
	}
	stallCount := 0
	go func() {
		for _, j := range jobs {
			jobc <- j
		}
		close(jobc)
		wg.Wait()
		close(results)
	}()
	hookEvents, maxHeld, sampled, fresh := 0, 0, 0, 0
	for r := range results {
		run.Eval(1)
		hookEvents += r.HookEvents
		key := r.Leg + " || " + r.Schedule
		legName := strings.SplitN(r.Leg, " ", 2)[0]
		switch {
		case r.Stalled != "":
			stallCount++
			cls := "reader-parked-in-delivery"
			if strings.Contains(r.Stalled, "registry lock deadlock") {
				cls = "registry-lock-deadlock"
			} else if strings.Contains(r.Stalled, "fresh request") {
				cls = "fresh-request-unanswered"
			} else if strings.Contains(r.Stalled, "did not process") {
				cls = "reader-not-consuming"
			}
			run.Violation("C06:"+cls+":"+legName, r.Stalled, map[string]interface{}{"leg_and_plan": r.Leg, "schedule": r.Schedule, "goroutines": r.StallDump})
		case r.CorrelationKO != "":
			// correlation is C01's verdict; the schedule still ran to its end
			run.Add("schedules_with_a_correlation_failure_(see_C01)", 1)
		case r.Inconclusive != "":
			run.Inconclusive(key + ": " + r.Inconclusive)
		case !r.FreshOK:
			run.Violation("C06:fresh-request-failed:"+legName, "a fresh request issued after the history did not complete with its own response: "+r.FreshErr, map[string]interface{}{"leg_and_plan": r.Leg, "schedule": r.Schedule})
		default:
			fresh++
			run.Distinct(key)
			if h := heldDuplicates(r.Schedule); h > maxHeld {
				maxHeld = h
			}
			if sampled < 3 && strings.Count(r.Schedule, "deliver") >= 3 {
				sampled++
				run.Sample(map[string]interface{}{"leg_and_plan": r.Leg, "schedule": r.Schedule, "fresh_request_answered": r.FreshOK})
			}
		}
	}
	run.Set("schedules_planned", len(jobs))
	run.Set("hook_events_observed", hookEvents)
	run.Set("fresh_requests_answered_after_history", fresh)
	run.Set("max_deliveries_in_one_schedule", maxHeld)
	run.Set("reader_stalls_established", stallCount)

	// (b) hook-free stress
	trials := 400
	if run.Thorough() {
		trials = 3000
	}
	srng := run.Rand("c06-stress")
	type spec struct {
		leg  string
		n    int
		seed int64
	}
	specs := make([]spec, trials)
	for i := range specs {
		leg := "adapter"
		if i%4 == 3 {
			leg = "nats"
		}
		ns := []int{1, 2, 4, 8, 16, 32, 64}
		specs[i] = spec{leg, ns[srng.Intn(len(ns))], srng.Int63()}
	}
	var swg sync.WaitGroup
	sem := make(chan struct{}, 8)
	var mu sync.Mutex
	frames := 0
	for i, sp := range specs {
		swg.Add(1)
		sem <- struct{}{}
		go func(i int, sp spec) {
			defer swg.Done()
			defer func() { <-sem }()
			if atomic.LoadInt32(&established) >= 16 {
				return
			}
			r := rig.StressTrial(sp.leg, sp.n, sp.seed, nats, 4)
			if r.Stall != "" {
				atomic.AddInt32(&established, 1)
			}
			run.Eval(1)
			mu.Lock()
			frames += r.Frames
			mu.Unlock()
			switch {
			case r.Stall != "":
				cls := "reader-parked-in-delivery"
				if strings.Contains(r.Stall, "registry lock deadlock") {
					cls = "registry-lock-deadlock"
				}
				run.Violation("C06:stress:"+cls+":"+sp.leg, r.Stall, r.Witness)
			case r.Inconclusive != "":
				run.Inconclusive(fmt.Sprintf("stress trial %d: %s", i, r.Inconclusive))
			case r.RetryBad != "":
				atomic.AddInt32(&established, 1)
				run.Violation("C06:stress:retry-after-timeout-not-served:"+sp.leg, r.RetryBad, r.Witness)
			case strings.Contains(r.Bad, "closed itself"):
				atomic.AddInt32(&established, 1)
				run.Violation("C06:stress:transport-closed-itself:"+sp.leg, r.Bad, r.Witness)
			case r.Bad != "":
				run.Add("stress_trials_with_a_correlation_failure_(see_C01)", 1)
			default:
				run.Distinct("stress " + sp.leg + " " + r.Shape)
			}
		}(i, sp)
	}
	swg.Wait()
	run.Set("stress_trials", trials)
	run.Set("stress_response_frames_injected", frames)
	fragments(run, &established)
	// a refused second call with the FContext of a request in flight must not
	// cost that request its response (NATS refuses such calls)
	for k := 0; k < 3; k++ {
		dr := rig.DuplicateContextTrial(nats)
		run.Eval(1)
		if dr.Bad != "" {
			run.Violation("C06:duplicate-context-refused:nats:in-flight-request-lost", dr.Bad, map[string]interface{}{"second_call_error": dr.SecondErr})
			break
		} else if dr.Inconclusive != "" {
			run.Inconclusive("duplicate-context trial: " + dr.Inconclusive)
		} else {
			run.Distinct("duplicate-context nats")
		}
	}
	// an FContext reused for the next call while the reader is still busy
	// with a surplus duplicate of the previous call's response
	for _, legName := range []string{"adapter", "nats"} {
		for k := 0; k < 3; k++ {
			var leg rig.MuxLeg
			if legName == "adapter" {
				leg = rig.NewAdapterLeg()
			} else {
				leg = rig.NewNatsLeg(nats)
			}
			bad, inc, wit := rig.ContextReuseTrial(leg)
			run.Eval(1)
			if bad != "" {
				run.Violation("C06:context-reuse-after-duplicates:"+legName+":response-dropped", bad, wit)
				break
			} else if inc != "" {
				run.Inconclusive("context-reuse trial: " + inc)
			} else {
				run.Distinct("context-reuse " + legName)
			}
		}
	}
	heldUp(run, nats)
	lastFrames(run, nats)
	pickups(run, nats)
	sendFailures(run)
	os.Exit(run.Finish())
}

// heldUp is leg (d): requesters that are held up at every access to their
// FContext (and, where the tree has the hook, by a busy registry) while the
// responder answers at once.
func heldUp(run *ev.Run, nats *rig.NatsServer) {
	reps, sizes := 1, []int{1, 2, 4}
	if run.Thorough() {
		reps, sizes = 6, []int{1, 2, 4, 8, 16}
	}
	trials, gates := 0, 0
	lost := map[string]bool{}
	for _, legName := range []string{"adapter", "nats"} {
	legLoop:
		for r := 0; r < reps; r++ {
			for _, n := range sizes {
				var leg promptLeg
				if legName == "adapter" {
					leg = newAdapterPrompt()
				} else {
					leg = newNatsPrompt(nats)
				}
				hr := heldUpTrial(leg, n)
				run.Eval(1)
				trials++
				gates += hr.gates
				switch {
				case hr.bad != "":
					lost[legName] = true
					run.Violation("C06:held-up-requester:"+legName+":"+hr.cls, hr.bad, hr.witness)
					break legLoop
				case hr.inconclusive != "":
					run.Inconclusive("held-up requester trial (" + legName + "): " + hr.inconclusive)
				case hr.correlation != "":
					run.Add("held_up_trials_with_a_correlation_failure_(see_C01)", 1)
				default:
					run.Distinct(fmt.Sprintf("held-up %s callers=%d", legName, n))
				}
			}
		}
	}
	run.Set("held_up_requester_trials", trials)
	run.Set("held_up_context_accesses_settled", gates)
	// the registry is busy (its lock is held by somebody else) when the request
	// is issued and while its response arrives
	for _, legName := range []string{"adapter", "nats"} {
		if lost[legName] {
			continue // already established on this leg; the trial costs 20 s on a tree that loses the response
		}
		seen := make(chan uint64, 16)
		onReq := func(frame []byte) {
			if op, ok := opidOfFrame(frame); ok {
				select {
				case seen <- op:
				default:
				}
			}
		}
		var leg rig.MuxLeg
		if legName == "adapter" {
			a := rig.NewAdapterLeg()
			a.St.OnFrame = onReq
			leg = a
		} else {
			nl := rig.NewNatsLeg(nats)
			nl.OnRequest = func(_ string, f []byte) { onReq(f) }
			leg = nl
		}
		bad, inc, skipped := rig.RegistryBusyTrial(leg, seen)
		run.Eval(1)
		switch {
		case skipped:
			run.Set("registry_busy_trial", "skipped: the tree under test has no VerifLockRegistry hook")
		case bad != "":
			run.Violation("C06:registry-busy:"+legName+":response-lost", bad, nil)
		case inc != "":
			run.Inconclusive("registry-busy trial: " + inc)
		default:
			run.Distinct("registry-busy " + legName)
		}
	}
}

// sendFailures is leg (e): the send of one request fails, for a reason that
// concerns that request only, while others are in flight.  One trial at a time
// (the end of the failed send is read off a goroutine dump).
func sendFailures(run *ev.Run) {
	shapes := [][2]int{{1, 0}, {3, 1}}
	reps := 1
	if run.Thorough() {
		shapes = [][2]int{{1, 0}, {2, 0}, {3, 1}, {8, 3}, {16, 8}}
		reps = 4
	}
	trials := 0
	for _, mode := range []string{"write-refused", "flush-deadline", "flush-error"} {
	modeLoop:
		for r := 0; r < reps; r++ {
			for _, oneway := range []bool{false, true} {
				for _, sh := range shapes {
					sp := sendFailSpec{mode: mode, oneway: oneway, others: sh[0], answeredBefore: sh[1]}
					sr := sendFailureTrial(sp)
					run.Eval(1)
					trials++
					switch {
					case sr.bad != "":
						run.Violation("C06:send-failure-of-another-request:adapter:"+mode+":"+sr.cls, sr.bad, sr.witness)
						break modeLoop
					case sr.inconclusive != "":
						run.Inconclusive("send-failure trial: " + sr.inconclusive)
					case sr.correlation != "":
						run.Add("send_failure_trials_with_a_correlation_failure_(see_C01)", 1)
					default:
						run.Distinct("send-failure " + sp.String())
					}
				}
			}
		}
	}
	run.Set("send_failure_trials", trials)
}

// fragments is leg (c): well-formed responses handed over as an arbitrary
// byte stream, optionally while one request is blocked in the underlying Write.
func fragments(run *ev.Run, established *int32) {
	trials := 240
	if run.Thorough() {
		trials = 4000
	}
	rng := run.Rand("c06-fragment")
	type spec struct {
		n       int
		seed    int64
		blocked bool
		reopen  bool
		poke    bool
		busy    bool
	}
	var par, ser []spec
	for i := 0; i < trials; i++ {
		ns := []int{1, 2, 3, 4, 8, 16, 40, 64}
		sp := spec{ns[rng.Intn(len(ns))], rng.Int63(), i%3 == 0, i%4 == 1, i%5 == 2, false}
		if i%8 == 7 {
			sp = spec{n: sp.n, seed: sp.seed, busy: true}
		}
		if sp.blocked || sp.poke {
			ser = append(ser, sp)
		} else {
			par = append(par, sp)
		}
	}
	var mu sync.Mutex
	chunks, splits, bytes, blockedN, reopenN, pokeN, busyN := 0, 0, 0, 0, 0, 0, 0
	var fragEstablished int32
	one := func(sp spec) {
		if atomic.LoadInt32(&fragEstablished) >= 3 {
			return // each established stall costs seconds; three witnesses are enough
		}
		var r *rig.FragResult
		if sp.busy {
			r = rig.FragmentTrialBusyReopen(sp.n, sp.seed)
		} else {
			r = rig.FragmentTrial(sp.n, sp.seed, sp.blocked, sp.reopen, sp.poke)
		}
		run.Eval(1)
		mu.Lock()
		chunks += r.Chunks
		splits += r.SplitPrefixes
		bytes += r.Bytes
		if sp.blocked {
			blockedN++
		}
		if sp.reopen {
			reopenN++
		}
		if sp.busy {
			busyN++
		}
		if sp.poke {
			pokeN++
		}
		mu.Unlock()
		switch {
		case r.Stall != "":
			atomic.AddInt32(established, 1)
			atomic.AddInt32(&fragEstablished, 1)
			cls := "response-read-but-not-delivered"
			if strings.Contains(r.Stall, "parked acquiring a mutex") {
				cls = "reader-parked-on-lock"
			}
			run.Violation("C06:fragment:"+cls, r.Stall, r.Witness)
		case r.Bad != "":
			atomic.AddInt32(established, 1)
			atomic.AddInt32(&fragEstablished, 1)
			run.Violation("C06:fragment:wrong-completion", r.Bad, r.Witness)
		case r.Inconclusive != "":
			run.Inconclusive("fragment trial: " + r.Inconclusive)
		default:
			run.Distinct(fmt.Sprintf("fragment %s chunks=%d split=%d", r.Shape, r.Chunks, r.SplitPrefixes))
		}
	}
	var wg sync.WaitGroup
	sem := make(chan struct{}, 8)
	for _, sp := range par {
		wg.Add(1)
		sem <- struct{}{}
		go func(sp spec) { defer wg.Done(); defer func() { <-sem }(); one(sp) }(sp)
	}
	wg.Wait()
	for _, sp := range ser { // the lock criterion reads goroutine dumps: one at a time
		one(sp)
	}
	run.Set("fragment_trials", trials)
	run.Set("fragment_trials_with_a_request_blocked_in_Write", blockedN)
	run.Set("fragment_trials_on_a_transport_reopened_after_a_session_that_ended_inside_a_frame", reopenN)
	run.Set("fragment_trials_on_a_transport_closed_and_reopened_while_the_earlier_read_loop_was_delivering_a_frame", busyN)
	run.Set("fragment_trials_with_Open_called_on_the_open_transport_while_requests_are_in_flight", pokeN)
	run.Set("fragment_pieces_fed", chunks)
	run.Set("fragment_size_prefixes_split_across_reads", splits)
	run.Set("fragment_response_bytes", bytes)
}

// heldDuplicates returns the largest number of deliveries made for one caller
// between its first delivery and its finish step.
func heldDuplicates(s string) int { return strings.Count(s, "deliver") }
