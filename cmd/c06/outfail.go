package main

// Leg (e): one request fails on its way OUT while others are in flight.  The
// adapter transport runs over a byte stream that can fail the send of one
// chosen request without anything being wrong with the connection, and without
// a single byte of that request reaching the wire:
//
//	write-refused   Write refuses the payload (a size-limited transport)
//	flush-deadline  Flush honours the context it is given (THttpClient, TLS /
//	                deadline-aware sockets) and the request's own short
//	                timeout expires inside it
//	flush-error     Flush reports an error that concerns this request only
//
// The victim is a Request or a Oneway.  The requests already in flight are
// answered AFTER the failed send has run to its end (the victim's call
// returned and no goroutine of the library is inside send any more — read off
// a goroutine dump, these trials run one at a time): each must complete with
// its own response, and a fresh request afterwards must be served.  Verdict is
// logical: the response was fed, the library closed the underlying stream on
// its own (nobody asked it to), so no reader exists that could deliver it, and
// the caller has a 120 s budget it cannot have used up.

import (
	"context"
	"fmt"
	"io"
	"runtime"
	"strings"
	"sync"
	"time"

	frugal "github.com/Workiva/frugal/lib/go"
	"github.com/apache/thrift/lib/go/thrift"

	"verif/rig"
	"verif/wire"
)

type faultStream struct {
	*rig.ScriptTransport
	fmu        sync.Mutex
	refuse     map[uint64]bool
	flushFault map[uint64]string
	armed      string // set by the victim's Write, consumed by the next Flush (sends are sequenced by the trial)
	faults     int    // arranged failures that have been returned to the library
	closing    bool   // the monitor itself is closing the transport
	ownCloses  int    // Close calls made by the library while nobody asked for one
	seen       map[uint64]bool
}

func newFaultStream() *faultStream {
	s := &faultStream{ScriptTransport: rig.NewScriptTransport(), refuse: map[uint64]bool{}, flushFault: map[uint64]string{}, seen: map[uint64]bool{}}
	s.ScriptTransport.OnFrame = func(frame []byte) {
		if op, ok := opidOfFrame(frame); ok {
			s.fmu.Lock()
			s.seen[op] = true
			s.fmu.Unlock()
		}
	}
	return s
}

func (s *faultStream) Write(p []byte) (int, error) {
	if op, ok := opidOfFrame(p); ok {
		s.fmu.Lock()
		if s.refuse[op] {
			s.faults++
			s.fmu.Unlock()
			return 0, thrift.NewTTransportException(frugal.TRANSPORT_EXCEPTION_REQUEST_TOO_LARGE, "payload over the write limit of the underlying transport, nothing written")
		}
		if m := s.flushFault[op]; m != "" {
			s.armed = m
			s.fmu.Unlock()
			return len(p), nil // buffered by the transport, to go out with Flush
		}
		s.fmu.Unlock()
	}
	return s.ScriptTransport.Write(p)
}

func (s *faultStream) Flush(ctx context.Context) error {
	s.fmu.Lock()
	m := s.armed
	s.armed = ""
	s.fmu.Unlock()
	switch m {
	case "flush-deadline":
		select {
		case <-ctx.Done():
		case <-time.After(60 * time.Second):
		}
		s.fmu.Lock()
		s.faults++
		s.fmu.Unlock()
		if ctx.Err() == nil {
			return thrift.NewTTransportException(thrift.TIMED_OUT, "flush gave up")
		}
		return thrift.NewTTransportExceptionFromError(ctx.Err())
	case "flush-error":
		s.fmu.Lock()
		s.faults++
		s.fmu.Unlock()
		return thrift.NewTTransportException(thrift.UNKNOWN_TRANSPORT_EXCEPTION, "the peer refused this request (nothing sent)")
	}
	return s.ScriptTransport.Flush(ctx)
}

func (s *faultStream) Close() error {
	s.fmu.Lock()
	if !s.closing {
		s.ownCloses++
	}
	s.fmu.Unlock()
	return s.ScriptTransport.Close()
}

func (s *faultStream) state() (faults, ownCloses int) {
	s.fmu.Lock()
	defer s.fmu.Unlock()
	return s.faults, s.ownCloses
}

func (s *faultStream) onWire(op uint64) bool {
	s.fmu.Lock()
	defer s.fmu.Unlock()
	return s.seen[op]
}

// sendGoroutines counts the goroutines that are inside fAdapterTransport.send.
func sendGoroutines() int {
	buf := make([]byte, 8<<20)
	n := runtime.Stack(buf, true)
	return strings.Count(string(buf[:n]), "lib/go.(*fAdapterTransport).send(")
}

// waitSendsOver waits until no more goroutines are inside send than before the
// trial began.
func waitSendsOver(base int) bool {
	deadline := time.Now().Add(syncWatchdog)
	for sendGoroutines() > base {
		if time.Now().After(deadline) {
			return false
		}
		time.Sleep(time.Millisecond)
	}
	return true
}

type sendFailSpec struct {
	mode           string // write-refused | flush-deadline | flush-error
	oneway         bool
	others         int // requests in flight when the victim fails
	answeredBefore int // of which this many were answered before the victim was issued
}

func (sp sendFailSpec) String() string {
	v := "request"
	if sp.oneway {
		v = "oneway"
	}
	return fmt.Sprintf("%s victim=%s in-flight=%d answered-before=%d", sp.mode, v, sp.others, sp.answeredBefore)
}

type sendFailResult struct {
	bad          string
	cls          string
	inconclusive string
	correlation  string
	witness      interface{}
}

func sendFailureTrial(sp sendFailSpec) *sendFailResult {
	res := &sendFailResult{}
	base := sendGoroutines()
	fs := newFaultStream()
	tr := frugal.NewAdapterTransport(fs)
	if err := tr.Open(); err != nil {
		res.inconclusive = "open: " + err.Error()
		return res
	}
	defer func() {
		fs.fmu.Lock()
		fs.closing = true
		fs.fmu.Unlock()
		done := make(chan struct{})
		go func() { tr.Close(); close(done) }()
		select {
		case <-done:
		case <-time.After(2 * time.Second):
		}
	}()
	type caller struct {
		op   uint64
		done chan struct{}
		tok  string
		err  error
	}
	request := func(name string, timeout time.Duration) *caller {
		ctx := frugal.NewFContext("")
		ctx.SetTimeout(timeout)
		c := &caller{op: rig.OpidOf(ctx), done: make(chan struct{})}
		req := wire.BuildFrame(wire.MapToPairs(ctx.RequestHeaders()), []byte("req:"+name))
		go func() {
			defer close(c.done)
			rt, err := tr.Request(ctx, req)
			if err != nil {
				c.err = err
				return
			}
			if rt == nil {
				c.err = fmt.Errorf("nil transport, nil error")
				return
			}
			body, _ := io.ReadAll(rt)
			_, used, perr := wire.DecodeHeaders(body)
			if perr != nil {
				c.err = fmt.Errorf("unparseable frame returned: %v", perr)
				return
			}
			c.tok = string(body[used:])
		}()
		return c
	}
	awaitWire := func(c *caller) string {
		deadline := time.Now().Add(syncWatchdog)
		for !fs.onWire(c.op) {
			select {
			case <-c.done:
				return fmt.Sprintf("returned before its request was on the wire: err=%v", c.err)
			default:
			}
			if time.Now().After(deadline) {
				return "its request did not reach the wire"
			}
			time.Sleep(200 * time.Microsecond)
		}
		return ""
	}
	var bs []*caller
	var victimOp uint64
	var victimErr error
	witness := func() interface{} {
		var outs []map[string]interface{}
		for i, c := range bs {
			o := map[string]interface{}{"request": fmt.Sprintf("B%d", i), "opid": c.op}
			select {
			case <-c.done:
				o["returned"] = true
				o["got_payload"] = c.tok
				if c.err != nil {
					o["err"] = c.err.Error()
				}
			default:
				o["returned"] = false
			}
			outs = append(outs, o)
		}
		_, own := fs.state()
		w := map[string]interface{}{"trial": sp.String(), "in_flight": outs, "victim_opid": victimOp, "closes_of_the_underlying_stream_made_by_the_library": own, "transport_open": tr.IsOpen(),
			"schedule": "B* issued and on the wire; answered-before responses fed and delivered; victim issued, its send fails as arranged, its call returns; no goroutine inside send; remaining responses fed one by one; fresh request"}
		if victimErr != nil {
			w["victim_error"] = victimErr.Error()
		}
		return w
	}
	// completes waits for c, whose response has been fed.
	completes := func(what string, c *caller) bool {
		start := time.Now()
		closedSeen := false
		for {
			select {
			case <-c.done:
				if c.err != nil {
					res.cls = "in-flight-request-failed"
					res.bad = fmt.Sprintf("%s (op id %d, 120 s budget): its response was fed after the send of another request (%s) had failed; it returned error %q", what, c.op, sp, c.err)
					res.witness = witness()
					return false
				}
				if c.tok != ownToken(c.op) {
					res.correlation = fmt.Sprintf("%s completed with payload %q", what, c.tok)
				}
				return true
			case <-time.After(500 * time.Millisecond):
			}
			_, own := fs.state()
			if own > 0 || !tr.IsOpen() {
				if closedSeen {
					res.cls = "in-flight-request-lost"
					res.bad = fmt.Sprintf("%s (op id %d, 120 s budget) was in flight on a healthy connection when the send of another request failed (%s: nothing of that request reached the wire); the transport closed the underlying stream on its own (%d Close call(s) nobody asked for, IsOpen=%v), so the response of %s, fed afterwards, has no reader left to deliver it and the caller is still waiting", what, c.op, sp, own, tr.IsOpen(), what)
					res.witness = witness()
					return false
				}
				closedSeen = true
				continue
			}
			if time.Since(start) > 20*time.Second {
				if idle, _ := fs.ReaderIdle(); idle {
					res.cls = "response-read-but-not-delivered"
					res.bad = fmt.Sprintf("%s (op id %d, 120 s budget): its response was fed after the send of another request (%s) had failed; every byte was read, the reader waits for more and the caller has not returned", what, c.op, sp)
					res.witness = witness()
				} else {
					res.inconclusive = fmt.Sprintf("%s: %s did not return and the reader is not idle", sp, what)
				}
				return false
			}
		}
	}

	for i := 0; i < sp.others; i++ {
		c := request(fmt.Sprintf("B%d", i), 120*time.Second)
		bs = append(bs, c)
		if why := awaitWire(c); why != "" {
			res.inconclusive = fmt.Sprintf("%s: B%d %s", sp, i, why)
			return res
		}
	}
	for i := 0; i < sp.answeredBefore && i < len(bs); i++ {
		fs.Feed(rig.FrameFor(bs[i].op, ownToken(bs[i].op)))
		select {
		case <-bs[i].done:
		case <-time.After(syncWatchdog):
			res.inconclusive = fmt.Sprintf("%s: B%d, answered before the victim was issued, did not return", sp, i)
			return res
		}
	}
	if !waitSendsOver(base) {
		res.inconclusive = sp.String() + ": the sends of the in-flight requests did not end"
		return res
	}
	// the victim
	vctx := frugal.NewFContext("")
	vctx.SetTimeout(120 * time.Second)
	if sp.mode == "flush-deadline" {
		vctx.SetTimeout(30 * time.Millisecond)
	}
	victimOp = rig.OpidOf(vctx)
	fs.fmu.Lock()
	if sp.mode == "write-refused" {
		fs.refuse[victimOp] = true
	} else {
		fs.flushFault[victimOp] = sp.mode
	}
	fs.fmu.Unlock()
	vreq := wire.BuildFrame(wire.MapToPairs(vctx.RequestHeaders()), []byte("req:victim"))
	vdone := make(chan error, 1)
	go func() {
		if sp.oneway {
			vdone <- tr.Oneway(vctx, vreq)
		} else {
			_, err := tr.Request(vctx, vreq)
			vdone <- err
		}
	}()
	select {
	case victimErr = <-vdone:
	case <-time.After(syncWatchdog):
		res.inconclusive = sp.String() + ": the victim's call did not return"
		return res
	}
	if victimErr == nil {
		res.inconclusive = sp.String() + ": the victim's call reported success although its send was made to fail"
		return res
	}
	// the arranged failure has been handed to the library and send has run to its end
	deadline := time.Now().Add(syncWatchdog)
	for {
		if f, _ := fs.state(); f > 0 {
			break
		}
		if time.Now().After(deadline) {
			res.inconclusive = sp.String() + ": the arranged failure was not reached"
			return res
		}
		time.Sleep(200 * time.Microsecond)
	}
	if !waitSendsOver(base) {
		res.inconclusive = sp.String() + ": the failed send did not end"
		return res
	}
	for i := sp.answeredBefore; i < len(bs); i++ {
		fs.Feed(rig.FrameFor(bs[i].op, ownToken(bs[i].op)))
		if !completes(fmt.Sprintf("request B%d", i), bs[i]) {
			return res
		}
	}
	// a fresh request
	c := request("fresh", 120*time.Second)
	if why := awaitWire(c); why != "" {
		select {
		case <-c.done:
			_, own := fs.state()
			res.cls = "fresh-request-failed"
			res.bad = fmt.Sprintf("a fresh request issued after the send of another request had failed (%s: nothing of that request reached the wire, the connection is healthy) returned error %q (closes of the underlying stream made by the library: %d, IsOpen=%v)", sp, c.err, own, tr.IsOpen())
			res.witness = witness()
		default:
			res.inconclusive = sp.String() + ": fresh request " + why
		}
		return res
	}
	fs.Feed(rig.FrameFor(c.op, ownToken(c.op)))
	completes("the fresh request", c)
	return res
}
