package main

// Leg (f): the response of an in-flight request is the LAST frame of the
// session and the stream ends right behind it (the peer hangs up: EOF; the
// connection breaks: read error; the application closes the transport), while
// the caller of that request is between registering and waiting — "lost the
// CPU for a moment" made reproducible by parking it at a yield point
// (request.registered) or inside the accessor of its FContext that the
// transport consults on its way to the wait (Timeout).  The inbound sequence is
// [response(A), end of stream]; the caller-side step interleaved with it is
// "A starts to wait" AFTER both.
//
// Oracle (logical, no clock): the reader read A's response and completed its
// dispatch to A's registration (send.end(A) observed) before the end of the
// stream was processed (Closed() channel closed / Close returned).  A frame
// that was consumed and handed to a registered request is delivered: the
// request must return it.  Had the response not been dispatched before the
// close, both outcomes would be legal; the trial establishes the dispatch
// first and is inconclusive otherwise.
//
// Adapter: the caller is held before its send goroutine starts, so the
// request's own Write is kept in progress (blocked in the scripted peer) until
// the caller has returned: at the moment the caller starts to wait, its
// response is in its result channel and its send has reported no error —
// exactly the state of a caller whose request went out before the peer
// answered and hung up.  NATS: Timeout() is consulted after the publish, so
// the request really is on the wire and answered by the responder.

import (
	"fmt"
	"io"
	"sync"
	"time"

	frugal "github.com/Workiva/frugal/lib/go"
	"github.com/apache/thrift/lib/go/thrift"

	"verif/ev"
	"verif/rig"
	"verif/wire"
)

// parkedContext parks the caller the first time the transport asks for the
// request's timeout.
type parkedContext struct {
	frugal.FContext
	once    sync.Once
	entered chan struct{}
	release chan struct{}
}

func (p *parkedContext) Timeout() time.Duration {
	p.once.Do(func() {
		close(p.entered)
		<-p.release
	})
	return p.FContext.Timeout()
}

type lastFrameSpec struct {
	leg    string // adapter | nats
	ending string // eof | read-error | local-close
	hold   string // context-timeout | hook-registered
	prior  int    // requests answered on the session before
}

func (s lastFrameSpec) String() string {
	return fmt.Sprintf("%s ending=%s hold=%s prior=%d", s.leg, s.ending, s.hold, s.prior)
}

type lastFrameResult struct {
	bad          string
	inconclusive string
	correlation  string
	witness      interface{}
}

func readToken(rt thrift.TTransport) (string, error) {
	if rt == nil {
		return "", fmt.Errorf("nil transport, nil error")
	}
	body, _ := io.ReadAll(rt)
	_, used, err := wire.DecodeHeaders(body)
	if err != nil {
		return "", fmt.Errorf("unparseable frame returned: %v", err)
	}
	return string(body[used:]), nil
}

func lastFrameTrial(sp lastFrameSpec, nats *rig.NatsServer) *lastFrameResult {
	res := &lastFrameResult{}
	var (
		tr  frugal.FTransport
		err error
		ad  *rig.AdapterLeg
		np  *natsPrompt
	)
	if sp.leg == "adapter" {
		ad = rig.NewAdapterLeg()
		// the peer answers the earlier requests of the session at once
		ad.St.OnFrame = func(frame []byte) {
			if op, ok := opidOfFrame(frame); ok {
				ad.St.Feed(rig.FrameFor(op, ownToken(op)))
			}
		}
		tr, err = ad.Open()
		defer ad.Close()
	} else {
		np = newNatsPrompt(nats)
		tr, err = np.open()
		defer np.close()
	}
	if err != nil {
		res.inconclusive = "open: " + err.Error()
		return res
	}
	closed := tr.Closed()
	for i := 0; i < sp.prior; i++ {
		fctx := frugal.NewFContext("")
		fctx.SetTimeout(120 * time.Second)
		rt, err := tr.Request(fctx, wire.BuildFrame(wire.MapToPairs(fctx.RequestHeaders()), []byte("req:prior")))
		if err != nil {
			res.inconclusive = "an earlier request of the session failed: " + err.Error()
			return res
		}
		if tok, _ := readToken(rt); tok != ownToken(rig.OpidOf(fctx)) {
			res.correlation = "an earlier request of the session completed with payload " + tok
			return res
		}
	}

	inner := frugal.NewFContext("")
	inner.SetTimeout(120 * time.Second)
	op := rig.OpidOf(inner)
	var ctl *rig.Controller
	var ctx frugal.FContext = inner
	var pc *parkedContext
	if sp.hold == "hook-registered" {
		ctl = rig.NewController("request.registered")
	} else {
		ctl = rig.NewController()
		pc = &parkedContext{FContext: inner, entered: make(chan struct{}), release: make(chan struct{})}
		ctx = pc
	}
	ctl.Own(op)
	defer ctl.Disown(op)
	registered := rig.HookEvent{Point: "request.registered", Opid: op}
	delivered := rig.HookEvent{Point: "send.end", Opid: op}

	var tok string
	var rerr error
	done := make(chan struct{})
	go func() {
		defer close(done)
		rt, err := tr.Request(ctx, wire.BuildFrame(wire.MapToPairs(inner.RequestHeaders()), []byte("req:last")))
		if err != nil {
			rerr = err
			return
		}
		tok, rerr = readToken(rt)
	}()
	release := func() {
		if pc != nil {
			close(pc.release)
		} else {
			ctl.Release(registered)
		}
	}
	released := false
	defer func() {
		if !released {
			release()
		}
	}()

	// 1. the caller is parked between registering and waiting
	if pc != nil {
		select {
		case <-pc.entered:
		case <-done:
			res.inconclusive = fmt.Sprintf("the request returned before the transport asked for its timeout (err=%v)", rerr)
			return res
		case <-time.After(syncWatchdog):
			res.inconclusive = "the caller did not reach the Timeout() accessor of its context"
			return res
		}
		if ctl.Arrived(registered) == 0 {
			res.inconclusive = "the transport asked for the timeout before it registered the request"
			return res
		}
	} else if !ctl.Await(registered, 1, syncWatchdog) {
		res.inconclusive = "the caller did not reach request.registered"
		return res
	}

	// 2. the response arrives, then the stream ends
	var blk chan struct{}
	if ad != nil {
		blk = make(chan struct{})
		defer close(blk)
		ad.St.SetBlockWrite(blk) // the request's own Write stays in progress
		ad.St.Feed(rig.FrameFor(op, ownToken(op)))
		switch sp.ending {
		case "eof":
			ad.St.FeedEOF()
		case "read-error":
			ad.St.FeedError(thrift.NewTTransportExceptionFromError(rig.ErrReset))
		}
	} else {
		if err := np.settle(); err != nil {
			res.inconclusive = "the wire did not settle: " + err.Error()
			return res
		}
		if np.answered(op) == 0 {
			res.inconclusive = "the responder did not see the request although the caller is past its publish"
			return res
		}
	}
	if !ctl.Await(delivered, 1, syncWatchdog) {
		res.inconclusive = "the response was not dispatched to the registered request within the watchdog"
		return res
	}
	if sp.ending == "local-close" {
		cdone := make(chan error, 1)
		go func() { cdone <- tr.Close() }()
		select {
		case err := <-cdone:
			if err != nil {
				res.inconclusive = "Close() of the transport failed: " + err.Error()
				return res
			}
		case <-time.After(syncWatchdog):
			res.inconclusive = "Close() of the transport did not return"
			return res
		}
	}
	select {
	case <-closed:
	case <-time.After(syncWatchdog):
		res.inconclusive = "the transport did not report the end of the session on Closed()"
		return res
	}

	// 3. the caller goes on and starts to wait
	released = true
	release()
	select {
	case <-done:
	case <-time.After(30 * time.Second):
		res.inconclusive = "the caller did not return after it was let go"
		return res
	}
	wit := map[string]interface{}{
		"case": sp.String(), "opid": op,
		"history": []string{
			"caller: Register(A) done, parked at " + sp.hold + " (before it waits)",
			"reader: read response(A), dispatched it to A's registration (send.end observed)",
			"stream: " + sp.ending + " processed, Closed() channel closed",
			"caller: released, starts to wait",
		},
		"response_frame_hex": fmt.Sprintf("%x", rig.FrameFor(op, ownToken(op))),
		"got_payload":        tok,
	}
	switch {
	case rerr != nil:
		wit["err"] = rerr.Error()
		res.bad = fmt.Sprintf("the response of request A (op id %d, 120 s budget) was the last frame of the session: the reader read it and completed its dispatch to A's registration, then the stream ended (%s); A's caller, which had registered and was on its way to wait, returned error %q instead of the response that had been delivered to it", op, sp.ending, rerr)
		res.witness = wit
	case tok != ownToken(op):
		res.correlation = fmt.Sprintf("request A (op id %d) completed with payload %q", op, tok)
	}
	return res
}

func lastFrames(run *ev.Run, nats *rig.NatsServer) {
	reps := 3
	if run.Thorough() {
		reps = 12
	}
	var specs []lastFrameSpec
	for r := 0; r < reps; r++ {
		for _, ending := range []string{"eof", "read-error", "local-close"} {
			for _, hold := range []string{"context-timeout", "hook-registered"} {
				for _, prior := range []int{0, 2} {
					specs = append(specs, lastFrameSpec{"adapter", ending, hold, prior})
				}
			}
		}
		// NATS has no stream to end; the session ends by Close().  Only the
		// Timeout() accessor lies between the publish and the wait.
		for _, prior := range []int{0, 2} {
			specs = append(specs, lastFrameSpec{"nats", "local-close", "context-timeout", prior})
		}
	}
	trials := 0
	established := map[string]bool{}
	for _, sp := range specs {
		if established[sp.leg] {
			continue
		}
		lr := lastFrameTrial(sp, nats)
		run.Eval(1)
		trials++
		switch {
		case lr.bad != "":
			established[sp.leg] = true
			run.Violation("C06:last-response-then-end-of-session:"+sp.leg+":dispatched-response-not-returned", lr.bad, lr.witness)
		case lr.inconclusive != "":
			run.Inconclusive("last-frame trial (" + sp.String() + "): " + lr.inconclusive)
		case lr.correlation != "":
			run.Add("last_frame_trials_with_a_correlation_failure_(see_C01)", 1)
		default:
			run.Distinct("last-frame " + sp.String())
		}
	}
	run.Set("last_frame_then_end_of_session_trials", trials)
}
