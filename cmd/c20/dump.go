package main

// Goroutine-dump inspection for the non-return watchdog (DESIGN.md §2.2): a
// watchdog expiry is a violation only if the dump establishes a logical
// blocked-forever condition among the server's own goroutines.

import (
	"fmt"
	"regexp"
	"sort"
	"strings"
)

type gframe struct {
	fn   string
	file string
}

type gor struct {
	header string
	state  string
	frames []gframe
	text   string
}

var gorHeader = regexp.MustCompile(`^goroutine \d+ \[([^\]]*)\]:`)

func parseDump(dump string) []gor {
	var out []gor
	for _, blk := range strings.Split(dump, "\n\n") {
		lines := strings.Split(strings.TrimSpace(blk), "\n")
		if len(lines) == 0 {
			continue
		}
		m := gorHeader.FindStringSubmatch(lines[0])
		if m == nil {
			continue
		}
		g := gor{header: lines[0], state: m[1], text: blk}
		for i := 1; i+1 < len(lines); i += 2 {
			fn := strings.TrimSpace(lines[i])
			if strings.HasPrefix(fn, "created by ") {
				break
			}
			if j := strings.LastIndex(fn, "("); j > 0 {
				fn = fn[:j]
			}
			file := strings.TrimSpace(lines[i+1])
			if j := strings.Index(file, " "); j > 0 {
				file = file[:j]
			}
			g.frames = append(g.frames, gframe{fn: fn, file: file})
		}
		out = append(out, g)
	}
	return out
}

func isRuntimeFrame(fn string) bool {
	return strings.HasPrefix(fn, "runtime.") || strings.HasPrefix(fn, "sync.") || strings.HasPrefix(fn, "internal/") || strings.HasPrefix(fn, "sync/atomic.")
}

func inServerFile(file string) bool {
	p := file
	if j := strings.LastIndex(p, ":"); j > 0 {
		p = p[:j]
	}
	return strings.HasSuffix(p, "/nats_server.go")
}

func parkedState(st string) bool {
	for _, p := range []string{"chan send", "chan receive", "select", "semacquire", "sync.WaitGroup.Wait", "sync.Mutex.Lock", "sync.Cond.Wait", "sync.RWMutex"} {
		if strings.HasPrefix(st, p) {
			return true
		}
	}
	return false
}

// classifyDump returns (blocked forever?, reason / state string, excerpt of
// the involved goroutines).
//
// Involved = goroutines with a frame in nats_server.go (Serve, Stop, the NATS
// callback `handler`, `worker`).  The condition "blocked forever" is
// established when every involved goroutine is parked on a channel / wait
// operation whose innermost non-runtime frame is itself in nats_server.go
// (outside drainNatsMessages, which waits on the NATS client library): the
// only goroutines that could complete those operations are the involved ones,
// the harness publishes nothing further and calls Stop exactly once.  Anything
// else (a worker inside the recording processor, Serve inside nats.go's
// Flush/Barrier, a running goroutine) stays inconclusive.
func classifyDump(dump string) (bool, string, string) {
	gs := parseDump(dump)
	var involved []gor
	for _, g := range gs {
		for _, f := range g.frames {
			// the harness goroutines that call Serve / Stop are involved even
			// while they have no frame in nats_server.go (yet)
			if inServerFile(f.file) || strings.HasPrefix(f.fn, "main.c20ServeGoroutine") || strings.HasPrefix(f.fn, "main.c20StopGoroutine") {
				involved = append(involved, g)
				break
			}
		}
	}
	if len(involved) == 0 {
		return false, "no goroutine in nats_server.go", ""
	}
	// A NATS callback parked in the send to the work queue: the barrier that
	// Serve waits for inside drainNatsMessages cannot complete before that
	// callback returns, i.e. before some worker receives.
	handlerBlocked := false
	for _, g := range involved {
		if !strings.HasPrefix(g.state, "chan send") || len(g.frames) == 0 {
			continue
		}
		if f := g.frames[0]; strings.HasSuffix(f.fn, "(*fNatsServer).handler") && inServerFile(f.file) {
			handlerBlocked = true
		}
	}
	var ex strings.Builder
	roles := map[string]int{}
	allParked := true
	notParked := ""
	for _, g := range involved {
		ex.WriteString(g.text)
		ex.WriteString("\n\n")
		var top gframe
		for _, f := range g.frames {
			if !isRuntimeFrame(f.fn) {
				top = f
				break
			}
		}
		role := "other"
		onWorker := false
		for _, f := range g.frames {
			if strings.HasSuffix(f.fn, "(*fNatsServer).worker") {
				onWorker = true
			}
		}
		for _, f := range g.frames {
			switch {
			case strings.HasSuffix(f.fn, "(*fNatsServer).Serve"):
				role = "Serve"
			case strings.HasSuffix(f.fn, "(*fNatsServer).Stop"):
				role = "Stop"
			case strings.HasSuffix(f.fn, "(*fNatsServer).handler"):
				role = "handler"
			case strings.HasSuffix(f.fn, "(*fNatsServer).worker"):
				if role == "other" {
					role = "worker"
				}
			}
		}
		if role == "Stop" && onWorker {
			role = "Stop-on-worker"
		}
		parked := parkedState(g.state) && inServerFile(top.file)
		if parked && strings.Contains(top.fn, "drainNatsMessages") {
			// waiting on the NATS client library: only the unbounded wait for
			// the barrier behind a blocked callback is a closed cycle (a
			// select with a timer, a Flush, ... can still make progress)
			parked = handlerBlocked && strings.HasPrefix(g.state, "chan receive")
		}
		st := g.state
		if j := strings.Index(st, ","); j > 0 {
			st = st[:j]
		}
		line := top.file
		if j := strings.LastIndex(line, "/"); j >= 0 {
			line = line[j+1:]
		}
		if parked {
			roles[fmt.Sprintf("%s[%s@%s]", role, st, line)]++
		} else {
			allParked = false
			notParked = fmt.Sprintf("%s is %s in %s", role, st, top.fn)
		}
	}
	excerpt := ex.String()
	if len(excerpt) > 24<<10 {
		excerpt = excerpt[:24<<10] + "\n...truncated"
	}
	if !allParked {
		return false, notParked, excerpt
	}
	keys := []string{}
	for k := range roles { // no multiplicities: the signature must not depend on the worker count
		keys = append(keys, k)
	}
	sort.Strings(keys)
	return true, strings.Join(keys, "+"), excerpt
}
