package main

// The server scenario (runs in a child process, see main.go).
//
// One scenario = one FNatsServer on a fresh connection to the child's
// embedded broker, a publisher connection, a reply-collector connection, a
// recording FProcessor and the three event handlers of the builder.  All
// verdicts are logical (counts per request id and counter snapshots taken at
// the instants Stop is called / Stop returned / Serve returned); wall clock
// only bounds the run through a no-progress watchdog.

import (
	"context"
	"encoding/binary"
	"encoding/json"
	"errors"
	"fmt"
	"io"
	"math/rand"
	"net"
	"os"
	"runtime"
	"strconv"
	"strings"
	"sync"
	"sync/atomic"
	"time"

	frugal "github.com/Workiva/frugal/lib/go"
	"github.com/apache/thrift/lib/go/thrift"
	"github.com/nats-io/nats.go"

	"verif/rig"
	"verif/wire"
)

// Config is one point of the sweep.  Everything that shapes the scenario is
// in here (the child derives its PRNG from Seed), so a config is a replayable
// witness.
type Config struct {
	Idx     int    `json:"idx"`
	W       int    `json:"workers"`
	Q       int    `json:"queue"`
	B       int    `json:"burst"`
	BClass  string `json:"burst_class"` // 1 | q | q+w | q+w+1 | 2(q+w) | 10(q+w)
	Dur     string `json:"handler"`     // 0 | 1ms | 5ms | 20ms | prng | gate
	K       int    `json:"stop_after"`  // requests double-flushed before Stop is called
	Rest    string `json:"rest"`        // concurrent | after | split : where the b-k others go
	Share   bool   `json:"shared_conn"` // server connection also carries an unrelated subscription
	NSubj   int    `json:"subjects"`    // 1 or 2 subjects (= nats subscriptions feeding one work queue)
	Oneway  bool   `json:"oneway_mix"`  // every 5th request is one-way (processor writes nothing)
	Arrival string `json:"arrival"`     // burst | trickle | chunks : how the k are flushed
	StopUs  int    `json:"stop_delay_us"`
	GateUs  int    `json:"gate_release_us"`
	Seed    int64  `json:"seed"`
	Rep     int    `json:"rep"`
	Race    bool   `json:"race_binary,omitempty"`
	// Early != "": Stop is called right after `go Serve()` without waiting
	// for the subscription (position 0 of the stream, K = 0): "nowait" |
	// "gosched" (EarlyN x runtime.Gosched) | "sleep" (EarlyUs microseconds).
	Early   string `json:"stop_at_serve_start,omitempty"`
	EarlyN  int    `json:"early_yields,omitempty"`
	EarlyUs int    `json:"early_sleep_us,omitempty"`
	// StopFrom != "": Stop is called from inside the request stream, on a
	// worker goroutine, by the "shutdown" request S that is published after
	// K1 of the K requests (all K+1 are double-flushed before S may call
	// Stop): "processor" (the FProcessor handling S) | "started" | "finished"
	// (the event handler invoked for S).
	StopFrom string `json:"stop_from_worker,omitempty"`
	K1       int    `json:"requests_before_shutdown_request,omitempty"`
	// DrainTO: option of the SERVER's connection: "" = rig default
	// (nats.Connect, DrainTimeout 30s) | "bare" (nats.Options literal,
	// DrainTimeout 0) | a duration for nats.DrainTimeout(d).
	DrainTO string `json:"conn_drain_timeout,omitempty"`
	// Busy: number of subjects (the first Busy of NSubj) that get traffic;
	// the others are idle subscriptions of the server (0 = all).
	Busy int `json:"busy_subjects,omitempty"`
	// HWM: WithHighWatermark(d) ("" = builder default 5s).  The library's
	// default request-received handler (time stamp) is always in effect:
	// called from the counting handler, or - PureRecv - left to the builder
	// (then "received" is not observable and stands for "started").
	HWM      string `json:"high_watermark,omitempty"`
	PureRecv bool   `json:"builder_default_received_handler,omitempty"`
	// QGroup: WithQueueGroup.  DupSubj (only with QGroup): the subject list
	// names the first subject twice (two subscriptions in one queue group
	// share its traffic).  In every scenario LATE requests are published after
	// Stop AND Serve have returned: the stopped server must take nothing off
	// NATS any more; with a queue group a probe member subscribed after Serve
	// returned must see every late request (none stolen).
	QGroup  bool `json:"queue_group,omitempty"`
	DupSubj bool `json:"duplicated_subject,omitempty"`
	// Bad: number of failing requests interleaved into the first half of the
	// "received before Stop" stream (message shorter than the 4-byte frame
	// size, wrong header version, truncated header, processor error), each
	// with a reply subject; the well-formed ones behind them are judged.
	Bad int `json:"failing_requests,omitempty"`
	// ConnLoss: the SERVER's broker connection (opened with NoReconnect) is
	// lost right before Stop, with the K requests already handed to the work
	// queue: "cut" (TCP connection cut through a proxy) | "broker" (a private
	// broker is shut down).  Replies cannot be published any more and are not
	// judged; every request must still be processed once before Serve returns.
	ConnLoss string `json:"server_conn_lost,omitempty"`
	// ConnLossFull (probe, never in the default sweep): connection lost while
	// a NATS callback is parked on the full work queue.
	ConnLossFull bool `json:"conn_lost_with_blocked_callback_probe,omitempty"`
	// Probe (never in the default sweep): sole worker calls Stop with more
	// requests behind it than the queue holds.
	SoleProbe bool `json:"sole_worker_probe,omitempty"`
	// NoReply: number of messages WITHOUT a reply subject (a plain Publish to a
	// service subject: misdirected pub/sub traffic, a monitoring probe)
	// interleaved anywhere into the "received before Stop" stream.  They are
	// not requests (nothing can be answered) and nothing is demanded for them;
	// the requests around them are judged as always, Stop and Serve must return.
	NoReply int `json:"replyless_messages,omitempty"`
	// Blip: the SERVER's broker connection (default reconnect behaviour, short
	// ReconnectWait) goes through a relay that is taken down AFTER Stop has
	// returned, while the K <= q+w accepted requests are still parked on the
	// gate; the gate is opened once the connection reports RECONNECTING, so
	// every reply is published into the client's reconnect buffer.  "hold":
	// the link comes back after Serve returned; "race": BlipUs microseconds
	// after the gate was opened.  Replies are judged after the connection has
	// recovered (status CONNECTED + one Flush round trip).
	Blip   string `json:"server_link_blip,omitempty"`
	BlipUs int    `json:"link_up_after_us,omitempty"`
	// PostGateUs: handler time spent after the gate (gate mode), so that the
	// drain of the backlog takes long enough for the link to recover in it.
	PostGateUs int `json:"handler_after_gate_us,omitempty"`
	// LongDrain: drain duration as a dimension.  More requests than workers +
	// queue + 1 are received before Stop (so part of the burst is parked inside
	// the NATS client behind the callback that is blocked on the full queue),
	// and the handlers stay gated until GateUs after Stop was ENTERED: handing
	// the parked backlog to the work queue - which Stop has to wait for - takes
	// at least that long.  The duration is a workload parameter only; the
	// verdicts are the usual ones (per-id counts, no-return by goroutine dump).
	LongDrain bool `json:"long_drain,omitempty"`
	// SlowBacklog: duration of the work that is left AFTER the drain as a
	// dimension.  k <= workers + queue requests are all inside the work queue /
	// with a worker when Stop is called (nothing parked in the NATS client, so
	// Stop returns at once); the gate opens GateUs after Stop was called and
	// every handler then takes PostGateUs: Serve has to wait about
	// ceil(k/w) x PostGateUs for its workers after it closed the queue.  The
	// duration is a workload parameter only; the verdicts are the usual ones,
	// taken at the instant Serve returns.
	SlowBacklog bool `json:"slow_backlog,omitempty"`
	// CloseConn: the caller closes the server's NATS connection as soon as
	// Serve has returned (which the documentation allows): a reply that was
	// not published before Serve returned can never arrive.
	CloseConn bool `json:"close_conn_at_serve_return,omitempty"`
}

// Snap is a snapshot of the boundary counters.
type Snap struct {
	Received int64 `json:"received"`
	Started  int64 `json:"started"`
	Finished int64 `json:"finished"`
	Entered  int64 `json:"proc_entered"`
	Exited   int64 `json:"proc_exited"`
}

// Vio is one refuting observation of a scenario.
type Vio struct {
	Sig     string      `json:"sig"`
	What    string      `json:"what"`
	Witness interface{} `json:"witness"`
}

// Result is what the child reports for one scenario.
type Result struct {
	Idx          int      `json:"idx"`
	Config       Config   `json:"config"`
	Status       string   `json:"status"` // ok | violation | inconclusive
	Violations   []Vio    `json:"violations,omitempty"`
	Inconclusive string   `json:"inconclusive,omitempty"`
	Requests     int      `json:"requests"`
	Pre          int      `json:"pre"`
	During       int      `json:"during"`
	After        int      `json:"after"`
	AtStop       Snap     `json:"at_stop"`
	AtStopRet    Snap     `json:"at_stop_returned"`
	AtServeRet   Snap     `json:"at_serve_returned"`
	Final        Snap     `json:"final"`
	Replies      int      `json:"replies"`
	QueueFull    bool     `json:"queue_full_at_stop"`
	DuringServed int      `json:"during_processed"`
	OtherMsgs    int64    `json:"other_sub_msgs"`
	StopMs       float64  `json:"stop_ms"`
	ServeMs      float64  `json:"serve_after_stop_ms"`
	Timeline     []string `json:"timeline,omitempty"`
	Restart      bool     `json:"restart,omitempty"` // the child must not run further scenarios
	BadPublished int      `json:"failing_requests_published"`
	Late         int      `json:"late_requests"`
	LateAtProbe  int      `json:"late_requests_seen_by_queue_group_probe"`
	// early-Stop scenarios: subscriptions on the server connection when Stop
	// was called (< wanted: Serve was certainly not yet parked on its quit channel)
	EarlySubs int `json:"subs_at_early_stop"`
	WantSubs  int `json:"subs_wanted"`
	// reply-less messages published (and double-flushed) before Stop
	NoReplyPublished int `json:"replyless_published,omitempty"`
	// link blip: applied (connection seen RECONNECTING before the gate was
	// opened), status of the server's connection at the instant Serve
	// returned, reconnects counted by the client, attempts the relay refused
	BlipApplied    bool   `json:"link_blip_applied,omitempty"`
	BlipSkipped    string `json:"link_blip_skipped,omitempty"`
	BlipAtServeRet string `json:"conn_status_at_serve_return,omitempty"`
	BlipReconnects int    `json:"conn_reconnects,omitempty"`
	BlipTurnedAway int    `json:"relay_attempts_refused_while_down,omitempty"`
}

type shutdownKey struct{}

const (
	classPre    = 1 // double-flushed before Stop was called: must be processed exactly once
	classDuring = 2 // published while Stop may be running: at most once
	classAfter  = 3 // published after Stop returned: never
)

// recProc is the recording FProcessor.
type recProc struct {
	mu      sync.Mutex
	calls   map[uint64]int
	entered int64
	exited  int64
	errs    []string
	hdrErrs int // requests whose frugal header could not be read (expected for the malformed ones)
	dur     string
	seed    int64
	gate    chan struct{}
	onS     func()        // processor-initiated Stop (kind 2 request), may be nil
	post    time.Duration // spent after the gate
}

func (p *recProc) AddMiddleware(frugal.ServiceMiddleware)    {}
func (p *recProc) Annotations() map[string]map[string]string { return nil }

func (p *recProc) fail(s string) {
	p.mu.Lock()
	if len(p.errs) < 8 {
		p.errs = append(p.errs, s)
	}
	p.mu.Unlock()
}

func (p *recProc) Process(in, out *frugal.FProtocol) error {
	ctx, err := in.ReadRequestHeader()
	if err != nil {
		p.mu.Lock()
		p.hdrErrs++
		p.mu.Unlock()
		return err
	}
	var buf [9]byte
	if _, err := io.ReadFull(in.Transport(), buf[:]); err != nil {
		p.fail("payload: " + err.Error())
		return err
	}
	id := binary.BigEndian.Uint64(buf[:8])
	p.mu.Lock()
	p.calls[id]++
	p.entered++
	p.mu.Unlock()
	switch p.dur {
	case "1ms":
		time.Sleep(time.Millisecond)
	case "5ms":
		time.Sleep(5 * time.Millisecond)
	case "20ms":
		time.Sleep(20 * time.Millisecond)
	case "prng":
		h := uint64(p.seed)*0x9E3779B97F4A7C15 ^ id*0xC2B2AE3D27D4EB4F
		h ^= h >> 29
		time.Sleep(time.Duration(h%3000) * time.Microsecond)
	case "gate":
		if buf[8] != 2 { // the shutdown request itself never waits for the gate (the gate opens when Stop is called)
			<-p.gate
			if p.post > 0 {
				time.Sleep(p.post)
			}
		}
	}
	if buf[8] == 3 { // a request the processor fails
		p.mu.Lock()
		p.exited++
		p.mu.Unlock()
		return errors.New("c20: processor error")
	}
	if buf[8] == 2 && p.onS != nil {
		p.onS() // "shutdown" request: the processor stops the server from the worker goroutine
	}
	if buf[8] != 1 { // two-way
		if err := out.WriteResponseHeader(ctx); err != nil {
			p.fail("WriteResponseHeader: " + err.Error())
			return err
		}
		if _, err := out.Transport().Write(buf[:8]); err != nil {
			p.fail("reply write: " + err.Error())
			return err
		}
		out.Flush(context.Background())
	}
	p.mu.Lock()
	p.exited++
	p.mu.Unlock()
	return nil
}

type scen struct {
	c     Config
	start time.Time

	received, started, finished atomic.Int64
	published                   atomic.Int64
	proc                        *recProc

	tlMu     sync.Mutex
	timeline []string

	res *Result

	// for the watchdog path
	serveEntered, stopEntered atomic.Bool
	stopReturned              atomic.Bool
	afterIDs                  []uint64
	afterFlushed              bool
}

// The goroutines that call Serve and Stop run through these named functions so
// that the dump classifier recognises them even before they have a frame in
// nats_server.go.
//
//go:noinline
func c20ServeGoroutine(f func()) { f() }

//go:noinline
func c20StopGoroutine(f func()) { f() }

// lateCheck: requests published (and double-flushed) after Stop had returned
// must never be processed - independent of whether Serve ever returns.
func (s *scen) lateCheck() {
	if !s.afterFlushed {
		return
	}
	var late []uint64
	s.proc.mu.Lock()
	for _, id := range s.afterIDs {
		if s.proc.calls[id] > 0 {
			late = append(late, id)
		}
	}
	s.proc.mu.Unlock()
	if len(late) == 0 {
		return
	}
	n := len(late)
	if len(late) > 24 {
		late = late[:24]
	}
	s.tlMu.Lock()
	tl := append([]string(nil), s.timeline...)
	s.tlMu.Unlock()
	s.violation("C20:processed-after-stop-returned", fmt.Sprintf("%d requests published after Stop had returned were processed", n),
		map[string]interface{}{"ids": late, "counters": map[string]interface{}{"at_stop": s.res.AtStop, "at_stop_returned": s.res.AtStopRet, "now": s.snap()}, "timeline": tl})
}

func (s *scen) snap() Snap {
	s.proc.mu.Lock()
	e, x := s.proc.entered, s.proc.exited
	s.proc.mu.Unlock()
	rcv := s.received.Load()
	if s.c.PureRecv { // not observable: lower bound
		rcv = s.started.Load()
	}
	return Snap{Received: rcv, Started: s.started.Load(), Finished: s.finished.Load(), Entered: e, Exited: x}
}

func (s *scen) mark(ev string) {
	sn := s.snap()
	s.tlMu.Lock()
	if len(s.timeline) < 64 {
		s.timeline = append(s.timeline, fmt.Sprintf("+%dus %s r=%d s=%d f=%d", time.Since(s.start).Microseconds(), ev, sn.Received, sn.Started, sn.Finished))
	}
	s.tlMu.Unlock()
}

func (s *scen) progress() int64 {
	sn := s.snap()
	return sn.Received + sn.Started + sn.Finished + sn.Entered + sn.Exited + s.published.Load()
}

const baseWatchdog = 30 * time.Second

// watchdog: the no-progress period after which a scenario gives up.  While the
// handlers are gated nothing progresses by construction, so the period always
// exceeds the gate time by a wide margin.
func (s *scen) watchdog() time.Duration {
	if g := time.Duration(s.c.GateUs)*time.Microsecond + 15*time.Second; s.c.Dur == "gate" && g > baseWatchdog {
		return g
	}
	return baseWatchdog
}

// await waits for done.  It gives up only after `watchdog` without any
// progress of the boundary counters (so a slow machine never trips it while
// requests are still being worked off).
func (s *scen) await(done <-chan struct{}) bool {
	last := s.progress()
	lastT := time.Now()
	t := time.NewTicker(20 * time.Millisecond)
	defer t.Stop()
	for {
		select {
		case <-done:
			return true
		case <-t.C:
			if p := s.progress(); p != last {
				last, lastT = p, time.Now()
			} else if time.Since(lastT) > s.watchdog() {
				return false
			}
		}
	}
}

// awaitCond polls a counter condition under the same watchdog.
func (s *scen) awaitCond(cond func() bool, abort <-chan struct{}) bool {
	last := s.progress()
	lastT := time.Now()
	for !cond() {
		select {
		case <-abort:
			return false
		case <-time.After(200 * time.Microsecond):
		}
		if p := s.progress(); p != last {
			last, lastT = p, time.Now()
		} else if time.Since(lastT) > s.watchdog() {
			return false
		}
	}
	return true
}

func (s *scen) inconclusive(format string, a ...interface{}) *Result {
	s.res.Status = "inconclusive"
	s.res.Inconclusive = fmt.Sprintf(format, a...)
	s.finish()
	return s.res
}

func (s *scen) finish() {
	s.res.Final = s.snap()
	s.tlMu.Lock()
	s.res.Timeline = append([]string(nil), s.timeline...)
	s.tlMu.Unlock()
}

func (s *scen) violation(sig, what string, extra map[string]interface{}) {
	w := map[string]interface{}{"config": s.c}
	for k, v := range extra {
		w[k] = v
	}
	s.res.Violations = append(s.res.Violations, Vio{Sig: sig, What: what, Witness: w})
	s.res.Status = "violation"
}

// hung handles a watchdog expiry after Stop was called: goroutine dump,
// logical classification, and the child is asked to restart.
func (s *scen) hung(what string) *Result {
	buf := make([]byte, 32<<20)
	n := runtime.Stack(buf, true)
	dump := string(buf[:n])
	dead, why, excerpt := classifyDump(dump)
	if dead && !(s.serveEntered.Load() && s.stopEntered.Load()) {
		dead, why = false, "the goroutine calling Serve or Stop has not been scheduled yet"
	}
	s.res.Restart = true
	s.mark("watchdog: " + what)
	s.lateCheck()
	if dead {
		if s.stopReturned.Load() {
			why = "after-Stop-returned:" + why
		}
		s.violation("C20:no-return:"+why, what+": no progress for "+s.watchdog().String()+" and the goroutine dump shows every goroutine of the server parked in nats_server.go on a channel/wait operation that no live goroutine can complete", map[string]interface{}{"goroutines": excerpt, "state": why})
	}
	if len(s.res.Violations) > 0 {
		s.finish()
		s.res.Timeline = append(s.res.Timeline, "dump-classification: "+why)
		return s.res
	}
	r := s.inconclusive("%s: no progress for %s, goroutine dump does not establish a blocked-forever condition (%s)", what, s.watchdog(), why)
	r.Timeline = append(r.Timeline, excerpt)
	return r
}

// unfinishedAt: received and not finished at the instant of the snapshot.
// A message without reply subject is reported by the request-received event
// but is no request; whether it also shows up as finished is the server's
// business, so with n such messages published the difference may be 0..n.
func unfinishedAt(sn Snap, noReply int64) bool {
	d := sn.Received - sn.Finished
	return d < 0 || d > noReply || sn.Exited != sn.Entered
}

func flush(nc *nats.Conn) error { return nc.FlushTimeout(60 * time.Second) }

// tcpCut is a one-connection-at-a-time TCP relay in front of the broker; Cut
// closes the listener and every relayed connection (the fault "TCP connection
// of the server lost").
type tcpCut struct {
	ln    net.Listener
	mu    sync.Mutex
	conns []net.Conn
	dead  bool
}

func newTCPCut(target string) (*tcpCut, error) {
	ln, err := net.Listen("tcp", "127.0.0.1:0")
	if err != nil {
		return nil, err
	}
	t := &tcpCut{ln: ln}
	go func() {
		for {
			a, err := ln.Accept()
			if err != nil {
				return
			}
			b, err := net.DialTimeout("tcp", target, 10*time.Second)
			if err != nil {
				a.Close()
				continue
			}
			t.mu.Lock()
			if t.dead {
				t.mu.Unlock()
				a.Close()
				b.Close()
				return
			}
			t.conns = append(t.conns, a, b)
			t.mu.Unlock()
			go func() { io.Copy(a, b); a.Close(); b.Close() }()
			go func() { io.Copy(b, a); a.Close(); b.Close() }()
		}
	}()
	return t, nil
}

func (t *tcpCut) URL() string { return "nats://" + t.ln.Addr().String() }

func (t *tcpCut) Cut() {
	t.mu.Lock()
	t.dead = true
	cs := t.conns
	t.conns = nil
	t.mu.Unlock()
	t.ln.Close()
	for _, c := range cs {
		c.Close()
	}
}

func runScenario(ns *rig.NatsServer, c Config) (res *Result) {
	s := &scen{c: c, start: time.Now()}
	s.res = &Result{Idx: c.Idx, Config: c, Status: "ok"}
	s.proc = &recProc{calls: map[uint64]int{}, dur: c.Dur, seed: c.Seed, gate: make(chan struct{}), post: time.Duration(c.PostGateUs) * time.Microsecond}
	var gateOnce sync.Once
	openGate := func() { gateOnce.Do(func() { close(s.proc.gate) }) }
	defer openGate()
	rng := rand.New(rand.NewSource(c.Seed))

	// the fault "server connection lost": a private broker that is shut down,
	// or a TCP relay that is cut; the server's connection does not reconnect
	var loseConn func()
	if c.ConnLoss == "broker" {
		ns2, err := rig.StartNats()
		if err != nil {
			return s.inconclusive("private broker: %v", err)
		}
		defer ns2.Stop()
		ns = ns2
		loseConn = ns2.Stop
	}
	var srvConn *nats.Conn
	var err error
	var blip *blipRelay
	switch {
	case c.Blip != "":
		// the server's connection runs through a relay that can go down and
		// come back; reconnecting is allowed (the library default), with a short
		// wait between attempts
		blip, err = newBlipRelay(strings.TrimPrefix(ns.URL, "nats://"))
		if err != nil {
			return s.inconclusive("blip relay: %v", err)
		}
		defer blip.Close()
		rw := 20 * time.Millisecond
		if c.Blip == "race" { // the recovery is to fall into the drain of the backlog
			rw = time.Millisecond
		}
		srvConn, err = nats.Connect(blip.URL(), nats.MaxReconnects(-1), nats.ReconnectWait(rw), nats.ReconnectJitter(0, 0), nats.Timeout(10*time.Second))
	case c.ConnLoss != "":
		url := ns.URL
		if c.ConnLoss == "cut" {
			relay, rerr := newTCPCut(strings.TrimPrefix(ns.URL, "nats://"))
			if rerr != nil {
				return s.inconclusive("tcp relay: %v", rerr)
			}
			defer relay.Cut()
			url, loseConn = relay.URL(), relay.Cut
		}
		srvConn, err = nats.Connect(url, nats.NoReconnect(), nats.Timeout(10*time.Second))
	case c.DrainTO == "":
		srvConn, err = ns.Connect()
	case c.DrainTO == "bare": // an application that fills in a nats.Options literal: DrainTimeout stays 0
		srvConn, err = nats.Options{Url: ns.URL, AllowReconnect: true, MaxReconnect: -1, Timeout: 10 * time.Second}.Connect()
	default:
		d, perr := time.ParseDuration(c.DrainTO)
		if perr != nil {
			return s.inconclusive("bad drain timeout %q", c.DrainTO)
		}
		srvConn, err = nats.Connect(ns.URL, nats.MaxReconnects(-1), nats.Timeout(10*time.Second), nats.DrainTimeout(d))
	}
	if err != nil {
		return s.inconclusive("connect: %v", err)
	}
	defer srvConn.Close()
	pubConn, err := ns.Connect()
	if err != nil {
		return s.inconclusive("connect: %v", err)
	}
	defer pubConn.Close()
	colConn, err := ns.Connect()
	if err != nil {
		return s.inconclusive("connect: %v", err)
	}
	defer colConn.Close()

	base := fmt.Sprintf("c20.%d.%d", os.Getpid(), c.Idx)
	subjects := []string{}
	for i := 0; i < c.NSubj; i++ {
		subjects = append(subjects, fmt.Sprintf("%s.req.%d", base, i))
	}
	busy := c.Busy
	if busy <= 0 || busy > len(subjects) {
		busy = len(subjects)
	}
	replyPrefix := base + ".r."
	colSub, err := colConn.SubscribeSync(replyPrefix + "*")
	if err != nil {
		return s.inconclusive("collector subscribe: %v", err)
	}
	colSub.SetPendingLimits(-1, -1)
	if err := flush(colConn); err != nil {
		return s.inconclusive("collector flush: %v", err)
	}
	var otherMsgs atomic.Int64
	// the list handed to the builder; publishing uses the distinct subjects
	subjectList := append([]string(nil), subjects...)
	if c.DupSubj && c.QGroup {
		if c.Seed%2 == 0 {
			subjectList = append(subjectList, subjects[0])
		} else {
			subjectList = append([]string{subjects[0]}, subjectList...)
		}
	}
	const queueGroup = "c20-workers"
	wantSubs := len(subjectList)
	if c.Share {
		if _, err := srvConn.Subscribe(base+".other", func(*nats.Msg) { otherMsgs.Add(1) }); err != nil {
			return s.inconclusive("other subscribe: %v", err)
		}
		wantSubs++
	}

	var workerStop func() // set below, before any request is published
	pf := frugal.NewFProtocolFactory(thrift.NewTBinaryProtocolFactoryConf(nil))
	hwm := 5 * time.Second // builder default
	if c.HWM != "" {
		d, perr := time.ParseDuration(c.HWM)
		if perr != nil {
			return s.inconclusive("bad high watermark %q", c.HWM)
		}
		hwm = d
	}
	defStarted := frugal.NewDefaultFNatsServerOnRequestStarted(hwm)
	builder := frugal.NewFNatsServerBuilder(srvConn, s.proc, pf, subjectList).
		WithWorkerCount(uint(c.W)).
		WithQueueLength(uint(c.Q)).
		WithRequestStartedEventHandler(func(props map[interface{}]interface{}) {
			defStarted(props) // what the builder would install
			s.started.Add(1)
			if c.StopFrom == "started" && props[shutdownKey{}] == true {
				workerStop()
			}
		}).
		WithRequestFinishedEventHandler(func(props map[interface{}]interface{}) {
			s.finished.Add(1)
			if c.StopFrom == "finished" && props[shutdownKey{}] == true {
				workerStop()
			}
		})
	if c.HWM != "" {
		builder = builder.WithHighWatermark(hwm)
	}
	if c.QGroup {
		builder = builder.WithQueueGroup(queueGroup)
	}
	if !c.PureRecv {
		builder = builder.WithRequestReceivedEventHandler(func(props map[interface{}]interface{}) {
			frugal.DefaultFNatsServerOnRequestReceived(props) // the library's default (time stamp), then count
			// one busy subject => one subscription with traffic => callbacks in
			// publication order: the (K1+1)-th is the shutdown request S
			if n := s.received.Add(1); c.StopFrom != "" && n == int64(c.K1+1) {
				props[shutdownKey{}] = true
			}
		})
	}
	server := builder.Build()
	if c.StopFrom == "processor" {
		s.proc.onS = func() { workerStop() }
	}

	// ---- request plan -------------------------------------------------
	class := map[uint64]int{}
	oneway := map[uint64]bool{}
	nextID := uint64(0)
	newID := func(cl int) uint64 {
		nextID++
		class[nextID] = cl
		if c.Oneway && nextID%5 == 4 {
			oneway[nextID] = true
		}
		return nextID
	}
	var pre, during, after []uint64
	for i := 0; i < c.K; i++ {
		pre = append(pre, newID(classPre))
	}
	// publication order of the "received before Stop" requests; with
	// StopFrom the shutdown request S sits after K1 of them
	preSeq := pre
	shutdownID := uint64(0)
	if c.StopFrom != "" {
		shutdownID = newID(classPre)
		delete(oneway, shutdownID)
		k1 := imin(c.K1, len(pre))
		preSeq = append(append(append([]uint64(nil), pre[:k1]...), shutdownID), pre[k1:]...)
	}
	// failing requests interleaved into the first half of the stream
	const badBase = uint64(1) << 40
	badData := map[uint64][]byte{}
	procErr := map[uint64]bool{} // well-formed, but the processor fails them: no reply to expect
	badHeaders := 0
	if c.Bad > 0 && c.Early == "" && c.StopFrom == "" {
		for i := 0; i < c.Bad; i++ {
			item := badBase + uint64(i)
			switch rng.Intn(5) {
			case 0:
				badData[item] = []byte{}
			case 1:
				badData[item] = []byte{0, 0}
			case 2: // wrong header version byte
				f := wire.BuildFrame([]wire.Pair{{Name: "_opid", Value: "1"}}, []byte{0, 0, 0, 0, 0, 0, 0, 0, 0})
				f[4] = 1
				badData[item] = f
				badHeaders++
			case 3: // header block announces more bytes than the frame carries
				badData[item] = []byte{0, 0, 0, 9, 0, 0, 0, 0, 100, 0, 0, 0, 4}
				badHeaders++
			default:
				item = newID(classPre)
				delete(oneway, item)
				procErr[item] = true
			}
			pos := rng.Intn(len(preSeq)/2 + 1)
			preSeq = append(preSeq[:pos:pos], append([]uint64{item}, preSeq[pos:]...)...)
		}
	}
	s.res.BadPublished = len(badData) + len(procErr)
	// messages without a reply subject, anywhere in the stream (first, last,
	// in between): well-formed one-way frames published with a plain Publish
	const noReplyBase = uint64(1) << 41
	noReply := map[uint64]bool{}
	if c.NoReply > 0 && c.Early == "" && c.StopFrom == "" {
		for i := 0; i < c.NoReply; i++ {
			item := noReplyBase + uint64(i)
			noReply[item] = true
			pos := rng.Intn(len(preSeq) + 1)
			preSeq = append(preSeq[:pos:pos], append([]uint64{item}, preSeq[pos:]...)...)
		}
	}
	nNoReply := int64(len(noReply))
	s.res.NoReplyPublished = len(noReply)
	rest := c.B - c.K
	nDuring, nAfter := 0, 0
	switch c.Rest {
	case "concurrent":
		nDuring = rest
	case "after":
		nAfter = rest
	default:
		nDuring = (rest + 1) / 2
		nAfter = rest - nDuring
	}
	for i := 0; i < nDuring; i++ {
		during = append(during, newID(classDuring))
	}
	for i := 0; i < nAfter+1; i++ { // +1: every scenario probes "after Stop returned"
		after = append(after, newID(classAfter))
	}
	s.res.Requests, s.res.Pre, s.res.During, s.res.After = len(class), len(preSeq)-len(badData)-len(noReply), len(during), len(after)
	duringFlushEvery := 1 + rng.Intn(4)
	var pubErrMu sync.Mutex
	var pubErr error
	publish := func(id uint64) {
		if data, bad := badData[id]; bad {
			// malformed request with a reply subject (outside the collector's wildcard)
			if err := pubConn.PublishRequest(subjects[int(id)%busy], fmt.Sprintf("%s.b.%d", base, id-badBase), data); err != nil {
				pubErrMu.Lock()
				pubErr = err
				pubErrMu.Unlock()
			}
			s.published.Add(1)
			return
		}
		payload := make([]byte, 9)
		binary.BigEndian.PutUint64(payload, id)
		if noReply[id] {
			// no reply subject: a plain Publish on a service subject
			payload[8] = 1
			frame := wire.BuildFrame([]wire.Pair{{Name: "_opid", Value: strconv.FormatUint(id, 10)}, {Name: "_cid", Value: "c20-noreply-" + strconv.FormatUint(id-noReplyBase, 10)}}, payload)
			if err := pubConn.Publish(subjects[int(id)%busy], frame); err != nil {
				pubErrMu.Lock()
				pubErr = err
				pubErrMu.Unlock()
			}
			s.published.Add(1)
			return
		}
		if oneway[id] {
			payload[8] = 1
		}
		if id == shutdownID {
			payload[8] = 2
		}
		if procErr[id] {
			payload[8] = 3
		}
		frame := wire.BuildFrame([]wire.Pair{{Name: "_opid", Value: strconv.FormatUint(id, 10)}, {Name: "_cid", Value: "c20-" + strconv.FormatUint(id, 10)}}, payload)
		err := pubConn.PublishRequest(subjects[int(id)%busy], replyPrefix+strconv.FormatUint(id, 10), frame)
		if err == nil && c.Share && id%4 == 0 {
			err = pubConn.Publish(base+".other", []byte("x"))
		}
		if err != nil {
			pubErrMu.Lock()
			pubErr = err
			pubErrMu.Unlock()
		}
		s.published.Add(1)
	}
	// "received before Stop": the publisher's Flush proves the broker routed
	// the message into the server connection's outbound queue; the Flush on
	// the server's own connection proves its client has read it (the PONG is
	// behind the MSG on that connection).
	dflush := func() error {
		if err := flush(pubConn); err != nil {
			return err
		}
		if c.CloseConn && srvConn.IsClosed() { // closed by the caller after Serve returned: it reads nothing any more
			return nil
		}
		return flush(srvConn)
	}

	// ---- goroutines that wait for the Stop call (created before Serve is
	// launched so that an early Stop is not delayed by them) ---------------
	stopCalled := make(chan struct{})
	stopDone := make(chan struct{})
	duringDone := make(chan struct{})
	var stopErr error
	var stopSnap Snap
	var stopRetAt time.Time
	go func() { // requests racing Stop
		<-stopCalled
		for i, id := range during {
			publish(id)
			if (i+1)%duringFlushEvery == 0 {
				pubConn.Flush()
			}
		}
		close(duringDone)
	}()
	// link blip: the main flow opens the gate itself once the server's
	// connection is RECONNECTING.  That happens after Stop returned; so that
	// the handler duration never DEPENDS on Stop's return, a fallback opens
	// the gate blipFallback after Stop was called unless the main flow has
	// taken the gate over by then (then the blip is not applied at all: a
	// link cut under replies that are on their way to the socket decides
	// nothing).
	const blipFallback = 10 * time.Second
	var blipMu sync.Mutex
	blipOwned, gateFellBack := false, false
	scenarioOver := make(chan struct{})
	defer close(scenarioOver)
	go func() { // finite handler duration in gate mode: released after Stop was CALLED, never depends on its return
		<-stopCalled
		if c.Blip != "" {
			t := time.NewTimer(blipFallback)
			defer t.Stop()
			select {
			case <-t.C:
			case <-scenarioOver:
				return
			}
			blipMu.Lock()
			if !blipOwned {
				gateFellBack = true
				openGate()
			}
			blipMu.Unlock()
			return
		}
		if c.LongDrain {
			// the gate time counts from the instant the goroutine that calls
			// Stop is running (not from the decision to call it)
			for !s.stopEntered.Load() {
				select {
				case <-scenarioOver:
					return
				case <-time.After(200 * time.Microsecond):
				}
			}
		}
		if c.GateUs > 0 {
			t := time.NewTimer(time.Duration(c.GateUs) * time.Microsecond)
			defer t.Stop()
			select {
			case <-t.C:
			case <-scenarioOver:
				return
			}
		}
		openGate()
	}()
	s.res.EarlySubs, s.res.WantSubs = -1, wantSubs
	callStop := func() {
		if c.Early != "" {
			s.res.EarlySubs = srvConn.NumSubscriptions()
		}
		s.stopEntered.Store(true)
		stopErr = server.Stop()
		s.stopReturned.Store(true)
		stopSnap = s.snap()
		stopRetAt = time.Now()
		s.mark("Stop returned")
		close(stopDone)
	}

	var stopAt time.Time
	// Stop from inside the request stream: the worker goroutine that handles
	// the shutdown request S waits until the harness has double-flushed all
	// K+1 requests (so that they are "received before Stop was called"), then
	// calls Stop itself.
	armed := make(chan struct{})
	var workerStopOnce sync.Once
	workerStop = func() {
		workerStopOnce.Do(func() {
			<-armed
			s.res.AtStop = s.snap()
			s.res.QueueFull = nNoReply == 0 && s.res.AtStop.Received-s.res.AtStop.Started >= int64(c.Q)
			s.mark("Stop called on a worker goroutine (" + c.StopFrom + ")")
			stopAt = time.Now()
			close(stopCalled)
			callStop()
		})
	}

	// ---- Serve ------------------------------------------------------------
	serveDone := make(chan struct{})
	var serveErr error
	var serveSnap Snap
	var serveAt time.Time
	serveCalls := map[uint64]int{} // processor invocations per id at the instant Serve returns
	clientsBeforeClose := 0
	go c20ServeGoroutine(func() {
		s.serveEntered.Store(true)
		serveErr = server.Serve()
		serveSnap = s.snap() // the instant Serve returns
		if c.CloseConn {
			// the caller is done with the connection once Serve has returned
			// (Close writes out what was published before it)
			clientsBeforeClose = ns.S.NumClients()
			srvConn.Close()
		}
		if c.Blip != "" {
			s.res.BlipAtServeRet = srvConn.Status().String()
		}
		s.proc.mu.Lock()
		for k, v := range s.proc.calls {
			serveCalls[k] = v
		}
		s.proc.mu.Unlock()
		serveAt = time.Now()
		s.mark("Serve returned")
		close(serveDone)
	})
	if c.Early != "" {
		// Stop at position 0 of the stream, racing the start of Serve: no wait
		// for the subscription; tiny yields so that both orders of "Serve
		// parked on its quit channel" and "Stop called" occur.
		switch c.Early {
		case "gosched":
			for i := 0; i < c.EarlyN; i++ {
				runtime.Gosched()
			}
		case "sleep":
			time.Sleep(time.Duration(c.EarlyUs) * time.Microsecond)
		}
		stopAt = time.Now()
		go c20StopGoroutine(callStop)
		close(stopCalled)
		s.mark("Stop called right after go Serve()")
	} else {
		if !s.awaitCond(func() bool { return srvConn.NumSubscriptions() >= wantSubs }, serveDone) {
			select {
			case <-serveDone:
				return s.inconclusive("Serve returned before Stop: %v", serveErr)
			default:
			}
			r := s.inconclusive("server did not subscribe")
			r.Restart = true
			return r
		}
		if err := flush(srvConn); err != nil {
			return s.inconclusive("server conn flush: %v", err)
		}
	}

	if c.Early == "" {
		// ---- phase 1: k requests received before Stop ----------------------
		switch c.Arrival {
		case "trickle":
			for _, id := range preSeq {
				publish(id)
				if err := dflush(); err != nil {
					return s.inconclusive("flush: %v", err)
				}
			}
		case "chunks":
			for i := 0; i < len(preSeq); {
				n := 1 + rng.Intn(1+len(preSeq)/3)
				for j := 0; j < n && i < len(preSeq); j++ {
					publish(preSeq[i])
					i++
				}
				if err := dflush(); err != nil {
					return s.inconclusive("flush: %v", err)
				}
			}
		default:
			for _, id := range preSeq {
				publish(id)
			}
		}
		if err := dflush(); err != nil {
			return s.inconclusive("flush: %v", err)
		}
		if c.ConnLoss != "" && !c.ConnLossFull {
			// every request has gone through the NATS callback into the work
			// queue or a worker (K <= q+w: the callback never blocks)
			want := int64(len(preSeq))
			if !s.awaitCond(func() bool { return s.received.Load() >= want }, serveDone) {
				r := s.inconclusive("requests not handed to the work queue: %+v", s.snap())
				r.Restart = true
				return r
			}
			// ... and every callback has returned (nats.go Barrier: runs after
			// the callbacks queued before it on every subscription)
			handed := make(chan struct{})
			if err := srvConn.Barrier(func() { close(handed) }); err != nil {
				return s.inconclusive("barrier: %v", err)
			}
			if !s.await(handed) {
				r := s.inconclusive("NATS callbacks did not return: %+v", s.snap())
				r.Restart = true
				return r
			}
		}
		if c.Dur == "gate" && c.K > 0 && c.StopFrom == "" {
			// handlers are parked on the gate: wait until the server is in the
			// state "all workers busy, queue full, callback blocked" (or holds
			// everything, if k is smaller than that)
			kk := c.K + len(procErr) // requests that park on the gate
			wantStarted := int64(imin(kk, c.W))
			// (reply-less messages are received and dropped by the callback: they
			// never take a queue slot, so the bound below stays reachable)
			wantReceived := int64(imin(kk+len(badData)+len(noReply), c.W+c.Q+1))
			if c.PureRecv {
				wantReceived = 0
			}
			if !s.awaitCond(func() bool { return s.started.Load() >= wantStarted && s.received.Load() >= wantReceived }, serveDone) {
				r := s.inconclusive("gate precondition (started>=%d received>=%d) not reached: %+v", wantStarted, wantReceived, s.snap())
				r.Restart = true
				return r
			}
		}
		if c.StopUs > 0 {
			time.Sleep(time.Duration(c.StopUs) * time.Microsecond)
		}
		if loseConn != nil {
			s.mark("server connection: " + c.ConnLoss)
			loseConn()
			if !s.awaitCond(srvConn.IsClosed, serveDone) {
				return s.inconclusive("server connection did not reach CLOSED after the fault")
			}
			s.mark("server connection CLOSED")
		}

		// ---- Stop ----------------------------------------------------------
		if c.StopFrom != "" {
			s.mark("all requests double-flushed, shutdown request released")
			close(armed) // S (being handled, or still queued) may call Stop now
		} else {
			s.res.AtStop = s.snap()
			s.res.QueueFull = nNoReply == 0 && s.res.AtStop.Received-s.res.AtStop.Started >= int64(c.Q)
			s.mark("Stop called")
			stopAt = time.Now()
			close(stopCalled)
			go c20StopGoroutine(callStop)
		}
	}
	if !s.await(stopDone) {
		return s.hung("Stop did not return")
	}
	s.res.AtStopRet = stopSnap
	s.res.StopMs = float64(stopRetAt.Sub(stopAt).Microseconds()) / 1000

	if c.ConnLoss != "" {
		// nothing can be published to or by the server any more: Stop (which
		// reports the NATS error) and Serve must return, and every request
		// handed to the server before Stop must have been processed exactly
		// once by the time Serve returns; replies are not judged.
		if !s.await(serveDone) {
			return s.hung("Serve did not return")
		}
		s.res.AtServeRet = serveSnap
		s.res.ServeMs = float64(serveAt.Sub(stopRetAt).Microseconds()) / 1000
		if !s.await(duringDone) {
			return s.inconclusive("publisher goroutine stuck")
		}
		if serveErr != nil {
			return s.inconclusive("Serve error %v", serveErr)
		}
		s.proc.mu.Lock()
		nerr, hdr := len(s.proc.errs), s.proc.hdrErrs
		final := map[uint64]int{}
		for k, v := range s.proc.calls {
			final[k] = v
		}
		s.proc.mu.Unlock()
		if nerr > 0 || hdr > badHeaders {
			return s.inconclusive("recording processor could not decode a request")
		}
		s.tlMu.Lock()
		tl := append([]string(nil), s.timeline...)
		s.tlMu.Unlock()
		counters := map[string]interface{}{"at_stop": s.res.AtStop, "at_stop_returned": s.res.AtStopRet, "at_serve_returned": s.res.AtServeRet, "stop_error": fmt.Sprint(stopErr)}
		var missing, dup, lateIDs []uint64
		for _, id := range preSeq {
			if _, bad := badData[id]; bad || noReply[id] {
				continue
			}
			switch n := serveCalls[id]; {
			case n == 0:
				missing = append(missing, id)
			case n > 1:
				dup = append(dup, id)
			}
			if final[id] > serveCalls[id] {
				lateIDs = append(lateIDs, id)
			}
		}
		cut := func(v []uint64) []uint64 {
			if len(v) > 24 {
				return v[:24]
			}
			return v
		}
		if len(missing) > 0 {
			s.violation("C20:conn-lost:accepted-request-not-processed-when-serve-returned", fmt.Sprintf("server connection lost before Stop: %d of %d requests that were in the work queue when Stop was called had not been processed when Serve returned (%d of them were processed later by leaked workers)", len(missing), s.res.Pre, len(lateIDs)),
				map[string]interface{}{"ids": cut(missing), "processed_after_serve_returned": cut(lateIDs), "counters": counters, "timeline": tl})
		}
		if len(dup) > 0 {
			s.violation("C20:pre-stop-request-duplicated", fmt.Sprintf("%d requests received before Stop were processed more than once", len(dup)),
				map[string]interface{}{"ids": cut(dup), "counters": counters, "timeline": tl})
		}
		if unfinishedAt(serveSnap, nNoReply) {
			s.violation("C20:finished-ne-received-at-serve-return", fmt.Sprintf("at the instant Serve returned: received=%d (incl. at most %d reply-less messages) started=%d finished=%d, processor entered=%d exited=%d", serveSnap.Received, nNoReply, serveSnap.Started, serveSnap.Finished, serveSnap.Entered, serveSnap.Exited),
				map[string]interface{}{"counters": counters, "timeline": tl})
		}
		s.finish()
		return s.res
	}

	// ---- phase 3: requests arriving after Stop has returned -------------
	s.afterIDs = after
	for _, id := range after {
		publish(id)
	}
	// sentinel round trips: the broker has routed them (publisher PONG), and
	// whatever it routed to the server's connection has been read by the
	// server's client (server-connection PONG)
	if err := dflush(); err != nil {
		return s.inconclusive("flush after Stop: %v", err)
	}
	s.afterFlushed = true
	s.mark("after-Stop requests flushed")

	// ---- link blip while the accepted requests are being worked off -------
	if blip != nil {
		blipMu.Lock()
		own := !gateFellBack
		blipOwned = own
		blipMu.Unlock()
		switch {
		case !own:
			s.res.BlipSkipped = "Stop took longer than " + blipFallback.String() + ": the gate was opened by the fallback"
		default:
			// the subscriptions Stop drained have left the client's table (nats.go
			// removes a drained subscription on a goroutine of its own, and would
			// re-SUBSCRIBE one that is still listed when the link comes back)
			left := 0
			if c.Share {
				left = 1
			}
			if !s.awaitCond(func() bool { return srvConn.NumSubscriptions() <= left }, nil) {
				s.res.BlipSkipped = fmt.Sprintf("%d subscriptions still listed by the server's NATS client after Stop returned", srvConn.NumSubscriptions())
				break
			}
			// nothing of the server is on its way to the socket: Stop's round
			// trips are over, every accepted request is parked on the gate
			blip.Down()
			s.mark("server link down")
			if !s.awaitCond(func() bool { return srvConn.Status() == nats.RECONNECTING }, nil) {
				st := srvConn.Status()
				blip.Up()
				openGate()
				r := s.inconclusive("server connection did not report RECONNECTING after its link went down (status %v)", st)
				r.Restart = true
				return r
			}
			s.res.BlipApplied = true
			s.mark("server connection RECONNECTING, gate opened")
		}
		if s.res.BlipSkipped != "" {
			s.mark("link blip not applied: " + s.res.BlipSkipped)
		}
		openGate()
		if s.res.BlipApplied && c.Blip == "race" {
			if c.BlipUs > 0 {
				time.Sleep(time.Duration(c.BlipUs) * time.Microsecond)
			}
			blip.Up()
			s.mark("server link up")
		}
	}

	if !s.await(serveDone) {
		return s.hung("Serve did not return")
	}
	s.res.AtServeRet = serveSnap
	s.res.ServeMs = float64(serveAt.Sub(stopRetAt).Microseconds()) / 1000
	if !s.await(duringDone) {
		r := s.inconclusive("publisher goroutine stuck")
		r.Restart = true
		return r
	}
	if s.res.BlipApplied {
		// the link comes back (if it has not yet); replies are judged once the
		// connection has recovered: status CONNECTED is set after the client
		// has written its reconnect buffer to the new socket, the Flush round
		// trip below then orders everything before the collector's Flush
		blip.Up()
		if c.Blip != "race" {
			s.mark("server link up")
		}
		if !s.awaitCond(func() bool { return srvConn.Status() == nats.CONNECTED }, nil) {
			r := s.inconclusive("server connection did not recover after its link came back (status %v, %d attempts refused by the relay)", srvConn.Status(), blip.turnedAway.Load())
			r.Restart = true
			return r
		}
		s.res.BlipReconnects = int(srvConn.Stats().Reconnects)
		s.res.BlipTurnedAway = int(blip.turnedAway.Load())
		s.mark("server connection CONNECTED again")
	}

	// ---- collect replies: one Flush round trip on each connection -------
	if c.CloseConn {
		// the server's connection was closed right after Serve returned: Close
		// wrote out everything published before it; the broker has routed all
		// of it once it has dropped that client (it reads a connection in order
		// and sees the end of the stream last)
		if !s.awaitCond(func() bool { return ns.S.NumClients() < clientsBeforeClose }, nil) {
			return s.inconclusive("broker did not drop the server's closed connection (%d clients before Close, %d now)", clientsBeforeClose, ns.S.NumClients())
		}
		s.mark("server connection closed by the caller, broker dropped it")
	} else if err := flush(srvConn); err != nil {
		return s.inconclusive("server conn flush after Serve: %v", err)
	}
	if err := flush(colConn); err != nil {
		return s.inconclusive("collector flush: %v", err)
	}
	replies := map[uint64]int{}
	badReply := ""
	for {
		n, _, err := colSub.Pending()
		if err != nil {
			return s.inconclusive("collector pending: %v", err)
		}
		if n == 0 {
			break
		}
		m, err := colSub.NextMsg(60 * time.Second)
		if err != nil {
			return s.inconclusive("collector next: %v", err)
		}
		sid, _ := strconv.ParseUint(strings.TrimPrefix(m.Subject, replyPrefix), 10, 64)
		replies[sid]++
		s.res.Replies++
		hdr, payload, perr := wire.ParseFrame(m.Data)
		if badReply == "" {
			switch {
			case perr != nil:
				badReply = fmt.Sprintf("reply on %s is not a frame: %v", m.Subject, perr)
			case len(payload) != 8 || binary.BigEndian.Uint64(payload) != sid:
				badReply = fmt.Sprintf("reply on %s carries payload %x", m.Subject, payload)
			case hdr["_opid"] != strconv.FormatUint(sid, 10):
				badReply = fmt.Sprintf("reply on %s carries _opid %q", m.Subject, hdr["_opid"])
			}
		}
	}
	s.mark("replies collected")
	s.res.OtherMsgs = otherMsgs.Load()

	// ---- late requests: after Stop AND Serve have returned ----------------
	// The stopped server must take nothing off NATS any more.  With a queue
	// group a probe member (subscribed now, on the collector's connection)
	// must get every late request: the broker hands each to exactly one
	// member, so a missing one went to a subscription the server left behind.
	// everything published so far (the publisher racing Stop may have left
	// requests in its buffer) is routed before the probe subscribes
	if err := flush(pubConn); err != nil {
		return s.inconclusive("publisher flush: %v", err)
	}
	var probes []*nats.Subscription
	if c.QGroup {
		for _, subj := range subjects[:busy] {
			ps, err := colConn.QueueSubscribeSync(subj, queueGroup)
			if err != nil {
				return s.inconclusive("probe subscribe: %v", err)
			}
			ps.SetPendingLimits(-1, -1)
			probes = append(probes, ps)
		}
		if err := flush(colConn); err != nil {
			return s.inconclusive("probe flush: %v", err)
		}
	}
	var lateIDs []uint64
	for i, n := 0, 2+rng.Intn(6); i < n; i++ {
		lateIDs = append(lateIDs, newID(classAfter))
	}
	s.res.Late = len(lateIDs)
	s.res.Requests += len(lateIDs)
	for _, id := range lateIDs {
		publish(id)
	}
	if err := dflush(); err != nil { // routed by the broker; read by the server's client if routed to it
		return s.inconclusive("flush of late requests: %v", err)
	}
	if err := flush(colConn); err != nil {
		return s.inconclusive("probe flush: %v", err)
	}
	// whatever the server's client got has been through its callback
	lateBarrier := make(chan struct{})
	if c.CloseConn { // a closed connection delivers nothing
		close(lateBarrier)
	} else if err := srvConn.Barrier(func() { close(lateBarrier) }); err != nil {
		return s.inconclusive("barrier after late requests: %v", err)
	}
	if !s.await(lateBarrier) {
		r := s.inconclusive("server connection callbacks did not finish after the late requests")
		r.Restart = true
		return r
	}
	isLate := map[uint64]bool{}
	for _, id := range lateIDs {
		isLate[id] = true
	}
	for _, ps := range probes {
		for {
			n, _, err := ps.Pending()
			if err != nil {
				return s.inconclusive("probe pending: %v", err)
			}
			if n == 0 {
				break
			}
			m, err := ps.NextMsg(60 * time.Second)
			if err != nil {
				return s.inconclusive("probe next: %v", err)
			}
			if _, payload, perr := wire.ParseFrame(m.Data); perr == nil && len(payload) >= 8 && isLate[binary.BigEndian.Uint64(payload)] {
				delete(isLate, binary.BigEndian.Uint64(payload)) // each late request once
				s.res.LateAtProbe++
			}
		}
		ps.Unsubscribe()
	}
	lateSnap := s.snap()
	s.mark("late requests published and flushed")
	if c.QGroup && s.res.LateAtProbe != len(lateIDs) {
		s.violation("C20:late-request-taken-by-stopped-server", fmt.Sprintf("%d of %d requests published after Stop and Serve had returned did not reach the only live member of the queue group: the stopped server still holds a subscription", len(lateIDs)-s.res.LateAtProbe, len(lateIDs)),
			map[string]interface{}{"late": len(lateIDs), "seen_by_probe": s.res.LateAtProbe, "received_at_serve_return": serveSnap.Received, "received_now": lateSnap.Received, "subject_list": subjectList})
	} else if !c.PureRecv && lateSnap.Received != serveSnap.Received {
		s.violation("C20:late-request-taken-by-stopped-server", fmt.Sprintf("%d requests were taken off NATS by the server (request-received events) after Stop and Serve had returned", lateSnap.Received-serveSnap.Received),
			map[string]interface{}{"late": len(lateIDs), "received_at_serve_return": serveSnap.Received, "received_now": lateSnap.Received, "subject_list": subjectList})
	}

	// ---- oracle ----------------------------------------------------------
	pubErrMu.Lock()
	pe := pubErr
	pubErrMu.Unlock()
	if pe != nil {
		return s.inconclusive("publish error: %v", pe)
	}
	if serveErr != nil {
		return s.inconclusive("Stop error %v / Serve error %v", stopErr, serveErr)
	}
	s.proc.mu.Lock()
	calls := map[uint64]int{}
	for k, v := range s.proc.calls {
		calls[k] = v
	}
	perrs := append([]string(nil), s.proc.errs...)
	if s.proc.hdrErrs > badHeaders {
		perrs = append(perrs, fmt.Sprintf("%d unreadable headers, %d malformed headers sent", s.proc.hdrErrs, badHeaders))
	}
	s.proc.mu.Unlock()
	if len(perrs) > 0 {
		return s.inconclusive("recording processor could not decode a request: %v", perrs)
	}
	counters := map[string]interface{}{"at_stop": s.res.AtStop, "at_stop_returned": s.res.AtStopRet, "at_serve_returned": s.res.AtServeRet}
	if s.res.BlipApplied {
		counters["link_blip"] = map[string]interface{}{"conn_status_at_serve_return": s.res.BlipAtServeRet, "conn_reconnects": s.res.BlipReconnects, "relay_attempts_refused_while_down": s.res.BlipTurnedAway}
	}
	var lost, dup, unanswered, dupReply, late, twice []uint64
	for id := uint64(1); id <= nextID; id++ {
		n, r := calls[id], replies[id]
		switch class[id] {
		case classPre:
			if n == 0 {
				lost = append(lost, id)
			} else if n > 1 {
				dup = append(dup, id)
			}
			if !oneway[id] && !procErr[id] && n == 1 {
				if r == 0 {
					unanswered = append(unanswered, id)
				} else if r > 1 {
					dupReply = append(dupReply, id)
				}
			}
		case classDuring:
			if n > 1 || r > 1 {
				twice = append(twice, id)
			}
			if n > 0 {
				s.res.DuringServed++
			}
		case classAfter:
			if n > 0 || r > 0 {
				late = append(late, id)
			}
		}
	}
	ids := func(v []uint64) []uint64 {
		if len(v) > 24 {
			return v[:24]
		}
		return v
	}
	tl := func() []string {
		s.tlMu.Lock()
		defer s.tlMu.Unlock()
		return append([]string(nil), s.timeline...)
	}
	var afterServe []uint64
	for id := uint64(1); id <= nextID; id++ {
		if calls[id] > serveCalls[id] {
			afterServe = append(afterServe, id)
		}
	}
	if len(afterServe) > 0 {
		s.violation("C20:request-processed-after-serve-returned", fmt.Sprintf("%d requests were handed to the processor after Serve had returned", len(afterServe)),
			map[string]interface{}{"ids": ids(afterServe), "counters": counters, "timeline": tl()})
	}
	if len(lost) > 0 {
		s.violation("C20:pre-stop-request-lost", fmt.Sprintf("%d of %d requests that were inside the server's NATS client before Stop was called were never processed", len(lost), len(pre)),
			map[string]interface{}{"lost_ids": ids(lost), "lost": len(lost), "counters": counters, "timeline": tl()})
	}
	if len(dup) > 0 {
		s.violation("C20:pre-stop-request-duplicated", fmt.Sprintf("%d requests received before Stop were processed more than once", len(dup)),
			map[string]interface{}{"ids": ids(dup), "counters": counters, "timeline": tl()})
	}
	if len(unanswered) > 0 && s.res.BlipApplied {
		s.violation("C20:link-blip:reply-missing-after-connection-recovered", fmt.Sprintf("%d two-way requests received before Stop were processed while the server's connection was RECONNECTING (link down after Stop had returned, status at Serve's return: %s), Serve returned, the connection recovered (%d reconnect) - and their replies are not in the collector after a Flush round trip on the recovered connection and on the collector's (nats.go keeps a Publish made while RECONNECTING in its reconnect buffer and writes it out on recovery, so a reply handed to the client would be there)", len(unanswered), s.res.BlipAtServeRet, s.res.BlipReconnects),
			map[string]interface{}{"ids": ids(unanswered), "missing": len(unanswered), "counters": counters, "timeline": tl()})
	} else if len(unanswered) > 0 {
		s.violation("C20:reply-missing-at-serve-return", fmt.Sprintf("%d two-way requests received before Stop were processed but their reply had not been published when Serve returned (not in the collector after a Flush round trip on the server's and the collector's connection)", len(unanswered)),
			map[string]interface{}{"ids": ids(unanswered), "missing": len(unanswered), "counters": counters, "timeline": tl()})
	}
	if len(dupReply) > 0 {
		s.violation("C20:reply-duplicated", fmt.Sprintf("%d requests received before Stop got more than one reply", len(dupReply)),
			map[string]interface{}{"ids": ids(dupReply), "counters": counters, "timeline": tl()})
	}
	if len(twice) > 0 {
		s.violation("C20:request-processed-twice", fmt.Sprintf("%d requests published while Stop was running were processed or answered more than once", len(twice)),
			map[string]interface{}{"ids": ids(twice), "counters": counters, "timeline": tl()})
	}
	if len(late) > 0 {
		s.violation("C20:processed-after-stop-returned", fmt.Sprintf("%d requests published after Stop had returned were processed", len(late)),
			map[string]interface{}{"ids": ids(late), "counters": counters, "timeline": tl()})
	}
	if unfinishedAt(serveSnap, nNoReply) {
		s.violation("C20:finished-ne-received-at-serve-return", fmt.Sprintf("at the instant Serve returned: received=%d (incl. at most %d reply-less messages) started=%d finished=%d, processor entered=%d exited=%d", serveSnap.Received, nNoReply, serveSnap.Started, serveSnap.Finished, serveSnap.Entered, serveSnap.Exited),
			map[string]interface{}{"counters": counters, "timeline": tl()})
	}
	if badReply != "" {
		s.violation("C20:reply-mismatch", badReply, map[string]interface{}{"counters": counters})
	}
	if stopErr != nil {
		// An error from Stop is not itself against the property.  The per-id
		// facts above stand on their own (the server connection answered a
		// Flush after Serve returned, so it was healthy); without any, the
		// scenario decides nothing.
		if len(s.res.Violations) == 0 {
			return s.inconclusive("Stop returned an error: %v", stopErr)
		}
		for i := range s.res.Violations {
			if w, ok := s.res.Violations[i].Witness.(map[string]interface{}); ok {
				w["stop_error"] = stopErr.Error()
			}
		}
	}
	s.finish()
	return s.res
}

// childMain runs a batch of scenarios sequentially against one embedded
// broker.  stderr: "START <idx> <config>" before each scenario (so that a
// crash in a goroutine owned by nats.go is attributable), results: one JSON
// line per scenario.  Exit 0 = batch complete, 7 = restart me for the rest.
func childMain(args []string) int {
	if len(args) < 2 {
		fmt.Fprintln(os.Stderr, "HARNESS usage: scenario-child <batch.json> <results.jsonl>")
		return 9
	}
	b, err := os.ReadFile(args[0])
	if err != nil {
		fmt.Fprintln(os.Stderr, "HARNESS", err)
		return 9
	}
	var batch []Config
	if err := json.Unmarshal(b, &batch); err != nil {
		fmt.Fprintln(os.Stderr, "HARNESS", err)
		return 9
	}
	out, err := os.OpenFile(args[1], os.O_CREATE|os.O_WRONLY|os.O_APPEND, 0o644)
	if err != nil {
		fmt.Fprintln(os.Stderr, "HARNESS", err)
		return 9
	}
	defer out.Close()
	ns, err := rig.StartNats()
	if err != nil {
		fmt.Fprintln(os.Stderr, "HARNESS broker:", err)
		return 9
	}
	defer ns.Stop()
	for _, c := range batch {
		cj, _ := json.Marshal(c)
		fmt.Fprintf(os.Stderr, "START %d %s\n", c.Idx, cj)
		r := runScenario(ns, c)
		rj, _ := json.Marshal(r)
		out.Write(append(rj, '\n'))
		out.Sync()
		fmt.Fprintf(os.Stderr, "END %d %s\n", c.Idx, r.Status)
		if r.Restart {
			return 7
		}
	}
	fmt.Fprintln(os.Stderr, "DONE")
	return 0
}
