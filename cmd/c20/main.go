package main

// C20 — NATS server shutdown drains: every request the server received before
// Stop was called is processed exactly once and answered before Serve returns,
// nothing published after Stop returned is processed, Stop and Serve return.
//
// Parent: builds the configuration sweep (pure function of seed and tier),
// runs it in child processes (this binary re-executed with the sub-command
// "scenario-child"), attributes child crashes to the last started config and
// aggregates verdicts and evidence.  The scenario itself is in scenario.go.

import (
	"bufio"
	"encoding/json"
	"fmt"
	"math/rand"
	"os"
	"os/exec"
	"path/filepath"
	"regexp"
	"runtime"
	"sort"
	"strings"
	"sync"
	"sync/atomic"
	"time"

	"verif/ev"
)

func imin(a, b int) int {
	if a < b {
		return a
	}
	return b
}

func main() {
	if len(os.Args) > 1 && os.Args[1] == "scenario-child" {
		os.Exit(childMain(os.Args[2:]))
	}
	os.Exit(runC20(ev.ArgTier(), ev.ArgRest()))
}

var (
	sweepW   = []int{1, 2, 4, 8}
	sweepQ   = []int{1, 2, 8, 64}
	sweepDur = []string{"0", "1ms", "5ms", "prng", "gate"}
	bClasses = []string{"1", "q", "q+w", "q+w+1", "2(q+w)", "10(q+w)"}
)

func burstOf(class string, w, q int) int {
	switch class {
	case "1":
		return 1
	case "q":
		return q
	case "q+w":
		return q + w
	case "q+w+1":
		return q + w + 1
	case "2(q+w)":
		return 2 * (q + w)
	}
	return 10 * (q + w)
}

// stopPositions lists the candidate positions of Stop in a burst of b: none
// received, one, half, all but one, all, and the two positions around "all
// workers busy + queue full + callback blocked".
func stopPositions(b, w, q int) []int {
	seen := map[int]bool{}
	var out []int
	for _, k := range []int{b, imin(b, q+w+1), imin(b, q+w+2), b - 1, b / 2, 1, 0, imin(b, q+w)} {
		if k >= 0 && k <= b && !seen[k] {
			seen[k] = true
			out = append(out, k)
		}
	}
	return out
}

func kClass(c Config) string {
	switch {
	case c.K == 0:
		return "none"
	case c.K == c.B && c.K > c.Q+c.W:
		return "all>q+w"
	case c.K == c.B:
		return "all"
	case c.K > c.Q+c.W:
		return ">q+w"
	default:
		return "some"
	}
}

func shapeKey(c Config) string {
	k := fmt.Sprintf("w=%d q=%d b=%s d=%s k=%s rest=%s share=%v subj=%d", c.W, c.Q, c.BClass, c.Dur, kClass(c), c.Rest, c.Share, c.NSubj)
	if c.Early != "" {
		k += " stop-at-serve-start=" + c.Early
	}
	if c.StopFrom != "" {
		k += " stop-from-worker=" + c.StopFrom
	}
	if c.DrainTO != "" {
		k += " drain-timeout=" + c.DrainTO
	}
	if c.Busy > 0 && c.Busy < c.NSubj {
		k += fmt.Sprintf(" idle-subjects=%d", c.NSubj-c.Busy)
	}
	if c.HWM != "" {
		k += " high-watermark=" + c.HWM
	}
	if c.PureRecv {
		k += " builder-received-handler"
	}
	if c.Bad > 0 && c.Early == "" && c.StopFrom == "" {
		k += " failing-requests"
		if c.Bad > c.W {
			k += ">w"
		}
	}
	if c.ConnLoss != "" {
		k += " server-conn-lost=" + c.ConnLoss
	}
	if c.QGroup {
		k += " queue-group"
		if c.DupSubj {
			k += "+duplicated-subject"
		}
	}
	if c.NoReply > 0 && c.Early == "" && c.StopFrom == "" {
		k += " reply-less-msgs"
	}
	if c.Blip != "" {
		k += " server-link-blip=" + c.Blip
	}
	if c.LongDrain {
		k += fmt.Sprintf(" backlog-handover-takes>=%ds", c.GateUs/1000000)
	}
	if c.SlowBacklog {
		k += fmt.Sprintf(" accepted-backlog-work-after-stop>=%ds", slowBacklogSecs(c))
	}
	if c.CloseConn {
		k += " conn-closed-at-serve-return"
	}
	return k
}

var (
	stopFromModes = []string{"processor", "finished", "started"}
	// connection option of the server's connection: rig default twice, a bare
	// nats.Options literal (DrainTimeout 0), small nats.DrainTimeout values
	drainTOs = []string{"", "", "bare", "1ms", "50ms"}
)

// workerStopConfig: Stop is issued from inside the request stream - by the
// processor or an event handler, i.e. on a worker goroutine - by a shutdown
// request S that has k1 requests in front of it and k-k1 behind it, all
// received before Stop is called.
//
// Domain: the drain that Stop waits for must be able to finish without the
// worker that is blocked in Stop: another worker exists (w >= 2), or (w = 1)
// everything behind S fits into the work queue and nothing else is published
// before Stop returned.  (A sole worker that calls Stop with more requests
// behind it than the queue holds cannot be drained by any Stop that waits for
// the hand-over into a bounded queue; see the probe VERIF_C20_SOLE_WORKER.)
func workerStopConfig(rng *rand.Rand, w, q int, from, dur string, share bool, rep int) Config {
	c := fill(rng, Config{W: w, Q: q, BClass: bClasses[rng.Intn(len(bClasses))], Dur: dur, Share: share, Rep: rep})
	c.NSubj = 1 + rng.Intn(3) // one subscription with traffic: the position of S in the callback order is its position in the stream
	c.Busy = 1
	c.PureRecv = false // S is identified in the request-received handler
	c.DupSubj = false  // ... of the one subscription that carries the traffic
	c.StopFrom = from
	c.NoReply = 0 // S is identified by its position among the received messages
	c.K = pickK(rng, c)
	c.K1 = rng.Intn(c.K + 1)
	if dur == "gate" { // S must get a worker while the others are parked on the gate
		c.K1 = imin(c.K1, w-1)
	}
	if w == 1 {
		if c.K-c.K1 > q {
			c.K1 = c.K - q
			if dur == "gate" {
				c.K1 = 0
				c.K = imin(c.K, q)
			}
		}
		c.Rest = "after"
	}
	return c
}

var earlyModes = []string{"nowait", "gosched", "sleep"}

// earlyConfig: Stop is called right after `go Serve()` (position 0 of the
// stream, nothing received before it), without waiting for the subscription.
func earlyConfig(rng *rand.Rand, w, q int, mode string, share bool, rep int) Config {
	c := fill(rng, Config{W: w, Q: q, BClass: bClasses[rng.Intn(len(bClasses))], Dur: sweepDur[rng.Intn(len(sweepDur))], Share: share, Rep: rep})
	if c.B > 60 {
		c.BClass, c.B = "q+w+1", q+w+1
	}
	c.K = 0
	c.NoReply = 0
	c.Early = mode
	c.EarlyN = 1 + rng.Intn(3)
	c.EarlyUs = []int{1, 5, 20, 50, 100, 200}[rng.Intn(6)]
	return c
}

// fill draws the secondary dimensions of a config.
func fill(rng *rand.Rand, c Config) Config {
	c.B = burstOf(c.BClass, c.W, c.Q)
	c.Rest = []string{"concurrent", "after", "split"}[rng.Intn(3)]
	c.NSubj = []int{1, 1, 1, 1, 2, 2, 3, 4}[rng.Intn(8)]
	c.Busy = 1 + rng.Intn(c.NSubj) // traffic on the first Busy subjects, the others stay idle
	c.HWM = []string{"", "", "1ms", "10ms", "50ms"}[rng.Intn(5)]
	c.PureRecv = rng.Intn(4) == 0
	c.Bad = []int{0, 0, 0, c.W, c.W + 1, 2 * c.W}[rng.Intn(6)] // failing requests interleaved (>= worker count)
	c.QGroup = rng.Intn(2) == 0
	c.DupSubj = c.QGroup && rng.Intn(3) == 0 // the subject list names a subject twice (one queue group)
	c.Oneway = rng.Intn(3) == 0
	c.Arrival = []string{"burst", "burst", "chunks", "trickle"}[rng.Intn(4)]
	if c.B > 200 && c.Arrival == "trickle" {
		c.Arrival = "chunks"
	}
	c.StopUs = []int{0, 0, 0, 200, 1000}[rng.Intn(5)]
	c.GateUs = []int{0, 100, 1000, 5000}[rng.Intn(4)]
	c.DrainTO = drainTOs[rng.Intn(len(drainTOs))]
	c.Seed = rng.Int63()
	c.NoReply = noReplyOf(c.Seed)
	return c
}

// noReplyOf: number of reply-less messages in the "received before Stop"
// stream, a function of the config's seed (so that this dimension does not
// shift the draws of the others): none in 10 of 16 configs, else 1, 2 or 5.
func noReplyOf(seed int64) int {
	h := uint64(seed) * 0x9E3779B97F4A7C15
	return []int{0, 0, 0, 0, 0, 0, 0, 0, 0, 0, 1, 1, 1, 2, 2, 5}[h>>60]
}

// noReplyConfig: 1-3 messages without reply subject in the stream (first,
// last, in between - drawn in the scenario), every burst class and handler
// mode, Stop at any position.
func noReplyConfig(rng *rand.Rand, w, q int, bclass, dur string, n, rep int) Config {
	c := fill(rng, Config{W: w, Q: q, BClass: bclass, Dur: dur, Share: rng.Intn(2) == 0, Rep: rep})
	c.K = pickK(rng, c)
	c.NoReply = n
	c.DrainTO = ""
	return c
}

// blipConfig: the server's link goes down after Stop returned, with k <= q+w
// accepted requests parked on the gate (none can have been answered yet), and
// recovers; nothing is published while or after Stop except the requests
// that must not be processed.
func blipConfig(rng *rand.Rand, w, q int, mode string, rep int) Config {
	c := fill(rng, Config{W: w, Q: q, BClass: "q+w", Dur: "gate", Share: rng.Intn(2) == 0, Rep: rep})
	c.K = []int{c.B, c.B, imin(c.B, q), 1 + rng.Intn(c.B)}[rng.Intn(4)]
	c.B = c.K + rng.Intn(3) // the others are published after Stop returned
	c.Rest = "after"
	c.Blip = mode
	c.BlipUs = []int{0, 100, 500, 2000}[rng.Intn(4)]
	c.GateUs = 0        // the gate is opened by the scenario once the connection is RECONNECTING
	if mode == "race" { // the backlog takes k/w x 0.2-2 ms: the recovery falls into it
		c.PostGateUs = []int{200, 1000, 2000}[rng.Intn(3)]
	}
	c.Bad, c.DrainTO, c.StopUs = 0, "", 0
	return c
}

func pickK(rng *rand.Rand, c Config) int {
	pos := stopPositions(c.B, c.W, c.Q)
	// pos[0] = all received before Stop; pos[1], pos[2] (when distinct) sit
	// on the full-queue boundary.  Favour the positions with many "must
	// process" requests.
	r := rng.Intn(100)
	switch {
	case r < 35 || len(pos) == 1:
		return pos[0]
	case r < 65 && len(pos) > 2:
		return pos[1+rng.Intn(2)]
	default:
		return pos[rng.Intn(len(pos))]
	}
}

func buildSweep(run *ev.Run) []Config {
	rng := run.Rand("c20-sweep")
	var out []Config
	add := func(c Config) {
		c.Idx = len(out)
		out = append(out, c)
	}
	type cell struct {
		w, q int
		b    string
	}
	if !run.Thorough() {
		// 16 configs: the whole b = q+w+1 column, handler modes dealt round-robin
		// from a shuffled deck (so each mode, incl. the gate, appears >= 3 times)
		di := rng.Perm(len(sweepDur))
		n := 0
		for _, w := range sweepW {
			for _, q := range sweepQ {
				c := fill(rng, Config{W: w, Q: q, BClass: "q+w+1", Dur: sweepDur[di[n%len(di)]], Share: n%2 == 0})
				c.K = pickK(rng, c)
				add(c)
				n++
			}
		}
		// 44 configs drawn without replacement from the other 80 cells
		var cells []cell
		for _, w := range sweepW {
			for _, q := range sweepQ {
				for _, b := range bClasses {
					if b != "q+w+1" {
						cells = append(cells, cell{w, q, b})
					}
				}
			}
		}
		rng.Shuffle(len(cells), func(i, j int) { cells[i], cells[j] = cells[j], cells[i] })
		for i := 0; i < 44; i++ {
			ce := cells[i]
			c := fill(rng, Config{W: ce.w, Q: ce.q, BClass: ce.b, Dur: sweepDur[rng.Intn(len(sweepDur))], Share: rng.Intn(2) == 0})
			c.K = pickK(rng, c)
			add(c)
		}
		// 16 configs: every w x q once with Stop racing the start of Serve
		off := rng.Intn(3)
		n = 0
		for _, w := range sweepW {
			for _, q := range sweepQ {
				add(earlyConfig(rng, w, q, earlyModes[(n+off)%3], rng.Intn(2) == 0, 0))
				n++
			}
		}
		// 16 configs: every w x q once with Stop issued from a worker goroutine
		off = rng.Intn(3)
		n = 0
		for _, w := range sweepW {
			for _, q := range sweepQ {
				add(workerStopConfig(rng, w, q, stopFromModes[(n+off)%3], sweepDur[(n+off)%len(sweepDur)], rng.Intn(2) == 0, 0))
				n++
			}
		}
		// 4 configs: Stop under a backlog that needs far longer to be handed to
		// the work queue than the connection's drain timeout (1 worker, short
		// queue, slow handler)
		for i, to := range []string{"bare", "1ms", "50ms", "1ms"} {
			c := fill(rng, Config{W: 1, Q: []int{1, 2}[i%2], BClass: "10(q+w)", Dur: []string{"5ms", "gate"}[i/2], Share: i%2 == 1})
			c.K = c.B
			c.DrainTO = to
			if c.Dur == "5ms" {
				c.Dur, c.BClass, c.B, c.K = "20ms", "12(q+w)", 12*(c.Q+1), 12*(c.Q+1)
			}
			add(c)
		}
		// 16 configs: every w x q once with idle subjects next to busy ones,
		// queue full and exactly as many requests parked in the NATS client as
		// there are idle subjects
		n = 0
		for _, w := range sweepW {
			for _, q := range sweepQ {
				nsubj := 2 + n%3
				idle := 1 + rng.Intn(nsubj-1)
				if n%2 == 0 {
					nsubj, idle = 2, 1
				}
				add(idleSubjConfig(rng, w, q, nsubj, idle, []string{"gate", "gate", "gate", "20ms"}[n%4], n%5 == 0, 0))
				n++
			}
		}
		// 8 configs: queue wait beyond a small high watermark
		for i := 0; i < 8; i++ {
			add(watermarkConfig(rng, []int{1, 2}[i%2], []int{2, 8, 8, 64}[i%4], []string{"1ms", "10ms", "50ms", "1ms"}[i%4], []string{"5ms", "5ms", "20ms", "1ms"}[i%4], i >= 6, 0))
		}
		// 1 config: handlers gated for 6.5 s after Stop (costs 6.5 s of wall, in parallel with the rest)
		add(longGateConfig(rng, 1, 2, 0))
		// 12 configs: queue length 0 and 1 x workers 1, 2, 4, two bursts each
		n = 0
		for _, w := range []int{1, 2, 4} {
			for _, q := range []int{0, 1} {
				for _, bc := range []string{"q+w+1", "2(q+w)"} {
					add(shortQueueConfig(rng, w, q, bc, sweepDur[n%len(sweepDur)], 0))
					n++
				}
			}
		}
		// 16 configs: every w x q once with a queue group and a duplicated subject
		n = 0
		for _, w := range sweepW {
			for _, q := range sweepQ {
				add(dupSubjConfig(rng, w, q, bClasses[n%len(bClasses)], sweepDur[n%len(sweepDur)], 0))
				n++
			}
		}
		// 16 configs: every w x q once with >= w failing requests in the stream
		n = 0
		for _, w := range sweepW {
			for _, q := range sweepQ {
				bc := []string{"q+w+1", "q", "2(q+w)", "q+w"}[n%4]
				d := []string{"gate", "1ms", "5ms", "0"}[n%4]
				add(badReqConfig(rng, w, q, bc, d, []int{w, w + 1, 2 * w}[n%3], 0))
				n++
			}
		}
		// 16 configs: every w x q once with the server's connection lost right before Stop
		n = 0
		for _, w := range sweepW {
			for _, q := range sweepQ {
				add(connLossConfig(rng, w, q, []string{"cut", "broker"}[n%2], []string{"5ms", "gate", "20ms", "1ms"}[(n/2)%4], 0))
				n++
			}
		}
		// 16 configs: every w x q once with 1-3 reply-less messages in the stream
		n = 0
		for _, w := range sweepW {
			for _, q := range sweepQ {
				add(noReplyConfig(rng, w, q, bClasses[(n+2)%len(bClasses)], sweepDur[(n+1)%len(sweepDur)], 1+n%3, 0))
				n++
			}
		}
		// 16 configs: every w x q once with a link blip of the server's
		// connection while the accepted requests are worked off
		n = 0
		for _, w := range sweepW {
			for _, q := range sweepQ {
				add(blipConfig(rng, w, q, []string{"hold", "hold", "race", "hold"}[n%4], 0))
				n++
			}
		}
		// 1 config: the hand-over of the backlog parked in the NATS client takes
		// 11 s after Stop (runs in a child process of its own, concurrently
		// with the rest of the sweep)
		add(longDrainConfig(rng, 1, 1, 2, 11, 0))
		// 2 configs: the backlog that is in the work queue / with the workers at
		// Stop takes 14 s / 13 s to work off after the drain (Serve's wait for
		// its workers); in one the caller closes the connection as soon as
		// Serve has returned (each in a child process of its own, concurrently
		// with the rest of the sweep)
		add(slowBacklogConfig(rng, 1, 8, 4, 3500, true, 0))
		add(slowBacklogConfig(rng, 2, 2, 4, 6500, false, 1))
		out = append(out, soleWorkerProbe(rng, len(out))...)
		out = append(out, connLossFullProbe(rng, len(out))...)
		return out
	}
	// thorough: full grid x handler mode x sharing x (all positions for tiny
	// bursts, else "all received" + 2 drawn positions)
	for _, w := range sweepW {
		for _, q := range sweepQ {
			for _, b := range bClasses {
				for _, d := range sweepDur {
					for _, share := range []bool{false, true} {
						base := Config{W: w, Q: q, BClass: b, Dur: d, Share: share}
						bb := burstOf(b, w, q)
						pos := stopPositions(bb, w, q)
						var ks []int
						if bb <= 2 {
							ks = pos
						} else {
							ks = append(ks, pos[0])
							rest := append([]int(nil), pos[1:]...)
							rng.Shuffle(len(rest), func(i, j int) { rest[i], rest[j] = rest[j], rest[i] })
							ks = append(ks, rest[:imin(2, len(rest))]...)
						}
						for _, k := range ks {
							c := fill(rng, base)
							c.K = k
							add(c)
						}
					}
				}
			}
		}
	}
	// 9 further repetitions of the b = q+w+1 column (10 in total), Stop on or
	// next to the "queue full, callback blocked" position
	for rep := 1; rep <= 9; rep++ {
		for _, w := range sweepW {
			for _, q := range sweepQ {
				for _, d := range sweepDur {
					for _, share := range []bool{false, true} {
						c := fill(rng, Config{W: w, Q: q, BClass: "q+w+1", Dur: d, Share: share, Rep: rep})
						c.K = []int{c.B, c.B, c.B - 1, c.B - 2}[rng.Intn(4)]
						add(c)
					}
				}
			}
		}
	}
	// Stop racing the start of Serve: every w x q x mode x sharing, 5 repetitions
	for rep := 0; rep < 5; rep++ {
		for _, w := range sweepW {
			for _, q := range sweepQ {
				for _, m := range earlyModes {
					for _, share := range []bool{false, true} {
						add(earlyConfig(rng, w, q, m, share, rep))
					}
				}
			}
		}
	}
	// Stop issued from a worker goroutine: every w x q x caller x handler mode x sharing
	for _, w := range sweepW {
		for _, q := range sweepQ {
			for _, from := range stopFromModes {
				for _, d := range sweepDur {
					for _, share := range []bool{false, true} {
						add(workerStopConfig(rng, w, q, from, d, share, 0))
					}
				}
			}
		}
	}
	// Stop under a backlog that outlasts the connection's drain timeout
	for rep := 0; rep < 4; rep++ {
		for _, q := range []int{1, 2, 8} {
			for _, to := range []string{"bare", "1ms", "50ms", "250ms"} {
				for _, d := range []string{"20ms", "gate"} {
					c := fill(rng, Config{W: 1 + rep%2, Q: q, BClass: "q+w+1", Dur: d, Share: rep >= 2, Rep: rep})
					c.BClass, c.B = "backlog", q+c.W+12
					c.K = c.B
					c.DrainTO = to
					add(c)
				}
			}
		}
	}
	// idle subjects next to busy ones, full queue at Stop
	for rep := 0; rep < 3; rep++ {
		for _, w := range sweepW {
			for _, q := range sweepQ {
				for nsubj := 2; nsubj <= 4; nsubj++ {
					for idle := 1; idle < nsubj; idle++ {
						add(idleSubjConfig(rng, w, q, nsubj, idle, []string{"gate", "gate", "20ms"}[rep], rep == 1, rep))
					}
				}
			}
		}
	}
	// queue wait beyond a small high watermark
	for _, w := range sweepW {
		for _, q := range sweepQ {
			for _, h := range []string{"1ms", "10ms", "50ms"} {
				for _, d := range []string{"1ms", "5ms", "20ms"} {
					if q == 64 && d == "20ms" {
						continue
					}
					add(watermarkConfig(rng, w, q, h, d, rng.Intn(3) == 0, 0))
				}
			}
		}
	}
	// handlers gated for 6.5 s after Stop
	for i, wq := range [][2]int{{1, 1}, {1, 8}, {2, 2}, {4, 0}} {
		add(longGateConfig(rng, wq[0], wq[1], i))
	}
	// queue length 0 and 1
	for _, w := range []int{1, 2, 4, 8} {
		for _, q := range []int{0, 1} {
			for _, bc := range bClasses {
				for _, d := range sweepDur {
					add(shortQueueConfig(rng, w, q, bc, d, 0))
				}
			}
		}
	}
	// queue group with a duplicated subject
	for _, w := range sweepW {
		for _, q := range sweepQ {
			for _, bc := range bClasses {
				for _, d := range sweepDur {
					add(dupSubjConfig(rng, w, q, bc, d, 0))
				}
			}
		}
	}
	// >= w failing requests in the stream
	for _, w := range sweepW {
		for _, q := range sweepQ {
			for _, bc := range []string{"q", "q+w", "q+w+1", "2(q+w)"} {
				for _, d := range []string{"0", "1ms", "5ms", "gate"} {
					add(badReqConfig(rng, w, q, bc, d, []int{w, w + 1, 2 * w}[rng.Intn(3)], 0))
				}
			}
		}
	}
	// the server's connection lost right before Stop
	for _, w := range sweepW {
		for _, q := range sweepQ {
			for _, how := range []string{"cut", "broker"} {
				for _, d := range []string{"1ms", "5ms", "20ms", "gate"} {
					add(connLossConfig(rng, w, q, how, d, 0))
				}
			}
		}
	}
	// reply-less messages in the stream
	for _, w := range sweepW {
		for _, q := range sweepQ {
			for _, bc := range bClasses {
				for _, d := range sweepDur {
					add(noReplyConfig(rng, w, q, bc, d, 1+rng.Intn(3), 0))
				}
			}
		}
	}
	// link blip of the server's connection while the accepted requests are worked off
	for rep := 0; rep < 3; rep++ {
		for _, w := range sweepW {
			for _, q := range sweepQ {
				for _, mode := range []string{"hold", "race"} {
					add(blipConfig(rng, w, q, mode, rep))
				}
			}
		}
	}
	// hand-over of the parked backlog takes 11 s, 31 s, 61 s after Stop (each in
	// a child process of its own, concurrently with the rest)
	for i, x := range [][4]int{{1, 1, 2, 11}, {2, 2, 5, 11}, {1, 2, 3, 31}, {4, 1, 1, 31}, {2, 8, 4, 61}} {
		add(longDrainConfig(rng, x[0], x[1], x[2], x[3], i))
	}
	// work left in the queue / the workers after the drain takes 13 s .. 64 s
	// (w, q, k, ms per request), with and without the caller closing the
	// connection at Serve's return
	for i, x := range [][4]int{{1, 8, 4, 3500}, {2, 2, 4, 6500}, {1, 1, 2, 8000}, {4, 64, 40, 1300}, {1, 0, 1, 13000}, {2, 8, 10, 6500}, {8, 1, 9, 16000}, {1, 2, 3, 21500}} {
		add(slowBacklogConfig(rng, x[0], x[1], x[2], x[3], i%2 == 0, i))
	}
	out = append(out, soleWorkerProbe(rng, len(out))...)
	out = append(out, connLossFullProbe(rng, len(out))...)
	return out
}

// idleSubjConfig: a server on 2..4 subjects of which `idle` get no traffic;
// Stop finds all workers busy, the queue full and exactly `idle` further
// requests inside the NATS client (parked in / queued behind the callback):
// K = w + q + idle, all received before Stop, handlers parked on the gate (or
// slow) until well after Stop was called.
func idleSubjConfig(rng *rand.Rand, w, q, nsubj, idle int, dur string, share bool, rep int) Config {
	c := fill(rng, Config{W: w, Q: q, BClass: "q+w+idle", Dur: dur, Share: share, Rep: rep})
	c.NSubj, c.Busy = nsubj, nsubj-idle
	c.B = w + q + idle
	c.K = c.B
	c.Arrival = "burst"
	c.GateUs = []int{5000, 20000}[rng.Intn(2)]
	c.DrainTO = ""
	c.NoReply = 0 // the count of requests inside the NATS client at Stop is the point here
	return c
}

// watermarkConfig: the queue wait (queue length x handler duration / workers)
// exceeds a small WithHighWatermark, with the library's default
// request-received handler in effect.
func watermarkConfig(rng *rand.Rand, w, q int, hwm, dur string, pure bool, rep int) Config {
	c := fill(rng, Config{W: w, Q: q, BClass: "2(q+w)", Dur: dur, Share: rng.Intn(2) == 0, Rep: rep})
	c.K = c.B
	c.HWM, c.PureRecv = hwm, pure
	return c
}

// dupSubjConfig: a queue group and a subject list that names the first subject
// twice; requests before Stop, racing it, after it, and late ones after Serve
// returned (the late phase is part of every scenario).
func dupSubjConfig(rng *rand.Rand, w, q int, bclass, dur string, rep int) Config {
	c := fill(rng, Config{W: w, Q: q, BClass: bclass, Dur: dur, Share: rng.Intn(2) == 0, Rep: rep})
	c.K = pickK(rng, c)
	c.QGroup, c.DupSubj = true, true
	c.DrainTO = ""
	return c
}

// shortQueueConfig: queue length 0 (direct hand-off from the NATS callback to
// a worker) and 1, workers 1, 2, 4.
func shortQueueConfig(rng *rand.Rand, w, q int, bclass, dur string, rep int) Config {
	c := fill(rng, Config{W: w, Q: q, BClass: bclass, Dur: dur, Share: rng.Intn(2) == 0, Rep: rep})
	c.K = pickK(rng, c)
	c.DrainTO = ""
	return c
}

// longGateConfig: the accepted requests (k = q+w, all in the work queue or
// with a worker) stay gated for 6.5 s after Stop was called - longer than any
// internal 5 s watermark: Serve must not return while they are unanswered.
func longGateConfig(rng *rand.Rand, w, q, rep int) Config {
	c := fill(rng, Config{W: w, Q: q, BClass: "q+w", Dur: "gate", Rep: rep})
	c.K = c.B
	c.Rest = "after"
	c.GateUs = 6500000
	c.Bad, c.DrainTO, c.HWM, c.StopUs = 0, "", "", 0
	return c
}

// longDrainConfig: drain duration as a dimension.  Burst q+w+busy+extra (busy
// = subscriptions with traffic, each of which can hold one request in a
// callback), all of it received before Stop, handlers gated until `secs`
// seconds after Stop was entered: at least `extra` requests sit inside the
// NATS client behind the callbacks that are parked on the full work queue, and
// cannot be handed over before the gate opens.  Stop must wait however long that takes and return; then Serve
// must return with every request processed once and answered.
func longDrainConfig(rng *rand.Rand, w, q, extra, secs, rep int) Config {
	c := fill(rng, Config{W: w, Q: q, BClass: "q+w+busy+parked", Dur: "gate", Share: rep%2 == 1, Rep: rep})
	c.B = w + q + c.Busy + extra
	c.K = c.B
	c.Rest = "after"
	c.Arrival = "burst"
	c.GateUs = secs * 1000000
	c.LongDrain = true
	c.Bad, c.DrainTO, c.HWM, c.StopUs, c.NoReply = 0, "", "", 0, 0
	c.PureRecv = false // "callback parked on the full queue" is observed through the received handler
	return c
}

// slowBacklogConfig: duration of the work left after the drain as a dimension.
// k <= q+w requests, all received before Stop and all in the work queue or with
// a worker when Stop is called (nothing is parked inside the NATS client: Stop
// has nothing to wait for); the gate opens 1 ms after Stop was called and every
// handler then takes `ms`: the w workers need ceil(k/w) x ms to work the
// accepted backlog off, and Serve must not return before that - however long
// it takes - with every request processed once and answered.  closeConn: the
// caller closes the connection the moment Serve returns.
func slowBacklogConfig(rng *rand.Rand, w, q, k, ms int, closeConn bool, rep int) Config {
	c := fill(rng, Config{W: w, Q: q, BClass: "k<=q+w", Dur: "gate", Rep: rep})
	c.B, c.K = k, k
	c.Rest = "after"
	c.Arrival = "burst"
	c.GateUs = 1000
	c.PostGateUs = ms * 1000
	c.SlowBacklog, c.CloseConn = true, closeConn
	c.Bad, c.DrainTO, c.HWM, c.StopUs, c.NoReply = 0, "", "", 0, 0
	c.PureRecv = false
	return c
}

// slowBacklogSecs: the time the workers need for the accepted backlog.
func slowBacklogSecs(c Config) int {
	return (c.K + c.W - 1) / c.W * c.PostGateUs / 1000000
}

// badReqConfig: at least as many failing requests as workers, interleaved
// into the first half of the stream, well-formed requests behind them, then
// Stop - with the queue full (gate, burst q+w+1 and more) or not.
func badReqConfig(rng *rand.Rand, w, q int, bclass, dur string, bad int, rep int) Config {
	c := fill(rng, Config{W: w, Q: q, BClass: bclass, Dur: dur, Share: rng.Intn(2) == 0, Rep: rep})
	c.K = c.B
	c.Bad = bad
	c.DrainTO = ""
	return c
}

// connLossConfig: the server's connection (NoReconnect) is lost right before
// Stop while k <= q+w requests are in the work queue / with the workers.
func connLossConfig(rng *rand.Rand, w, q int, how, dur string, rep int) Config {
	c := fill(rng, Config{W: w, Q: q, BClass: "q+w", Dur: dur, Share: rng.Intn(2) == 0, Rep: rep})
	c.K = []int{c.B, c.B, imin(c.B, q), 1 + rng.Intn(c.B)}[rng.Intn(4)]
	c.B = c.K // nothing is published while or after Stop: the publisher may be gone with the broker
	c.Rest = "after"
	c.ConnLoss = how
	c.PureRecv = false // "handed to the work queue" is observed through the received handler
	c.Bad, c.DrainTO, c.StopUs = 0, "", 0
	if dur == "gate" {
		c.GateUs = []int{1000, 5000}[rng.Intn(2)]
	}
	return c
}

// connLossFullProbe (only with VERIF_C20_CONNLOSS_FULL=1, never part of the
// default sweep): the connection is lost while a NATS callback is parked on
// the full work queue.
func connLossFullProbe(rng *rand.Rand, idx int) []Config {
	if os.Getenv("VERIF_C20_CONNLOSS_FULL") == "" {
		return nil
	}
	var out []Config
	for i, how := range []string{"cut", "broker", "cut"} {
		c := connLossConfig(rng, 1+i, 1+i, how, "gate", 0)
		c.BClass, c.B = "q+w+2", c.W+c.Q+2
		c.K = c.B
		c.GateUs = 5000
		c.ConnLossFull = true
		c.Idx = idx + i
		out = append(out, c)
	}
	return out
}

// soleWorkerProbe (only with VERIF_C20_SOLE_WORKER=1, never part of the
// default sweep): the sole worker calls Stop while more requests than the
// queue holds are behind it.
func soleWorkerProbe(rng *rand.Rand, idx int) []Config {
	if os.Getenv("VERIF_C20_SOLE_WORKER") == "" {
		return nil
	}
	var out []Config
	for i, from := range stopFromModes {
		c := fill(rng, Config{W: 1, Q: 1 + i, BClass: "2(q+w)", Dur: "1ms"})
		c.NSubj, c.Busy, c.PureRecv, c.DupSubj, c.StopFrom, c.Rest, c.DrainTO = 1, 1, false, false, from, "after", ""
		c.K, c.K1 = c.B, 0
		c.SoleProbe = true
		c.NoReply = 0
		c.Idx = idx + i
		out = append(out, c)
	}
	return out
}

// ---------------------------------------------------------------------------

type batchOutcome struct {
	results  []*Result
	crashes  []crash
	notRun   []Config
	children int
	notes    []string
}

type crash struct {
	cfg    Config
	hasCfg bool
	panic  string // first "panic:" / "fatal error:" line ("" = died without one)
	stderr string
	exit   string
}

// hangs counts scenarios that ended in a watchdog expiry (each costs the
// watchdog period); after maxHangs the remaining scenarios of a batch are
// not run any more - the run is a violation / inconclusive by then anyway.
var hangs atomic.Int64

const maxHangs = 4

var startLine = regexp.MustCompile(`^START (\d+) `)

func readResults(path string) map[int]*Result {
	out := map[int]*Result{}
	f, err := os.Open(path)
	if err != nil {
		return out
	}
	defer f.Close()
	sc := bufio.NewScanner(f)
	sc.Buffer(make([]byte, 1<<20), 1<<28)
	for sc.Scan() {
		var r Result
		if json.Unmarshal(sc.Bytes(), &r) == nil {
			rr := r
			out[r.Idx] = &rr
		}
	}
	return out
}

// scanStderr returns the index of the last started scenario (-1 if none) and
// the crash text (from the first line that starts with "panic:" or "fatal
// error:"), if any.
func scanStderr(path string) (last int, panicLine, excerpt string) {
	last = -1
	b, err := os.ReadFile(path)
	if err != nil {
		return
	}
	lines := strings.Split(string(b), "\n")
	for i, l := range lines {
		if m := startLine.FindStringSubmatch(l); m != nil {
			fmt.Sscan(m[1], &last)
		}
		if panicLine == "" && (strings.HasPrefix(l, "panic:") || strings.HasPrefix(l, "fatal error:")) {
			panicLine = strings.TrimSpace(l)
			rest := strings.Join(lines[i:], "\n")
			if len(rest) > 6<<10 {
				rest = rest[:6<<10] + "\n...truncated"
			}
			excerpt = rest
		}
	}
	if panicLine == "" {
		t := string(b)
		if len(t) > 2<<10 {
			t = t[len(t)-2<<10:]
		}
		excerpt = t
	}
	return
}

// runBatch runs the configs in child processes of binary until each has a
// result, crashed its child, or the respawn budget is used up.
func runBatch(binary string, tag string, batch []Config, extraEnv []string) *batchOutcome {
	o := &batchOutcome{}
	scratch := ev.ScratchDir()
	pending := append([]Config(nil), batch...)
	hungHere := false
	for attempt := 0; len(pending) > 0; attempt++ {
		if hungHere {
			// children that hung at the same time report at the same time:
			// let their parents count them before deciding to spend another
			// watchdog period (scheduling of the run only, no verdict)
			time.Sleep(time.Second)
			hungHere = false
		}
		if attempt >= 6 || hangs.Load() >= maxHangs {
			o.notRun = append(o.notRun, pending...)
			o.notes = append(o.notes, fmt.Sprintf("batch %s: respawn budget exhausted (attempt %d, %d hung scenarios overall) with %d scenarios left", tag, attempt, hangs.Load(), len(pending)))
			break
		}
		pfx := filepath.Join(scratch, fmt.Sprintf("c20-%s-%d", tag, attempt))
		bj, _ := json.Marshal(pending)
		os.WriteFile(pfx+".batch.json", bj, 0o644)
		errF, err := os.Create(pfx + ".stderr")
		if err != nil {
			o.notes = append(o.notes, err.Error())
			o.notRun = append(o.notRun, pending...)
			break
		}
		cmd := exec.Command(binary, "scenario-child", pfx+".batch.json", pfx+".results.jsonl")
		cmd.Stderr = errF
		cmd.Stdout = errF
		cmd.Env = append(os.Environ(), extraEnv...)
		o.children++
		exit := "0"
		if err := cmd.Start(); err != nil {
			errF.Close()
			o.notes = append(o.notes, "cannot start child: "+err.Error())
			o.notRun = append(o.notRun, pending...)
			break
		}
		done := make(chan error, 1)
		go func() { done <- cmd.Wait() }()
		limit := 5*time.Minute + time.Duration(len(pending))*90*time.Second
		var werr error
		select {
		case werr = <-done:
		case <-time.After(limit):
			cmd.Process.Kill()
			werr = <-done
			exit = "killed by the parent's safety net after " + limit.String()
		}
		errF.Close()
		if werr != nil && exit == "0" {
			exit = werr.Error()
		}
		res := readResults(pfx + ".results.jsonl")
		last, panicLine, excerpt := scanStderr(pfx + ".stderr")
		var left []Config
		var lastCfg Config
		hasLast := false
		for _, c := range pending {
			if r, ok := res[c.Idx]; ok {
				o.results = append(o.results, r)
				if r.Restart {
					hangs.Add(1)
					hungHere = true
				}
				continue
			}
			if c.Idx == last {
				lastCfg, hasLast = c, true
				continue
			}
			left = append(left, c)
		}
		if exit == "0" || exit == "exit status 7" {
			// orderly end (7 = a scenario hung and asked for a fresh process)
			if hasLast { // started but no result although the child ended orderly: cannot happen
				left = append(left, lastCfg)
			}
			if exit == "0" && len(left) > 0 {
				o.notes = append(o.notes, fmt.Sprintf("batch %s: child ended orderly with %d scenarios unreported", tag, len(left)))
				o.notRun = append(o.notRun, left...)
				break
			}
			pending = left
			continue
		}
		// the child died
		o.crashes = append(o.crashes, crash{cfg: lastCfg, hasCfg: hasLast, panic: panicLine, stderr: excerpt, exit: exit})
		pending = left
	}
	return o
}

var panicNorm = regexp.MustCompile(`0x[0-9a-fA-F]+|\d+`)

func runC20(tier string, args []string) int {
	run := ev.New("C20", tier, "exploration")
	run.Rule("configuration sweep workers {1,2,4,8} x queue {1,2,8,64} x burst {1,q,q+w,q+w+1,2(q+w),10(q+w)} x handler {0,1ms,5ms,PRNG 0-3ms,gate released after Stop is called} x position of Stop (incl. position 0 issued right after `go Serve()` without waiting for the subscription, with no / Gosched / 1-200us yields so that Stop is called both before and after Serve is parked; otherwise k of b double-flushed into the server's NATS client first; the rest published concurrently with Stop and/or after it returned; one extra request after Stop returned in every scenario) x caller of Stop (harness goroutine, or a worker goroutine: the processor / started / finished event handler of a shutdown request placed inside the double-flushed stream, wherever the drain can finish without that worker) x subjects 1-4 with traffic on a subset (idle subscriptions next to busy ones, incl. full queue with exactly as many requests parked in the NATS client as there are idle subjects) x WithHighWatermark {default, 1ms, 10ms, 50ms} incl. queue waits beyond it, the library's default request-received handler always in effect (wrapped by the counter, or left to the builder) x queue length also 0 and 1 (workers 1, 2, 4, 8) x handlers gated for 6.5 s after Stop was called (Serve must not return before they are answered) x drain duration: burst q+w+(subjects with traffic)+{1..5} all received before Stop, handlers gated until 11 s (quick; thorough also 31 s, 61 s) after Stop was entered, so the hand-over of the backlog parked inside the NATS client - which Stop waits for - takes at least that long (duration is a workload parameter, never an oracle; each such scenario in a child process of its own, concurrent with the rest; no-progress watchdog = gate + 15 s where that exceeds 30 s) x work left after the drain: k <= q+w requests all in the work queue / with a worker at Stop (nothing parked in the NATS client), handlers of 3.5 s / 6.5 s (thorough up to 21.5 s) each so that the w workers need 13-14 s (thorough up to 64 s) after the queue was closed - Serve must wait for them however long that takes: finished == received and every reply present at the instant Serve returns (duration is a workload parameter, never an oracle; own child process each, concurrent with the rest) x the caller closes the server's NATS connection the moment Serve returns (replies judged after the broker dropped that client) or keeps it x queue group or none, subject list naming a subject twice (with a queue group) x late requests after Stop AND Serve returned in every scenario (the stopped server takes nothing off NATS: no request-received event, no processing, and a probe member of the queue group subscribed after Serve returned sees every late request) x failing requests (>= worker count: message shorter than the frame size, bad header version, truncated header, processor error) interleaved in front of well-formed ones x fault 'server connection lost right before Stop' (NoReconnect; TCP cut through a relay / private broker shut down; k <= q+w requests in the work queue; replies not judged, processing before Serve returns is) x messages WITHOUT reply subject (plain Publish on a service subject; 0 in 10 of 16 configs, else 1, 2, 5, at any position of the received-before-Stop stream; nothing is demanded for them, 'finished == received' allows for them) x fault 'link blip of the server connection' (default reconnect behaviour, ReconnectWait 20ms / 1ms, through a relay that goes down AFTER Stop returned and every drained subscription left the client's table, with k <= q+w accepted requests parked on the gate and nothing of the server on its way to the socket; the gate opens once the connection reports RECONNECTING, so every reply is published into the client's reconnect buffer; the link comes back after Serve returned or 0-2ms after the gate opened; replies judged after status CONNECTED + a Flush round trip; if Stop has not returned 10s after it was called the gate opens without a blip) x server connection option DrainTimeout {default, bare Options literal = 0, 1ms, 50ms} incl. backlogs that outlast it x server connection shared with an unrelated subscription or not x 1-2 subjects x arrival pattern; every scenario runs a real FNatsServer against an embedded nats-server in a child process; distinct = (w, q, burst class, handler mode, stop-position class, rest mode, sharing, subjects)")
	run.Assume("embedded nats-server v2 routes a PUB to the subscribers' outbound queues before it answers the publisher's PING, and a connection's PONG follows the MSGs queued before it (the double flush defines 'received before Stop', as the pinned TestShutdown does on one connection)")
	run.Assume("nats.go SubscribeSync/Pending/NextMsg on the collector connection and Flush are correct (reply collector)")
	run.Assume("link blip: nats.go switches a connection's writer to its reconnect buffer before Status() reports RECONNECTING, a Publish in that state returns nil and is written to the new socket before Status() reports CONNECTED (8 MB buffer, replies are < 100 bytes); the relay cuts the link only when no reply can be on its way to the socket")
	run.Assume("the recording processor is the only FProcessor; handler durations are finite (the gate is opened after Stop is called, never after it returns)")

	self, err := os.Executable()
	if err != nil {
		self = os.Args[0]
	}
	var configs []Config
	replay := ""
	for i, a := range args {
		if a == "--replay" && i+1 < len(args) {
			replay = args[i+1]
		}
	}
	if replay != "" {
		b, err := os.ReadFile(replay)
		var rf struct {
			Witness struct {
				Config Config `json:"config"`
			} `json:"witness"`
		}
		if err != nil || json.Unmarshal(b, &rf) != nil || rf.Witness.Config.W == 0 {
			run.Inconclusive("replay file has no witness.config")
			return run.Finish()
		}
		rng := run.Rand("c20-replay")
		for i := 0; i < 20; i++ { // the schedule is not replayable, the configuration is: 20 repetitions
			c := rf.Witness.Config
			c.Idx = i
			if i > 0 {
				c.Seed = rng.Int63()
			}
			c.Rep = i
			c.Race = false
			configs = append(configs, c)
		}
		run.Set("replay", replay)
	} else {
		configs = buildSweep(run)
	}

	par := imin(runtime.NumCPU(), 12)
	if par < 2 {
		par = 2
	}
	batchSize := (len(configs) + par - 1) / par
	if run.Thorough() {
		batchSize = 48
	}
	if batchSize < 1 {
		batchSize = 1
	}
	type job struct {
		binary string
		tag    string
		cfgs   []Config
		env    []string
	}
	var jobs []job
	// deal configs round-robin so that every batch gets a mix of cheap and
	// expensive cells
	// long-drain scenarios cost their gate time in wall clock: each gets a child
	// process and a pool slot of its own, started first, so that the time is
	// spent concurrently with the rest of the sweep
	own := 0
	var pooled []Config
	for _, c := range configs {
		if (c.LongDrain || c.SlowBacklog) && replay == "" {
			jobs = append(jobs, job{binary: self, tag: fmt.Sprintf("own%d", own), cfgs: []Config{c}})
			own++
			continue
		}
		pooled = append(pooled, c)
	}
	nb := (len(pooled) + batchSize - 1) / batchSize
	if nb < 1 {
		nb = 1
	}
	buckets := make([][]Config, nb)
	for i, c := range pooled {
		buckets[i%nb] = append(buckets[i%nb], c)
	}
	for i, b := range buckets {
		jobs = append(jobs, job{binary: self, tag: fmt.Sprintf("b%d", i), cfgs: b})
	}
	// -race sample (thorough, when ./check built the twin)
	raceBin := os.Getenv("VERIF_VRT_RACE")
	raceDir := filepath.Join(ev.ScratchDir(), "c20-race")
	raceScenarios := 0
	if run.Thorough() && raceBin != "" && replay == "" {
		os.MkdirAll(raceDir, 0o755)
		rng := run.Rand("c20-race-sample")
		var sample []Config
		for _, c := range configs {
			if c.BClass == "q+w+1" && c.Rep == 0 && c.K == c.B && !c.Share {
				sample = append(sample, c)
			}
		}
		perm := rng.Perm(len(configs))
		for _, i := range perm {
			if len(sample) >= 160 {
				break
			}
			if configs[i].B <= 100 && !configs[i].LongDrain && !configs[i].SlowBacklog {
				sample = append(sample, configs[i])
			}
		}
		for i := range sample {
			sample[i].Idx = len(configs) + i
			sample[i].Race = true
		}
		raceScenarios = len(sample)
		nrb := 4
		rb := make([][]Config, nrb)
		for i, c := range sample {
			rb[i%nrb] = append(rb[i%nrb], c)
		}
		for i, b := range rb {
			jobs = append(jobs, job{binary: raceBin, tag: fmt.Sprintf("race%d", i), cfgs: b,
				env: []string{"GORACE=halt_on_error=0 log_path=" + filepath.Join(raceDir, "race")}})
		}
	}

	jobC := make(chan job)
	outC := make(chan *batchOutcome)
	var wg sync.WaitGroup
	for i := 0; i < par+own; i++ {
		wg.Add(1)
		go func() {
			defer wg.Done()
			for j := range jobC {
				outC <- runBatch(j.binary, j.tag, j.cfgs, j.env)
			}
		}()
	}
	go func() {
		for _, j := range jobs {
			jobC <- j
		}
		close(jobC)
		wg.Wait()
		close(outC)
	}()

	var results []*Result
	var crashes []crash
	var notRun []Config
	children := 0
	var notes []string
	for o := range outC {
		results = append(results, o.results...)
		crashes = append(crashes, o.crashes...)
		notRun = append(notRun, o.notRun...)
		children += o.children
		notes = append(notes, o.notes...)
	}

	// inconclusive scenarios are retried once in a fresh child (DESIGN §2.2)
	var retry []Config
	for _, r := range results {
		if r.Status == "inconclusive" && !r.Config.Race {
			retry = append(retry, r.Config)
		}
	}
	retried := 0
	if len(retry) > 0 && len(retry) <= 32 {
		retried = len(retry)
		o := runBatch(self, "retry", retry, nil)
		children += o.children
		crashes = append(crashes, o.crashes...)
		notes = append(notes, o.notes...)
		second := map[int]*Result{}
		for _, r := range o.results {
			second[r.Idx] = r
		}
		for i, r := range results {
			if r.Status == "inconclusive" && !r.Config.Race {
				if r2, ok := second[r.Idx]; ok {
					notes = append(notes, fmt.Sprintf("scenario %d inconclusive (%s), retried: %s", r.Idx, r.Inconclusive, r2.Status))
					results[i] = r2
				}
			}
		}
	}

	sort.Slice(results, func(i, j int) bool { return results[i].Idx < results[j].Idx })
	sigCount := map[string]int{}
	maxStop, maxServe := 0.0, 0.0
	for _, r := range results {
		switch r.Status {
		case "inconclusive":
			cj, _ := json.Marshal(r.Config)
			run.Inconclusive(fmt.Sprintf("scenario %d: %s config=%s", r.Idx, r.Inconclusive, cj))
			continue
		case "violation":
			for _, v := range r.Violations {
				sigCount[v.Sig]++
				run.Violation(v.Sig, v.What, v.Witness)
			}
		}
		run.Eval(1)
		if replay != "" { // one shape by construction: repetitions are the cases
			run.Distinct(fmt.Sprintf("%s rep=%d", shapeKey(r.Config), r.Config.Rep))
		} else {
			run.Distinct(shapeKey(r.Config))
		}
		run.Add("requests_total", r.Requests)
		run.Add("requests_received_before_stop", r.Pre)
		run.Add("requests_racing_stop", r.During)
		run.Add("requests_racing_stop_processed", r.DuringServed)
		run.Add("requests_after_stop_returned", r.After)
		run.Add("received_total", int(r.AtServeRet.Received))
		run.Add("started_total", int(r.AtServeRet.Started))
		run.Add("finished_total", int(r.AtServeRet.Finished))
		run.Add("replies_collected", r.Replies)
		run.Add("unrelated_sub_msgs", int(r.OtherMsgs))
		if r.QueueFull {
			run.Add("scenarios_queue_full_at_stop", 1)
		}
		if r.NoReplyPublished == 0 && r.AtStop.Received-r.AtStop.Started > int64(r.Config.Q) {
			run.Add("scenarios_callback_blocked_on_full_queue_at_stop", 1)
		}
		if r.AtStopRet.Finished < r.AtStopRet.Received {
			run.Add("scenarios_work_left_when_stop_returned", 1)
		}
		if r.Config.Race {
			run.Add("scenarios_under_race_binary", 1)
		}
		if r.Config.StopFrom != "" {
			run.Add("scenarios_stop_from_worker_goroutine_"+r.Config.StopFrom, 1)
			if r.AtStop.Received-r.AtStop.Started > 0 {
				run.Add("scenarios_stop_from_worker_with_requests_queued", 1)
			}
		}
		if r.Config.Busy > 0 && r.Config.Busy < r.Config.NSubj {
			run.Add("scenarios_with_idle_subjects", 1)
			// queue full at Stop and (received before Stop) - (started) - (queued) = number of idle subjects
			if !r.Config.PureRecv && r.QueueFull && r.Pre-int(r.AtStop.Started)-r.Config.Q == r.Config.NSubj-r.Config.Busy {
				run.Add("scenarios_idle_subjects_eq_requests_inside_nats_client_at_stop", 1)
			}
		}
		if r.Config.HWM != "" {
			run.Add("scenarios_high_watermark_"+r.Config.HWM, 1)
			if d, err := time.ParseDuration(r.Config.HWM); err == nil && r.StopMs+r.ServeMs > float64(d.Microseconds())/1000 {
				run.Add("scenarios_drain_took_longer_than_high_watermark", 1)
			}
		}
		if r.Config.PureRecv {
			run.Add("scenarios_builder_default_received_handler", 1)
		}
		if r.Late > 0 {
			run.Add("late_requests_after_stop_and_serve_returned", r.Late)
			run.Add("late_requests_seen_by_queue_group_probe", r.LateAtProbe)
		}
		if r.Config.Q == 0 {
			run.Add("scenarios_queue_length_0", 1)
		}
		if r.Config.Dur == "gate" && r.Config.GateUs >= 5000000 {
			run.Add("scenarios_handlers_gated_longer_than_5s_after_stop", 1)
		}
		if r.Config.LongDrain {
			run.Add("scenarios_long_drain", 1)
			// diagnostic: Stop was observed to wait for the hand-over
			if r.StopMs >= float64(r.Config.GateUs)/1000 {
				run.Add(fmt.Sprintf("scenarios_stop_waited_%ds_or_longer_for_the_parked_backlog", r.Config.GateUs/1000000), 1)
			}
			if r.AtStop.Received-r.AtStop.Started > int64(r.Config.Q) && r.Pre > int(r.AtStop.Received) {
				run.Add("scenarios_long_drain_with_requests_parked_in_nats_client_at_stop", 1)
			}
		}
		if r.Config.SlowBacklog {
			run.Add("scenarios_slow_accepted_backlog", 1)
			// diagnostic: Serve was observed to wait for its workers
			if secs := slowBacklogSecs(r.Config); r.ServeMs >= float64(secs*1000-1000) {
				run.Add("scenarios_serve_waited_longer_than_10s_for_its_workers", 1)
			}
			if r.Config.CloseConn {
				run.Add("scenarios_conn_closed_by_caller_at_serve_return", 1)
			}
		}
		if r.Config.QGroup {
			run.Add("scenarios_with_queue_group", 1)
			if r.Config.DupSubj {
				run.Add("scenarios_with_duplicated_subject", 1)
			}
		}
		if r.BadPublished > 0 {
			run.Add("scenarios_with_failing_requests_in_the_stream", 1)
			run.Add("failing_requests_published", r.BadPublished)
			if r.BadPublished >= r.Config.W {
				run.Add("scenarios_failing_requests_ge_workers", 1)
			}
		}
		if r.Config.ConnLoss != "" {
			run.Add("scenarios_server_conn_lost_before_stop_"+r.Config.ConnLoss, 1)
			if r.AtStop.Finished < r.AtStop.Received {
				run.Add("scenarios_server_conn_lost_with_backlog", 1)
			}
		}
		if r.NoReplyPublished > 0 {
			run.Add("scenarios_with_replyless_messages", 1)
			run.Add("replyless_messages_published_before_stop", r.NoReplyPublished)
		}
		if r.Config.Blip != "" {
			run.Add("scenarios_server_link_blip_"+r.Config.Blip, 1)
			if r.BlipApplied {
				run.Add("scenarios_server_link_blip_applied", 1)
				run.Add("server_conn_reconnects_after_blip", r.BlipReconnects)
				run.Add("reconnect_attempts_refused_while_link_down", r.BlipTurnedAway)
				if r.BlipAtServeRet == "RECONNECTING" {
					run.Add("scenarios_serve_returned_while_conn_reconnecting", 1)
					run.Add("replies_published_into_reconnect_buffer_and_collected", r.Replies)
				}
			} else {
				run.Add("scenarios_server_link_blip_not_applied", 1)
			}
		}
		if r.Config.DrainTO != "" {
			run.Add("scenarios_server_conn_drain_timeout_"+r.Config.DrainTO, 1)
			if d, err := time.ParseDuration(r.Config.DrainTO); r.Config.DrainTO == "bare" || (err == nil && r.StopMs > float64(d.Microseconds())/1000) {
				run.Add("scenarios_stop_took_longer_than_conn_drain_timeout", 1)
			}
		}
		if r.Config.Early != "" {
			run.Add("scenarios_stop_right_after_go_serve", 1)
			if r.EarlySubs >= 0 && r.EarlySubs < r.WantSubs {
				run.Add("scenarios_stop_called_before_serve_had_subscribed", 1)
			} else {
				run.Add("scenarios_stop_called_after_serve_had_subscribed", 1)
			}
		}
		if r.StopMs > maxStop {
			maxStop = r.StopMs
		}
		if r.ServeMs > maxServe {
			maxServe = r.ServeMs
		}
		if r.Idx%17 == 3 {
			run.Sample(map[string]interface{}{"config": r.Config, "at_stop": r.AtStop, "at_stop_returned": r.AtStopRet, "at_serve_returned": r.AtServeRet, "replies": r.Replies, "timeline": r.Timeline})
		}
	}
	for _, c := range crashes {
		if !c.hasCfg {
			run.Inconclusive(fmt.Sprintf("a child process died (%s) before it started a scenario: %s", c.exit, c.stderr))
			continue
		}
		cj, _ := json.Marshal(c.cfg)
		if c.panic == "" {
			run.Inconclusive(fmt.Sprintf("child died (%s) without panic text during config=%s", c.exit, cj))
			continue
		}
		run.Eval(1)
		run.Distinct(shapeKey(c.cfg))
		sig := "C20:server-process-crash:" + strings.TrimSpace(panicNorm.ReplaceAllString(c.panic, "N"))
		sigCount[sig]++
		run.Violation(sig, "the process running the server crashed during shutdown: "+c.panic,
			map[string]interface{}{"config": c.cfg, "exit": c.exit, "stderr": c.stderr})
	}
	if len(notRun) > 0 {
		run.Inconclusive(fmt.Sprintf("%d scenarios were not run (child respawn budget)", len(notRun)))
	}
	run.Set("configs_planned", len(configs)+raceScenarios)
	run.Set("child_processes", children)
	run.Set("child_batches", len(jobs))
	run.Set("child_crashes", len(crashes))
	run.Set("parallel_children", par)
	run.Set("inconclusive_retried", retried)
	run.Set("max_stop_ms_diagnostic", maxStop)
	run.Set("max_serve_after_stop_ms_diagnostic", maxServe)
	if len(sigCount) > 0 {
		run.Set("violations_by_signature", sigCount)
	}
	if len(notes) > 0 {
		if len(notes) > 20 {
			notes = notes[:20]
		}
		run.Set("notes", notes)
	}
	if raceScenarios > 0 {
		files, _ := filepath.Glob(filepath.Join(raceDir, "race.*"))
		reports := 0
		sample := ""
		for _, f := range files {
			b, err := os.ReadFile(f)
			if err != nil {
				continue
			}
			reports += strings.Count(string(b), "WARNING: DATA RACE")
			if sample == "" && len(b) > 0 {
				sample = string(b)
				if len(sample) > 3<<10 {
					sample = sample[:3<<10]
				}
			}
		}
		run.Set("race_reports", reports)
		run.Set("race_scenarios_planned", raceScenarios)
		if sample != "" {
			run.Set("race_report_sample", sample)
			fmt.Printf("NOTE property=C20 the -race sample produced %d data race reports (diagnostic only)\n", reports)
		}
	} else if run.Thorough() && replay == "" {
		run.Set("race_reports", "not run (VERIF_VRT_RACE unset)")
	}
	return run.Finish()
}
