package main

// The fault "link blip": a TCP relay in front of the broker that can be taken
// down and brought up again on the SAME address (the listener stays open the
// whole time, so no port is released and re-acquired).  While the relay is
// down every relayed connection is closed and new connection attempts are
// accepted and closed at once, which a NATS client sees as a failed reconnect
// attempt; after Up the next attempt goes through and the client's
// connection RECOVERS (unlike tcpCut, which is final).

import (
	"io"
	"net"
	"sync"
	"sync/atomic"
	"time"
)

type blipRelay struct {
	ln     net.Listener
	target string

	mu     sync.Mutex
	down   bool
	closed bool
	conns  map[net.Conn]struct{}

	turnedAway atomic.Int64 // connection attempts refused while down
	relayed    atomic.Int64 // connections relayed to the broker
}

func newBlipRelay(target string) (*blipRelay, error) {
	ln, err := net.Listen("tcp", "127.0.0.1:0")
	if err != nil {
		return nil, err
	}
	t := &blipRelay{ln: ln, target: target, conns: map[net.Conn]struct{}{}}
	go t.acceptLoop()
	return t, nil
}

func (t *blipRelay) acceptLoop() {
	for {
		a, err := t.ln.Accept()
		if err != nil {
			return
		}
		t.mu.Lock()
		off := t.down || t.closed
		t.mu.Unlock()
		if off {
			a.Close()
			t.turnedAway.Add(1)
			continue
		}
		b, err := net.DialTimeout("tcp", t.target, 10*time.Second)
		if err != nil {
			a.Close()
			continue
		}
		t.mu.Lock()
		if t.down || t.closed { // went down while dialling
			t.mu.Unlock()
			a.Close()
			b.Close()
			t.turnedAway.Add(1)
			continue
		}
		t.conns[a] = struct{}{}
		t.conns[b] = struct{}{}
		t.mu.Unlock()
		t.relayed.Add(1)
		pipe := func(dst, src net.Conn) {
			io.Copy(dst, src)
			a.Close()
			b.Close()
			t.mu.Lock()
			delete(t.conns, a)
			delete(t.conns, b)
			t.mu.Unlock()
		}
		go pipe(a, b)
		go pipe(b, a)
	}
}

func (t *blipRelay) URL() string { return "nats://" + t.ln.Addr().String() }

func (t *blipRelay) cutAll(final bool) {
	t.mu.Lock()
	t.down = true
	if final {
		t.closed = true
	}
	cs := t.conns
	t.conns = map[net.Conn]struct{}{}
	t.mu.Unlock()
	for c := range cs {
		c.Close()
	}
}

// Down closes every relayed connection and turns new ones away until Up.
func (t *blipRelay) Down() { t.cutAll(false) }

// Up lets connections through again.
func (t *blipRelay) Up() {
	t.mu.Lock()
	if !t.closed {
		t.down = false
	}
	t.mu.Unlock()
}

// Close ends the relay for good.
func (t *blipRelay) Close() {
	t.cutAll(true)
	t.ln.Close()
}
