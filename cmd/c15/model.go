package main

import (
	"errors"
	"fmt"
	"io"
	"strings"
	"time"

	"github.com/apache/thrift/lib/go/thrift"

	"verif/rig"
)

// policy is the monitor configuration and the behaviour of the underlying
// Open after a stream failure.
type policy struct {
	Monitor   bool          `json:"monitor"`
	Max       int           `json:"maxReopenAttempts"`
	Initial   time.Duration `json:"initialWait"`
	MaxWait   time.Duration `json:"maxWait"`
	OpenFails int           `json:"openFails"` // after every stream failure the next OpenFails underlying Open calls fail
}

func (p policy) String() string {
	if !p.Monitor {
		return fmt.Sprintf("nomon/F%d", p.OpenFails)
	}
	return fmt.Sprintf("mon%d/F%d/w%d-%d", p.Max, p.OpenFails, p.Initial/time.Millisecond, p.MaxWait/time.Millisecond)
}

// op is one step of a history.
//
//	O Open   C Close   I IsOpen   R Request (the peer answers)
//	E peer EOF   X peer error   G garbage frame   (A = variant)
//	K Close() racing a peer error
//	T three requests in flight, the 3-frame answer stream cut at offset A and ended with error kind B
//	W reopen by hand until open (at most armed+2 Open calls)
type op struct {
	K string `json:"k"`
	A int    `json:"a,omitempty"`
	B int    `json:"b,omitempty"`
}

// fault is one planned I/O fault of the scripted stream.
type fault struct {
	Op  string `json:"op"` // Open | Close | Read | Write | Flush
	K   int    `json:"k"`  // 1-based index of the failing call
	Err int    `json:"err"`
}

type caseSpec struct {
	Kind    string  `json:"kind"` // hist | rand | cut | fault | sched
	Ops     []op    `json:"ops"`
	Pol     policy  `json:"policy"`
	Faults  []fault `json:"faults,omitempty"`
	Chunked bool    `json:"chunked,omitempty"`
	Sched   string  `json:"sched,omitempty"`
	Order   int     `json:"order,omitempty"` // K: who starts first
}

func opString(ops []op) string {
	var b strings.Builder
	for _, o := range ops {
		b.WriteString(o.K)
		if o.K == "T" {
			fmt.Fprintf(&b, "(%d,%s)", o.A, errKindName(o.B))
		}
	}
	return b.String()
}

// error kinds of a stream end / failure
const (
	errResetWrapped = iota // thrift.NewTTransportExceptionFromError(rig.ErrReset)
	errResetPlain          // rig.ErrReset
	errEOFWrapped          // what TSocket returns on a closed connection: TTransportException END_OF_FILE
	errEOFRaw              // io.EOF
)

func errKindName(k int) string {
	return [...]string{"reset-ttransport", "reset-plain", "eof-ttransport", "eof-raw"}[k]
}

func mkErr(k int) error {
	switch k {
	case errResetWrapped:
		return thrift.NewTTransportExceptionFromError(rig.ErrReset)
	case errResetPlain:
		return rig.ErrReset
	case errEOFWrapped:
		return thrift.NewTTransportExceptionFromError(io.EOF)
	}
	return io.EOF
}

func isEOFKind(k int) bool { return k >= errEOFWrapped }

// garbage frames: each makes the frame layer or registry.Execute return an
// error (none of them is one of the panicking inputs of C05).
func garbage(variant int) (name string, b []byte) {
	switch variant % 5 {
	case 0:
		return "bad-version", []byte{0, 0, 0, 5, 1, 0, 0, 0, 0}
	case 1: // well-formed headers without _opid
		return "no-opid", []byte{0, 0, 0, 15, 0, 0, 0, 0, 10, 0, 0, 0, 1, 'a', 0, 0, 0, 1, 'b'}
	case 2: // _opid not a number
		return "opid-nan", []byte{0, 0, 0, 20, 0, 0, 0, 0, 15, 0, 0, 0, 5, '_', 'o', 'p', 'i', 'd', 0, 0, 0, 2, 'z', 'z'}
	case 3:
		return "oversize-frame", []byte{0xff, 0xff, 0xff, 0xff, 0, 0}
	}
	return "empty-frame", []byte{0, 0, 0, 0}
}

// ---------------------------------------------------------------------------
// The sequential reference model of the life cycle.
//
// State: open/closed, monitor runner alive or terminated, number of armed
// underlying Open failures.  For each call it says which class of return value
// is legal; for each close which cause class and which monitor callback
// sequence is legal.  The pure part below (no transport involved) is also used
// to normalise generated histories.

type model struct {
	Open     bool
	MonAlive bool
	Armed    int
}

type expect struct {
	Noop      bool // the step has no effect and checks nothing (peer event on a closed transport)
	OpenErr   string
	Fails     int  // failed reopen attempts by the monitor
	Reopened  bool // monitor reopens successfully
	MonEnds   bool
	Uncleanly bool
}

// closeByFailure advances the model over a stream failure with cause class
// clean (nil cause: EOF routed through Close()) or not.
func (m *model) closeByFailure(p policy, clean bool) (e expect) {
	m.Open = false
	if !m.MonAlive {
		return
	}
	if clean {
		m.MonAlive = false
		e.MonEnds = true
		return
	}
	e.Uncleanly = true
	if p.Max == 0 {
		m.MonAlive = false
		e.MonEnds = true
		return
	}
	e.Fails = m.Armed
	if e.Fails > p.Max {
		e.Fails = p.Max
	}
	m.Armed -= e.Fails
	if e.Fails < p.Max {
		e.Reopened = true
		m.Open = true
	} else {
		m.MonAlive = false
		e.MonEnds = true
	}
	return
}

// step advances the pure model (EOF taken as a clean close, which is what
// the documented routing through Close() gives; the driver itself decides
// from the observed cause value).
func (m *model) step(o op, p policy, monitorInstalled *bool) expect {
	switch o.K {
	case "O", "W":
		if m.Open {
			if o.K == "W" {
				return expect{Noop: true}
			}
			return expect{OpenErr: "ALREADY_OPEN"}
		}
		if p.Monitor && !*monitorInstalled {
			*monitorInstalled = true
			m.MonAlive = true
		}
		if o.K == "W" {
			m.Armed = 0
			m.Open = true
			return expect{}
		}
		if m.Armed > 0 {
			m.Armed--
			return expect{OpenErr: "underlying"}
		}
		m.Open = true
	case "C":
		if m.Open {
			m.Open = false
			m.MonAlive = false
		}
	case "E", "X", "G", "K", "T":
		if !m.Open {
			return expect{Noop: true}
		}
		m.Armed = p.OpenFails
		clean := o.K == "E" || (o.K == "T" && isEOFKind(o.B))
		return m.closeByFailure(p, clean)
	}
	return expect{}
}

// normalise drops the steps that have no effect under the model and returns
// the op string that identifies the history, and whether a stream failure
// was applied to an open transport at all.
func normalise(ops []op, p policy) (kept []op, failures int) {
	var m model
	inst := false
	for _, o := range ops {
		e := m.step(o, p, &inst)
		if e.Noop {
			continue
		}
		if strings.Contains("EXGKT", o.K) {
			failures++
		}
		kept = append(kept, o)
	}
	return
}

func isTTE(err error, typ int) bool {
	var te thrift.TTransportException
	if !errors.As(err, &te) {
		return false
	}
	if e, ok := err.(thrift.TTransportException); ok {
		return e.TypeId() == typ
	}
	return false
}

func errText(err error) string {
	if err == nil {
		return "nil"
	}
	return fmt.Sprintf("%T: %v", err, err)
}

// sameErr compares two error values without panicking on uncomparable types.
func sameErr(a, b error) (eq bool) {
	defer func() {
		if recover() != nil {
			eq = fmt.Sprint(a) == fmt.Sprint(b)
		}
	}()
	return a == b
}
