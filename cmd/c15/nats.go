package main

import (
	"bytes"
	"fmt"
	"io"
	"math/rand"
	"net"
	"strings"
	"sync"
	"sync/atomic"
	"time"

	frugal "github.com/Workiva/frugal/lib/go"
	"github.com/apache/thrift/lib/go/thrift"
	"github.com/nats-io/nats.go"

	"verif/rig"
)

// The NATS leg of C15: the client transport frugal.NewFNatsTransport over a
// NATS connection whose byte stream to the broker can be cut and healed (a TCP
// proxy between the client and an embedded nats-server; the client reconnects
// on its own).  A broker outage does not end the transport - the connection
// heals - so the only close is the local Close(); what the life-cycle model
// pins down is that Open / Close / IsOpen stay consistent across outages:
//
//	state: open (subscription held) or closed; link up or down
//	Open:   link down => an error, state unchanged; open => ALREADY_OPEN;
//	        closed and up => nil, open
//	Close:  open => nil (or an error, then still open) ; after a nil the
//	        transport is closed for good: the Closed() channel obtained while
//	        open yields exactly one nil and is closed, IsOpen is false in every
//	        later state of the link, Open succeeds again once the link is up
//	        closed => nil or NOT_OPEN, nothing published
//	IsOpen: open && link up
//	Request: open && up => the peer's answer; otherwise an error, promptly
//
// ops: O Open, C Close, I IsOpen, R Request, D link down, U link up.

// cutProxy forwards TCP connections to backend; Down() closes the listener
// and every connection, Up() listens again on the same port.
type cutProxy struct {
	backend string
	addr    string

	mu    sync.Mutex
	up    bool
	ln    net.Listener
	conns map[net.Conn]struct{}
}

func newCutProxy(backend string) (*cutProxy, error) {
	ln, err := net.Listen("tcp", "127.0.0.1:0")
	if err != nil {
		return nil, err
	}
	p := &cutProxy{backend: backend, addr: ln.Addr().String(), ln: ln, up: true, conns: map[net.Conn]struct{}{}}
	go p.accept(ln)
	return p, nil
}

func (p *cutProxy) accept(ln net.Listener) {
	for {
		c, err := ln.Accept()
		if err != nil {
			return
		}
		go p.pipe(c)
	}
}

func (p *cutProxy) track(c net.Conn) bool {
	p.mu.Lock()
	defer p.mu.Unlock()
	if !p.up {
		c.Close()
		return false
	}
	p.conns[c] = struct{}{}
	return true
}

func (p *cutProxy) untrack(c net.Conn) {
	p.mu.Lock()
	delete(p.conns, c)
	p.mu.Unlock()
	c.Close()
}

func (p *cutProxy) pipe(c net.Conn) {
	if !p.track(c) {
		return
	}
	defer p.untrack(c)
	b, err := net.DialTimeout("tcp", p.backend, 5*time.Second)
	if err != nil {
		return
	}
	if !p.track(b) {
		return
	}
	defer p.untrack(b)
	done := make(chan struct{}, 2)
	go func() { io.Copy(b, c); done <- struct{}{} }()
	go func() { io.Copy(c, b); done <- struct{}{} }()
	<-done
	c.Close()
	b.Close()
	<-done
}

func (p *cutProxy) Down() {
	p.mu.Lock()
	p.up = false
	if p.ln != nil {
		p.ln.Close()
		p.ln = nil
	}
	for c := range p.conns {
		c.Close()
	}
	p.mu.Unlock()
}

func (p *cutProxy) Up() error {
	var ln net.Listener
	var err error
	for i := 0; i < 200; i++ {
		if ln, err = net.Listen("tcp", p.addr); err == nil {
			break
		}
		time.Sleep(5 * time.Millisecond)
	}
	if err != nil {
		return err
	}
	p.mu.Lock()
	p.ln, p.up = ln, true
	p.mu.Unlock()
	go p.accept(ln)
	return nil
}

// natsEnv is shared by all NATS cases: one embedded broker and one direct
// connection on which the scripted peers answer.
type natsEnv struct {
	srv  *rig.NatsServer
	peer *nats.Conn
	host string
}

var (
	natsOnce sync.Once
	natsE    *natsEnv
	natsErr  error
	natsSeq  int64
)

func getNatsEnv() (*natsEnv, error) {
	natsOnce.Do(func() {
		srv, err := rig.StartNats()
		if err != nil {
			natsErr = err
			return
		}
		peer, err := srv.Connect()
		if err != nil {
			natsErr = err
			return
		}
		natsE = &natsEnv{srv: srv, peer: peer, host: strings.TrimPrefix(srv.URL, "nats://")}
	})
	return natsE, natsErr
}

// natsCase is the state of one NATS history.
type natsCase struct {
	d     *driver
	proxy *cutProxy
	conn  *nats.Conn
	tr    frugal.FTransport
	sub   *nats.Subscription

	open   bool // model: subscription held
	up     bool // model: link up
	ch     <-chan error
	closed int // sessions closed so far
}

func (n *natsCase) fail(sig, what string) {
	d := n.d
	if d.status != stOK {
		return
	}
	d.status = stViolated
	d.logf("VIOLATION %s: %s", sig, what)
	d.h.violation(sig, what, map[string]interface{}{"case": d.spec, "ops": opString(d.spec.Ops), "trace": d.trace})
}

func (n *natsCase) inconclusive(what string) {
	if n.d.status == stOK {
		n.d.status = stInconclusive
		n.d.inconcl = what + " (nats case " + opString(n.d.spec.Ops) + ")"
	}
}

// call runs one call of the transport under the 15 s watchdog (the NATS
// transport takes no lock of its own; a call that does not return is left
// inconclusive).
func (n *natsCase) call(name string, fn func() interface{}) (interface{}, bool) {
	if n.d.status != stOK {
		return nil, false
	}
	res := make(chan interface{}, 1)
	go func() { res <- fn() }()
	tm := time.NewTimer(15 * time.Second)
	defer tm.Stop()
	select {
	case r := <-res:
		n.d.h.run.Add("nats_calls_"+name, 1)
		return r, true
	case <-tm.C:
		n.inconclusive(name + " did not return within 15 s")
		return nil, false
	}
}

func (n *natsCase) waitStatus(connected bool) bool {
	ok := pollUntil(func() (bool, bool) { return (n.conn.Status() == nats.CONNECTED) == connected, true })
	if !ok {
		n.inconclusive(fmt.Sprintf("the NATS client did not reach connected=%v within 15 s (status %d)", connected, n.conn.Status()))
	}
	return ok
}

func (n *natsCase) setup() bool {
	env, err := getNatsEnv()
	if err != nil {
		n.inconclusive("embedded nats-server: " + err.Error())
		return false
	}
	if n.proxy, err = newCutProxy(env.host); err != nil {
		n.inconclusive("proxy: " + err.Error())
		return false
	}
	n.conn, err = nats.Connect("nats://"+n.proxy.addr, nats.MaxReconnects(-1), nats.ReconnectWait(2*time.Millisecond),
		nats.ReconnectJitter(0, 0), nats.Timeout(5*time.Second), nats.DontRandomize())
	if err != nil {
		n.inconclusive("connect through the proxy: " + err.Error())
		return false
	}
	id := atomic.AddInt64(&natsSeq, 1)
	subject := fmt.Sprintf("c15.svc.%d", id)
	// the scripted peer: answers every request frame with the same _opid
	n.sub, err = env.peer.Subscribe(subject, func(m *nats.Msg) {
		if resp := responseFor(m.Data); resp != nil && m.Reply != "" {
			env.peer.Publish(m.Reply, resp)
		}
	})
	if err != nil {
		n.inconclusive("peer subscription: " + err.Error())
		return false
	}
	env.peer.Flush()
	n.tr = frugal.NewFNatsTransport(n.conn, subject, fmt.Sprintf("c15.inbox.%d", id))
	n.up = true
	return true
}

func (n *natsCase) teardown() {
	if n.sub != nil {
		n.sub.Unsubscribe()
	}
	if n.conn != nil {
		n.conn.Close()
	}
	if n.proxy != nil {
		n.proxy.Down()
	}
}

func (n *natsCase) doOpen() {
	r, ok := n.call("Open", func() interface{} { return n.tr.Open() })
	if !ok {
		return
	}
	err := asErr(r)
	n.d.logf("Open -> %s (model open=%v up=%v)", errText(err), n.open, n.up)
	switch {
	case !n.up:
		if err == nil {
			n.fail("C15:nats:Open-nil-while-disconnected", "Open returned nil while the NATS connection is down")
		}
	case n.open:
		if !isTTE(err, thrift.ALREADY_OPEN) {
			n.fail("C15:nats:Open-on-open-transport", "Open on an open transport must fail with ALREADY_OPEN, got "+errText(err))
		}
	default:
		if err != nil {
			sig := "C15:nats:Open-failed-on-closed-transport"
			if isTTE(err, thrift.ALREADY_OPEN) {
				sig = "C15:nats:ALREADY_OPEN-after-successful-Close"
			}
			after := ""
			if n.closed > 0 {
				after = " (the last Close() returned nil)"
			}
			n.fail(sig, "Open on a closed transport with the connection up returned "+errText(err)+after)
			return
		}
		n.open = true
		n.ch = n.tr.Closed()
		if n.ch == nil {
			n.fail("C15:nats:Closed-nil-while-open", "Closed() returns nil on an open transport")
			return
		}
		select {
		case v, ok := <-n.ch:
			n.fail("C15:nats:fresh-session-already-closed", fmt.Sprintf("the Closed() channel of a freshly opened transport already yields (%s, %v)", errText(v), ok))
		default:
		}
	}
}

// publisherRunning: some goroutine of the process is inside the code that
// publishes a close cause of a NATS / base transport.
func publisherRunning() bool {
	for _, g := range takeDump() {
		if strings.Contains(g.Text, "lib/go.(*fNatsTransport).Close(") || strings.Contains(g.Text, "lib/go.(*fBaseTransport).Close(") {
			return true
		}
	}
	return false
}

func (n *natsCase) doClose() {
	ch := n.ch
	r, ok := n.call("Close", func() interface{} { return n.tr.Close() })
	if !ok {
		return
	}
	err := asErr(r)
	n.d.logf("Close -> %s (model open=%v up=%v)", errText(err), n.open, n.up)
	if !n.open {
		if err != nil && !isTTE(err, thrift.NOT_OPEN) {
			n.fail("C15:nats:Close-on-closed-transport", "Close on a closed transport returned "+errText(err))
		}
		return
	}
	if err != nil {
		// handed back an error: the transport must then still be open (checked by what follows)
		n.d.logf("Close failed; the transport counts as still open")
		return
	}
	// nil: closed for good. Exactly one nil cause, then closed.
	var v error
	got, okv := false, false
	for _, st := range waitStages {
		tm := time.NewTimer(st)
		select {
		case v, okv = <-ch:
			got = true
		case <-tm.C:
		}
		tm.Stop()
		if got {
			break
		}
		n.d.h.run.Add("goroutine_dumps", 1)
		if !publisherRunning() {
			select {
			case v, okv = <-ch:
				got = true
			default:
			}
			if !got {
				where := "connected"
				if !n.up {
					where = "reconnecting"
				}
				n.fail("C15:nats:no-close-cause-after-Close:"+where, "Close() returned nil (NATS connection "+where+") but the Closed() channel obtained while open never yields and no goroutine is inside the transport's Close: the transport was not closed")
				return
			}
			break
		}
	}
	if !got {
		n.inconclusive("no close cause within 15 s after Close() returned nil")
		return
	}
	if !okv {
		n.fail("C15:nats:closed-channel-without-cause", "the Closed() channel was closed without a cause")
		return
	}
	n.d.h.run.Add("nats_closed_values", 1)
	if v != nil {
		n.fail("C15:nats:non-nil-cause-for-local-Close", "a local Close() published "+errText(v))
		return
	}
	select {
	case v2, ok2 := <-ch:
		if ok2 {
			n.fail("C15:nats:more-than-one-close-cause", "second value on Closed(): "+errText(v2))
			return
		}
	default:
		n.fail("C15:nats:Closed-channel-not-closed", "the Closed() channel yielded its cause but was not closed although Close() has returned")
		return
	}
	n.open = false
	n.closed++
}

func (n *natsCase) doIsOpen() {
	r, ok := n.call("IsOpen", func() interface{} { return n.tr.IsOpen() })
	if !ok {
		return
	}
	got := r.(bool)
	want := n.open && n.up
	n.d.logf("IsOpen -> %v (model open=%v up=%v)", got, n.open, n.up)
	if got == want {
		return
	}
	switch {
	case got && !n.open && n.closed > 0:
		n.fail("C15:nats:IsOpen-true-after-successful-Close", "IsOpen reports true although the last Close() returned nil and nobody has opened the transport since")
	case got && !n.open:
		n.fail("C15:nats:IsOpen-true-while-closed", "IsOpen reports true on a transport that was never opened")
	case got:
		n.fail("C15:nats:IsOpen-true-while-disconnected", "IsOpen reports true while the NATS connection is down")
	default:
		n.fail("C15:nats:IsOpen-false-while-open", "IsOpen reports false on an open transport whose NATS connection is up")
	}
}

func (n *natsCase) doRequest() {
	ctx, frame, want := prepRequest([]byte(fmt.Sprintf("nats-%d", len(n.d.trace))))
	ctx.SetTimeout(30 * time.Second)
	if !(n.open && n.up) {
		ctx.SetTimeout(250 * time.Millisecond) // no answer is due; only "an error, not a response" is judged
	}
	type rr struct {
		b   []byte
		err error
	}
	r, ok := n.call("Request", func() interface{} {
		t, err := n.tr.Request(ctx, frame)
		var b []byte
		if err == nil && t != nil {
			b, _ = io.ReadAll(t)
		}
		return rr{b, err}
	})
	if !ok {
		return
	}
	res := r.(rr)
	if n.open && n.up {
		if res.err != nil {
			n.d.logf("Request -> %s", errText(res.err))
			n.fail("C15:nats:Request-failed-on-open-transport", "Request on an open, connected transport failed with "+errText(res.err))
			return
		}
		n.d.logf("Request -> response %d bytes", len(res.b))
		n.d.h.run.Add("nats_responses", 1)
		if !bytes.Equal(res.b, want) {
			n.fail("C15:nats:wrong-response", fmt.Sprintf("Request returned %x, the peer sent %x", res.b, want))
		}
		return
	}
	n.d.logf("Request -> %s (model open=%v up=%v)", errText(res.err), n.open, n.up)
	if res.err == nil {
		n.fail("C15:nats:Request-nil-while-not-open", fmt.Sprintf("Request returned a response although the transport is not usable (open=%v, connection up=%v)", n.open, n.up))
	}
}

func (n *natsCase) doDown() {
	if !n.up {
		return
	}
	n.proxy.Down()
	if !n.waitStatus(false) {
		return
	}
	n.up = false
	n.d.h.run.Add("nats_outages", 1)
	n.d.logf("link down: NATS status %d (reconnecting)", n.conn.Status())
}

func (n *natsCase) doUp() {
	if n.up {
		return
	}
	if err := n.proxy.Up(); err != nil {
		n.inconclusive("proxy cannot listen again: " + err.Error())
		return
	}
	if !n.waitStatus(true) {
		return
	}
	n.up = true
	n.d.h.run.Add("nats_heals", 1)
	n.d.logf("link up: NATS connected again")
}

func (n *natsCase) step(o op) {
	if n.d.status != stOK {
		return
	}
	n.d.h.run.Add("nats_ops_"+o.K, 1)
	switch o.K {
	case "O":
		n.doOpen()
	case "C":
		n.doClose()
	case "I":
		n.doIsOpen()
	case "R":
		n.doRequest()
	case "D":
		n.doDown()
	case "U":
		n.doUp()
	}
}

// runNats runs one NATS history and then the closing round every history
// gets: heal the link, IsOpen as modelled, a request when open, Close, IsOpen
// false, Open again, request, Close.
func (d *driver) runNats() {
	n := &natsCase{d: d}
	defer n.teardown()
	if !n.setup() {
		return
	}
	for _, o := range d.spec.Ops {
		n.step(o)
	}
	for _, k := range "UIRCIOIRCI" {
		if k == 'R' && !n.open {
			continue
		}
		n.step(op{K: string(k)})
	}
}

// natsNormalise drops link events that change nothing.
func natsNormalise(ops []op) string {
	up := true
	var b strings.Builder
	for _, o := range ops {
		switch o.K {
		case "D":
			if !up {
				continue
			}
			up = false
		case "U":
			if up {
				continue
			}
			up = true
		}
		b.WriteString(o.K)
	}
	return b.String()
}

func genNatsHistories(maxLen int) []*caseSpec {
	alpha := "OCIRDU"
	seen := map[string]bool{}
	var out []*caseSpec
	var rec func(cur []op)
	rec = func(cur []op) {
		if len(cur) > 0 {
			key := natsNormalise(cur)
			if !seen[key] && len(key) == len(cur) {
				seen[key] = true
				out = append(out, &caseSpec{Kind: "nats", Ops: append([]op(nil), cur...)})
			}
		}
		if len(cur) == maxLen {
			return
		}
		for _, c := range alpha {
			rec(append(cur, op{K: string(c)}))
		}
	}
	rec(nil)
	return out
}

func genNatsRandom(n, maxLen int, rng *rand.Rand) []*caseSpec {
	letters := "OOOCCIIRRRDDUU"
	var out []*caseSpec
	for i := 0; i < n; i++ {
		l := 5 + rng.Intn(maxLen-4)
		ops := make([]op, l)
		for j := range ops {
			ops[j] = op{K: string(letters[rng.Intn(len(letters))])}
		}
		out = append(out, &caseSpec{Kind: "nats", Ops: ops})
	}
	return out
}
