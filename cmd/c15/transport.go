package main

import (
	"context"
	"errors"
	"fmt"
	"io"
	"os"
	"strconv"
	"sync"

	"github.com/apache/thrift/lib/go/thrift"

	"verif/rig"
	"verif/wire"
)

// ftrans is the byte stream under the adapter transport: a rig.ScriptTransport
// (fault plans by op index, Feed/FeedEOF/FeedError, counters) plus what C15
// needs on top of it: "the next n Open calls fail", bookkeeping of the read
// loop's position, a broken-stream model for write/flush faults, two schedule
// gates, and the scripted peer that answers requests.
type ftrans struct {
	*rig.ScriptTransport

	mu         sync.Mutex
	failOpens  int // the next failOpens Open calls fail (connection refused)
	armOnFault int // >= 0: an injected read failure arms that many Open failures at the moment it is delivered
	openCalls  int // every Open call seen (failed ones included)
	openFailed int
	inRead     map[int]int // stream session -> goroutines inside a Read entered during that session
	readCalls  int
	readErrs   int // Read calls that returned an error to the reader
	opensOK    int // successful Open calls (sessions of the stream)
	readOpen   int // value of opensOK when Read was last entered
	// onSession is called by the first Read of every stream session, on the
	// read loop's goroutine, before that Read can fail: it returns the
	// adapter's Closed() channel, which therefore belongs to that session
	// however quickly the session ends.
	onSession func() <-chan error
	sessionCh map[int]<-chan error

	// schedule gates (targeted schedules only)
	holdReadErr chan struct{} // a Read that is about to return an error parks here first
	heldReadErr int
	holdIsOpen  chan struct{} // IsOpen parks here (while the adapter holds its read lock)
	holdOpen    chan struct{} // Open parks here before it connects (a slow dial)
	heldOpen    int
	heldIsOpen  int

	// closes of the stream that fail AFTER tearing it down (a TLS close-notify
	// that cannot be written, a wrapper that flushes on close): 1-based index
	// of the Close call -> error; once such a plan exists a Close of the
	// already dead stream is a no-op (nil), as with TSocket.
	teardownFail map[int]error
	closeCalls   int
	// teardownSettled (set by the driver) tells that the read loop woken by
	// the teardown is gone, i.e. has taken the close token: the failing Close
	// reports its error only then.  teardownNoWait: report it at once.
	teardownSettled func() bool
	teardownNoWait  bool

	// scripted peer
	collect  bool     // true: keep request frames instead of answering them
	requests [][]byte // collected request frames (size prefix included)
	chunked  bool     // answer in three pieces, each one consumed before the next is fed
	answered int
	flushRet int // Flush calls that have returned
	// peerMu serialises the peer's answers: a peer writes one frame after the
	// other, the pieces of two answers never interleave on the stream.
	peerMu sync.Mutex
	fed    map[string]bool // op ids whose answer has been fed completely (into the session the request arrived in)

	dbg []string // stream log (C15_STREAMLOG=1 only)
}

// The stream log is a development aid, off by default: with C15_STREAMLOG=1
// every call of the stream (goroutine, session, bytes) is recorded and added
// to a violation's witness.  Recording slows the stream's calls down, which
// also widens the windows between the harness' bookkeeping and the stream's
// own state: a run with it, under CPU load, is how the harness' own
// synchronisation is shaken out (DESIGN 9.2).  No verdict reads it.
var streamLog = os.Getenv("C15_STREAMLOG") != ""

func (t *ftrans) dbgf(f string, a ...interface{}) {
	if !streamLog {
		return
	}
	l := "g" + curGID() + " " + fmt.Sprintf(f, a...)
	t.mu.Lock()
	t.dbg = append(t.dbg, l)
	t.mu.Unlock()
}

func newFtrans() *ftrans {
	t := &ftrans{ScriptTransport: rig.NewScriptTransport(), armOnFault: -1}
	t.ScriptTransport.OnFrame = t.onFrame
	return t
}

// Open implements thrift.TTransport.
func (t *ftrans) Open() error {
	t.mu.Lock()
	t.openCalls++
	if t.failOpens > 0 {
		t.failOpens--
		t.openFailed++
		n := t.openFailed
		t.mu.Unlock()
		if n%2 == 0 { // the way TSocket.Open reports a failed dial
			return thrift.NewTTransportException(thrift.NOT_OPEN, "dial tcp 127.0.0.1:1: connect: connection refused")
		}
		return errors.New("dial tcp 127.0.0.1:1: connect: connection refused")
	}
	g := t.holdOpen
	if g != nil {
		t.heldOpen++
	}
	t.mu.Unlock()
	if g != nil {
		<-g
	}
	err := t.ScriptTransport.Open()
	t.dbgf("Open -> %v", err)
	if err == nil {
		t.mu.Lock()
		t.opensOK++
		t.mu.Unlock()
	}
	return err
}

// IsOpen implements thrift.TTransport.
func (t *ftrans) IsOpen() bool {
	t.mu.Lock()
	g := t.holdIsOpen
	if g != nil {
		t.heldIsOpen++
	}
	t.mu.Unlock()
	if g != nil {
		<-g
	}
	return t.ScriptTransport.IsOpen()
}

// Read implements thrift.TTransport.
func (t *ftrans) Read(p []byte) (int, error) {
	t.mu.Lock()
	if t.inRead == nil {
		t.inRead = map[int]int{}
	}
	t.inRead[t.opensOK]++
	t.readCalls++
	first, sess, cb := t.readOpen != t.opensOK, t.opensOK, t.onSession
	t.readOpen = t.opensOK
	t.mu.Unlock()
	if first && cb != nil {
		ch := cb()
		t.mu.Lock()
		if t.sessionCh == nil {
			t.sessionCh = map[int]<-chan error{}
		}
		t.sessionCh[sess] = ch
		t.mu.Unlock()
	}
	t.dbgf("Read enter sess=%d len=%d", sess, len(p))
	n, err := t.ScriptTransport.Read(p)
	t.dbgf("Read exit sess=%d n=%d err=%v data=%x", sess, n, err, p[:n])
	t.mu.Lock()
	t.inRead[sess]--
	var g chan struct{}
	if err != nil {
		t.readErrs++
		if t.armOnFault >= 0 && (errors.Is(err, rig.ErrReset) || errors.Is(err, io.EOF)) {
			t.failOpens = t.armOnFault
		}
		if g = t.holdReadErr; g != nil {
			t.heldReadErr++
		}
	}
	t.mu.Unlock()
	if g != nil {
		<-g
	}
	return n, err
}

// Close implements thrift.TTransport.
func (t *ftrans) Close() error {
	t.mu.Lock()
	t.closeCalls++
	e := t.teardownFail[t.closeCalls]
	tolerant := t.teardownFail != nil
	before := t.readErrs
	readers := 0
	for _, n := range t.inRead {
		readers += n
	}
	t.mu.Unlock()
	wasOpen := t.ScriptTransport.IsOpen()
	err := t.ScriptTransport.Close()
	t.dbgf("Close -> %v", err)
	if e != nil {
		t.mu.Lock()
		settled, noWait := t.teardownSettled, t.teardownNoWait
		t.mu.Unlock()
		if readers > 0 && !noWait { // the woken reader goes first
			pollUntil(func() (bool, bool) {
				if t.snap().readErrs <= before {
					return false, true
				}
				return settled == nil || settled(), true
			})
		}
		return e
	}
	if err != nil && tolerant && !wasOpen {
		return nil
	}
	return err
}

func (t *ftrans) flushReturns() int {
	t.mu.Lock()
	defer t.mu.Unlock()
	return t.flushRet
}

func (t *ftrans) closeCount() int {
	t.mu.Lock()
	defer t.mu.Unlock()
	return t.closeCalls
}

// Write implements thrift.TTransport. An injected write fault means the
// stream is broken: the read side fails with the same error (a connection
// reset is visible in both directions).
func (t *ftrans) Write(p []byte) (int, error) {
	n, err := t.ScriptTransport.Write(p)
	t.dbgf("Write %x -> %v", p, err)
	if err != nil && errors.Is(err, rig.ErrReset) {
		t.ScriptTransport.FeedError(err)
	}
	return n, err
}

// Flush implements thrift.TTransport (same broken-stream model as Write).
func (t *ftrans) Flush(ctx context.Context) error {
	err := t.ScriptTransport.Flush(ctx)
	t.dbgf("Flush -> %v", err)
	t.mu.Lock()
	t.flushRet++
	t.mu.Unlock()
	if err != nil && errors.Is(err, rig.ErrReset) {
		t.ScriptTransport.FeedError(err)
	}
	return err
}

func (t *ftrans) sessionChan(n int) (<-chan error, bool) {
	t.mu.Lock()
	defer t.mu.Unlock()
	ch, ok := t.sessionCh[n]
	return ch, ok
}

func (t *ftrans) armOpenFailures(n int) {
	t.mu.Lock()
	t.failOpens = n
	t.mu.Unlock()
}

type ftSnap struct {
	failOpens, openCalls, openFailed, inRead, readCalls, readErrs, heldReadErr, heldIsOpen, answered, collected int
	opensOK, readOpen, heldOpen                                                                                 int
}

// snap: inRead is the number of readers of the current stream session that
// are parked inside the stream's Read (exact: see rig.ParkedReaders), not the
// number of goroutines somewhere between entering and leaving ftrans.Read.
func (t *ftrans) snap() ftSnap {
	parked, _ := t.ScriptTransport.ParkedReaders()
	t.mu.Lock()
	defer t.mu.Unlock()
	return ftSnap{t.failOpens, t.openCalls, t.openFailed, parked, t.readCalls, t.readErrs, t.heldReadErr, t.heldIsOpen, t.answered, len(t.requests), t.opensOK, t.readOpen, t.heldOpen}
}

// responseFor builds the peer's answer to a request frame: same _opid, a
// payload derived from the request's.
func responseFor(req []byte) []byte {
	h, payload, err := wire.ParseFrame(req)
	if err != nil {
		return nil
	}
	return wire.BuildFrame([]wire.Pair{{Name: "_opid", Value: h["_opid"]}, {Name: "c15", Value: strconv.Itoa(len(payload))}},
		append([]byte("re:"), payload...))
}

// onFrame is the scripted peer: called by Flush (outside the script's lock)
// for every complete request frame.  The answer goes to the stream session
// in which the peer took the request up, one answer at a time.
func (t *ftrans) onFrame(frame []byte) {
	t.mu.Lock()
	if t.collect {
		t.requests = append(t.requests, append([]byte(nil), frame...))
		t.mu.Unlock()
		return
	}
	chunked := t.chunked
	t.answered++
	t.mu.Unlock()
	resp := responseFor(frame)
	if resp == nil {
		return
	}
	h, _, _ := wire.ParseFrame(frame)
	opid := h["_opid"]
	gen := t.ScriptTransport.Gen()
	t.peerMu.Lock()
	defer t.peerMu.Unlock()
	fedAll := func() {
		t.mu.Lock()
		if t.fed == nil {
			t.fed = map[string]bool{}
		}
		t.fed[opid] = true
		t.mu.Unlock()
	}
	if !chunked {
		t.dbgf("peer feeds %x", resp)
		if t.FeedGen(resp, gen) {
			fedAll()
		}
		return
	}
	// three pieces: inside the size field, inside the headers, the rest; each
	// is fed only after the reader has consumed the previous one and is back
	// in Read, so that every piece costs one Read call of the stream.
	cuts := []int{2, 4 + (len(resp)-4)/2, len(resp)}
	prev := 0
	for _, c := range cuts {
		t.dbgf("peer feeds piece %x", resp[prev:c])
		if !t.FeedGen(resp[prev:c], gen) {
			return
		}
		prev = c
		if c == len(resp) {
			fedAll()
		}
		if !t.waitConsumed(gen) {
			return
		}
	}
}

// fedFor: the answer to the request with that op id has been fed completely.
func (t *ftrans) fedFor(opid string) bool {
	t.mu.Lock()
	defer t.mu.Unlock()
	return t.fed[opid]
}

// waitConsumed waits until a reader of stream session gen has taken every fed
// byte and is parked in Read again; false when the reader failed or the
// stream was closed (or reopened) instead (event polling, generous bound;
// never a verdict).
func (t *ftrans) waitConsumed(gen int) bool {
	start := t.snap().readErrs
	return pollUntil(func() (done, ok bool) {
		if t.snap().readErrs != start || !t.ScriptTransport.IsOpen() || t.ScriptTransport.Gen() != gen {
			return true, false
		}
		parked, pending := t.ScriptTransport.ParkedReaders()
		return parked > 0 && pending == 0, true
	})
}
