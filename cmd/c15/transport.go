package main

import (
	"context"
	"errors"
	"io"
	"strconv"
	"sync"

	"github.com/apache/thrift/lib/go/thrift"

	"verif/rig"
	"verif/wire"
)

// ftrans is the byte stream under the adapter transport: a rig.ScriptTransport
// (fault plans by op index, Feed/FeedEOF/FeedError, counters) plus what C15
// needs on top of it: "the next n Open calls fail", bookkeeping of the read
// loop's position, a broken-stream model for write/flush faults, two schedule
// gates, and the scripted peer that answers requests.
type ftrans struct {
	*rig.ScriptTransport

	mu         sync.Mutex
	failOpens  int // the next failOpens Open calls fail (connection refused)
	armOnFault int // >= 0: an injected read failure arms that many Open failures at the moment it is delivered
	openCalls  int // every Open call seen (failed ones included)
	openFailed int
	inRead     map[int]int // stream session -> goroutines inside a Read entered during that session
	readCalls  int
	readErrs   int // Read calls that returned an error to the reader
	opensOK    int // successful Open calls (sessions of the stream)
	readOpen   int // value of opensOK when Read was last entered
	// onSession is called by the first Read of every stream session, on the
	// read loop's goroutine, before that Read can fail: it returns the
	// adapter's Closed() channel, which therefore belongs to that session
	// however quickly the session ends.
	onSession func() <-chan error
	sessionCh map[int]<-chan error

	// schedule gates (targeted schedules only)
	holdReadErr chan struct{} // a Read that is about to return an error parks here first
	heldReadErr int
	holdIsOpen  chan struct{} // IsOpen parks here (while the adapter holds its read lock)
	holdOpen    chan struct{} // Open parks here before it connects (a slow dial)
	heldOpen    int
	heldIsOpen  int

	// closes of the stream that fail AFTER tearing it down (a TLS close-notify
	// that cannot be written, a wrapper that flushes on close): 1-based index
	// of the Close call -> error; once such a plan exists a Close of the
	// already dead stream is a no-op (nil), as with TSocket.
	teardownFail map[int]error
	closeCalls   int
	// teardownSettled (set by the driver) tells that the read loop woken by
	// the teardown is gone, i.e. has taken the close token: the failing Close
	// reports its error only then.  teardownNoWait: report it at once.
	teardownSettled func() bool
	teardownNoWait  bool

	// scripted peer
	collect  bool     // true: keep request frames instead of answering them
	requests [][]byte // collected request frames (size prefix included)
	chunked  bool     // answer in three pieces, each one consumed before the next is fed
	answered int
	fedWhole int // answers fed completely
}

func newFtrans() *ftrans {
	t := &ftrans{ScriptTransport: rig.NewScriptTransport(), armOnFault: -1}
	t.ScriptTransport.OnFrame = t.onFrame
	return t
}

// Open implements thrift.TTransport.
func (t *ftrans) Open() error {
	t.mu.Lock()
	t.openCalls++
	if t.failOpens > 0 {
		t.failOpens--
		t.openFailed++
		n := t.openFailed
		t.mu.Unlock()
		if n%2 == 0 { // the way TSocket.Open reports a failed dial
			return thrift.NewTTransportException(thrift.NOT_OPEN, "dial tcp 127.0.0.1:1: connect: connection refused")
		}
		return errors.New("dial tcp 127.0.0.1:1: connect: connection refused")
	}
	g := t.holdOpen
	if g != nil {
		t.heldOpen++
	}
	t.mu.Unlock()
	if g != nil {
		<-g
	}
	err := t.ScriptTransport.Open()
	if err == nil {
		t.mu.Lock()
		t.opensOK++
		t.mu.Unlock()
	}
	return err
}

// IsOpen implements thrift.TTransport.
func (t *ftrans) IsOpen() bool {
	t.mu.Lock()
	g := t.holdIsOpen
	if g != nil {
		t.heldIsOpen++
	}
	t.mu.Unlock()
	if g != nil {
		<-g
	}
	return t.ScriptTransport.IsOpen()
}

// Read implements thrift.TTransport.
func (t *ftrans) Read(p []byte) (int, error) {
	t.mu.Lock()
	if t.inRead == nil {
		t.inRead = map[int]int{}
	}
	t.inRead[t.opensOK]++
	t.readCalls++
	first, sess, cb := t.readOpen != t.opensOK, t.opensOK, t.onSession
	t.readOpen = t.opensOK
	t.mu.Unlock()
	if first && cb != nil {
		ch := cb()
		t.mu.Lock()
		if t.sessionCh == nil {
			t.sessionCh = map[int]<-chan error{}
		}
		t.sessionCh[sess] = ch
		t.mu.Unlock()
	}
	n, err := t.ScriptTransport.Read(p)
	t.mu.Lock()
	t.inRead[sess]--
	var g chan struct{}
	if err != nil {
		t.readErrs++
		if t.armOnFault >= 0 && (errors.Is(err, rig.ErrReset) || errors.Is(err, io.EOF)) {
			t.failOpens = t.armOnFault
		}
		if g = t.holdReadErr; g != nil {
			t.heldReadErr++
		}
	}
	t.mu.Unlock()
	if g != nil {
		<-g
	}
	return n, err
}

// Close implements thrift.TTransport.
func (t *ftrans) Close() error {
	t.mu.Lock()
	t.closeCalls++
	e := t.teardownFail[t.closeCalls]
	tolerant := t.teardownFail != nil
	before := t.readErrs
	readers := 0
	for _, n := range t.inRead {
		readers += n
	}
	t.mu.Unlock()
	wasOpen := t.ScriptTransport.IsOpen()
	err := t.ScriptTransport.Close()
	if e != nil {
		t.mu.Lock()
		settled, noWait := t.teardownSettled, t.teardownNoWait
		t.mu.Unlock()
		if readers > 0 && !noWait { // the woken reader goes first
			pollUntil(func() (bool, bool) {
				if t.snap().readErrs <= before {
					return false, true
				}
				return settled == nil || settled(), true
			})
		}
		return e
	}
	if err != nil && tolerant && !wasOpen {
		return nil
	}
	return err
}

func (t *ftrans) closeCount() int {
	t.mu.Lock()
	defer t.mu.Unlock()
	return t.closeCalls
}

// Write implements thrift.TTransport. An injected write fault means the
// stream is broken: the read side fails with the same error (a connection
// reset is visible in both directions).
func (t *ftrans) Write(p []byte) (int, error) {
	n, err := t.ScriptTransport.Write(p)
	if err != nil && errors.Is(err, rig.ErrReset) {
		t.ScriptTransport.FeedError(err)
	}
	return n, err
}

// Flush implements thrift.TTransport (same broken-stream model as Write).
func (t *ftrans) Flush(ctx context.Context) error {
	err := t.ScriptTransport.Flush(ctx)
	if err != nil && errors.Is(err, rig.ErrReset) {
		t.ScriptTransport.FeedError(err)
	}
	return err
}

func (t *ftrans) sessionChan(n int) (<-chan error, bool) {
	t.mu.Lock()
	defer t.mu.Unlock()
	ch, ok := t.sessionCh[n]
	return ch, ok
}

func (t *ftrans) armOpenFailures(n int) {
	t.mu.Lock()
	t.failOpens = n
	t.mu.Unlock()
}

type ftSnap struct {
	failOpens, openCalls, openFailed, inRead, readCalls, readErrs, heldReadErr, heldIsOpen, answered, collected int
	opensOK, readOpen, heldOpen                                                                                 int
}

func (t *ftrans) snap() ftSnap {
	t.mu.Lock()
	defer t.mu.Unlock()
	return ftSnap{t.failOpens, t.openCalls, t.openFailed, t.inRead[t.opensOK], t.readCalls, t.readErrs, t.heldReadErr, t.heldIsOpen, t.answered, len(t.requests), t.opensOK, t.readOpen, t.heldOpen}
}

// responseFor builds the peer's answer to a request frame: same _opid, a
// payload derived from the request's.
func responseFor(req []byte) []byte {
	h, payload, err := wire.ParseFrame(req)
	if err != nil {
		return nil
	}
	return wire.BuildFrame([]wire.Pair{{Name: "_opid", Value: h["_opid"]}, {Name: "c15", Value: strconv.Itoa(len(payload))}},
		append([]byte("re:"), payload...))
}

// onFrame is the scripted peer: called by Flush (outside the script's lock)
// for every complete request frame.
func (t *ftrans) onFrame(frame []byte) {
	t.mu.Lock()
	if t.collect {
		t.requests = append(t.requests, append([]byte(nil), frame...))
		t.mu.Unlock()
		return
	}
	chunked := t.chunked
	t.answered++
	t.mu.Unlock()
	resp := responseFor(frame)
	if resp == nil {
		return
	}
	fedAll := func() {
		t.mu.Lock()
		t.fedWhole++
		t.mu.Unlock()
	}
	if !chunked {
		t.Feed(resp)
		fedAll()
		return
	}
	// three pieces: inside the size field, inside the headers, the rest; each
	// is fed only after the reader has consumed the previous one and is back
	// in Read, so that every piece costs one Read call of the stream.
	cuts := []int{2, 4 + (len(resp)-4)/2, len(resp)}
	prev := 0
	for _, c := range cuts {
		t.Feed(resp[prev:c])
		prev = c
		if c == len(resp) {
			fedAll()
		}
		if !t.waitConsumed() {
			return
		}
	}
}

func (t *ftrans) fedCount() int {
	t.mu.Lock()
	defer t.mu.Unlock()
	return t.fedWhole
}

// waitConsumed waits until the reader has taken every fed byte and is parked
// in Read again; false when the reader failed or the stream was closed
// instead (event polling, generous bound; never a verdict).
func (t *ftrans) waitConsumed() bool {
	start := t.snap().readErrs
	return pollUntil(func() (done, ok bool) {
		s := t.snap()
		if s.readErrs != start || !t.ScriptTransport.IsOpen() {
			return true, false
		}
		return t.Pending() == 0 && s.inRead > 0, true
	})
}
