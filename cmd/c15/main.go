// C15 — transport failure is detected, reported once and recoverable,
// repeatedly (DESIGN.md §4 C15).  Subject: frugal.NewAdapterTransport over a
// scripted byte stream, with and without an FTransportMonitor.
package main

import (
	"encoding/json"
	"fmt"
	"math/rand"
	"os"
	"os/exec"
	"path/filepath"
	"runtime"
	"sort"
	"strings"
	"sync"
	"sync/atomic"
	"time"

	frugal "github.com/Workiva/frugal/lib/go"

	"verif/ev"
	"verif/rig"
)

func main() { os.Exit(runC15(ev.ArgTier(), ev.ArgRest())) }

type harness struct {
	run *ev.Run

	mu        sync.Mutex
	vioCounts map[string]int
	cuts      map[string]map[int]bool // error kind -> offsets covered
	faultIdx  map[string]map[int]bool // op -> indices covered
	histLens  map[int]int
	newVio    int64
}

func (h *harness) violation(sig, what string, witness map[string]interface{}) {
	h.mu.Lock()
	h.vioCounts[sig]++
	n := h.vioCounts[sig]
	h.mu.Unlock()
	if n > 1 {
		witness = nil // same signature: counted, the first witness is the replay
	}
	if h.run.Violation(sig, what, witness) {
		atomic.AddInt64(&h.newVio, 1)
	}
}

// breakerLimit: a workload stops launching cases once that many of its cases
// have ended in a new (not known) violation - the run is red anyway, and every
// poisoned transport costs goroutines.  A count, not a time budget.
const breakerLimit = 1500

// (InitialWait, MaxWait) in ms, InitialWait <= MaxWait always.  Half of the
// pairs have a MaxWait that is not InitialWait*2^k, so that the doubling
// crosses the maximum instead of landing on it.
var waitPairs = [][2]time.Duration{{1, 1}, {1, 2}, {1, 4}, {2, 2}, {2, 4}, {4, 4}, {3, 5}, {2, 5}, {1, 3}, {3, 7}, {2, 3}, {3, 4}}

// streakPairs are used by the failure-streak workload, where the underlying
// Open fails up to 8 times in a row (1/30: the doubling needs 6 failures to
// cross the maximum).
var streakPairs = [][2]time.Duration{{3, 5}, {2, 5}, {1, 3}, {3, 7}, {1, 30}, {1, 6}, {5, 9}, {1, 4}, {2, 2}, {1, 12}}

func mkPolicy(monitor bool, max, fails int, rng *rand.Rand) policy {
	p := policy{Monitor: monitor, Max: max, OpenFails: fails}
	if monitor {
		w := waitPairs[rng.Intn(len(waitPairs))]
		p.Initial, p.MaxWait = w[0]*time.Millisecond, w[1]*time.Millisecond
	}
	return p
}

func allPolicies(rng *rand.Rand) []policy {
	var out []policy
	for f := 0; f <= 3; f++ {
		out = append(out, mkPolicy(false, 0, f, rng))
	}
	for max := 0; max <= 3; max++ {
		for f := 0; f <= 3; f++ {
			out = append(out, mkPolicy(true, max, f, rng))
		}
	}
	return out
}

// genHistories: every word over the 7-letter alphabet up to maxLen under
// every policy, reduced to the distinct normalised histories.
func genHistories(maxLen int, rng *rand.Rand) []*caseSpec {
	alpha := "OCEXGRI"
	seen := map[string]bool{}
	var out []*caseSpec
	var words [][]op
	var rec func(cur []op)
	rec = func(cur []op) {
		if len(cur) > 0 {
			words = append(words, append([]op(nil), cur...))
		}
		if len(cur) == maxLen {
			return
		}
		for _, c := range alpha {
			rec(append(cur, op{K: string(c), A: len(cur)}))
		}
	}
	rec(nil)
	for _, w := range words {
		pols := allPolicies(rng)
		for pi, p := range pols {
			kept, failures := normalise(w, p)
			if len(kept) == 0 {
				continue
			}
			key := opString(kept) + "|" + p.String()
			if failures == 0 { // the policy beyond "monitor or not" cannot matter
				key = opString(kept) + "|" + fmt.Sprint(p.Monitor)
			}
			if seen[key] {
				continue
			}
			seen[key] = true
			// garbage / error variants rotate with the position and the policy
			ops := append([]op(nil), kept...)
			for i := range ops {
				ops[i].A += pi
			}
			out = append(out, &caseSpec{Kind: "hist", Ops: ops, Pol: p})
		}
	}
	return out
}

// genStreaks: long runs of failed reopen attempts (MaxReopenAttempts up to 8,
// the underlying Open failing up to 8 times in a row) under wait pairs whose
// doubling crosses MaxWait; one or two failures per history.
func genStreaks(rng *rand.Rand) []*caseSpec {
	var out []*caseSpec
	shapes := [][2]int{{8, 8}, {8, 7}, {8, 6}, {7, 5}, {6, 6}, {5, 4}, {8, 3}, {4, 8}, {8, 1}, {6, 2}}
	hist := []string{"OX", "OG", "OXRX", "OXRGRX"}
	for _, w := range streakPairs {
		for si, sh := range shapes {
			p := policy{Monitor: true, Max: sh[0], OpenFails: sh[1], Initial: w[0] * time.Millisecond, MaxWait: w[1] * time.Millisecond}
			h := hist[(si+int(w[1]))%len(hist)]
			if w[1] >= 12 && len(h) > 2 {
				h = "OX" // long waits: one streak is enough
			}
			var ops []op
			for i, c := range h {
				ops = append(ops, op{K: string(c), A: i + si})
			}
			ops = append(ops, op{K: "W"}, op{K: "R"}, op{K: "I"})
			out = append(out, &caseSpec{Kind: "streak", Ops: ops, Pol: p})
		}
	}
	return out
}

// policyChains drives the monitor policy object alone, as values: for a grid
// of (InitialWait <= MaxWait, MaxReopenAttempts) it follows the chain
// OnClosedUncleanly, OnReopenFailed(1, w1), OnReopenFailed(2, w2), ... the way
// the runner does and checks every wait and the number of attempts.
func (h *harness) policyChains() {
	chains, waits := 0, 0
	for ini := 1; ini <= 9; ini++ {
		for max := ini; max <= 40; max++ {
			for _, attempts := range []uint{0, 1, 2, 3, 8, 12} {
				p := policy{Monitor: true, Max: int(attempts), Initial: time.Duration(ini) * time.Millisecond, MaxWait: time.Duration(max) * time.Millisecond}
				m := newRecMonitor(p)
				chains++
				h.run.Eval(1)
				re, w := m.OnClosedUncleanly(errPolicyProbe)
				made := uint(0)
				for re {
					waits++
					if w > p.MaxWait {
						h.violation("C15:wait-above-MaxWait", fmt.Sprintf("the monitor policy decided to wait %v before attempt %d, above MaxWait %v (InitialWait %v)", w, made+1, p.MaxWait, p.Initial),
							map[string]interface{}{"case": caseSpec{Kind: "policy-chain", Pol: p}, "monitor_events": m.all()})
						break
					}
					made++ // the attempt fails
					if made > attempts {
						h.violation("C15:more-than-MaxReopenAttempts", fmt.Sprintf("the monitor policy allows attempt %d, MaxReopenAttempts is %d", made, attempts),
							map[string]interface{}{"case": caseSpec{Kind: "policy-chain", Pol: p}, "monitor_events": m.all()})
						break
					}
					re, w = m.OnReopenFailed(made, w)
				}
			}
		}
	}
	h.run.Distinct("policy-chains")
	h.run.Set("policy_chains", map[string]int{"chains": chains, "wait_values_checked": waits})
}

var errPolicyProbe = fmt.Errorf("policy probe")

func genRandom(n, maxLen int, rng *rand.Rand) []*caseSpec {
	letters := "OOOOCCEXXXXGGRRRRIIK"
	var out []*caseSpec
	for i := 0; i < n; i++ {
		l := 6 + rng.Intn(maxLen-5)
		ops := make([]op, l)
		for j := range ops {
			ops[j] = op{K: string(letters[rng.Intn(len(letters))]), A: rng.Intn(8)}
		}
		var p policy
		if rng.Intn(5) == 0 {
			p = mkPolicy(false, 0, rng.Intn(4), rng)
		} else {
			p = mkPolicy(true, rng.Intn(4), rng.Intn(4), rng)
			if rng.Intn(8) == 0 { // long failure streaks now and then
				p.Max, p.OpenFails = 4+rng.Intn(5), rng.Intn(9)
			}
		}
		out = append(out, &caseSpec{Kind: "rand", Ops: ops, Pol: p, Order: rng.Intn(2)})
	}
	return out
}

func genCuts(streamLen int, rng *rand.Rand) []*caseSpec {
	var out []*caseSpec
	pols := []policy{mkPolicy(false, 0, 0, rng), mkPolicy(true, 2, 0, rng), mkPolicy(true, 2, 1, rng)}
	for cut := 0; cut <= streamLen+15; cut++ { // +15: op ids grow by a few digits during the run; larger offsets mean "after the last frame"
		for kind := 0; kind < 4; kind++ {
			for _, p := range pols {
				ops := []op{{K: "O"}, {K: "T", A: cut, B: kind}, {K: "W"}, {K: "R"}, {K: "X", A: cut}, {K: "W"}, {K: "R"}, {K: "I"}}
				out = append(out, &caseSpec{Kind: "cut", Ops: ops, Pol: p})
			}
		}
	}
	return out
}

func conversation(extraClose bool) []op {
	ops := []op{{K: "O"}, {K: "W"}, {K: "R"}, {K: "W"}, {K: "R"}, {K: "W"}, {K: "R"}, {K: "I"}, {K: "C"}}
	if extraClose {
		ops = append(ops, op{K: "C"})
	}
	return ops
}

// genFaults: the k-th Read / Write / Flush / Open / Close of the stream
// failing, for every k the fault-free conversation reaches, and pairs of read
// faults (a second failure right after a reopen).
func genFaults(counts map[bool]map[string]int, rng *rand.Rand) []*caseSpec {
	var out []*caseSpec
	pols := []policy{mkPolicy(false, 0, 0, rng), mkPolicy(false, 0, 1, rng), mkPolicy(true, 2, 0, rng), mkPolicy(true, 2, 1, rng), mkPolicy(true, 1, 1, rng), mkPolicy(true, 3, 2, rng)}
	for _, chunked := range []bool{false, true} {
		c := counts[chunked]
		add := func(fs []fault, extraClose bool) {
			for _, p := range pols {
				out = append(out, &caseSpec{Kind: "fault", Ops: conversation(extraClose), Pol: p, Faults: fs, Chunked: chunked})
			}
		}
		for k := 1; k <= c["Read"]; k++ {
			for _, e := range []int{errResetWrapped, errResetPlain, errEOFWrapped} {
				add([]fault{{"Read", k, e}}, false)
			}
			for _, gap := range []int{1, 2} {
				add([]fault{{"Read", k, errResetPlain}, {"Read", k + gap, errResetWrapped}}, false)
			}
			add([]fault{{"Read", k, errResetWrapped}, {"Read", k + 1, errResetPlain}, {"Read", k + 2, errResetPlain}}, false)
		}
		for _, o := range []string{"Write", "Flush"} {
			for k := 1; k <= c[o]; k++ {
				for _, e := range []int{errResetWrapped, errResetPlain} {
					add([]fault{{o, k, e}}, false)
				}
			}
		}
		for _, e := range []int{errResetWrapped, errResetPlain} {
			add([]fault{{"Open", 1, e}}, false)
			add([]fault{{"Close", 1, e}}, true)
			// the underlying Close fails after it has torn the stream down
			// (the read loop wakes up and takes the close token first)
			add([]fault{{"CloseTeardown", 1, e}}, true)
			for _, p := range pols[:3] { // with an IsOpen between the failed and the finishing Close, then reopen
				ops := []op{{K: "O"}, {K: "R"}, {K: "C"}, {K: "I"}, {K: "C"}, {K: "O"}, {K: "R"}, {K: "I"}}
				out = append(out, &caseSpec{Kind: "fault", Ops: ops, Pol: p, Faults: []fault{{"CloseTeardown", 1, e}}, Chunked: chunked})
			}
		}
	}
	return out
}

func genSchedules(rng *rand.Rand, reps int) []*caseSpec {
	var out []*caseSpec
	for _, s := range schedules {
		for i := 0; i < reps; i++ {
			for _, p := range []policy{mkPolicy(false, 0, 0, rng), mkPolicy(true, 2, 0, rng), mkPolicy(true, 2, 1, rng)} {
				out = append(out, &caseSpec{Kind: "sched", Sched: s, Pol: p})
			}
		}
	}
	return out
}

func (h *harness) exec(spec *caseSpec) *driver {
	var d *driver
	for attempt := 0; attempt < 2; attempt++ {
		d = &driver{h: h, spec: spec}
		done := make(chan struct{})
		go func() { defer close(done); d.runCase() }() // a fresh goroutine per case: its id tags the monitor runner
		<-done
		if d.status != stInconclusive {
			break
		}
		h.run.Add("inconclusive_attempts", 1)
	}
	if d.status == stInconclusive {
		h.run.Inconclusive(d.inconcl)
	}
	return d
}

func (h *harness) account(spec *caseSpec, d *driver) {
	h.run.Eval(1)
	kept, failures := normalise(spec.Ops, spec.Pol)
	key := spec.Kind + ":" + opString(kept) + "|" + spec.Pol.String()
	if spec.Kind == "fault" {
		key += fmt.Sprintf("|%v|chunked=%v", spec.Faults, spec.Chunked)
	}
	if spec.Kind == "sched" {
		key = "sched:" + spec.Sched + "|" + spec.Pol.String()
	}
	if spec.Kind == "nats" {
		key = "nats:" + natsNormalise(spec.Ops)
		kept, failures = spec.Ops, strings.Count(key, "D")
	}
	if failures > 0 || len(spec.Faults) > 0 || spec.Kind == "sched" || len(kept) >= 2 {
		h.run.Distinct(key)
	}
	h.mu.Lock()
	defer h.mu.Unlock()
	h.histLens[len(spec.Ops)]++
	if d.status == stOK {
		for _, o := range spec.Ops {
			if o.K == "T" && o.A < 1<<20 {
				k := errKindName(o.B)
				if h.cuts[k] == nil {
					h.cuts[k] = map[int]bool{}
				}
				h.cuts[k][o.A] = true
			}
		}
		for _, f := range spec.Faults {
			if h.faultIdx[f.Op] == nil {
				h.faultIdx[f.Op] = map[int]bool{}
			}
			h.faultIdx[f.Op][f.K] = true
		}
	}
}

func (h *harness) runAll(name string, cases []*caseSpec, workers int) {
	if only := os.Getenv("C15_ONLY"); only != "" && only != name { // development aid
		return
	}
	t0 := time.Now()
	ch := make(chan *caseSpec)
	var wg sync.WaitGroup
	for i := 0; i < workers; i++ {
		wg.Add(1)
		go func() {
			defer wg.Done()
			for c := range ch {
				d := h.exec(c)
				h.account(c, d)
				if d.status == stOK {
					h.run.Add("cases_"+c.Kind+"_held", 1)
				}
			}
		}()
	}
	start := atomic.LoadInt64(&h.newVio)
	launched := 0
	for _, c := range cases {
		if atomic.LoadInt64(&h.newVio)-start >= breakerLimit {
			h.run.Set("workload_cut_short_"+name, fmt.Sprintf("%d of %d cases launched: %d of them ended in a violation", launched, len(cases), breakerLimit))
			break
		}
		ch <- c
		launched++
	}
	close(ch)
	wg.Wait()
	h.run.Set("wall_"+name+"_s", float64(int(time.Since(t0).Seconds()*10))/10)
	h.run.Set("goroutines_after_"+name, runtime.NumGoroutine())
	if os.Getenv("C15_DEBUG") != "" {
		hist := map[string]int{}
		for _, g := range takeDump() {
			lines := strings.Split(g.Text, "\n")
			key := g.State
			for _, l := range lines[1:] {
				if strings.Contains(l, "frugal/lib/go.") || strings.Contains(l, "main.") {
					key += " " + strings.SplitN(l, "(0x", 2)[0]
					break
				}
			}
			hist[key]++
		}
		fmt.Println("DEBUG goroutines after", name, hist)
	}
	h.run.Set("cases_"+name, len(cases))
}

// dryCounts runs the fault-free conversation once and returns how many calls
// of each kind the scripted stream sees.
func (h *harness) dryCounts(chunked bool) (map[string]int, *driver) {
	spec := &caseSpec{Kind: "fault", Ops: conversation(false), Pol: policy{}, Chunked: chunked}
	d := h.exec(spec)
	_, openCalls, closes, reads, writes, flushes := d.st.Snapshot()
	return map[string]int{"Open": openCalls, "Close": closes, "Read": reads, "Write": writes, "Flush": flushes}, d
}

func keysOf(m map[int]bool) []int {
	var out []int
	for k := range m {
		out = append(out, k)
	}
	sort.Ints(out)
	return out
}

func runC15(tier string, args []string) int {
	rig.Quiet() // no verdict depends on log text

	raceChild := len(args) > 0 && args[0] == "race-sample"
	run := ev.New("C15", tier, "fault_enumeration")
	h := &harness{run: run, vioCounts: map[string]int{}, cuts: map[string]map[int]bool{}, faultIdx: map[string]map[int]bool{}, histLens: map[int]int{}}

	if len(args) > 1 && args[0] == "--replay" {
		return replay(h, args[1])
	}

	run.Rule("cases = (a) 3 requests in flight and the 3-frame answer stream cut at every byte offset, ended by EOF (TTransportException and raw) or a connection reset (TTransportException and plain), then reopen, request, second failure, reopen, request, close; (b) the k-th Read/Write/Flush/Open/Close of the stream failing for every k of a 3-request conversation (answers in one piece and in three), single faults and 2-3 read faults in a row; (c) every history over {Open, Close, peerEOF, peerError, garbage, Request, IsOpen} up to the tier's length, under MaxReopenAttempts 0-3 x underlying Open failing 0-3 times x with/without monitor x (InitialWait, MaxWait) pairs half of which are not a power-of-two ratio, reduced to distinct normalised histories, plus random histories up to length 30 including Close() racing a peer error; (e) failure streaks: MaxReopenAttempts up to 8 with the underlying Open failing up to 8 times in a row under wait pairs such as 3/5, 2/5, 1/3, 3/7, 1/30 ms, every recorded wait value <= MaxWait, plus the policy object alone driven as values over a grid of InitialWait <= MaxWait; (f) the NATS client transport (NewFNatsTransport) over a connection whose link to an embedded nats-server is cut and healed through a TCP proxy: every history over {Open, Close, IsOpen, Request, link down, link up} up to the tier's length plus random ones up to length 20, each followed by heal, IsOpen, Request, Close, IsOpen, Open, Request, Close; (d) three forced schedules of Close/Open/failure against the exit of the old read loop. Every case runs on a fresh transport and always ends with a Close that must return. distinct = kind + normalised op string + policy (+ fault plan)")
	run.Assume("rig.ScriptTransport models a blocking byte stream; a write/flush fault breaks the stream in both directions (the read side fails with the same error)")
	run.Assume("a peer EOF may be published as a clean close (nil cause); the monitor runner ends after a clean close or a no-reopen decision, as documented in transport_monitor.go")
	run.Assume("goroutine dumps (runtime.Stack) print the receiver pointer of non-inlined methods and the wait reason of parked goroutines")

	workers := 32
	thorough := run.Thorough()
	maxLen := 4
	nRand := 2500
	schedReps := 8
	if thorough {
		maxLen, nRand, schedReps = 5, 20000, 40
	}
	if raceChild {
		maxLen, nRand, schedReps = 3, 300, 3
	}

	// (e) the monitor policy as values, and long streaks of failed reopens
	h.policyChains()
	h.runAll("streaks", genStreaks(run.Rand("streaks")), workers)

	// (d)
	h.runAll("schedules", genSchedules(run.Rand("sched"), schedReps), workers)

	// (d') one at a time: the schedule that needs the library's yield-point hook
	{
		frugal.VerifSetHook(frameHook)
		installLogGate()
		var ser []*caseSpec
		rng := run.Rand("sched-serial")
		for _, sc := range serialSchedules {
			for i := 0; i < schedReps; i++ {
				for _, p := range []policy{mkPolicy(false, 0, 0, rng), mkPolicy(true, 2, 1, rng), mkPolicy(true, 3, 0, rng)} {
					ser = append(ser, &caseSpec{Kind: "sched", Sched: sc, Pol: p})
				}
			}
		}
		h.runAll("schedules_serial", ser, 1)
		frugal.VerifSetHook(nil)
		rig.Quiet()
	}

	// (b) first: the dry runs also prove that the fault-free conversation holds
	counts := map[bool]map[string]int{}
	for _, chunked := range []bool{false, true} {
		c, d := h.dryCounts(chunked)
		counts[chunked] = c
		h.account(d.spec, d)
		if d.status != stOK {
			run.Inconclusive("the fault-free conversation did not hold; fault indices cannot be enumerated")
		}
	}
	run.Set("conversation_call_counts", map[string]interface{}{"one_piece": counts[false], "three_pieces": counts[true]})
	faults := genFaults(counts, run.Rand("faults"))
	h.runAll("faults", faults, workers)

	// (a)
	streamLen := 0
	{
		// measure the answer stream once
		probe := &caseSpec{Kind: "cut", Ops: []op{{K: "O"}, {K: "T", A: 1 << 20, B: errEOFWrapped}}, Pol: policy{}}
		d := h.exec(probe)
		for _, l := range d.trace {
			var cut, n int
			if _, err := fmt.Sscanf(l, "peer: %d of %d stream bytes", &cut, &n); err == nil {
				streamLen = n
			}
		}
		h.account(probe, d)
	}
	if streamLen == 0 {
		run.Inconclusive("could not measure the 3-frame answer stream")
	}
	run.Set("cut_stream_bytes", streamLen)
	cuts := genCuts(streamLen, run.Rand("cuts"))
	if raceChild {
		cuts = cuts[:len(cuts)/4]
	}
	h.runAll("cuts", cuts, workers)

	// (c)
	hist := genHistories(maxLen, run.Rand("hist"))
	h.runAll("histories", hist, workers)
	rnd := genRandom(nRand, 30, run.Rand("rand"))
	h.runAll("random", rnd, workers)
	run.Set("history_max_length_exhaustive", maxLen)

	// (f) the NATS client transport across broker outages
	natsLen, natsRand := 4, 150
	if thorough {
		natsLen, natsRand = 5, 1500
	}
	if raceChild {
		natsLen, natsRand = 3, 50
	}
	nh := genNatsHistories(natsLen)
	h.runAll("nats_histories", nh, 16)
	h.runAll("nats_random", genNatsRandom(natsRand, 20, run.Rand("nats-rand")), 16)
	run.Set("nats_history_max_length_exhaustive", natsLen)

	// evidence
	h.mu.Lock()
	cutCov := map[string]interface{}{}
	for k, m := range h.cuts {
		ks := keysOf(m)
		cutCov[k] = fmt.Sprintf("%d offsets (%d..%d; the answer stream has %d bytes or a few more when op ids gain digits; larger offsets = after the last frame)", len(ks), ks[0], ks[len(ks)-1], streamLen)
	}
	run.Set("cut_offsets_covered", cutCov)
	fi := map[string][]int{}
	for k, m := range h.faultIdx {
		fi[k] = keysOf(m)
	}
	run.Set("fault_indices_covered", fi)
	run.Set("violation_counts_by_signature", h.vioCounts)
	run.Set("cases_by_length", h.histLens)
	h.mu.Unlock()
	run.Set("transports_created", transportsCreated)
	for i, c := range []*caseSpec{faults[0], cuts[len(cuts)/2], hist[len(hist)/2], rnd[0]} {
		_ = i
		run.Sample(map[string]interface{}{"kind": c.Kind, "ops": opString(c.Ops), "policy": c.Pol.String(), "faults": c.Faults})
	}

	if raceChild {
		fmt.Printf("race-sample done: evaluations=%d violations=%d\n", len(faults)+len(cuts)+len(hist)+len(rnd), run.Violations())
		return 0
	}
	if thorough {
		raceSample(run)
	}
	if run.Count("monitor_uncleanly") == 0 || run.Count("closed_values_non_nil") == 0 || run.Count("responses") == 0 {
		run.Inconclusive("no unclean close / monitor callback / response was observed at all")
	}
	return run.Finish()
}

// raceSample re-executes the -race twin on a sample and records the number
// of race reports as a diagnostic (never a verdict).
func raceSample(run *ev.Run) {
	bin := os.Getenv("VERIF_VRT_RACE")
	if bin == "" {
		run.Set("race_sample", "not run (VERIF_VRT_RACE unset)")
		return
	}
	dir := filepath.Join(ev.ScratchDir(), "c15-race")
	os.MkdirAll(dir, 0o755)
	cmd := exec.Command(bin, "thorough", "race-sample")
	cmd.Env = append(os.Environ(), "GORACE=halt_on_error=0 log_path="+filepath.Join(dir, "race"), "VERIF_OUT="+filepath.Join(dir, "out"))
	t0 := time.Now()
	out, err := cmd.CombinedOutput()
	reports := 0
	var first string
	files, _ := filepath.Glob(filepath.Join(dir, "race.*"))
	for _, f := range files {
		b, _ := os.ReadFile(f)
		reports += strings.Count(string(b), "WARNING: DATA RACE")
		if first == "" {
			if i := strings.Index(string(b), "WARNING: DATA RACE"); i >= 0 {
				first = string(b[i:])
				if len(first) > 3000 {
					first = first[:3000]
				}
			}
		}
	}
	tail := string(out)
	if len(tail) > 600 {
		tail = tail[len(tail)-600:]
	}
	run.Set("race_sample", map[string]interface{}{"race_reports": reports, "wall_s": int(time.Since(t0).Seconds()), "exit_error": fmt.Sprint(err), "tail": tail, "first_report": first})
	fmt.Printf("race sample: %d race reports (diagnostic only)\n", reports)
}

func replay(h *harness, file string) int {
	b, err := os.ReadFile(file)
	if err != nil {
		fmt.Println("cannot read replay file:", err)
		return 2
	}
	var rf struct {
		Signature string `json:"signature"`
		Witness   struct {
			Case caseSpec `json:"case"`
		} `json:"witness"`
	}
	if err := json.Unmarshal(b, &rf); err != nil {
		fmt.Println("cannot parse replay file:", err)
		return 2
	}
	spec := rf.Witness.Case
	os.Setenv("VERIF_OUT", filepath.Join(ev.ScratchDir(), "replay-out"))
	fmt.Printf("replaying %s: kind=%s ops=%s policy=%s faults=%v sched=%s\n", rf.Signature, spec.Kind, opString(spec.Ops), spec.Pol, spec.Faults, spec.Sched)
	d := h.exec(&spec)
	for _, l := range d.trace {
		fmt.Println("  ", l)
	}
	switch d.status {
	case stViolated:
		fmt.Println("REPLAY: violation reproduced")
		return 1
	case stInconclusive:
		fmt.Println("REPLAY: inconclusive:", d.inconcl)
		return 3
	}
	fmt.Println("REPLAY: the case holds now")
	return 0
}
