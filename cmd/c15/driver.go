package main

import (
	"bytes"
	"errors"
	"fmt"
	"io"
	"os"
	"runtime"
	"strings"
	"sync"
	"sync/atomic"
	"time"

	frugal "github.com/Workiva/frugal/lib/go"
	"github.com/apache/thrift/lib/go/thrift"

	"verif/rig"
	"verif/wire"
)

type status int

const (
	stOK status = iota
	stViolated
	stInconclusive
)

// driver runs one case against a fresh adapter transport and compares every
// observation with the reference model.
type driver struct {
	h    *harness
	spec *caseSpec

	st  *ftrans
	tr  frugal.FTransport
	ptr string // receiver pointer as printed in goroutine dumps
	gid string // id of the driver goroutine (the one that calls SetMonitor)
	mon *recMonitor

	m               model
	monInstall      bool
	sessions        int
	reopened        bool   // the current / last session was opened after an earlier one had ended
	prevEndedBy     string // how the session before the current one ended: local | readloop
	lastEndedBy     string
	ch              <-chan error
	stash           *causeVal // first value of ch, when a wait for something else consumed it
	errGen          int       // underlying session (script Opens) in which an error was fed
	openMark        int       // st.openCalls after the last step
	faultErrs       int       // injected read errors already accounted for
	readFaults      []fault   // planned read faults not yet observed
	status          status
	skipFinalIsOpen bool
	blockW          chan struct{}
	halfClosed      bool
	noSettle        bool
	trace           []string
	inconcl         string
	reqGIDs         sync.Map        // done channel of a launched request -> id of its goroutine
	obsReq          <-chan struct{} // the request an await is watching (see observedParked)
	obsOpid         string          // ... and its op id, when the scripted peer answers it
}

type causeVal struct {
	v  error
	ok bool
}

func (d *driver) logf(f string, a ...interface{}) {
	d.trace = append(d.trace, fmt.Sprintf(f, a...))
}

func (d *driver) ctx() string {
	if !d.reopened {
		return "first-session"
	}
	return "after-reopen-following-" + d.prevEndedBy + "-close"
}

func (d *driver) violate(sig, what string, extra interface{}) {
	if d.status != stOK {
		return
	}
	d.status = stViolated
	d.logf("VIOLATION %s: %s", sig, what)
	w := map[string]interface{}{
		"case": d.spec, "ops": opString(d.spec.Ops), "policy": d.spec.Pol.String(), "trace": d.trace,
	}
	if extra != nil {
		w["goroutines"] = extra
	}
	if d.mon != nil {
		w["monitor_events"] = d.mon.all()
	}
	d.st.mu.Lock()
	if len(d.st.dbg) > 0 {
		w["streamlog"] = append([]string(nil), d.st.dbg...)
	}
	d.st.mu.Unlock()
	d.h.violation(sig, what, w)
	d.release()
}

func (d *driver) inconclusive(what string) {
	if d.status != stOK {
		return
	}
	d.status = stInconclusive
	d.inconcl = what
	d.release()
}

// release un-sticks a poisoned transport as far as possible so that its
// goroutines do not pile up (best effort; nothing is judged afterwards).
func (d *driver) release() {
	d.st.mu.Lock()
	for _, g := range []*chan struct{}{&d.st.holdReadErr, &d.st.holdIsOpen, &d.st.holdOpen} {
		if *g != nil {
			close(*g)
			*g = nil
		}
	}
	d.st.mu.Unlock()
	// Wake the read loop (it takes a stale token with it), let a stuck or a
	// fresh Close() finish - that also ends the monitor runner - and only
	// then make sure the stream is closed.
	if d.blockW != nil {
		d.st.SetBlockWrite(nil)
		close(d.blockW)
		d.blockW = nil
	}
	d.st.FeedEOF()
	tr, st := d.tr, d.st
	go func() {
		tr.Close()
		st.ScriptTransport.Close()
	}()
}

// errGenIdle: no stream error has been fed in the current stream session.
func (d *driver) errGenIdle() bool {
	opens, _, _, _, _, _ := d.st.Snapshot()
	return d.errGen != opens
}

func (d *driver) scriptIdle() bool {
	opens, _, _, _, _, _ := d.st.Snapshot()
	return d.st.Pending() == 0 && d.errGen != opens
}

func (d *driver) noteErrFed() {
	opens, _, _, _, _, _ := d.st.Snapshot()
	d.errGen = opens
}

// await waits for an event in stages; after every stage a goroutine dump is
// inspected and crit decides whether a logical blocked-forever condition
// holds (violation).  When the 15 s are over without one the case is
// inconclusive.  The verdict never comes from the time.
func (d *driver) await(name string, wait func(time.Duration) bool, crit func(p *lockPicture, blocks []gblock) (sig, what string, ok bool)) bool {
	if d.status != stOK {
		return false
	}
	for _, s := range waitStages {
		if wait(s) {
			return true
		}
		d.h.run.Add("wait_stage_expiries", 1)
		blocks := takeDump()
		d.h.run.Add("goroutine_dumps", 1)
		p := analyse(blocks, d.ptr, d.gid)
		if wait(0) {
			return true
		}
		if crit != nil {
			if sig, what, ok := crit(&p, blocks); ok {
				d.h.run.Add("blocked_forever_established", 1)
				d.violate(sig, what, p.text())
				return false
			}
		}
	}
	if os.Getenv("C15_DEBUG") != "" {
		p := analyse(takeDump(), d.ptr, d.gid)
		fmt.Printf("DEBUG inconclusive %s: nascent=%v closing=%v readers=%d stuck=%v pending=%d trace=%v\n", name, p.nascent, p.closing, len(p.readers), p.stuckSend != nil, d.st.Pending(), d.trace)
		for _, t := range p.text() {
			fmt.Println(t + "\n")
		}
	}
	d.inconclusive(fmt.Sprintf("%s did not complete within 15 s and no blocked-forever condition was established (case %s %s %v)", name, opString(d.spec.Ops), d.spec.Pol, d.spec.Faults))
	return false
}

func waitChan(done <-chan struct{}) func(time.Duration) bool {
	return func(t time.Duration) bool {
		if t == 0 {
			select {
			case <-done:
				return true
			default:
				return false
			}
		}
		tm := time.NewTimer(t)
		defer tm.Stop()
		select {
		case <-done:
			return true
		case <-tm.C:
			return false
		}
	}
}

// deadlockCrit: the call is parked inside the adapter transport on the
// closeSignal send, or on f.mu while another goroutine is parked on that send
// holding f.mu, and nobody can ever receive from closeSignal.
func (d *driver) deadlockCrit(opName string, monitorSide bool) func(p *lockPicture, blocks []gblock) (string, string, bool) {
	return func(p *lockPicture, _ []gblock) (string, string, bool) {
		mine := func(g *rel) bool {
			if monitorSide {
				return g.Runner
			}
			return g.Mine
		}
		if p.stuckSend == nil {
			for i := range p.lockWaiters {
				if g := &p.lockWaiters[i]; mine(g) && p.selfDeadlock(g) {
					if p.hasStalledWriter() {
						return "C15:deadlock:" + opName + "-behind-stalled-write:" + d.ctx(),
							opName + " never returns: it is parked on the transport's mutex while a send of this transport is parked in the stream's Write (the peer has stopped reading) and every other goroutine of the transport is parked lock-free: the mutex is held across the stalled write", true
					}
					return "C15:deadlock:" + opName + "-waits-for-mutex-nobody-releases:" + d.ctx(),
						opName + " never returns: it is parked on the transport's mutex while every other goroutine of this transport is parked where it holds no lock (read loop in the stream's Read, monitor runner idle, requests waiting): the mutex was taken and is never released (self-deadlock or missing unlock)", true
				}
			}
			return "", "", false
		}
		if p.stuckRecv {
			who := "another call"
			if mine(p.stuckSend) {
				who = opName
			}
			return "C15:deadlock:" + opName + "-close-waits-for-closeSignal-token:" + d.ctx(),
				fmt.Sprintf("%s never returns: %s is parked inside close() on a receive from closeSignal while holding f.mu; the token it waits for was taken by the read loop (the underlying Close tore the stream down before failing) and only another close(), which needs f.mu, could send one", opName, who), true
		}
		if !p.noReceiver(d.scriptIdle()) {
			return "", "", false
		}
		how := ""
		if mine(p.stuckSend) {
			how = "parked on the send `f.closeSignal <- struct{}{}` in close() while holding f.mu; the buffered channel still holds the token of an earlier close that no read loop consumed"
		} else {
			for i := range p.lockWaiters {
				if mine(&p.lockWaiters[i]) {
					how = "parked on f.mu, which is held for good by a goroutine parked on the closeSignal send in close()"
				}
			}
		}
		holder := "another call"
		if p.stuckSend.Reader {
			holder = "the read loop"
		}
		if how == "" {
			// whoever waits: a close() that can never finish, holding f.mu, is the violation
			who := strings.ReplaceAll(holder, " ", "-")
			return "C15:deadlock:close-by-" + who + "-" + d.ctx(),
				holder + " is parked for good on the closeSignal send in close() while holding f.mu (stale token of an earlier close): the close never completes and every later Open/Close/IsOpen/Closed blocks behind it", true
		}
		return "C15:deadlock:" + opName + "-" + d.ctx(),
			fmt.Sprintf("%s never returns: %s (sender: %s; no read loop of this transport can receive: each is absent or parked in the stream's Read with nothing to read)", opName, how, holder), true
	}
}

// call runs fn (one call of the transport) in its own goroutine under the watchdog.
func (d *driver) call(name string, fn func() interface{}) (interface{}, bool) {
	if d.status != stOK {
		return nil, false
	}
	res := make(chan interface{}, 1)
	done := make(chan struct{})
	var out interface{}
	go func() {
		r := fn()
		res <- r
		close(done)
	}()
	ok := d.await(name, waitChan(done), d.deadlockCrit(name, false))
	if ok {
		out = <-res
		d.h.run.Add("calls_"+name, 1)
	}
	return out, ok
}

func asErr(r interface{}) error {
	if r == nil {
		return nil
	}
	return r.(error)
}

// ---------------------------------------------------------------------------

func (d *driver) installMonitor() {
	if d.monInstall || !d.spec.Pol.Monitor {
		return
	}
	d.monInstall = true
	d.mon = newRecMonitor(d.spec.Pol)
	d.mon.tr = d.tr
	d.mon.st = d.st
	d.tr.SetMonitor(d.mon) // from the driver goroutine: the runner is "created by SetMonitor in goroutine <gid>"
	d.m.MonAlive = true
}

// fetchClosed exercises Closed() from the history's side: it must return
// (it takes the transport's lock) and must not be nil while a session exists.
func (d *driver) fetchClosed() {
	r, ok := d.call("Closed", func() interface{} { return d.tr.Closed() })
	if !ok {
		return
	}
	if ch, _ := r.(<-chan error); ch == nil {
		d.violate("C15:Closed-nil-while-open", "Closed() returns a nil channel although a session has been opened", nil)
	}
}

// newSession: a session of the transport has begun (Open by the history or
// by the monitor).  The histories are sequential: the next step starts once
// the session's read loop has begun to read; at that point the scripted
// stream has captured the session's Closed() channel (see ftrans.onSession).
func (d *driver) newSession() {
	d.prevEndedBy = d.lastEndedBy
	d.reopened = d.sessions > 0
	d.sessions++
	if d.status != stOK {
		return
	}
	n := d.sessions
	var ch <-chan error
	ok := d.await("start of the read loop", func(t time.Duration) bool {
		if t == 0 {
			var have bool
			ch, have = d.st.sessionChan(n)
			return have
		}
		deadline := time.Now().Add(t)
		for {
			var have bool
			if ch, have = d.st.sessionChan(n); have {
				return true
			}
			if time.Now().After(deadline) {
				return false
			}
			time.Sleep(20 * time.Microsecond)
		}
	}, d.deadlockCrit("Closed", false))
	if !ok {
		return
	}
	d.ch, d.stash = ch, nil
	if ch == nil {
		d.violate("C15:Closed-nil-while-open", "Closed() returns a nil channel for an open session", nil)
	}
}

func (d *driver) doOpen() {
	_, sOpenCalls, _, _, _, _ := d.st.Snapshot()
	planned := false
	if d.m.Armed == 0 {
		for _, f := range d.spec.Faults {
			if f.Op == "Open" && f.K == sOpenCalls+1 {
				planned = true
			}
		}
	}
	if !d.m.Open {
		d.installMonitor()
	}
	r, ok := d.call("Open", func() interface{} { return d.tr.Open() })
	if !ok {
		return
	}
	err := asErr(r)
	d.logf("Open -> %s", errText(err))
	d.openMark = d.st.snap().openCalls
	switch {
	case d.m.Open:
		if !isTTE(err, thrift.ALREADY_OPEN) {
			d.violate("C15:Open-on-open-transport:"+d.ctx(), "Open on an open transport must fail with TTransportException ALREADY_OPEN, got "+errText(err), nil)
		}
	case d.m.Armed > 0 || planned:
		if d.m.Armed > 0 {
			d.m.Armed--
		}
		if err == nil {
			d.violate("C15:Open-nil-while-underlying-Open-fails", "Open returned nil although the underlying Open failed", nil)
			return
		}
		d.lateClosed("after-failed-Open")
	default:
		if err != nil {
			d.violate("C15:Open-failed-on-closed-transport:"+d.ctx(), "Open on a closed transport whose underlying Open succeeds returned "+errText(err), nil)
			return
		}
		d.m.Open = true
		d.newSession()
		d.fetchClosed()
	}
}

func (d *driver) doEnsureOpen() {
	for i := 0; !d.m.Open && i < 12 && d.status == stOK; i++ {
		d.doOpen()
	}
	if d.status == stOK && !d.m.Open {
		d.violate("C15:cannot-reopen-by-hand", "repeated Open calls do not open the transport although the underlying Open succeeds", nil)
	}
}

func (d *driver) doIsOpen() {
	r, ok := d.call("IsOpen", func() interface{} { return d.tr.IsOpen() })
	if !ok {
		return
	}
	got := r.(bool)
	d.logf("IsOpen -> %v", got)
	if d.halfClosed {
		return // between a failed and the finishing Close only "it returns" is required
	}
	if got != d.m.Open {
		d.violate(fmt.Sprintf("C15:IsOpen-%v-while-%s:%s", got, map[bool]string{true: "open", false: "closed"}[d.m.Open], d.ctx()),
			fmt.Sprintf("IsOpen reports %v while the life-cycle model says open=%v", got, d.m.Open), nil)
	}
}

func (d *driver) plannedFault(opName string, idx int) *fault {
	for i := range d.spec.Faults {
		if f := &d.spec.Faults[i]; f.Op == opName && f.K == idx {
			return f
		}
	}
	return nil
}

func (d *driver) doClose() {
	_, _, sCloses, _, _, _ := d.st.Snapshot()
	teardown := d.plannedFault("CloseTeardown", d.st.closeCount()+1)
	r, ok := d.call("Close", func() interface{} { return d.tr.Close() })
	if !ok {
		return
	}
	err := asErr(r)
	d.logf("Close -> %s", errText(err))
	if d.halfClosed {
		// the previous Close handed back the underlying transport's error
		// after the stream was torn down; this one must finish the job
		d.halfClosed = false
		if err != nil {
			d.violate("C15:Close-fails-again-after-failed-underlying-Close", "the first Close returned the underlying transport's error (stream already torn down); the second Close returned "+errText(err)+" instead of closing the transport", nil)
			return
		}
		d.closeProtocol("local")
		return
	}
	if d.m.Open && teardown != nil {
		if err == nil {
			// closed in spite of the underlying error: fine, but then completely
			d.closeProtocol("local")
			return
		}
		// Neither open nor closed for good yet: nothing is asserted about
		// IsOpen / Open / Request here except that they return; a second
		// Close must complete the close.
		d.logf("underlying Close failed after tearing the stream down; a second Close must finish")
		d.halfClosed = true
		return
	}
	if !d.m.Open {
		if !isTTE(err, thrift.NOT_OPEN) {
			d.violate("C15:Close-on-closed-transport:"+d.ctx(), "Close on a closed transport must fail with TTransportException NOT_OPEN, got "+errText(err), nil)
		}
		return
	}
	if err != nil {
		if d.plannedFault("Close", sCloses+1) == nil {
			d.violate("C15:Close-failed-on-open-transport:"+d.ctx(), "Close on an open transport returned "+errText(err), nil)
			return
		}
		// The underlying Close failed and the error was handed back.  Either
		// state is defensible; IsOpen arbitrates and everything after must
		// be consistent with it.
		r, ok := d.call("IsOpen", func() interface{} { return d.tr.IsOpen() })
		if !ok {
			return
		}
		if r.(bool) {
			d.logf("underlying Close failed; transport still open")
			return
		}
	}
	d.closeProtocol("local")
}

// awaitCause receives the first value of the session's Closed() channel.
func (d *driver) awaitCause(kind string, faultMark int) (causeVal, bool) {
	if d.stash != nil {
		c := *d.stash
		d.stash = nil
		return c, true
	}
	var c causeVal
	got := false
	ch := d.ch
	wait := func(t time.Duration) bool {
		if got {
			return true
		}
		if t == 0 {
			select {
			case c.v, c.ok = <-ch:
				got = true
			default:
			}
			return got
		}
		tm := time.NewTimer(t)
		defer tm.Stop()
		select {
		case c.v, c.ok = <-ch:
			got = true
		case <-tm.C:
		}
		return got
	}
	crit := func(p *lockPicture, _ []gblock) (string, string, bool) {
		for i := range p.lockWaiters {
			if g := &p.lockWaiters[i]; g.Reader && g.Closing && p.selfDeadlock(g) && p.hasStalledWriter() {
				return "C15:deadlock:close-by-the-read-loop-behind-stalled-write:" + d.ctx(),
					"the read loop's close() is parked on the transport's mutex while a send is parked in the stream's Write and everything else is parked lock-free: the mutex is held across the stalled write, the close cause is never published", true
			}
		}
		if p.stuckSend != nil && !p.stuckRecv && p.noReceiver(d.scriptIdle()) {
			who := "a call"
			if p.stuckSend.Reader {
				who = "the read loop"
			}
			return "C15:deadlock:close-by-" + strings.ReplaceAll(who, " ", "-") + "-" + d.ctx(),
				who + " is parked for good on the closeSignal send in close() (stale token of an earlier close): the close cause is never published", true
		}
		if p.nascent || p.closing {
			return "", "", false
		}
		if kind == "local" {
			return "C15:no-close-cause:local-Close-" + d.ctx(), "Close() returned nil but the Closed() channel obtained while open never yields", true
		}
		if kind == "garbage" && len(p.readers) > 0 && d.st.Pending() == 0 {
			all := true
			for i := range p.readers {
				if !p.readers[i].parkedInStreamRead() {
					all = false
				}
			}
			if all {
				return "C15:failure-ignored:garbage:" + d.ctx(),
					"the read loop has consumed the whole garbage frame and is parked in Read again with nothing left to read; nobody is inside close(): the unrecoverable frame error did not close the transport", true
			}
		}
		if len(p.readers) > 0 {
			return "", "", false
		}
		s := d.st.snap()
		delivered := s.readErrs > faultMark || (kind == "garbage" && d.st.Pending() == 0)
		if !delivered {
			return "", "", false
		}
		sig := "C15:swallowed-failure"
		if d.reopened {
			sig = "C15:swallowed-failure-after-reopen"
		}
		return sig + ":" + d.ctx(),
			fmt.Sprintf("the stream failure (%s) was delivered to the read loop, the read loop has exited, nobody is inside close(), yet the Closed() channel obtained before the failure never yields: the failure is swallowed (transport IsOpen=%v)", kind, d.st.ScriptTransport.IsOpen()), true
	}
	ok := d.await("close cause ("+kind+")", wait, crit)
	return c, ok
}

// closeProtocol checks everything that must follow the end of the current
// session: exactly one cause of the right class, channel closed, monitor
// callbacks, reopen attempts and waits, final state.
// kind: local | eof | error | garbage | race
func (d *driver) closeProtocol(kind string) {
	d.closeProtocolFrom(kind, d.st.snap().readErrs)
}

func (d *driver) closeProtocolFrom(kind string, faultMark int) {
	c, ok := d.awaitCause(kind, faultMark)
	if !ok {
		return
	}
	if !c.ok {
		d.violate("C15:closed-channel-without-cause:"+d.ctx(), "the Closed() channel obtained while the transport was open was closed without ever yielding a cause ("+kind+")", nil)
		return
	}
	d.logf("Closed() <- %s (%s)", errText(c.v), kind)
	if c.v == nil {
		d.h.run.Add("closed_values_nil", 1)
	} else {
		d.h.run.Add("closed_values_non_nil", 1)
	}
	switch kind {
	case "local":
		if c.v != nil {
			d.violate("C15:non-nil-cause-for-local-Close", "a local Close() published the cause "+errText(c.v), nil)
			return
		}
	case "error", "garbage":
		if c.v == nil {
			d.violate("C15:nil-cause-for-non-EOF-failure:"+kind, "a non-EOF stream failure was published as a clean close (nil cause)", nil)
			return
		}
	}
	// exactly one value, then closed
	var c2 causeVal
	got := false
	ch := d.ch
	wait2 := func(t time.Duration) bool {
		if got {
			return true
		}
		if t == 0 {
			select {
			case c2.v, c2.ok = <-ch:
				got = true
			default:
			}
			return got
		}
		tm := time.NewTimer(t)
		defer tm.Stop()
		select {
		case c2.v, c2.ok = <-ch:
			got = true
		case <-tm.C:
		}
		return got
	}
	if !d.await("Closed() channel close", wait2, func(p *lockPicture, _ []gblock) (string, string, bool) {
		if p.closing || p.nascent {
			return "", "", false
		}
		return "C15:Closed-channel-not-closed", "the Closed() channel yielded its cause but is never closed although nobody is inside close() any more", true
	}) {
		return
	}
	if c2.ok {
		d.violate("C15:more-than-one-close-cause", "the Closed() channel yielded a second value: "+errText(c2.v), nil)
		return
	}
	if kind == "local" || (kind == "race" && c.v == nil) {
		d.lastEndedBy = "local"
	} else {
		d.lastEndedBy = "readloop"
	}
	exp := d.m.closeByFailure(d.spec.Pol, c.v == nil)
	if d.mon != nil && (exp.MonEnds || exp.Uncleanly) {
		d.monitorProtocol(c.v, exp)
	}
	if d.status != stOK {
		return
	}
	d.openMark = d.st.snap().openCalls
	if !d.m.Open && !d.skipFinalIsOpen {
		r, ok := d.call("IsOpen", func() interface{} { return d.tr.IsOpen() })
		if ok && r.(bool) {
			d.violate("C15:IsOpen-true-after-close:"+kind, "the cause was published and no reopen is due, but IsOpen still reports true", nil)
		}
		d.lateClosed("after-close")
	}
}

// lateClosed: the transport is closed (a session has ended and none is
// open).  A client that fetches Closed() only now must still learn that: the
// channel it gets must be ready - the cause still buffered, or the channel
// closed - and must not hand out a second cause once the driver has taken the
// one of the last session.
func (d *driver) lateClosed(when string) {
	if d.status != stOK || d.m.Open || d.sessions == 0 || d.stash != nil {
		return
	}
	r, ok := d.call("Closed", func() interface{} { return d.tr.Closed() })
	if !ok {
		return
	}
	d.h.run.Add("late_Closed_fetches", 1)
	ch, _ := r.(<-chan error)
	if ch == nil {
		d.violate("C15:late-Closed-nil:"+when, "Closed() fetched on a closed transport that has had a session returns nil", nil)
		return
	}
	select {
	case v, ok := <-ch:
		if ok && ch == d.ch {
			d.violate("C15:more-than-one-close-cause", "the Closed() channel of the ended session yields another value when fetched late: "+errText(v), nil)
		}
	default:
		d.violate("C15:late-Closed-never-fires:"+when, "the transport is closed (the last session's cause was published) but a Closed() channel fetched now is neither closed nor holds a cause: a late watcher never learns of the close", nil)
	}
}

func (d *driver) expectEvent(kind string) (monEvent, bool) {
	var e monEvent
	got := false
	wait := func(t time.Duration) bool {
		if got {
			return true
		}
		if e, got = d.mon.next(); got {
			return true
		}
		if t == 0 {
			return false
		}
		tm := time.NewTimer(t)
		defer tm.Stop()
		for {
			select {
			case <-d.mon.wake:
				if e, got = d.mon.next(); got {
					return true
				}
			case <-tm.C:
				e, got = d.mon.next()
				return got
			}
		}
	}
	crit := func(p *lockPicture, blocks []gblock) (string, string, bool) {
		if s, w, ok := d.deadlockCrit("monitor-reopen", true)(p, blocks); ok {
			return s, w, ok
		}
		if p.closing || p.nascent {
			return "", "", false // the close that must notify the monitor is still running
		}
		if p.runner == nil {
			return "C15:monitor-callback-missing:" + kind, "the monitor runner has terminated without the " + kind + " callback", true
		}
		if p.runner.State == "chan receive" && !strings.Contains(p.runner.Text, "handleUncleanClose") && !strings.Contains(p.runner.Text, "handleCleanClose") {
			return "C15:monitor-callback-missing:" + kind,
				"the transport has closed (cause published, channel closed, nobody inside close()) but the monitor runner is parked waiting for a close notification: the monitor was not notified; expected callback " + kind, true
		}
		return "", "", false
	}
	if !d.await("monitor callback "+kind, wait, crit) {
		return e, false
	}
	d.h.run.Add("monitor_"+e.Kind, 1)
	d.logf("monitor %s cause=%s prevAttempts=%d prevWait=%v -> reopen=%v wait=%v", e.Kind, errText(e.Cause), e.PrevAttempts, e.PrevWait, e.Reopen, e.Wait)
	if e.Kind != kind {
		d.violate("C15:monitor-callback-sequence:want-"+kind+"-got-"+e.Kind, "monitor callback "+e.Kind+" where the life-cycle model expects "+kind, nil)
		return e, false
	}
	return e, true
}

// expectEventAny waits for the next monitor callback whatever its kind.
func (d *driver) expectEventAny() (monEvent, bool) {
	var e monEvent
	got := false
	ok := d.await("monitor callback", func(t time.Duration) bool {
		if got {
			return true
		}
		deadline := time.Now().Add(t)
		for {
			if e, got = d.mon.next(); got {
				return true
			}
			if !time.Now().Before(deadline) {
				return false
			}
			time.Sleep(50 * time.Microsecond)
		}
	}, d.deadlockCrit("monitor-reopen", true))
	if ok {
		d.h.run.Add("monitor_"+e.Kind, 1)
		d.logf("monitor %s -> reopen=%v wait=%v", e.Kind, e.Reopen, e.Wait)
	}
	return e, ok
}

func (d *driver) checkWait(e monEvent) bool {
	p := d.spec.Pol
	if e.Reopen && e.Wait > p.MaxWait {
		d.violate("C15:wait-above-MaxWait", fmt.Sprintf("the monitor decided to wait %v, above MaxWait %v (InitialWait %v)", e.Wait, p.MaxWait, p.Initial), nil)
		return false
	}
	return true
}

func (d *driver) monitorProtocol(cause error, exp expect) {
	p := d.spec.Pol
	if !exp.Uncleanly {
		d.expectEvent("cleanly")
		return
	}
	e, ok := d.expectEvent("uncleanly")
	if !ok {
		return
	}
	base, last := e.OpenCalls, e.OpenCalls
	if !sameErr(e.Cause, cause) {
		d.violate("C15:monitor-cause-differs", "OnClosedUncleanly got "+errText(e.Cause)+" but Closed() published "+errText(cause), nil)
		return
	}
	if !d.checkWait(e) {
		return
	}
	if e.Reopen != (p.Max > 0) {
		d.violate("C15:reopen-decision", fmt.Sprintf("OnClosedUncleanly returned reopen=%v with MaxReopenAttempts=%d", e.Reopen, p.Max), nil)
		return
	}
	for i := 1; i <= exp.Fails; i++ {
		e, ok := d.expectEvent("reopenFailed")
		if !ok {
			return
		}
		last = e.OpenCalls
		if e.OpenAtCallback {
			d.violate("C15:OnReopenFailed-while-open", fmt.Sprintf("OnReopenFailed (attempt %d) was called while the transport is open", i), nil)
			return
		}
		if e.LateSampled {
			d.h.run.Add("late_Closed_fetches", 1)
			if !e.LateReady {
				d.violate("C15:late-Closed-never-fires:during-monitor-backoff", fmt.Sprintf("after failed reopen attempt %d the transport is closed, but a Closed() channel fetched at that moment is neither closed nor holds a cause", i), nil)
				return
			}
		}
		if e.Reopen && i >= p.Max {
			d.violate("C15:more-than-MaxReopenAttempts", fmt.Sprintf("after %d failed reopen attempts the monitor decided to try again; MaxReopenAttempts is %d", i, p.Max), nil)
			return
		}
		if !e.Reopen && i < p.Max {
			d.violate("C15:gives-up-before-MaxReopenAttempts", fmt.Sprintf("after %d failed reopen attempts the monitor gave up; MaxReopenAttempts is %d", i, p.Max), nil)
			return
		}
		if int(e.PrevAttempts) != i {
			d.violate("C15:OnReopenFailed-attempt-count", fmt.Sprintf("OnReopenFailed number %d was given prevAttempts=%d", i, e.PrevAttempts), nil)
			return
		}
		if !d.checkWait(e) {
			return
		}
	}
	if exp.Reopened {
		e, ok := d.expectEvent("reopenSucceeded")
		if !ok {
			return
		}
		last = e.OpenCalls
		d.newSession()
	}
	attempts := last - base // Open calls between the callbacks, stamped on the runner's goroutine
	want := exp.Fails
	if exp.Reopened {
		want++
	}
	d.h.run.Add("monitor_open_attempts", attempts)
	if attempts > p.Max {
		d.violate("C15:more-than-MaxReopenAttempts", fmt.Sprintf("the monitor made %d Open attempts, MaxReopenAttempts is %d", attempts, p.Max), nil)
		return
	}
	if attempts != want {
		d.violate("C15:reopen-attempt-count", fmt.Sprintf("the monitor made %d Open attempts where the policy (max %d, %d failing opens) gives %d", attempts, p.Max, exp.Fails, want), nil)
	}
}

// ---------------------------------------------------------------------------

func (d *driver) armFailures() {
	d.m.Armed = d.spec.Pol.OpenFails
	d.st.armOpenFailures(d.m.Armed)
}

func (d *driver) doPeer(o op) {
	if !d.m.Open {
		return
	}
	d.armFailures()
	mark := d.st.snap().readErrs
	switch o.K {
	case "E":
		k := errEOFWrapped
		if o.A%4 == 3 {
			k = errEOFRaw
		}
		d.logf("peer: EOF (%s)", errKindName(k))
		d.noteErrFed()
		d.st.FeedError(mkErr(k))
		d.closeProtocolFrom("eof", mark)
	case "X":
		k := o.A % 2
		d.logf("peer: error (%s)", errKindName(k))
		d.noteErrFed()
		d.st.FeedError(mkErr(k))
		d.closeProtocolFrom("error", mark)
	case "G":
		name, b := garbage(o.A)
		d.logf("peer: garbage frame %s %x", name, b)
		d.st.Feed(b)
		d.closeProtocolFrom("garbage", mark)
	}
}

type reqResult struct {
	body []byte
	err  error
}

// startRequest issues one Request in its own goroutine.
func (d *driver) startRequest(payload []byte) (want []byte, res chan reqResult, done chan struct{}) {
	ctx, frame, want := prepRequest(payload)
	d.obsOpid, _ = ctx.RequestHeader("_opid")
	res, done = d.launch(ctx, frame, 30*time.Second)
	return
}

func prepRequest(payload []byte) (ctx frugal.FContext, frame, want []byte) {
	ctx = frugal.NewFContext("c15")
	opid, _ := ctx.RequestHeader("_opid")
	frame = wire.BuildFrame([]wire.Pair{{Name: "_cid", Value: "c15"}, {Name: "_opid", Value: opid}}, payload)
	want = responseFor(frame)[4:]
	return
}

// launch issues the Request in its own goroutine. The timeout is generous
// where an answer is due; a request that the script will never answer gets a
// short one so that it does not linger (its outcome is not judged).
func (d *driver) launch(ctx frugal.FContext, frame []byte, timeout time.Duration) (res chan reqResult, done chan struct{}) {
	ctx.SetTimeout(timeout)
	res = make(chan reqResult, 1)
	done = make(chan struct{})
	tr := d.tr
	go func() {
		d.reqGIDs.Store((<-chan struct{})(done), curGID())
		t, err := tr.Request(ctx, frame)
		var b []byte
		if err == nil && t != nil {
			b, _ = io.ReadAll(t)
		}
		res <- reqResult{b, err}
		close(done)
	}()
	return
}

// observedParked: in the picture q the goroutine of the request under
// observation (d.obsReq) is parked in the select of Request, waiting for its
// answer.  Anything else - it has not started yet, it has been handed its
// answer and is on its way out, it is gone - is not "waiting for good", and
// other requests of the case (e.g. those of a cut stream that are never
// answered and only wait for their short timeout) say nothing about it.
func (d *driver) observedParked(q *lockPicture) bool {
	if d.obsReq == nil {
		return false
	}
	v, ok := d.reqGIDs.Load(d.obsReq)
	if !ok {
		return false
	}
	for i := range q.related {
		if g := &q.related[i]; g.ID == v.(string) {
			return g.State == "select" && g.in("Request")
		}
	}
	return false
}

func (d *driver) unansweredCrit(p *lockPicture, _ []gblock) (string, string, bool) {
	if s, w, ok := d.deadlockCrit("Request", false)(p, nil); ok {
		return s, w, ok
	}
	// The peer's whole answer has been fed and taken off the stream; if a
	// snapshot taken after that shows every read loop parked in Read again
	// and every request of this case still waiting in its select, the answer
	// was consumed without being delivered and nothing is in flight any more.
	if d.obsOpid != "" && d.st.fedFor(d.obsOpid) && d.st.Pending() == 0 && d.errGenIdle() {
		q := analyse(takeDump(), d.ptr, d.gid)
		d.h.run.Add("goroutine_dumps", 1)
		quiet := len(q.readers) > 0 && !q.nascent && !q.closing
		for i := range q.readers {
			if !q.readers[i].parkedInStreamRead() {
				quiet = false
			}
		}
		for i := range q.related {
			if g := &q.related[i]; g.Mine && g.in("Request") && g.State != "select" {
				quiet = false
			}
		}
		if quiet && d.observedParked(&q) {
			return "C15:answer-consumed-not-delivered:" + d.ctx(),
				"the peer's complete answer was read off the stream, the read loop is parked in Read again, the transport is not closing, and the request still waits: the frame was lost inside the transport (e.g. framing state left over from an earlier session)", true
		}
	}
	if len(p.readers) == 0 && !p.nascent && !p.closing && d.observedParked(p) {
		// (await has just re-checked that neither the answer nor a close cause has arrived,
		// and in the same picture the request is parked in its select)
		if len(d.readFaults) > 0 && d.readFaultFired() {
			sig := "C15:swallowed-failure"
			if d.reopened {
				sig = "C15:swallowed-failure-after-reopen"
			}
			return sig + ":" + d.ctx(),
				"a planned read failure was delivered to the read loop, the read loop has exited, nobody is inside close(), yet the Closed() channel never yields and the transport still counts as open: the failure is swallowed and the pending request can never complete", true
		}
		return "C15:request-unanswered-no-read-loop:" + d.ctx(),
			"the session counts as open (no close cause published, nobody inside close()) but the transport has no read loop any more: the request can never complete", true
	}
	return "", "", false
}

func (d *driver) doRequest() {
	_, _, _, _, sW, sF := d.st.Snapshot()
	wasOpen := d.m.Open
	rmark := d.st.snap().readErrs
	want, res, done := d.startRequest([]byte(fmt.Sprintf("ping-%d", len(d.trace))))
	d.obsReq = done
	defer func() { d.obsReq, d.obsOpid = nil, "" }()
	if !wasOpen {
		if !d.await("Request on a closed transport", waitChan(done), d.deadlockCrit("Request", false)) {
			return
		}
		r := <-res
		d.logf("Request (closed) -> %s", errText(r.err))
		if r.err == nil {
			d.violate("C15:Request-nil-on-closed-transport", "Request on a closed transport returned a response", nil)
		}
		return
	}
	// open: the answer, or the end of the session (only legal when a planned fault is due)
	var closed *causeVal
	ch := d.ch
	finished := false
	wait := func(t time.Duration) bool {
		if finished || closed != nil {
			return true
		}
		select { // the answer first when both are ready
		case <-done:
			finished = true
			return true
		default:
		}
		if t == 0 {
			select {
			case <-done:
				finished = true
			case v, ok := <-ch:
				closed = &causeVal{v, ok}
			default:
			}
			return finished || closed != nil
		}
		tm := time.NewTimer(t)
		defer tm.Stop()
		select {
		case <-done:
			finished = true
		case v, ok := <-ch:
			closed = &causeVal{v, ok}
		case <-tm.C:
		}
		return finished || closed != nil
	}
	if !d.await("Request", wait, d.unansweredCrit) {
		return
	}
	if finished {
		r := <-res
		if r.err == nil {
			d.h.run.Add("responses", 1)
			d.logf("Request -> response %d bytes", len(r.body))
			if !bytes.Equal(r.body, want) {
				d.violate("C15:wrong-response:"+d.ctx(), fmt.Sprintf("Request returned %x, the peer sent %x", r.body, want), nil)
			}
			return
		}
		d.logf("Request -> %s", errText(r.err))
		f := d.plannedFault("Write", sW+1)
		if f == nil {
			f = d.plannedFault("Flush", sF+1)
		}
		if f != nil && errors.Is(r.err, rig.ErrReset) {
			d.noteErrFed()
			d.m.Armed = d.spec.Pol.OpenFails
			d.closeProtocolFrom("error", rmark)
			return
		}
		if len(d.readFaults) > 0 { // a planned read fault closed the session under the request
			d.observeReadFault()
			return
		}
		d.violate("C15:Request-failed-on-open-transport:"+d.ctx(), "Request on an open transport failed with "+errText(r.err), nil)
		return
	}
	d.stash = closed
	if f := d.plannedFault("Write", sW+1); f != nil || d.plannedFault("Flush", sF+1) != nil {
		// the planned write/flush fault broke the stream; the request's own error is on its way
		if !d.await("Request", waitChan(done), d.deadlockCrit("Request", false)) {
			return
		}
		r := <-res
		d.logf("Request -> %s", errText(r.err))
		if r.err == nil {
			d.violate("C15:Request-nil-on-failed-write", "Request returned a response although its write failed", nil)
			return
		}
		d.noteErrFed()
		d.m.Armed = d.spec.Pol.OpenFails
		d.closeProtocolFrom("error", rmark)
		return
	}
	if len(d.readFaults) > 0 {
		d.logf("Request abandoned: the session ended under it")
		d.observeReadFault()
		return
	}
	d.violate("C15:spurious-close:"+d.ctx(), fmt.Sprintf("the session was closed (Closed() yielded %s) although no stream failure happened and nobody called Close", errText(closed.v)), nil)
}

// observeReadFault accounts for the next planned read fault.
func (d *driver) observeReadFault() {
	f := d.readFaults[0]
	d.readFaults = d.readFaults[1:]
	d.faultErrs++
	d.noteErrFed()
	d.m.Armed = d.spec.Pol.OpenFails // armed by the stream at the moment the fault was delivered
	d.logf("planned fault: Read #%d fails with %s", f.K, errKindName(f.Err))
	kind := "error"
	if isEOFKind(f.Err) {
		kind = "eof"
	}
	// armed open failures were set before the conversation started
	d.closeProtocolFrom(kind, 0)
}

// syncReader makes the histories sequential: a step starts when the session's
// read loop is parked in Read with nothing left to read (so it is not between
// two frames while the step closes or reopens the transport - that window is
// the subject of a forced schedule of its own), or has been handed a planned
// fault, which is then accounted for first.
func (d *driver) syncReader() {
	for d.m.Open && d.status == stOK && !d.noSettle && !d.halfClosed {
		hit := false
		check := func() bool {
			if len(d.readFaults) > 0 && d.readFaultFired() {
				hit = true
				return true
			}
			parked, pending := d.st.ParkedReaders()
			return parked > 0 && pending == 0
		}
		settled := d.await("read loop back in Read", func(t time.Duration) bool {
			deadline := time.Now().Add(t)
			for i := 0; ; i++ {
				if check() {
					return true
				}
				if !time.Now().Before(deadline) {
					return false
				}
				if i < 50 {
					runtime.Gosched()
				} else {
					time.Sleep(50 * time.Microsecond)
				}
			}
		}, func(p *lockPicture, b []gblock) (string, string, bool) {
			if s, w, ok := d.deadlockCrit("read-loop", false)(p, b); ok {
				return s, w, ok
			}
			if len(p.readers) == 0 && !p.nascent && !p.closing {
				select {
				case v, ok := <-d.ch:
					d.stash = &causeVal{v, ok}
					return "C15:spurious-close:" + d.ctx(), fmt.Sprintf("the session was closed (Closed() yielded %s) although no stream failure happened and nobody called Close", errText(v)), true
				default:
				}
				return "C15:open-session-without-read-loop:" + d.ctx(),
					"the session counts as open (no close cause published, nobody inside close()) but the transport has no read loop: no failure of the stream can ever be detected", true
			}
			return "", "", false
		})
		if !settled || !hit {
			return // parked in a Read that has passed its fault check: nothing can happen until something is fed
		}
		d.observeReadFault()
	}
}

func (d *driver) readFaultFired() bool {
	_, _, _, reads, _, _ := d.st.Snapshot()
	return reads >= d.readFaults[0].K
}

// doRace: Close() racing a peer error. Either side may win.
func (d *driver) doRace() {
	if !d.m.Open {
		return
	}
	d.armFailures()
	mark := d.st.snap().readErrs
	res := make(chan error, 1)
	done := make(chan struct{})
	tr := d.tr
	start := func() {
		go func() { res <- tr.Close(); close(done) }()
	}
	d.noteErrFed()
	if d.spec.Order%2 == 0 {
		start()
		d.st.FeedError(mkErr(errResetPlain))
	} else {
		d.st.FeedError(mkErr(errResetPlain))
		start()
	}
	if !d.await("Close", waitChan(done), d.deadlockCrit("Close", false)) {
		return
	}
	cerr := <-res
	d.logf("race: Close -> %s", errText(cerr))
	if cerr != nil && !isTTE(cerr, thrift.NOT_OPEN) {
		d.violate("C15:Close-racing-failure", "Close racing a peer failure returned "+errText(cerr), nil)
		return
	}
	first := d.ch
	d.closeProtocolFrom("race", mark)
	if d.status != stOK {
		return
	}
	userClosedThis := d.lastEndedBy == "local"
	switch {
	case userClosedThis && cerr != nil:
		d.violate("C15:race-inconsistent", "the session ended with a nil cause but Close() reported NOT_OPEN and the peer failure was not an EOF", nil)
	case !userClosedThis && cerr == nil:
		// the read loop's close won; Close() can only have closed a session
		// that the monitor had already reopened
		if !d.m.Open || d.ch == first {
			d.violate("C15:race-two-closes-one-session", "both the read loop's close (cause published) and Close() (nil) claim to have closed the same session", nil)
			return
		}
		d.closeProtocol("local")
	}
}

// doCut: three requests in flight, the 3-frame answer stream cut at a byte
// offset and ended with an error of the given kind.
func (d *driver) doCut(o op) {
	if !d.m.Open {
		return
	}
	d.st.mu.Lock()
	d.st.collect = true
	d.st.requests = nil
	d.st.mu.Unlock()
	sizes := []int{0, 7, 40}
	type inflight struct {
		ctx   frugal.FContext
		frame []byte
		want  []byte
		res   chan reqResult
		done  chan struct{}
	}
	var order []*inflight
	var stream []byte
	var ends []int
	for _, n := range sizes {
		fl := &inflight{}
		fl.ctx, fl.frame, fl.want = prepRequest(bytes.Repeat([]byte{'q'}, n))
		order = append(order, fl)
		stream = append(stream, responseFor(fl.frame)...)
		ends = append(ends, len(stream))
	}
	flushMark := d.st.flushReturns()
	for i, fl := range order {
		to := 30 * time.Second
		if ends[i] > o.A {
			to = 250 * time.Millisecond // never answered: its frame is cut
		}
		fl.res, fl.done = d.launch(fl.ctx, fl.frame, to)
	}
	// ... and every sender is back from its Flush: a frame may reach the peer
	// through another sender's Flush, and a request whose own Flush is still
	// on its way when the stream is cut legitimately fails with that error.
	if !pollUntil(func() (bool, bool) {
		return d.st.snap().collected == len(sizes) && d.st.flushReturns() >= flushMark+len(sizes), true
	}) {
		d.inconclusive("the three requests did not reach the peer within 15 s")
		return
	}
	d.st.mu.Lock()
	d.st.collect = false
	d.st.mu.Unlock()
	cut := o.A
	if cut > len(stream) {
		cut = len(stream)
	}
	d.armFailures()
	mark := d.st.snap().readErrs
	d.logf("peer: %d of %d stream bytes (frames end at %v), then %s", cut, len(stream), ends, errKindName(o.B))
	d.noteErrFed()
	d.st.dbgf("cut feeds %x", stream[:cut])
	d.st.Feed(stream[:cut])
	d.st.FeedError(mkErr(o.B))
	for i, fl := range order {
		if ends[i] > cut || fl == nil {
			continue
		}
		d.obsReq = fl.done
		ok := d.await("Request (complete frame before the cut)", waitChan(fl.done), d.unansweredCrit)
		d.obsReq = nil
		if !ok {
			return
		}
		r := <-fl.res
		if r.err != nil || !bytes.Equal(r.body, fl.want) {
			d.violate("C15:complete-frame-before-cut-not-delivered", fmt.Sprintf("frame %d lies completely before the cut but its request got (%x, %s)", i, r.body, errText(r.err)), nil)
			return
		}
		d.h.run.Add("responses", 1)
	}
	kind := "error"
	if isEOFKind(o.B) {
		kind = "eof"
	}
	d.closeProtocolFrom(kind, mark)
}

// ---------------------------------------------------------------------------

var transportsCreated int64

func (d *driver) setup() {
	atomic.AddInt64(&transportsCreated, 1)
	d.gid = curGID()
	d.st = newFtrans()
	d.st.chunked = d.spec.Chunked
	if len(d.spec.Faults) > 0 {
		d.st.armOnFault = d.spec.Pol.OpenFails
	}
	d.errGen = -1
	for _, f := range d.spec.Faults {
		e := mkErr(f.Err)
		switch f.Op {
		case "Open":
			addFault(&d.st.FailOpen, f.K, e)
		case "Close":
			addFault(&d.st.FailClose, f.K, e)
		case "CloseTeardown":
			if d.st.teardownFail == nil {
				d.st.teardownFail = map[int]error{}
			}
			d.st.teardownFail[f.K] = e
		case "Read":
			addFault(&d.st.FailRead, f.K, e)
			d.readFaults = append(d.readFaults, f)
		case "Write":
			addFault(&d.st.FailWrite, f.K, e)
		case "Flush":
			addFault(&d.st.FailFlush, f.K, e)
		}
	}
	d.tr = frugal.NewAdapterTransport(d.st)
	tr := d.tr
	d.st.onSession = func() <-chan error { return tr.Closed() }
	d.ptr = fmt.Sprintf("%p", d.tr)
	d.st.teardownSettled = func() bool {
		p := analyse(takeDump(), d.ptr, d.gid)
		return len(p.readers) == 0 && !p.nascent
	}
}

func addFault(m *map[int]error, k int, e error) {
	if *m == nil {
		*m = map[int]error{}
	}
	(*m)[k] = e
}

// noSpuriousClose: while the model says open and no fault is due, the
// session's Closed() channel must not have yielded.
func (d *driver) noSpuriousClose() {
	if !d.m.Open || len(d.readFaults) > 0 || d.stash != nil || d.ch == nil || d.status != stOK {
		return
	}
	select {
	case v, ok := <-d.ch:
		d.stash = &causeVal{v, ok}
		if d.halfClosed {
			// Close() handed back the underlying transport's error and took
			// its token back before the woken read loop looked for it: the
			// read loop has reported the dead stream itself.  Legal (a Close
			// racing a failure: either cause); everything that follows a close
			// is checked as usual.
			d.halfClosed = false
			d.h.run.Add("failed_Close_then_close_by_read_loop", 1)
			d.logf("after the failed Close the read loop closed the session itself")
			d.closeProtocol("race")
			return
		}
		d.violate("C15:spurious-close:"+d.ctx(), fmt.Sprintf("the session was closed (Closed() yielded %s, ok=%v) although no stream failure happened and nobody called Close", errText(v), ok), nil)
	default:
	}
}

func (d *driver) step(o op) {
	d.syncReader()
	d.noSpuriousClose()
	if d.status != stOK {
		return
	}
	d.h.run.Add("ops_"+o.K, 1)
	switch o.K {
	case "O":
		d.doOpen()
	case "W":
		d.doEnsureOpen()
	case "C":
		d.doClose()
	case "I":
		d.doIsOpen()
	case "R":
		d.doRequest()
	case "E", "X", "G":
		d.doPeer(o)
	case "K":
		d.doRace()
	case "T":
		d.doCut(o)
	}
}

// finish: whatever the history did, the transport must still be closable,
// and the monitor must not have been called more often than the model says.
func (d *driver) finish() {
	d.syncReader()
	if d.status == stOK && d.m.Open {
		d.doClose()
	}
	if d.status == stOK && d.mon != nil {
		if e, ok := d.mon.next(); ok {
			d.violate("C15:unexpected-monitor-callback:"+e.Kind, "monitor callback "+e.Kind+" that the life-cycle model does not expect (duplicated or spurious notification)", nil)
		}
	}
}

func (d *driver) runCase() {
	if d.spec.Kind == "nats" {
		d.runNats()
		return
	}
	d.setup()
	if d.spec.Kind == "sched" {
		d.runSchedule()
	} else {
		for _, o := range d.spec.Ops {
			if d.status != stOK {
				break
			}
			d.step(o)
		}
	}
	if d.status == stOK {
		d.finish()
	}
}
