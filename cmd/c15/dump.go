package main

import (
	"runtime"
	"strings"
	"time"
)

// gblock is one goroutine of a runtime.Stack(all) dump.
type gblock struct {
	ID    string
	State string
	Text  string
}

func takeDump() []gblock {
	buf := make([]byte, 1<<20)
	for {
		n := runtime.Stack(buf, true)
		if n < len(buf) {
			buf = buf[:n]
			break
		}
		buf = make([]byte, 2*len(buf))
	}
	var out []gblock
	for _, b := range strings.Split(string(buf), "\n\n") {
		b = strings.TrimSpace(b)
		if !strings.HasPrefix(b, "goroutine ") {
			continue
		}
		hdr := b
		if i := strings.IndexByte(b, '\n'); i >= 0 {
			hdr = b[:i]
		}
		g := gblock{Text: b}
		rest := strings.TrimPrefix(hdr, "goroutine ")
		if i := strings.IndexByte(rest, ' '); i >= 0 {
			g.ID = rest[:i]
			rest = rest[i+1:]
		}
		if i := strings.IndexByte(rest, '['); i >= 0 {
			st := rest[i+1:]
			if j := strings.IndexAny(st, ",]"); j >= 0 {
				st = st[:j]
			}
			g.State = st
		}
		out = append(out, g)
	}
	return out
}

// curGID returns the id of the calling goroutine.
func curGID() string {
	var buf [64]byte
	n := runtime.Stack(buf[:], false)
	s := strings.TrimPrefix(string(buf[:n]), "goroutine ")
	if i := strings.IndexByte(s, ' '); i >= 0 {
		return s[:i]
	}
	return ""
}

const adapterSym = "github.com/Workiva/frugal/lib/go.(*fAdapterTransport)."

// aframe is one frame of an adapter-transport method in a goroutine block.
type aframe struct {
	Name string // method name
	Arg  string // first argument as printed (the receiver), "" for an inlined frame
}

func (g *gblock) adapterFrames() []aframe {
	var out []aframe
	s := g.Text
	for {
		i := strings.Index(s, adapterSym)
		if i < 0 {
			return out
		}
		s = s[i+len(adapterSym):]
		j := strings.IndexByte(s, '(')
		if j < 0 {
			return out
		}
		f := aframe{Name: s[:j]}
		if k := strings.IndexByte(f.Name, '.'); k >= 0 { // closures: Open.gowrap1, Open.func1
			f.Name = f.Name[:k]
		}
		rest := s[j+1:]
		if k := strings.IndexAny(rest, ",)\n"); k >= 0 {
			f.Arg = rest[:k]
		}
		if f.Arg == "..." {
			f.Arg = ""
		}
		out = append(out, f)
	}
}

// onAdapterMutex: the goroutine is parked in sync.(RW)Mutex code called
// directly from a method of the adapter transport, i.e. on the transport's own
// mutex and not on a lock of the stream, the registry or the harness.
func (g *gblock) onAdapterMutex() bool {
	inSync := false
	for _, l := range strings.Split(g.Text, "\n")[1:] {
		if l == "" || l[0] == '\t' {
			continue
		}
		if strings.HasPrefix(l, "sync.(*RWMutex).") || strings.HasPrefix(l, "sync.(*Mutex).") {
			inSync = true
			continue
		}
		if strings.HasPrefix(l, "sync.") || strings.HasPrefix(l, "runtime.") || strings.HasPrefix(l, "internal/") {
			continue
		}
		return inSync && strings.HasPrefix(l, adapterSym)
	}
	return false
}

// innermostIsAdapterClose: the innermost frame that is not runtime code is a
// close function of the adapter transport.
func (g *gblock) innermostIsAdapterClose() bool {
	for _, l := range strings.Split(g.Text, "\n")[1:] {
		if l == "" || l[0] == '\t' || strings.HasPrefix(l, "runtime.") {
			continue
		}
		if !strings.HasPrefix(l, adapterSym) {
			return false
		}
		n := l[len(adapterSym):]
		if i := strings.IndexByte(n, '('); i >= 0 {
			n = n[:i]
		}
		return isCloseName(n)
	}
	return false
}

func isCloseName(n string) bool {
	return strings.HasPrefix(strings.ToLower(n), "close") && n != "Closed"
}

func mutexState(s string) bool {
	return strings.HasPrefix(s, "sync.Mutex") || strings.HasPrefix(s, "sync.RWMutex") || strings.HasPrefix(s, "semacquire")
}

// rel is one goroutine that belongs to the transport under test.
type rel struct {
	gblock
	Frames  []aframe
	Closing bool // inside close()/Close()/closeXxx() of the adapter transport
	Reader  bool // a read loop
	Runner  bool // the monitor runner
	Mine    bool // started by the case's driver goroutine (a call of the history)
}

func (r *rel) in(name string) bool {
	for _, f := range r.Frames {
		if f.Name == name {
			return true
		}
	}
	return false
}

// lockPicture is what a dump says about one adapter transport.
type lockPicture struct {
	stuckSend   *rel  // a goroutine parked in close() on the closeSignal send (it holds f.mu)
	stuckRecv   bool  // ... or on a receive from closeSignal inside close()
	readers     []rel // read loops of this transport
	nascent     bool  // a read loop that cannot be attributed (just started, or receiver not printed reliably)
	closing     bool  // some goroutine is inside close() of this transport
	lockWaiters []rel // goroutines parked on a mutex inside a method of this transport
	runner      *rel
	related     []rel
}

// analyse extracts the goroutines of the transport whose receiver prints as
// ptr.  A goroutine belongs to it when a frame of an adapter method shows ptr
// as receiver, or (receivers of small methods are not always printed
// reliably) when it was started by the case's own driver goroutine gid and
// has an adapter frame; the monitor runner is the goroutine created by
// SetMonitor in goroutine gid.
func analyse(blocks []gblock, ptr, gid string) lockPicture {
	var p lockPicture
	tag := " in goroutine " + gid + "\n"
	for i := range blocks {
		g := blocks[i]
		if !strings.Contains(g.Text, adapterSym) {
			continue
		}
		r := rel{gblock: g, Frames: g.adapterFrames()}
		byPtr, unreliableReader := false, false
		for _, f := range r.Frames {
			if f.Arg == ptr {
				byPtr = true
			}
			if isCloseName(f.Name) {
				r.Closing = true
			}
			if f.Name == "readLoop" {
				r.Reader = true
				if f.Arg != ptr && (f.Arg == "" || strings.HasSuffix(f.Arg, "?")) {
					unreliableReader = true
				}
			}
		}
		created := ""
		if k := strings.LastIndex(g.Text, "created by "); k >= 0 {
			created = g.Text[k:] + "\n"
		}
		if strings.HasPrefix(created, "created by "+adapterSym+"Open") && !r.Reader {
			p.nascent = true // started by Open, not yet in readLoop
		}
		byCreator := gid != "" && strings.Contains(created, tag)
		r.Mine = byCreator && strings.Contains(created, "created by main.")
		r.Runner = byCreator && strings.HasPrefix(created, "created by "+adapterSym+"SetMonitor")
		if unreliableReader && !byPtr {
			p.nascent = true
			continue
		}
		if !byPtr && !byCreator {
			continue
		}
		if r.Reader && !byPtr {
			continue // another transport's read loop started from one of our goroutines cannot exist; be safe
		}
		p.related = append(p.related, r)
		rr := &p.related[len(p.related)-1]
		if r.Runner {
			p.runner = rr
		}
		if r.Closing {
			p.closing = true
			if strings.HasPrefix(g.State, "chan send") && p.stuckSend == nil {
				p.stuckSend = rr
			}
			// a plain receive inside close() itself (not in a callee): only
			// another close() could send, and that needs the mutex held here
			if strings.HasPrefix(g.State, "chan receive") && g.innermostIsAdapterClose() && p.stuckSend == nil {
				p.stuckSend = rr
				p.stuckRecv = true
			}
		}
		if r.Reader {
			p.readers = append(p.readers, r)
		}
		if mutexState(g.State) && g.onAdapterMutex() {
			p.lockWaiters = append(p.lockWaiters, r)
		}
	}
	// p.related may have been reallocated: re-point
	for i := range p.related {
		if p.stuckSend != nil && p.related[i].ID == p.stuckSend.ID {
			p.stuckSend = &p.related[i]
		}
		if p.runner != nil && p.related[i].ID == p.runner.ID {
			p.runner = &p.related[i]
		}
	}
	return p
}

// parkedInStreamRead: the goroutine is a read loop blocked in the scripted
// stream's Read (it holds no lock of the adapter transport there).
func (r *rel) parkedInStreamRead() bool {
	return r.Reader && r.State == "sync.Cond.Wait" && strings.Contains(r.Text, "rig.(*ScriptTransport).Read(")
}

// lockFree: the goroutine is parked at a place where it cannot hold the
// adapter transport's mutex: a read loop in the stream's Read, the monitor
// runner waiting for a notification or sleeping between attempts, a Request
// waiting for its answer.
func (r *rel) lockFree() bool {
	if r.parkedInStreamRead() {
		return true
	}
	for _, f := range r.Frames {
		if isCloseName(f.Name) || f.Name == "Open" || f.Name == "IsOpen" || f.Name == "Closed" || f.Name == "SetMonitor" {
			return false
		}
	}
	if r.Runner && (r.State == "chan receive" || r.State == "sleep") {
		return true
	}
	if r.State == "select" && r.in("Request") {
		return true
	}
	return false
}

// selfDeadlock: g waits for the transport's mutex although no goroutine of
// this transport can be holding it - every other one is parked lock-free - so
// g (or a goroutine that is gone) took it and never gives it back.
func (p *lockPicture) selfDeadlock(g *rel) bool {
	if !mutexState(g.State) || !g.onAdapterMutex() || p.nascent {
		return false
	}
	for i := range p.related {
		o := &p.related[i]
		if o.ID == g.ID {
			continue
		}
		if !o.lockFree() && !o.stalledWriter() {
			return false
		}
	}
	return true
}

// stalledWriter: a send of this transport parked inside the scripted stream's
// Write, which only the script releases (and it does so only after the call
// under observation has returned).
func (r *rel) stalledWriter() bool {
	return r.in("send") && strings.HasPrefix(r.State, "chan receive") && strings.Contains(r.Text, "rig.(*ScriptTransport).Write(")
}

func (p *lockPicture) hasStalledWriter() bool {
	for i := range p.related {
		if p.related[i].stalledWriter() {
			return true
		}
	}
	return false
}

// noReceiver reports whether no goroutine can ever take the token off
// closeSignal: every read loop of the transport is either the stuck sender
// itself or parked in the scripted stream's Read while the script has nothing
// to deliver (scriptIdle), and no unattributed read loop is starting.
func (p *lockPicture) noReceiver(scriptIdle bool) bool {
	if p.nascent {
		return false
	}
	for _, r := range p.readers {
		if p.stuckSend != nil && r.ID == p.stuckSend.ID {
			continue
		}
		parked := r.State == "sync.Cond.Wait" && strings.Contains(r.Text, "rig.(*ScriptTransport).Read(")
		if parked && scriptIdle {
			continue
		}
		if p.stuckSend != nil && mutexState(r.State) {
			continue // waits for f.mu, which the stuck sender holds: it is past its look at closeSignal
		}
		return false
	}
	return true
}

func (p *lockPicture) text() []string {
	var out []string
	for _, g := range p.related {
		t := g.Text
		if len(t) > 1800 {
			t = t[:1800] + "\n..."
		}
		out = append(out, t)
	}
	return out
}

// stages of every wait: after each one a goroutine dump is inspected for a
// logical blocked-forever condition; the sum is the 15 s watchdog.
var waitStages = []time.Duration{25 * time.Millisecond, 75 * time.Millisecond, 200 * time.Millisecond, 700 * time.Millisecond,
	2 * time.Second, 4 * time.Second, 8 * time.Second}

// pollUntil polls cond (event polling with a generous bound: 15 s).
func pollUntil(cond func() (done, ok bool)) bool {
	deadline := time.Now().Add(15 * time.Second)
	for i := 0; ; i++ {
		if done, ok := cond(); done {
			return ok
		}
		if time.Now().After(deadline) {
			return false
		}
		switch {
		case i < 50:
			runtime.Gosched()
		case i < 200:
			time.Sleep(50 * time.Microsecond)
		default:
			time.Sleep(time.Millisecond)
		}
	}
}
