package main

import (
	"sync"
	"time"

	frugal "github.com/Workiva/frugal/lib/go"
)

// monEvent is one FTransportMonitor callback with its arguments and with the
// decision that was handed back to the library, so that attempts and waits
// are judged as values, never by timing.
type monEvent struct {
	Kind           string        `json:"kind"` // cleanly | uncleanly | reopenFailed | reopenSucceeded
	Cause          error         `json:"-"`
	CauseText      string        `json:"cause,omitempty"`
	PrevAttempts   uint          `json:"prevAttempts,omitempty"`
	PrevWait       time.Duration `json:"prevWait,omitempty"`
	Reopen         bool          `json:"reopen"`
	Wait           time.Duration `json:"wait"`
	Ch             <-chan error  `json:"-"`                           // reopenSucceeded: Closed() of the new session, taken inside the callback
	LateSampled    bool          `json:"lateClosedSampled,omitempty"` // reopenFailed: Closed() was fetched right after the failed attempt ...
	LateReady      bool          `json:"lateClosedReady,omitempty"`   // ... and a receive on it did not block (cause or closed)
	OpenAtCallback bool          `json:"openAtCallback,omitempty"`    // reopenFailed: IsOpen() was true inside the callback
	OpenCalls      int           `json:"openCalls"`                   // Open calls the stream had seen when the callback ran
}

// recMonitor wraps frugal.BaseFTransportMonitor and records every callback.
type recMonitor struct {
	base frugal.BaseFTransportMonitor
	tr   frugal.FTransport
	st   *ftrans

	mu     sync.Mutex
	events []monEvent
	taken  int
	wake   chan struct{} // capacity 1: "a new event is available"
}

func newRecMonitor(p policy) *recMonitor {
	return &recMonitor{
		base: frugal.BaseFTransportMonitor{MaxReopenAttempts: uint(p.Max), InitialWait: p.Initial, MaxWait: p.MaxWait},
		wake: make(chan struct{}, 1),
	}
}

func (m *recMonitor) push(e monEvent) {
	if e.Cause != nil {
		e.CauseText = e.Cause.Error()
	}
	if m.st != nil {
		e.OpenCalls = m.st.snap().openCalls
	}
	m.mu.Lock()
	m.events = append(m.events, e)
	m.mu.Unlock()
	select {
	case m.wake <- struct{}{}:
	default:
	}
}

// next returns the next unconsumed event, if any.
func (m *recMonitor) next() (monEvent, bool) {
	m.mu.Lock()
	defer m.mu.Unlock()
	if m.taken < len(m.events) {
		e := m.events[m.taken]
		m.taken++
		return e, true
	}
	return monEvent{}, false
}

func (m *recMonitor) pending() int {
	m.mu.Lock()
	defer m.mu.Unlock()
	return len(m.events) - m.taken
}

func (m *recMonitor) all() []monEvent {
	m.mu.Lock()
	defer m.mu.Unlock()
	return append([]monEvent(nil), m.events...)
}

func (m *recMonitor) OnClosedCleanly() {
	m.base.OnClosedCleanly()
	m.push(monEvent{Kind: "cleanly"})
}

func (m *recMonitor) OnClosedUncleanly(cause error) (bool, time.Duration) {
	re, w := m.base.OnClosedUncleanly(cause)
	m.push(monEvent{Kind: "uncleanly", Cause: cause, Reopen: re, Wait: w})
	return re, w
}

func (m *recMonitor) OnReopenFailed(prevAttempts uint, prevWait time.Duration) (bool, time.Duration) {
	re, w := m.base.OnReopenFailed(prevAttempts, prevWait)
	e := monEvent{Kind: "reopenFailed", PrevAttempts: prevAttempts, PrevWait: prevWait, Reopen: re, Wait: w}
	// A client that starts watching Closed() now - the transport is closed,
	// the runner (this goroutine) is the only one that reopens it - must find
	// the channel ready: the cause still buffered, or the channel closed.
	if m.tr != nil {
		e.OpenAtCallback = m.tr.IsOpen()
		e.LateSampled = true
		if ch := m.tr.Closed(); ch != nil {
			e.LateReady = chanReady(ch)
		}
	}
	m.push(e)
	return re, w
}

func (m *recMonitor) OnReopenSucceeded() {
	m.base.OnReopenSucceeded()
	m.push(monEvent{Kind: "reopenSucceeded"})
}

// chanReady reports whether a receive on a Closed() channel would not block,
// without taking the cause away from whoever is watching the same channel: a
// buffered cause shows in len(); otherwise only a closed channel is ready.
func chanReady(ch <-chan error) bool {
	if len(ch) > 0 {
		return true
	}
	select {
	case <-ch: // closed (a value cannot arrive here: the one send precedes the close)
		return true
	default:
		return false
	}
}
