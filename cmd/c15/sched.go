package main

import (
	"fmt"
	"io"
	"os"
	"strings"
	"sync"
	"time"

	frugal "github.com/Workiva/frugal/lib/go"
	"github.com/apache/thrift/lib/go/thrift"
	"github.com/sirupsen/logrus"
)

// Targeted schedules: interleavings of Close / Open / a peer failure with the
// exit of the previous session's read loop that the sequential histories reach
// only by luck.  They are forced with gates in the scripted stream (a Read that
// returns late, an IsOpen that holds the adapter's read lock) and by waiting
// until a goroutine dump shows the wanted goroutines parked - never with sleeps.

var schedules = []string{
	"close-open-before-old-reader-exits",
	"failure-between-queued-close-and-open",
	"failed-close-takes-token-back-before-reader-looks",
	"close-while-write-stalled",
	"peer-failure-while-write-stalled",
	"two-opens-during-slow-connect",
	"three-opens-during-slow-connect",
	"monitor-reopen-and-application-open-during-slow-connect",
}

// serialSchedules need the library's global yield-point hook and therefore
// run one at a time, after the parallel phases.
var serialSchedules = []string{
	"close-open-while-old-reader-is-between-frames",
	"reopened-stream-dies-before-runner-sanity-check",
}

// logGate parks the goroutine that logs the monitor runner's "re-opened"
// line while armed (installed through the public SetLogger during the serial
// phase only; it pins a schedule, no verdict reads log text).
type logGate struct {
	mu      sync.Mutex
	gate    chan struct{}
	reached int
}

var reopenLogGate logGate

func (l *logGate) Levels() []logrus.Level { return []logrus.Level{logrus.InfoLevel} }

func (l *logGate) Fire(e *logrus.Entry) error {
	if !strings.Contains(e.Message, "re-opened") {
		return nil
	}
	l.mu.Lock()
	g := l.gate
	if g != nil {
		l.reached++
		l.gate = nil // one shot
	}
	l.mu.Unlock()
	if g != nil {
		<-g
	}
	return nil
}

func (l *logGate) arm() chan struct{} {
	l.mu.Lock()
	defer l.mu.Unlock()
	l.gate = make(chan struct{})
	l.reached = 0
	return l.gate
}

func (l *logGate) hits() int {
	l.mu.Lock()
	defer l.mu.Unlock()
	return l.reached
}

func installLogGate() {
	lg := logrus.New()
	lg.SetOutput(io.Discard)
	lg.SetLevel(logrus.InfoLevel)
	lg.AddHook(&reopenLogGate)
	frugal.SetLogger(lg)
}

// frameGate parks the read loop that reaches the yield point
// "readloop.frame.done" (after registry.Execute, before it reads again)
// while a gate is armed.
var frameGate struct {
	mu      sync.Mutex
	gate    chan struct{}
	reached int
}

func frameHook(point string, _ uint64) {
	if point != "readloop.frame.done" {
		return
	}
	frameGate.mu.Lock()
	g := frameGate.gate
	if g != nil {
		frameGate.reached++
	}
	frameGate.mu.Unlock()
	if g != nil {
		<-g
	}
}

func armFrameGate() {
	frameGate.mu.Lock()
	frameGate.gate = make(chan struct{})
	frameGate.reached = 0
	frameGate.mu.Unlock()
}

func openFrameGate() {
	frameGate.mu.Lock()
	g := frameGate.gate
	frameGate.gate = nil
	frameGate.mu.Unlock()
	if g != nil {
		close(g)
	}
}

func frameGateReached() int {
	frameGate.mu.Lock()
	defer frameGate.mu.Unlock()
	return frameGate.reached
}

func (d *driver) setGate(g *chan struct{}) chan struct{} {
	c := make(chan struct{})
	d.st.mu.Lock()
	*g = c
	d.st.mu.Unlock()
	return c
}

func (d *driver) openGate(g *chan struct{}) {
	d.st.mu.Lock()
	c := *g
	*g = nil
	d.st.mu.Unlock()
	if c != nil {
		close(c)
	}
}

// waitPicture polls goroutine dumps until cond holds.
func (d *driver) waitPicture(what string, cond func(p *lockPicture) bool) bool {
	if d.status != stOK {
		return false
	}
	ok := pollUntil(func() (bool, bool) {
		time.Sleep(500 * time.Microsecond)
		p := analyse(takeDump(), d.ptr, d.gid)
		d.h.run.Add("goroutine_dumps", 1)
		return cond(&p), true
	})
	if !ok {
		if os.Getenv("C15_DEBUG") != "" {
			bl := takeDump()
			for _, b := range bl {
				if strings.Contains(b.Text, "IsOpen") || strings.Contains(b.Text, ").close(") {
					fmt.Println("RAW", b.Text)
				}
			}
			p := analyse(bl, d.ptr, d.gid)
			fmt.Println("DEBUG picture for", what, "ptr", d.ptr)
			for _, t := range p.text() {
				fmt.Println(t)
				fmt.Println()
			}
		}
		d.inconclusive("schedule " + d.spec.Sched + ": " + what + " not reached within 15 s")
	}
	return ok
}

func (d *driver) waitSnap(what string, cond func(s ftSnap) bool) bool {
	if d.status != stOK {
		return false
	}
	ok := pollUntil(func() (bool, bool) { return cond(d.st.snap()), true })
	if !ok {
		d.inconclusive("schedule " + d.spec.Sched + ": " + what + " not reached within 15 s")
	}
	return ok
}

func (d *driver) steps(s string) {
	for i, c := range s {
		if d.status != stOK {
			return
		}
		d.step(op{K: string(c), A: i})
	}
}

func (d *driver) runSchedule() {
	switch d.spec.Sched {
	case "close-open-while-old-reader-is-between-frames":
		// The read loop has dispatched a response and has not yet gone back
		// to Read when the user closes and reopens the transport.  The old
		// read loop must end; if it reads on, it reads the reopened stream
		// next to the new read loop: it takes bytes of the new session (split
		// frames) and what it then does with a failure is a matter of luck.
		d.steps("O")
		armFrameGate()
		defer openFrameGate()
		d.noSettle = true // the read loop is parked at the yield point, not in Read
		d.steps("R")
		if d.status != stOK {
			return
		}
		if !pollUntil(func() (bool, bool) { return frameGateReached() == 1, true }) {
			d.h.run.Add("hook_not_reached", 1)
			d.inconclusive("yield point readloop.frame.done not reached: the schedule cannot be forced (reduced coverage)")
			return
		}
		d.h.run.Add("hook_readloop.frame.done_reached", 1)
		d.steps("C")
		d.noSettle = false
		d.steps("O")
		openFrameGate()
		two := false
		if !d.waitPicture("old read loop gone or reading again", func(p *lockPicture) bool {
			if p.nascent || p.closing {
				return false
			}
			if len(p.readers) == 1 && p.readers[0].parkedInStreamRead() {
				return true
			}
			if len(p.readers) == 2 && p.readers[0].parkedInStreamRead() && p.readers[1].parkedInStreamRead() {
				two = true
				return true
			}
			return false
		}) {
			return
		}
		if two {
			p := analyse(takeDump(), d.ptr, d.gid)
			d.violate("C15:stale-read-loop-survives-reopen", "Close() and Open() happened while the read loop was between two frames: the old session's read loop did not end but went on to read the reopened stream; two read loops of one transport are now parked in the new session's Read (each takes part of the bytes: split frames, and a failure seen by the stale one is not attributed to the new session)", p.text())
			return
		}
		d.steps("IRGWRI")

	case "close-while-write-stalled", "peer-failure-while-write-stalled":
		// The peer has stopped reading: a Write of the stream neither
		// completes nor fails.  The request times out; Close() / IsOpen() from
		// other goroutines, or the read loop's own close after a peer failure,
		// must still complete.
		d.steps("OR")
		if d.status != stOK {
			return
		}
		d.syncReader()
		d.blockW = make(chan struct{})
		d.st.SetBlockWrite(d.blockW)
		_, _, _, _, w0, _ := d.st.Snapshot()
		ctx, frame, _ := prepRequest([]byte("stalled"))
		_, reqDone := d.launch(ctx, frame, 40*time.Millisecond)
		if !pollUntil(func() (bool, bool) { _, _, _, _, w, _ := d.st.Snapshot(); return w > w0, true }) {
			d.inconclusive("the stalled write was not reached within 15 s")
			return
		}
		d.logf("a Write of the stream is stalled")
		if !d.await("Request with a stalled write (times out)", waitChan(reqDone), d.deadlockCrit("Request", false)) {
			return
		}
		d.noSettle = true
		if d.spec.Sched == "close-while-write-stalled" {
			d.steps("IC")
		} else {
			d.steps("IX")
		}
		d.noSettle = false
		if d.status != stOK {
			return
		}
		if d.blockW != nil {
			d.st.SetBlockWrite(nil)
			close(d.blockW)
			d.blockW = nil
		}
		d.steps("WRI")

	case "reopened-stream-dies-before-runner-sanity-check":
		// Two failures in a row: the stream of the reopened session dies at
		// once and its read loop has finished the close before the monitor
		// runner gets from Open() to its IsOpen() sanity check.  Every failure
		// must still be notified and reopened within the policy, and
		// OnReopenFailed is never called while the transport is open.
		if d.spec.Pol.Max < 2 || !d.spec.Pol.Monitor {
			return
		}
		addFault(&d.st.FailRead, 2, mkErr(errResetPlain)) // the first Read of session 2
		d.steps("O")
		if d.status != stOK {
			return
		}
		gate := reopenLogGate.arm()
		released := false
		defer func() {
			if !released {
				close(gate)
			}
		}()
		d.m.Armed = 0
		d.st.armOpenFailures(0)
		mark := d.st.snap().readErrs
		d.noteErrFed()
		d.logf("peer: error (reset-plain)")
		d.st.FeedError(mkErr(errResetPlain))
		c, ok := d.awaitCause("error", mark)
		if !ok {
			return
		}
		d.logf("Closed() <- %s", errText(c.v))
		d.lastEndedBy = "readloop"
		d.m.Open = false
		if _, ok := d.expectEvent("uncleanly"); !ok {
			return
		}
		if !pollUntil(func() (bool, bool) { return reopenLogGate.hits() == 1, true }) {
			d.h.run.Add("hook_not_reached", 1)
			d.inconclusive("the runner's re-opened log line was not reached: the schedule cannot be forced (reduced coverage)")
			return
		}
		d.h.run.Add("log_gate_reached", 1)
		// session 2 exists and dies at once
		d.m.Open = true
		d.newSession()
		c2, ok := d.awaitCause("error", 0)
		if !ok {
			return
		}
		d.logf("session 2 died at once: Closed() <- %s; the runner has not yet done its IsOpen check", errText(c2.v))
		d.m.Open = false
		released = true
		close(gate)
		for _, k := range []string{"reopenSucceeded", "uncleanly", "reopenSucceeded"} {
			e, ok := d.expectEvent(k)
			if !ok {
				return
			}
			if e.Kind == "reopenFailed" && e.OpenAtCallback {
				d.violate("C15:OnReopenFailed-while-open", "OnReopenFailed was called while the transport is open", nil)
				return
			}
		}
		d.m.Open = true
		d.newSession()
		d.openMark = d.st.snap().openCalls
		d.steps("IRXIRI") // a healthy period, then a later failure that must be notified and reopened again

	case "failed-close-takes-token-back-before-reader-looks":
		// The underlying Close tears the stream down and fails; the read loop
		// wakes up but is slow: Close() has taken its token back and returned
		// the error before the read loop looks at closeSignal.  The read loop
		// then reports the dead stream itself.  Whatever the order, every call
		// returns, exactly one cause is published, and the transport reopens.
		d.steps("OR")
		if d.status != stOK {
			return
		}
		d.syncReader()
		d.setGate(&d.st.holdReadErr)
		d.st.mu.Lock()
		d.st.teardownFail = map[int]error{d.st.closeCalls + 1: mkErr(errResetPlain)}
		d.st.teardownNoWait = true
		d.st.mu.Unlock()
		d.spec.Faults = []fault{{"CloseTeardown", d.st.closeCount() + 1, errResetPlain}}
		d.noSettle = true
		d.steps("C")
		if d.status != stOK {
			return
		}
		if !d.waitSnap("woken read loop held after its Read returned", func(s ftSnap) bool { return s.heldReadErr >= 1 }) {
			return
		}
		d.openGate(&d.st.holdReadErr)
		d.noSettle = false
		if d.halfClosed {
			// the read loop, released, must now end the session (or a second Close does)
			c, ok := d.awaitCause("race", 0)
			if !ok {
				return
			}
			d.stash = &c
			d.halfClosed = false
			d.h.run.Add("failed_Close_then_close_by_read_loop", 1)
			d.logf("after the failed Close the read loop closed the session itself: %s", errText(c.v))
			d.closeProtocol("race")
		}
		d.steps("WRIC")

	case "two-opens-during-slow-connect", "three-opens-during-slow-connect":
		// The underlying connect is slow; two (three) callers open the same
		// closed transport while it is in progress.  Exactly one may succeed,
		// the stream is connected once, and the Closed() channel handed out
		// after the successful Open reports the later failure exactly once.
		n := 2
		if strings.HasPrefix(d.spec.Sched, "three") {
			n = 3
		}
		if d.spec.Pol.OpenFails > 0 { // second round: the same after a session has ended
			d.steps("OXW")
			if d.status != stOK {
				return
			}
			if d.m.Open {
				d.steps("C")
			}
		}
		d.concurrentOpens(n, false)
		d.steps("IRXWRI")

	case "monitor-reopen-and-application-open-during-slow-connect":
		// After a failure the monitor's reopen attempt is inside the slow
		// connect when the application calls Open itself.
		d.steps("O")
		if d.status != stOK || d.mon == nil {
			return
		}
		d.setGate(&d.st.holdOpen)
		d.m.Armed = 0 // the monitor's first attempt is the slow connect
		d.st.armOpenFailures(0)
		mark := d.st.snap().readErrs
		d.noteErrFed()
		d.logf("peer: error (reset-plain)")
		d.st.FeedError(mkErr(errResetPlain))
		c, ok := d.awaitCause("error", mark)
		if !ok {
			return
		}
		if !c.ok || c.v == nil {
			d.violate("C15:nil-cause-for-non-EOF-failure:error", "a non-EOF stream failure was not published with its cause", nil)
			return
		}
		d.logf("Closed() <- %s", errText(c.v))
		d.lastEndedBy = "readloop"
		d.m.Open = false
		if _, ok := d.expectEvent("uncleanly"); !ok {
			return
		}
		if !d.waitSnap("the monitor's Open inside the slow connect", func(s ftSnap) bool { return s.heldOpen == 1 }) {
			return
		}
		d.concurrentOpens(1, true)
		d.steps("IRXWRI")

	case "close-open-before-old-reader-exits":
		// Close() wakes the read loop's blocked Read, but that goroutine runs
		// late: the user has reopened the transport before the old read loop
		// looks at closeSignal.  The new session must be unaffected.
		d.setGate(&d.st.holdReadErr)
		d.steps("O")
		if !d.waitSnap("read loop parked in Read", func(s ftSnap) bool { return s.inRead > 0 }) {
			return
		}
		d.steps("C")
		if !d.waitSnap("old read loop's Read has returned", func(s ftSnap) bool { return s.heldReadErr == 1 }) {
			return
		}
		d.steps("O")
		d.openGate(&d.st.holdReadErr)
		if !d.waitPicture("old read loop gone", func(p *lockPicture) bool { return len(p.readers) <= 1 && !p.nascent && !p.closing }) {
			return
		}
		d.steps("IRXWRI")

	case "failure-between-queued-close-and-open":
		// A peer failure reaches the read loop after it has looked at
		// closeSignal but while Close() and then Open() are already queued on
		// the transport's mutex: Close, Open, and only then the read loop's
		// close(err) run.  The stale read loop must not tear down (or block
		// on) the session opened after it.
		d.steps("O")
		if !d.waitSnap("read loop parked in Read", func(s ftSnap) bool { return s.inRead > 0 }) {
			return
		}
		d.setGate(&d.st.holdIsOpen)
		tr := d.tr
		isOpenDone := make(chan struct{})
		go func() { tr.IsOpen(); close(isOpenDone) }() // holds f.mu.RLock at the gate
		if !d.waitSnap("IsOpen holding the read lock", func(s ftSnap) bool { return s.heldIsOpen == 1 }) {
			return
		}
		closeRes := make(chan error, 1)
		go func() { closeRes <- tr.Close() }()
		if !d.waitPicture("Close queued on f.mu", func(p *lockPicture) bool {
			for _, g := range p.lockWaiters {
				if g.Closing && !g.Reader && g.Mine {
					return true
				}
			}
			return false
		}) {
			return
		}
		openRes := make(chan error, 1)
		go func() { openRes <- tr.Open() }()
		if !d.waitPicture("Open queued on f.mu", func(p *lockPicture) bool {
			for _, g := range p.lockWaiters {
				if g.in("Open") && g.Mine {
					return true
				}
			}
			return false
		}) {
			return
		}
		d.noteErrFed()
		d.st.FeedError(mkErr(errResetPlain))
		if !d.waitPicture("read loop's close(err) queued on f.mu", func(p *lockPicture) bool {
			for _, g := range p.lockWaiters {
				if g.Closing && g.Reader {
					return true
				}
			}
			return false
		}) {
			return
		}
		d.openGate(&d.st.holdIsOpen)
		// Close() was first in the queue: it closes session 1 cleanly.
		cerr, oerr := error(nil), error(nil)
		closed, opened := false, false
		waitBoth := func() bool { return closed && opened }
		if !d.await("queued Close and Open", func(t time.Duration) bool {
			deadline := time.NewTimer(t)
			defer deadline.Stop()
			for !waitBoth() {
				if t == 0 {
					select {
					case cerr = <-closeRes:
						closed = true
					case oerr = <-openRes:
						opened = true
					default:
						return false
					}
					continue
				}
				select {
				case cerr = <-closeRes:
					closed = true
				case oerr = <-openRes:
					opened = true
				case <-deadline.C:
					return waitBoth()
				}
			}
			return true
		}, d.deadlockCrit("Close/Open", false)) {
			return
		}
		d.logf("queued Close -> %s, queued Open -> %s", errText(cerr), errText(oerr))
		if cerr != nil || oerr != nil {
			// another legal order of the three lock acquisitions; nothing to assert
			d.h.run.Add("schedule_other_order", 1)
			d.release()
			d.m.Open = false
			d.mon = nil
			return
		}
		// session 1: closed by the local Close (the transport is open again
		// already, so the protocol's final IsOpen==false check does not apply)
		d.skipFinalIsOpen = true
		d.closeProtocol("local")
		d.skipFinalIsOpen = false
		if d.status != stOK {
			return
		}
		// session 2 is open now
		d.m.Open = true
		d.newSession()
		d.fetchClosed()
		if !d.waitPicture("stale read loop gone", func(p *lockPicture) bool {
			return (len(p.readers) <= 1 && !p.nascent && !p.closing) || p.stuckSend != nil
		}) {
			return
		}
		d.steps("IRXWRI")
	}
}

// concurrentOpens starts n application Open calls while the underlying
// connect is held at the gate (withMonitor: the monitor's reopen attempt is
// already inside it and counts as one more caller), releases the gate once
// every caller is either inside the underlying Open or parked on the
// transport's mutex, and checks: exactly one Open succeeds, the others report
// ALREADY_OPEN, the stream is connected once.  Each successful application
// caller fetches Closed() right after its Open returned.
func (d *driver) concurrentOpens(n int, withMonitor bool) {
	if d.status != stOK {
		return
	}
	if !withMonitor {
		d.installMonitor()
		d.setGate(&d.st.holdOpen)
	}
	before := d.st.snap()
	type res struct {
		err error
		ch  <-chan error
	}
	results := make(chan res, n)
	tr := d.tr
	for i := 0; i < n; i++ {
		go func() {
			err := tr.Open()
			var ch <-chan error
			if err == nil {
				ch = tr.Closed()
			}
			results <- res{err, ch}
		}()
	}
	total := n
	if withMonitor {
		total++
	}
	if !d.waitPicture("every Open inside the connect or queued on the transport's mutex", func(p *lockPicture) bool {
		queued := 0
		for i := range p.lockWaiters {
			if g := &p.lockWaiters[i]; g.in("Open") && (g.Mine || g.Runner) {
				queued++
			}
		}
		return d.st.snap().heldOpen-before.heldOpen+queued+boolInt(withMonitor) >= total
	}) {
		return
	}
	inside := d.st.snap().heldOpen - before.heldOpen + boolInt(withMonitor)
	d.logf("%d Open calls in flight, %d of them inside the underlying connect", total, inside)
	d.h.run.Add("concurrent_open_rounds", 1)
	d.openGate(&d.st.holdOpen)
	var got []res
	if !d.await("concurrent Open calls", func(t time.Duration) bool {
		tm := time.NewTimer(t)
		defer tm.Stop()
		for len(got) < n {
			if t == 0 {
				select {
				case r := <-results:
					got = append(got, r)
				default:
					return false
				}
				continue
			}
			select {
			case r := <-results:
				got = append(got, r)
			case <-tm.C:
				return false
			}
		}
		return true
	}, d.deadlockCrit("Open", false)) {
		return
	}
	succ := 0
	var ch <-chan error
	for _, r := range got {
		d.logf("concurrent Open -> %s", errText(r.err))
		switch {
		case r.err == nil:
			succ++
			ch = r.ch
		case !isTTE(r.err, thrift.ALREADY_OPEN):
			d.violate("C15:concurrent-Open:wrong-error", "an Open that lost against a concurrent Open returned "+errText(r.err)+", want ALREADY_OPEN", nil)
			return
		}
	}
	if withMonitor {
		e, ok := d.expectEventAny()
		if !ok {
			return
		}
		switch e.Kind {
		case "reopenSucceeded":
			succ++
		case "reopenFailed":
			d.m.MonAlive = e.Reopen
		default:
			d.violate("C15:monitor-callback-sequence:want-reopen-outcome-got-"+e.Kind, "monitor callback "+e.Kind+" where the outcome of the reopen attempt is due", nil)
			return
		}
	}
	if succ != 1 {
		d.violate(fmt.Sprintf("C15:concurrent-Open:%d-succeeded", succ), fmt.Sprintf("%d overlapping Open calls on one closed transport: %d returned nil, exactly one may (the others must report ALREADY_OPEN)", total, succ), nil)
		return
	}
	after := d.st.snap()
	if c := after.openCalls - before.openCalls + boolInt(withMonitor); c > 1 {
		d.violate("C15:concurrent-Open:stream-connected-more-than-once", fmt.Sprintf("the underlying transport's Open was called %d times for one session", c), nil)
		return
	}
	d.m.Open = true
	d.m.Armed = 0
	d.st.armOpenFailures(0)
	d.newSession()
	if d.status != stOK {
		return
	}
	if ch != nil {
		// the channel the successful caller was handed is the one that must fire
		d.ch = ch
	}
	d.openMark = d.st.snap().openCalls
}

func boolInt(b bool) int {
	if b {
		return 1
	}
	return 0
}
