package main

import (
	"fmt"
	"os"
	"strings"
	"sync"
	"time"
)

// Targeted schedules: interleavings of Close / Open / a peer failure with the
// exit of the previous session's read loop that the sequential histories reach
// only by luck.  They are forced with gates in the scripted stream (a Read that
// returns late, an IsOpen that holds the adapter's read lock) and by waiting
// until a goroutine dump shows the wanted goroutines parked - never with sleeps.

var schedules = []string{
	"close-open-before-old-reader-exits",
	"failure-between-queued-close-and-open",
}

// serialSchedules need the library's global yield-point hook and therefore
// run one at a time, after the parallel phases.
var serialSchedules = []string{
	"close-open-while-old-reader-is-between-frames",
}

// frameGate parks the read loop that reaches the yield point
// "readloop.frame.done" (after registry.Execute, before it reads again)
// while a gate is armed.
var frameGate struct {
	mu      sync.Mutex
	gate    chan struct{}
	reached int
}

func frameHook(point string, _ uint64) {
	if point != "readloop.frame.done" {
		return
	}
	frameGate.mu.Lock()
	g := frameGate.gate
	if g != nil {
		frameGate.reached++
	}
	frameGate.mu.Unlock()
	if g != nil {
		<-g
	}
}

func armFrameGate() {
	frameGate.mu.Lock()
	frameGate.gate = make(chan struct{})
	frameGate.reached = 0
	frameGate.mu.Unlock()
}

func openFrameGate() {
	frameGate.mu.Lock()
	g := frameGate.gate
	frameGate.gate = nil
	frameGate.mu.Unlock()
	if g != nil {
		close(g)
	}
}

func frameGateReached() int {
	frameGate.mu.Lock()
	defer frameGate.mu.Unlock()
	return frameGate.reached
}

func (d *driver) setGate(g *chan struct{}) chan struct{} {
	c := make(chan struct{})
	d.st.mu.Lock()
	*g = c
	d.st.mu.Unlock()
	return c
}

func (d *driver) openGate(g *chan struct{}) {
	d.st.mu.Lock()
	c := *g
	*g = nil
	d.st.mu.Unlock()
	if c != nil {
		close(c)
	}
}

// waitPicture polls goroutine dumps until cond holds.
func (d *driver) waitPicture(what string, cond func(p *lockPicture) bool) bool {
	if d.status != stOK {
		return false
	}
	ok := pollUntil(func() (bool, bool) {
		time.Sleep(500 * time.Microsecond)
		p := analyse(takeDump(), d.ptr, d.gid)
		d.h.run.Add("goroutine_dumps", 1)
		return cond(&p), true
	})
	if !ok {
		if os.Getenv("C15_DEBUG") != "" {
			bl := takeDump()
			for _, b := range bl {
				if strings.Contains(b.Text, "IsOpen") || strings.Contains(b.Text, ").close(") {
					fmt.Println("RAW", b.Text)
				}
			}
			p := analyse(bl, d.ptr, d.gid)
			fmt.Println("DEBUG picture for", what, "ptr", d.ptr)
			for _, t := range p.text() {
				fmt.Println(t)
				fmt.Println()
			}
		}
		d.inconclusive("schedule " + d.spec.Sched + ": " + what + " not reached within 15 s")
	}
	return ok
}

func (d *driver) waitSnap(what string, cond func(s ftSnap) bool) bool {
	if d.status != stOK {
		return false
	}
	ok := pollUntil(func() (bool, bool) { return cond(d.st.snap()), true })
	if !ok {
		d.inconclusive("schedule " + d.spec.Sched + ": " + what + " not reached within 15 s")
	}
	return ok
}

func (d *driver) steps(s string) {
	for i, c := range s {
		if d.status != stOK {
			return
		}
		d.step(op{K: string(c), A: i})
	}
}

func (d *driver) runSchedule() {
	switch d.spec.Sched {
	case "close-open-while-old-reader-is-between-frames":
		// The read loop has dispatched a response and has not yet gone back
		// to Read when the user closes and reopens the transport.  The old
		// read loop must end; if it reads on, it reads the reopened stream
		// next to the new read loop: it takes bytes of the new session (split
		// frames) and what it then does with a failure is a matter of luck.
		d.steps("O")
		armFrameGate()
		defer openFrameGate()
		d.noSettle = true // the read loop is parked at the yield point, not in Read
		d.steps("R")
		if d.status != stOK {
			return
		}
		if !pollUntil(func() (bool, bool) { return frameGateReached() == 1, true }) {
			d.h.run.Add("hook_not_reached", 1)
			d.inconclusive("yield point readloop.frame.done not reached: the schedule cannot be forced (reduced coverage)")
			return
		}
		d.h.run.Add("hook_readloop.frame.done_reached", 1)
		d.steps("C")
		d.noSettle = false
		d.steps("O")
		openFrameGate()
		two := false
		if !d.waitPicture("old read loop gone or reading again", func(p *lockPicture) bool {
			if p.nascent || p.closing {
				return false
			}
			if len(p.readers) == 1 && p.readers[0].parkedInStreamRead() {
				return true
			}
			if len(p.readers) == 2 && p.readers[0].parkedInStreamRead() && p.readers[1].parkedInStreamRead() {
				two = true
				return true
			}
			return false
		}) {
			return
		}
		if two {
			p := analyse(takeDump(), d.ptr, d.gid)
			d.violate("C15:stale-read-loop-survives-reopen", "Close() and Open() happened while the read loop was between two frames: the old session's read loop did not end but went on to read the reopened stream; two read loops of one transport are now parked in the new session's Read (each takes part of the bytes: split frames, and a failure seen by the stale one is not attributed to the new session)", p.text())
			return
		}
		d.steps("IRGWRI")

	case "close-open-before-old-reader-exits":
		// Close() wakes the read loop's blocked Read, but that goroutine runs
		// late: the user has reopened the transport before the old read loop
		// looks at closeSignal.  The new session must be unaffected.
		d.setGate(&d.st.holdReadErr)
		d.steps("O")
		if !d.waitSnap("read loop parked in Read", func(s ftSnap) bool { return s.inRead > 0 }) {
			return
		}
		d.steps("C")
		if !d.waitSnap("old read loop's Read has returned", func(s ftSnap) bool { return s.heldReadErr == 1 }) {
			return
		}
		d.steps("O")
		d.openGate(&d.st.holdReadErr)
		if !d.waitPicture("old read loop gone", func(p *lockPicture) bool { return len(p.readers) <= 1 && !p.nascent && !p.closing }) {
			return
		}
		d.steps("IRXWRI")

	case "failure-between-queued-close-and-open":
		// A peer failure reaches the read loop after it has looked at
		// closeSignal but while Close() and then Open() are already queued on
		// the transport's mutex: Close, Open, and only then the read loop's
		// close(err) run.  The stale read loop must not tear down (or block
		// on) the session opened after it.
		d.steps("O")
		if !d.waitSnap("read loop parked in Read", func(s ftSnap) bool { return s.inRead > 0 }) {
			return
		}
		d.setGate(&d.st.holdIsOpen)
		tr := d.tr
		isOpenDone := make(chan struct{})
		go func() { tr.IsOpen(); close(isOpenDone) }() // holds f.mu.RLock at the gate
		if !d.waitSnap("IsOpen holding the read lock", func(s ftSnap) bool { return s.heldIsOpen == 1 }) {
			return
		}
		closeRes := make(chan error, 1)
		go func() { closeRes <- tr.Close() }()
		if !d.waitPicture("Close queued on f.mu", func(p *lockPicture) bool {
			for _, g := range p.lockWaiters {
				if g.Closing && !g.Reader && g.Mine {
					return true
				}
			}
			return false
		}) {
			return
		}
		openRes := make(chan error, 1)
		go func() { openRes <- tr.Open() }()
		if !d.waitPicture("Open queued on f.mu", func(p *lockPicture) bool {
			for _, g := range p.lockWaiters {
				if g.in("Open") && g.Mine {
					return true
				}
			}
			return false
		}) {
			return
		}
		d.noteErrFed()
		d.st.FeedError(mkErr(errResetPlain))
		if !d.waitPicture("read loop's close(err) queued on f.mu", func(p *lockPicture) bool {
			for _, g := range p.lockWaiters {
				if g.Closing && g.Reader {
					return true
				}
			}
			return false
		}) {
			return
		}
		d.openGate(&d.st.holdIsOpen)
		// Close() was first in the queue: it closes session 1 cleanly.
		cerr, oerr := error(nil), error(nil)
		closed, opened := false, false
		waitBoth := func() bool { return closed && opened }
		if !d.await("queued Close and Open", func(t time.Duration) bool {
			deadline := time.NewTimer(t)
			defer deadline.Stop()
			for !waitBoth() {
				if t == 0 {
					select {
					case cerr = <-closeRes:
						closed = true
					case oerr = <-openRes:
						opened = true
					default:
						return false
					}
					continue
				}
				select {
				case cerr = <-closeRes:
					closed = true
				case oerr = <-openRes:
					opened = true
				case <-deadline.C:
					return waitBoth()
				}
			}
			return true
		}, d.deadlockCrit("Close/Open", false)) {
			return
		}
		d.logf("queued Close -> %s, queued Open -> %s", errText(cerr), errText(oerr))
		if cerr != nil || oerr != nil {
			// another legal order of the three lock acquisitions; nothing to assert
			d.h.run.Add("schedule_other_order", 1)
			d.release()
			d.m.Open = false
			d.mon = nil
			return
		}
		// session 1: closed by the local Close (the transport is open again
		// already, so the protocol's final IsOpen==false check does not apply)
		d.skipFinalIsOpen = true
		d.closeProtocol("local")
		d.skipFinalIsOpen = false
		if d.status != stOK {
			return
		}
		// session 2 is open now
		d.m.Open = true
		d.newSession()
		d.fetchClosed()
		if !d.waitPicture("stale read loop gone", func(p *lockPicture) bool {
			return (len(p.readers) <= 1 && !p.nascent && !p.closing) || p.stuckSend != nil
		}) {
			return
		}
		d.steps("IRXWRI")
	}
}
