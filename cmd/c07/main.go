// Command c07 builds the harness for property C07 from the code the compiler
// under test emits for /verif/fixtures and runs it; the monitor itself is
// harness/c07 (it writes the evidence through verif/ev).
package main

import (
	"fmt"
	"os"
	"path/filepath"

	"verif/emit"
	"verif/ev"
)

func main() {
	h, err := emit.NewHarness("c07")
	if err != nil {
		fmt.Println(err)
		os.Exit(2)
	}
	if r := h.Gen("", filepath.Join(ev.Root(), "fixtures"), "main.frugal", ""); r.ExitCode != 0 {
		fmt.Println("BUILD-FAILED property=C07 frugal failed on the fixture IDL:", r.Stdout, r.Stderr)
		os.Exit(2)
	}
	if r := h.Gen("", filepath.Join(ev.Root(), "fixtures"), "c07scopes.frugal", ""); r.ExitCode != 0 {
		fmt.Println("BUILD-FAILED property=C07 frugal failed on fixtures/c07scopes.frugal:", r.Stdout, r.Stderr)
		os.Exit(2)
	}
	// scopes whose topics begin with the transports' own word ("frugal."), and the
	// same scopes without it (c07nestb includes c07nesta; -r emits both)
	if r := h.Gen("", filepath.Join(ev.Root(), "harness/c07/idl"), "c07nestb.frugal", ""); r.ExitCode != 0 {
		fmt.Println("BUILD-FAILED property=C07 frugal failed on harness/c07/idl/c07nestb.frugal:", r.Stdout, r.Stderr)
		os.Exit(2)
	}
	if err := h.CopySources(filepath.Join(ev.Root(), "harness/c07"), "c07"); err != nil {
		fmt.Println(err)
		os.Exit(2)
	}
	if out, err := h.Vet("./c07"); err != nil {
		fmt.Println("BUILD-FAILED property=C07 go vet:", out)
		os.Exit(2)
	}
	bin, out, err := h.Build("./c07", "c07.bin", false)
	if err != nil {
		fmt.Println("BUILD-FAILED property=C07 (the harness does not build against the emitted code):", out)
		os.Exit(2)
	}
	if ev.Tier(ev.ArgTier()) == "thorough" {
		rbin, out, err := h.Build("./c07", "c07-race.bin", true)
		if err != nil {
			fmt.Println("BUILD-FAILED property=C07 (race build):", out)
			os.Exit(2)
		}
		os.Setenv("C07_RACE_BIN", rbin)
	}
	os.Exit(emit.ExecHarness(bin, os.Args[1:]...))
}
