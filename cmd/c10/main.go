// Command c10 is the monitor of property C10: the IDL parser represents every
// declaration of every valid Thrift/Frugal program exactly, whatever the
// comment / whitespace / separator style, and render(parse(text)) parses back
// to the same model.
//
// The real parser (github.com/Workiva/frugal/compiler/parser, built from the
// repository under test through the go.mod replace) runs in child processes
// of this binary; a dumper walks *parser.Frugal into the shape of idl.Canon.
package main

import (
	"bufio"
	"encoding/json"
	"fmt"
	"os"
	"os/exec"
	"path/filepath"
	"runtime"
	"sort"
	"strings"
	"sync"

	"verif/emit"
	"verif/ev"
	"verif/idl"
)

func main() {
	if len(os.Args) > 1 {
		switch os.Args[1] {
		case "worker":
			os.Exit(workerMain(os.Args[2:]))
		case "probe": // development aid: c10 probe file.frugal
			r := parseProgram(os.Args[2])
			if !r.ok() {
				fmt.Println("ERR:", r.Err, r.Panic, r.Hang)
				os.Exit(1)
			}
			b, _ := json.MarshalIndent(r.Files, "", " ")
			fmt.Println(string(b))
			return
		}
	}
	os.Exit(runC10(ev.ArgTier()))
}

type workerState struct {
	w       int
	out     string
	log     string
	stderr  string
	crashes []map[string]interface{}
	hung    []int
	gaveUp  bool
}

// lastLogged returns the last job id and the last file path a worker logged.
func lastLogged(logPath string) (jobID int, path string) {
	jobID = -1
	f, err := os.Open(logPath)
	if err != nil {
		return
	}
	defer f.Close()
	sc := bufio.NewScanner(f)
	sc.Buffer(make([]byte, 1<<16), 1<<22)
	for sc.Scan() {
		l := sc.Text()
		if strings.HasPrefix(l, "JOB ") {
			fmt.Sscanf(l, "JOB %d", &jobID)
			path = ""
		} else if strings.HasPrefix(l, "PARSE ") {
			path = strings.TrimPrefix(l, "PARSE ")
		}
	}
	return
}

func tail(path string, n int) string {
	b, _ := os.ReadFile(path)
	if len(b) > n {
		b = b[len(b)-n:]
	}
	return string(b)
}

// headTail keeps the start (fatal error line, innermost frames) and the end of a crash dump.
func headTail(path string, h, t int) string {
	b, _ := os.ReadFile(path)
	if len(b) <= h+t {
		return string(b)
	}
	return string(b[:h]) + "\n[...]\n" + string(b[len(b)-t:])
}

func dirTexts(dir string) map[string]string {
	out := map[string]string{}
	filepath.Walk(dir, func(p string, info os.FileInfo, err error) error {
		if err == nil && !info.IsDir() && (strings.HasSuffix(p, ".frugal") || strings.HasSuffix(p, ".thrift")) {
			b, _ := os.ReadFile(p)
			rel, _ := filepath.Rel(dir, p)
			out[rel] = string(b)
		}
		return nil
	})
	return out
}

// supervise runs one worker to completion, restarting it after the job that
// killed it (fatal error in the parser) or made it hang.
func supervise(tier string, ws *workerState, n int) {
	from := 0
	for attempt := 0; attempt < 40; attempt++ {
		cmd := exec.Command(os.Args[0], "worker", tier, fmt.Sprint(ws.w), fmt.Sprint(n), fmt.Sprint(from), ws.out, ws.log)
		se, _ := os.Create(ws.stderr)
		cmd.Stderr, cmd.Stdout = se, se
		cmd.Env = os.Environ()
		err := cmd.Run()
		se.Close()
		if err == nil {
			return
		}
		code := -1
		if ee, ok := err.(*exec.ExitError); ok {
			code = ee.ExitCode()
		}
		id, path := lastLogged(ws.log)
		if id < 0 {
			ws.gaveUp = true
			ws.crashes = append(ws.crashes, map[string]interface{}{"job": -1, "exit": code, "stderr": tail(ws.stderr, 3000), "error": err.Error()})
			return
		}
		if code == 9 {
			ws.hung = append(ws.hung, id)
		} else {
			c := map[string]interface{}{"job": id, "exit": code, "path": path, "stderr": headTail(ws.stderr, 5000, 1500)}
			if path != "" {
				c["files"] = dirTexts(filepath.Dir(path))
			}
			ws.crashes = append(ws.crashes, c)
		}
		from = id + 1
		if len(ws.crashes) >= 6 { // a parser that dies on most inputs: the point is made, do not burn the budget
			break
		}
	}
	ws.gaveUp = true
}

func readResults(path string) []*jobResult {
	f, err := os.Open(path)
	if err != nil {
		return nil
	}
	defer f.Close()
	var out []*jobResult
	sc := bufio.NewScanner(f)
	sc.Buffer(make([]byte, 1<<20), 1<<28)
	for sc.Scan() {
		var r jobResult
		if json.Unmarshal(sc.Bytes(), &r) == nil && !r.Done {
			out = append(out, &r)
		}
	}
	return out
}

var descriptorKeys = map[string]bool{"s": true, "c": true, "t": true, "m": true, "p": true, "r": true, "n": true, "b": true, "k": true, "v": true, "e": true, "u": true, "o": true, "a": true}

func runC10(tier string) int {
	run := ev.New("C10", tier, "exploration")
	b := tierBounds(run.Thorough())
	run.Rule(fmt.Sprintf("random valid models from verif/idl (core pool: CoreConfig, every second model with keyword-prefixed / underscore / digit identifier shapes in name positions; stress pool: every legal-but-unusual generator class) x renderings (default style + random draws of 15 lexical knobs; for fixed models every single-knob variation of the default style); each rendering is parsed by the real parser.ParseFrugal in a child process and its tree, dumped file by file in the shape of idl.Canon, must equal the model; render(parse(text)) must parse to the same dump; %d models are also compared with the `frugal -gen json` descriptor; pool history (%d per run): one directory and one root path per history, parsed by one process again and again while the text at the same paths changes (an include edited, the root edited, the whole program replaced by another one laid over the same file names, the original text restored, a second root of an include edited since it was last parsed, nothing changed) — after every step the dump must equal the canonical description of the text now in the files, and a failing step is re-evaluated at a fresh path to tell a history effect from a model / lexical one; every lexical class of the Thrift IDL reference that the random pools exclude is pinned by hand-written witness programs evaluated on every run. evaluations = renderings parsed; distinct = feature vectors of the models + lexical classes + step sequences of the histories", b.jsonSample, b.history))
	run.Assume("verif/idl (model, renderer, Canon) is an independent and correct statement of Thrift's IDL rules: implicit enum numbering previous+1 from 0, union members and thrown exceptions optional, unspecified requiredness = default, include name = base name of the path, scopes sorted by name")
	run.Assume("after a base or container type `(k = 'v')` is a type annotation by Thrift's grammar: the model never annotates an operation whose type is a base or container type (that construct has its own lexical witness)")
	run.Assume("the hand-written witness programs are valid IDL under the Apache Thrift IDL reference plus Frugal's scope extension")

	jobs := jobList(run.Thorough())
	scratch := ev.ScratchDir()
	n := runtime.NumCPU()
	if n > 12 {
		n = 12
	}
	if n < 2 {
		n = 2
	}

	// the compiler binary for the descriptor view is built while the workers run
	var bin string
	var binErr error
	var binWG sync.WaitGroup
	binWG.Add(1)
	go func() { defer binWG.Done(); bin, binErr = emit.FrugalBin() }()

	states := make([]*workerState, n)
	var wg sync.WaitGroup
	for w := 0; w < n; w++ {
		states[w] = &workerState{w: w, out: filepath.Join(scratch, fmt.Sprintf("c10-w%d.jsonl", w)), log: filepath.Join(scratch, fmt.Sprintf("c10-w%d.log", w)), stderr: filepath.Join(scratch, fmt.Sprintf("c10-w%d.stderr", w))}
		wg.Add(1)
		go func(ws *workerState) { defer wg.Done(); supervise(tier, ws, n) }(states[w])
	}
	wg.Wait()

	results := map[int]*jobResult{}
	for _, ws := range states {
		for _, r := range readResults(ws.out) {
			results[r.ID] = r
		}
	}

	// a fatal error of the parser killed a worker: the last logged file is the witness
	for _, ws := range states {
		for _, c := range ws.crashes {
			id, _ := c["job"].(int)
			site := panicSite(fmt.Sprint(c["stderr"]))
			what := fmt.Sprintf("the parser killed its process (exit %v) while parsing %v", c["exit"], c["path"])
			if id >= 0 && id < len(jobs) {
				c["job_name"] = fmt.Sprintf("%s#%d", jobs[id].Pool, jobs[id].I)
			}
			run.Violation("C10:parser-panic:fatal:"+site, what, c)
		}
		if ws.gaveUp {
			run.Inconclusive(fmt.Sprintf("worker %d could not be kept alive; its remaining jobs were not evaluated", ws.w))
		}
	}
	// hangs are confirmed alone, with twice the watchdog, before they count
	for _, ws := range states {
		for _, id := range ws.hung {
			out := filepath.Join(scratch, fmt.Sprintf("c10-solo%d.jsonl", id))
			cmd := exec.Command(os.Args[0], "worker", tier, "0", "1", fmt.Sprint(id), out, out+".log", "only")
			cmd.Env = os.Environ()
			cmd.Run()
			solo := readResults(out)
			if len(solo) == 1 && !solo[0].Hang {
				results[id] = solo[0]
				run.Add("hangs_not_confirmed", 1)
				continue
			}
			if r := results[id]; r != nil && len(r.Failures) > 0 {
				f := r.Failures[len(r.Failures)-1]
				run.Violation(f.Sig, f.What+" (confirmed in a process of its own with twice the watchdog)", f.Witness)
				r.Failures = r.Failures[:len(r.Failures)-1]
			} else {
				run.Inconclusive(fmt.Sprintf("job %d hung and left no record", id))
			}
		}
	}

	// aggregate
	styles := map[string]bool{}
	vectors := map[string]bool{}
	features := map[string]int{}
	models := map[string]int{}
	var lexPassed, lexFailed []string
	lexDetail := map[string]interface{}{}
	quarantined := map[string]int{}
	histories := map[string]bool{}
	histOps := map[string]int{}
	missing := 0
	for id, j := range jobs {
		r := results[id]
		if r == nil {
			missing++
			continue
		}
		run.Eval(r.Renderings)
		run.Add("renderings_parsed", r.Renderings)
		run.Add("parse_calls_total", r.Parses)
		run.Add("files_parsed", r.Files)
		run.Add("single_knob_renderings", r.SingleKnob)
		run.Add("round_trips", r.RoundTrips)
		if j.Pool == "witness" {
			run.Distinct("lexical-class:" + r.Class)
			if r.Passed {
				lexPassed = append(lexPassed, r.Class)
			} else {
				lexFailed = append(lexFailed, r.Class)
			}
			lexDetail[r.Class] = map[string]interface{}{"pinned_tree": r.Pinned, "passed": r.Passed, "variants": r.Variants}
			run.Add("lexical_witness_programs", r.Renderings)
		} else {
			models[j.Pool]++
			for _, s := range r.Styles {
				styles[s] = true
			}
			v := strings.Join(r.Features, ",")
			vectors[v] = true
			run.Distinct("features:" + v)
			for _, f := range r.Features {
				features[f]++
			}
			if r.Sample != nil {
				run.Sample(r.Sample)
			}
			if j.Pool == "history" {
				run.Distinct("history:" + r.History)
				histories[r.History] = true
				for k, op := range r.HistoryOps {
					histOps[op]++
					if k > 0 {
						run.Add("history_reparses_of_a_path_parsed_before", 1)
					}
				}
			}
		}
		for _, f := range r.Failures {
			if strings.HasPrefix(f.Sig, "C10:lexical:") && j.Pool != "witness" {
				quarantined[strings.TrimPrefix(f.Sig, "C10:lexical:")]++
			}
			run.Violation(f.Sig, f.What, f.Witness)
		}
	}
	if missing > 0 {
		run.Inconclusive(fmt.Sprintf("%d of %d jobs left no result", missing, len(jobs)))
	}

	// second view: the -gen json descriptor
	binWG.Wait()
	if binErr != nil {
		run.Inconclusive("descriptor view: " + binErr.Error())
	} else {
		type jr struct {
			i                int
			kind, text, name string
			files            map[string]string
			feats            []string
		}
		var mu sync.Mutex
		var jres []jr
		sem := make(chan struct{}, n)
		var jw sync.WaitGroup
		step := b.core / b.jsonSample
		if step%2 == 0 { // odd step: plain and identifier-shape models alternate
			step--
		}
		if step < 1 {
			step = 1
		}
		for i := 0; i < b.core; i += step {
			p, label := genModel(run, job{"core", i}) // generation is serialised inside idl
			jw.Add(1)
			sem <- struct{}{}
			go func(i int, p *idl.Program, label string) {
				defer func() { <-sem; jw.Done() }()
				kind, text, files := jsonCrossCheck(bin, p, filepath.Join(scratch, fmt.Sprintf("c10-json%d", i)))
				mu.Lock()
				jres = append(jres, jr{i, kind, text, label, files, p.FeatureList()})
				mu.Unlock()
			}(i, p, label)
		}
		jw.Wait()
		// hand-written descriptor witnesses: annotations on type uses
		var bad []string
		wit := map[string]interface{}{}
		for wi, w := range jsonWitnesses() {
			kind, text, files := runJSONWitness(bin, w, filepath.Join(scratch, fmt.Sprintf("c10-jsonwit%d", wi)))
			run.Add("json_descriptor_witness_programs", 1)
			run.Eval(1)
			run.Distinct("json-witness:" + w.Name)
			if kind == "timeout" {
				run.Inconclusive("descriptor witness " + w.Name + ": " + text)
			} else if kind != "" {
				bad = append(bad, w.Name+": "+text)
				wit[w.Name] = map[string]interface{}{"files": files, "observed": text, "declared_descriptor": w.Want}
			}
		}
		if len(bad) > 0 {
			run.Violation("C10:json-view:type_use_annotations", "`frugal -gen json`: every use of a type is its own descriptor (an annotated use carries exactly its own annotations, an un-annotated use of the same base type none): "+strings.Join(bad, " || "), wit)
		}
		sort.Slice(jres, func(a, b int) bool { return jres[a].i < jres[b].i })
		for _, r := range jres {
			run.Add("json_descriptor_cross_checks", 1)
			run.Eval(1)
			if r.kind == "" {
				continue
			}
			if r.kind == "timeout" || r.kind == "harness" {
				run.Inconclusive("descriptor view of " + r.name + ": " + r.text)
				continue
			}
			kind := r.kind
			if i := strings.Index(kind, ":"); i >= 0 && !descriptorKeys[kind[i+1:]] {
				kind = kind[:i] + ":entry"
			}
			run.Violation("C10:json-view:"+kind, "`frugal -gen json` disagrees with the declared model: "+r.text, map[string]interface{}{"model": r.name, "features": r.feats, "files": r.files})
		}
	}

	sort.Strings(lexPassed)
	sort.Strings(lexFailed)
	run.Set("models", models)
	run.Set("distinct_styles", len(styles))
	run.Set("distinct_feature_vectors", len(vectors))
	run.Set("feature_frequencies", features)
	run.Set("lexical_classes_passed", lexPassed)
	run.Set("lexical_classes_failed", lexFailed)
	run.Set("lexical_classes", lexDetail)
	run.Set("random_pool_renderings_explained_by_a_quarantined_lexical_class", quarantined)
	run.Set("single_knob_styles_per_fixed_model", len(singleKnobStyles()))
	run.Set("distinct_histories", len(histories))
	run.Set("history_steps_by_kind", histOps)
	run.Set("workers", n)
	fmt.Printf("C10: %d jobs, lexical classes passed=%d failed=%d %v\n", len(jobs), len(lexPassed), len(lexFailed), lexFailed)
	return run.Finish()
}
