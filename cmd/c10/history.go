package main

import (
	"fmt"
	"math/rand"
	"os"
	"path/filepath"
	"sort"
	"strings"

	"verif/ev"
	"verif/idl"
)

// Pool "history": the property quantifies over IDL *texts*, so the model
// ParseFrugal returns must be the model of the text that is in the files at
// the time of the call, whatever the same process has parsed before.  A
// history keeps ONE directory and ONE root path for its whole life: a program
// is parsed, then the text at the same paths is replaced by a different valid
// text (an include edited, the root edited, the whole program replaced by
// another one laid over the same file names, the original text restored, a
// second root written next to the first that includes a file edited since it
// was last parsed) and parsed again.  After every step the dump must equal
// the canonical description of the CURRENT text.  Only the files whose text
// changed are written.  A failing step is re-evaluated with the same texts at
// a fresh path: if that parse is right, what the process had seen before at
// the path is the explanation (signature C10:reparse:...); otherwise the
// failure is a model / lexical one and goes through the usual reduction.

const (
	opInitial     = "initial"
	opEditInclude = "include_edited"
	opEditRoot    = "root_edited"
	opSwap        = "program_replaced"
	opBack        = "edited_back"
	opSibling     = "second_root_of_edited_include"
	opUnchanged   = "unchanged"
)

func historyLen(thorough bool) int {
	if thorough {
		return 8
	}
	return 6
}

// setExt changes the extension of file f of p and the include paths naming it.
func setExt(p *idl.Program, f *idl.File, ext string) {
	if f.Ext == ext {
		return
	}
	old := f.FileName()
	f.Ext = ext
	for _, g := range p.Files {
		for _, inc := range g.Includes {
			if inc.Path == old {
				inc.Path = f.FileName()
			}
		}
	}
}

// identifiers lists every declared name of p, normalised the way the
// generator normalises names it must keep apart.
func identifiers(p *idl.Program) map[string]bool {
	out := map[string]bool{}
	add := func(s string) { out[strings.ToLower(strings.ReplaceAll(s, "_", ""))] = true }
	fields := func(fs []*idl.Field) {
		for _, f := range fs {
			add(f.Name)
		}
	}
	for _, f := range p.Files {
		for _, d := range f.Decls {
			add(d.Name())
			switch {
			case d.Enum != nil:
				for _, v := range d.Enum.Values {
					add(v.Name)
				}
			case d.Struct != nil:
				fields(d.Struct.Fields)
			case d.Service != nil:
				for _, m := range d.Service.Methods {
					add(m.Name)
					fields(m.Args)
					fields(m.Throws)
				}
			case d.Scope != nil:
				for _, v := range d.Scope.PrefixVars() {
					add(v)
				}
				for _, o := range d.Scope.Ops {
					add(o.Name)
				}
			}
		}
	}
	return out
}

// overlay renames the files of b so that its root and as many of its other
// files as possible lie at the paths of a's files (extensions of a's files are
// moved to .frugal where b's file declares scopes).  The generator keeps
// identifiers and include names of one program apart, and so does a history:
// a file of a whose name is an identifier of b gets a neutral name first.
func overlay(a, b *idl.Program) {
	for i, f := range b.Files {
		renameBase(b, f.Base, fmt.Sprintf("hist_tmp_%d", i))
	}
	ids := identifiers(b)
	target := func(i int, bf, af *idl.File) {
		if ids[strings.ToLower(strings.ReplaceAll(af.Base, "_", ""))] {
			renameBase(a, af.Base, fmt.Sprintf("hist_file_%d", i))
		}
		if len(bf.Scopes()) > 0 && af.Ext != ".frugal" {
			setExt(a, af, ".frugal")
		}
		renameBase(b, bf.Base, af.Base)
		setExt(b, bf, af.Ext)
	}
	target(len(a.Files)-1, b.Root(), a.Root())
	for i := 0; i < len(b.Files)-1; i++ {
		if i < len(a.Files)-1 {
			target(i, b.Files[i], a.Files[i])
		} else {
			renameBase(b, b.Files[i].Base, fmt.Sprintf("hist_extra_%d", i))
		}
	}
}

// genHistory builds the two programs of history i: a, and b laid over a's paths.
func genHistory(run *ev.Run, i int) (a, b *idl.Program, label string) {
	cfg := idl.CoreConfig()
	cfg.MinFiles, cfg.MaxFiles = 2, 3
	a = idl.Generate(run.Rand(fmt.Sprintf("c10-history-a-%d", i)), cfg)
	b = idl.Generate(run.Rand(fmt.Sprintf("c10-history-b-%d", i)), cfg)
	sanitize(a)
	sanitize(b)
	overlay(a, b)
	return a, b, fmt.Sprintf("history#%d (VERIF_SEED %d)", i, run.Seed)
}

// firstInclude returns the file the first include of p's root names.
func firstInclude(p *idl.Program) *idl.File {
	root := p.Root()
	if len(root.Includes) == 0 {
		return nil
	}
	for _, f := range p.Files {
		if f != root && f.FileName() == root.Includes[0].Path {
			return f
		}
	}
	return nil
}

// growInclude edits the first include of the root: a new enum and a new
// exception are declared at its end and its first struct gets one more field.
func growInclude(p *idl.Program, k int) {
	inc := firstInclude(p)
	if inc == nil {
		return
	}
	for _, s := range inc.Structs() {
		max := 0
		for _, f := range s.Fields {
			if f.ID > max {
				max = f.ID
			}
		}
		s.Fields = append(s.Fields, &idl.Field{ID: max + 1, Name: fmt.Sprintf("histExtra%d", k), Req: idl.ReqOptional, Type: idl.T("i32")})
		break
	}
	kind := fmt.Sprintf("HistKind%d", k)
	inc.Decls = append(inc.Decls,
		&idl.Decl{Enum: &idl.Enum{Name: kind, Values: []*idl.EnumValue{
			{Name: "HIST_FIRST", Value: 0}, {Name: "HIST_SECOND", Value: 7, Explicit: true}, {Name: "HIST_THIRD", Value: 8}}}},
		&idl.Decl{Struct: &idl.Struct{Kind: idl.KindException, Name: fmt.Sprintf("HistMissing%d", k), Fields: []*idl.Field{
			{ID: 1, Name: "what", Type: idl.T("string")},
			{ID: 2, Name: "kind", Req: idl.ReqOptional, Type: idl.T(kind)}}}})
}

// lastGrowth returns the number k of the last growInclude applied to inc (0 = none).
func lastGrowth(inc *idl.File) int {
	k := 0
	if inc == nil {
		return 0
	}
	for _, e := range inc.Enums() {
		var n int
		if _, err := fmt.Sscanf(e.Name, "HistKind%d", &n); err == nil && n > k {
			k = n
		}
	}
	return k
}

// useDecls are declarations for a file that includes inc: they use what the
// last edit of inc added (when there was one), so that a reader served an
// older inc cannot accept them.
func useDecls(inc *idl.File, k int) []*idl.Decl {
	entry := &idl.Struct{Kind: idl.KindStruct, Name: fmt.Sprintf("HistEntry%d", k), Fields: []*idl.Field{
		{ID: 1, Name: "stamp", Type: idl.T("i64")},
		{ID: 2, Name: "label", Req: idl.ReqOptional, Type: idl.T("string"), Default: "none"}}}
	find := &idl.Method{Name: "find", Ret: idl.T(entry.Name), Args: []*idl.Field{{ID: 1, Name: "key", Type: idl.T("string")}}}
	if g := lastGrowth(inc); g > 0 {
		entry.Fields = append(entry.Fields, &idl.Field{ID: 3, Name: "kind", Req: idl.ReqOptional, Type: idl.T(fmt.Sprintf("%s.HistKind%d", inc.Base, g))})
		find.Throws = []*idl.Field{{ID: 1, Name: "nf", Type: idl.T(fmt.Sprintf("%s.HistMissing%d", inc.Base, g))}}
	}
	return []*idl.Decl{{Struct: entry}, {Service: &idl.Service{Name: fmt.Sprintf("HistLookup%d", k), Methods: []*idl.Method{find}}}}
}

// histStep is one step of a history as recorded in a witness.
type histStep struct {
	Op      string            `json:"op"`
	Written map[string]string `json:"files_written"` // file name -> new text (only files whose text changed)
	Parsed  string            `json:"parsed"`        // the root handed to ParseFrugal
	Verdict string            `json:"verdict"`
}

// runHistoryJob evaluates history j.I in this process.
func runHistoryJob(run *ev.Run, j job, base string) *jobResult {
	r := &jobResult{}
	a0, b0, label := genHistory(run, j.I)
	feats := map[string]bool{}
	for _, p := range []*idl.Program{a0, b0} {
		for _, f := range p.FeatureList() {
			feats[f] = true
		}
	}
	for f := range feats {
		r.Features = append(r.Features, f)
	}
	sort.Strings(r.Features)
	rng := run.Rand(fmt.Sprintf("c10-history-ops-%d", j.I))
	st := idl.DefaultStyle()
	if (j.I/3)%2 == 1 { // the first edit goes by j.I%3: each kind of first edit meets both
		st = randomStyle(run.Rand(fmt.Sprintf("c10-history-style-%d", j.I)))
	}
	r.Styles = []string{st.String()}
	e := &evaluator{base: base}
	dir := filepath.Join(base, "hist")
	defer func() {
		r.Parses, r.Files = e.parsed, e.files
		if !r.Hang {
			os.RemoveAll(base)
		}
	}()

	disk := map[string]string{} // what this history wrote last, per file name
	cur := a0.Clone()
	inA, edited := true, false
	var steps []histStep
	var ops []string
	var past []map[string]tree // expectations of earlier steps, per root parsed
	var pastRoots []string
	edits := 0

	step := func(op string, prog *idl.Program) bool {
		ops = append(ops, op)
		hs := histStep{Op: op, Written: map[string]string{}, Parsed: prog.Root().FileName()}
		for _, f := range reachable(prog) {
			text := idl.RenderFile(f, st)
			if old, ok := disk[f.FileName()]; ok && old == text {
				continue
			}
			path := filepath.Join(dir, filepath.FromSlash(f.FileName()))
			os.MkdirAll(filepath.Dir(path), 0o755)
			if err := os.WriteFile(path, []byte(text), 0o644); err != nil {
				hs.Verdict = "harness: " + err.Error()
				steps = append(steps, hs)
				r.Failures = append(r.Failures, failure{Sig: "C10:harness:cannot-write", What: err.Error(), Witness: map[string]interface{}{"model": label}})
				return false
			}
			disk[f.FileName()] = text
			hs.Written[f.FileName()] = text
		}
		expected := canonProgram(prog)
		root := filepath.Join(dir, filepath.FromSlash(prog.Root().FileName()))
		res := parseProgram(root)
		e.parsed++
		e.files += len(res.Files)
		r.Renderings++
		o := judge(expected, res)
		o.Dir, o.Root = "", root
		defer func() {
			steps = append(steps, hs)
			past = append(past, expected)
			pastRoots = append(pastRoots, root)
		}()
		if o.OK {
			hs.Verdict = "model of the current text"
			return true
		}
		if o.Kind == "hang" {
			hs.Verdict = o.describe()
			r.Hang, r.HangPath = true, root
			w := witnessOf(prog, st, o, label)
			w["history"] = append(append([]histStep{}, steps...), hs)
			r.Failures = append(r.Failures, failure{Sig: "C10:parser-hang", What: o.describe() + " [history step " + op + "]", Witness: w})
			return false
		}
		if len(o.Classes) > 0 { // a quarantined lexical class explains the whole difference: not a stale model
			hs.Verdict = "explained by " + strings.Join(o.Classes, "+")
			for _, c := range o.Classes {
				r.Failures = append(r.Failures, failure{Sig: "C10:lexical:" + c, What: o.describe() + " [style " + knobLabel(st) + "]", Witness: witnessOf(prog, st, o, label)})
			}
			return true
		}
		hs.Verdict = o.describe()
		// control: the same texts at a path this process has never parsed
		ctl := e.run(prog, expected, st)
		defer e.cleanup(ctl)
		if ctl.Kind == "hang" {
			r.Hang, r.HangPath = true, ctl.Root
			r.Failures = append(r.Failures, failure{Sig: "C10:parser-hang", What: ctl.describe(), Witness: witnessOf(prog, st, ctl, label)})
			return false
		}
		if !ctl.OK && len(ctl.Classes) == 0 {
			fails, _ := e.explain(prog, expected, st, ctl, label, "history")
			r.Failures = append(r.Failures, fails...)
			return false
		}
		observed := "mismatch"
		detail := ""
		switch o.Kind {
		case "parse-error":
			observed = "valid-idl-rejected:" + errClass(o.Err)
		case "panic":
			observed = "panic:" + panicSite(o.Err)
		case "mismatch":
			for k := len(past) - 1; k >= 0; k-- {
				if pastRoots[k] != root {
					continue
				}
				if jo := judge(past[k], res); jo.OK || len(jo.Classes) > 0 {
					observed = "stale-model"
					detail = fmt.Sprintf(" — the model returned is that of the text this path held at step %d (%s), %d step(s) ago", k, ops[k], len(past)-k)
					break
				}
			}
		}
		w := witnessOf(prog, st, o, label)
		w["history"] = append(append([]histStep{}, steps...), hs)
		w["directory"] = "every step writes into the same directory; only the listed files change; the root is parsed with parser.ParseFrugal in one process"
		w["control"] = "the same texts written to a fresh directory parse to the model of the current text in the same process"
		r.Failures = append(r.Failures, failure{
			Sig: "C10:reparse:" + op + ":" + observed,
			What: fmt.Sprintf("after %s, parsing %s again in the same process does not give the model of the text now in the files: %s%s [history %s; the same texts at a fresh path parse correctly]",
				strings.ReplaceAll(op, "_", " "), prog.Root().FileName(), o.describe(), detail, strings.Join(ops, " > ")),
			Witness: w})
		return false
	}

	defer func() { r.History = strings.Join(ops, ">"); r.HistoryOps = ops }()
	if !step(opInitial, cur) {
		return r
	}
	firsts := []string{opEditInclude, opEditRoot, opSwap}
	for n := 1; n < historyLen(run.Thorough()); n++ {
		var op string
		if n == 1 {
			op = firsts[j.I%len(firsts)]
		} else {
			op = pickOp(rng, inA && !edited)
		}
		prog := cur
		switch op {
		case opEditInclude:
			edits++
			growInclude(cur, edits)
			edited = true
		case opEditRoot:
			edits++
			cur.Root().Decls = append(cur.Root().Decls, useDecls(firstInclude(cur), edits)...)
			edited = true
		case opSwap:
			if inA {
				cur = b0.Clone()
			} else {
				cur = a0.Clone()
			}
			inA, edited = !inA, false
			prog = cur
		case opBack:
			cur = a0.Clone()
			inA, edited = true, false
			prog = cur
		case opSibling:
			// the include is edited, then a NEW root that uses the addition is parsed
			edits++
			growInclude(cur, edits)
			edited = true
			inc := firstInclude(cur)
			sib := &idl.File{Base: fmt.Sprintf("hist_sibling_%d", edits), Ext: ".frugal",
				Includes: []*idl.Include{{Path: inc.FileName()}}, Decls: useDecls(inc, edits)}
			prog = &idl.Program{Features: cur.Features}
			for _, f := range cur.Files[:len(cur.Files)-1] {
				prog.Files = append(prog.Files, f)
			}
			prog.Files = append(prog.Files, sib)
		}
		if !step(op, prog) {
			return r
		}
	}
	if j.I < 2 {
		r.Sample = map[string]interface{}{"model": label, "history": ops, "style": st.String(), "files": len(disk)}
	}
	return r
}

// pickOp draws the next step; pristine = the files hold the original text.
func pickOp(rng *rand.Rand, pristine bool) string {
	for {
		op := []string{opEditInclude, opEditRoot, opSwap, opBack, opBack, opSibling, opUnchanged}[rng.Intn(7)]
		if op == opBack && pristine {
			continue
		}
		return op
	}
}
