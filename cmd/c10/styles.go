package main

import (
	"fmt"
	"math/rand"

	"verif/idl"
)

// The lexical knobs of idl.Style, by name, so that a failing rendering can be
// bisected one knob at a time against idl.DefaultStyle().
var knobNames = []string{"FieldSep", "EnumSep", "FuncSep", "OpSep", "StmtEnd", "Indent", "Quote", "Gap", "Inline", "Blank", "BraceNL", "AngleWS", "TrailingNL", "CRLF", "Tabs", "ZeroPad", "BareCR", "Wrap"}

func sepName(s string) string {
	switch s {
	case ",":
		return "comma"
	case ";":
		return "semicolon"
	case "":
		return "none"
	}
	return fmt.Sprintf("%q", s)
}

func onOff(b bool) string {
	if b {
		return "on"
	}
	return "off"
}

// knobValue names the value of one knob (stable, used in signatures).
func knobValue(s idl.Style, name string) string {
	switch name {
	case "FieldSep":
		return sepName(s.FieldSep)
	case "EnumSep":
		return sepName(s.EnumSep)
	case "FuncSep":
		return sepName(s.FuncSep)
	case "OpSep":
		return sepName(s.OpSep)
	case "StmtEnd":
		return sepName(s.StmtEnd)
	case "Indent":
		if s.Indent == "\t" {
			return "tab"
		}
		return fmt.Sprint(len(s.Indent))
	case "Quote":
		if s.Quote == '\'' {
			return "single"
		}
		return "double"
	case "Gap":
		return []string{"none", "slashslash", "hash", "block", "multiline-block", "javadoc"}[s.Gap%6]
	case "Inline":
		return onOff(s.Inline)
	case "Blank":
		return fmt.Sprint(s.Blank)
	case "BraceNL":
		return onOff(s.BraceNL)
	case "AngleWS":
		return onOff(s.AngleWS)
	case "TrailingNL":
		return onOff(s.TrailingNL)
	case "CRLF":
		return onOff(s.CRLF)
	case "Tabs":
		return onOff(s.Tabs)
	case "ZeroPad":
		return fmt.Sprint(s.ZeroPad)
	case "BareCR":
		return []string{"none", "crcrlf-line-ends", "before-indentation", "between-tokens"}[s.BareCR%4]
	case "Wrap":
		return []string{"none", "line-break", "slashslash-then-break", "hash-then-break", "break-then-block"}[s.Wrap%5]
	}
	return "?"
}

// copyKnob sets knob name of dst to its value in src.
func copyKnob(dst *idl.Style, src idl.Style, name string) {
	switch name {
	case "FieldSep":
		dst.FieldSep = src.FieldSep
	case "EnumSep":
		dst.EnumSep = src.EnumSep
	case "FuncSep":
		dst.FuncSep = src.FuncSep
	case "OpSep":
		dst.OpSep = src.OpSep
	case "StmtEnd":
		dst.StmtEnd = src.StmtEnd
	case "Indent":
		dst.Indent = src.Indent
	case "Quote":
		dst.Quote = src.Quote
	case "Gap":
		dst.Gap = src.Gap
	case "Inline":
		dst.Inline = src.Inline
	case "Blank":
		dst.Blank = src.Blank
	case "BraceNL":
		dst.BraceNL = src.BraceNL
	case "AngleWS":
		dst.AngleWS = src.AngleWS
	case "TrailingNL":
		dst.TrailingNL = src.TrailingNL
	case "CRLF":
		dst.CRLF = src.CRLF
	case "Tabs":
		dst.Tabs = src.Tabs
	case "ZeroPad":
		dst.ZeroPad = src.ZeroPad
	case "BareCR":
		dst.BareCR = src.BareCR
	case "Wrap":
		dst.Wrap = src.Wrap
	}
}

// differingKnobs lists the knobs in which s differs from the default style.
func differingKnobs(s idl.Style) []string {
	d := idl.DefaultStyle()
	var out []string
	for _, k := range knobNames {
		if knobValue(s, k) != knobValue(d, k) {
			out = append(out, k)
		}
	}
	return out
}

// singleKnobStyles enumerates every style that differs from the default in
// exactly one knob (every value of every knob).
func singleKnobStyles() []idl.Style {
	d := idl.DefaultStyle()
	var out []idl.Style
	add := func(f func(s *idl.Style)) {
		s := d
		f(&s)
		if s != d {
			out = append(out, s)
		}
	}
	for _, sep := range []string{",", ";", ""} {
		sep := sep
		add(func(s *idl.Style) { s.FieldSep = sep })
		add(func(s *idl.Style) { s.EnumSep = sep })
		add(func(s *idl.Style) { s.FuncSep = sep })
		add(func(s *idl.Style) { s.OpSep = sep })
	}
	add(func(s *idl.Style) { s.StmtEnd = ";" })
	for _, ind := range []string{"", " ", "  ", "    ", "\t"} {
		ind := ind
		add(func(s *idl.Style) { s.Indent = ind })
	}
	add(func(s *idl.Style) { s.Quote = '\'' })
	for g := 1; g <= 5; g++ {
		g := g
		add(func(s *idl.Style) { s.Gap = g })
	}
	add(func(s *idl.Style) { s.Inline = true })
	add(func(s *idl.Style) { s.Blank = 1 })
	add(func(s *idl.Style) { s.Blank = 2 })
	add(func(s *idl.Style) { s.BraceNL = true })
	add(func(s *idl.Style) { s.AngleWS = true })
	add(func(s *idl.Style) { s.TrailingNL = false })
	add(func(s *idl.Style) { s.CRLF = true })
	add(func(s *idl.Style) { s.Tabs = true })
	add(func(s *idl.Style) { s.ZeroPad = 1 })
	add(func(s *idl.Style) { s.ZeroPad = 2 })
	for m := 1; m <= 3; m++ {
		m := m
		add(func(s *idl.Style) { s.BareCR = m })
	}
	for m := 1; m <= 4; m++ {
		m := m
		add(func(s *idl.Style) { s.Wrap = m })
	}
	return out
}

// knobLabel is "<knob>=<value>" for a single-knob style, "default" for the
// default style, or the joined list of differing knobs.
func knobLabel(s idl.Style) string {
	ks := differingKnobs(s)
	if len(ks) == 0 {
		return "default"
	}
	out := ""
	for i, k := range ks {
		if i > 0 {
			out += "+"
		}
		out += k + "=" + knobValue(s, k)
	}
	return out
}

// randomStyle draws every knob: idl.RandomStyle plus the knobs only C10 uses
// (integers written with leading zeros).
func randomStyle(rng *rand.Rand) idl.Style {
	s := idl.RandomStyle(rng)
	if rng.Intn(3) == 0 {
		s.ZeroPad = 1 + rng.Intn(2)
	}
	if rng.Intn(4) == 0 {
		s.BareCR = 1 + rng.Intn(3)
	}
	if rng.Intn(4) == 0 {
		s.Wrap = 1 + rng.Intn(4)
	}
	return s
}
