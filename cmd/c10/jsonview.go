package main

import (
	"encoding/json"
	"fmt"
	"os"
	"path/filepath"
	"strconv"
	"time"

	"verif/emit"
	"verif/idl"
)

// Second, independent view of the parsed model: the descriptor written by
// `frugal -gen json` (documentation/json.md), compared with what the model
// says for the subset the descriptor carries: type names, field ids, field
// names and types, enum values, service methods with parameters / results,
// scopes with prefix and operations.

func descType(t *idl.Type) map[string]interface{} {
	switch t.Name {
	case "list":
		return map[string]interface{}{"v": descType(t.Val)}
	case "set":
		return map[string]interface{}{"k": descType(t.Val)}
	case "map":
		return map[string]interface{}{"k": descType(t.Key), "v": descType(t.Val)}
	}
	if idl.IsBase(t.Name) || t.Name == "i8" {
		return map[string]interface{}{"b": t.Name}
	}
	return map[string]interface{}{"n": t.Name}
}

func descFields(fs []*idl.Field) map[string]interface{} {
	m := map[string]interface{}{}
	for _, f := range fs {
		m[strconv.Itoa(f.ID)] = map[string]interface{}{"n": f.Name, "t": descType(f.Type)}
	}
	return m
}

// descFile is the descriptor of one file according to the model (empty maps
// are omitted, as encoding/json does with omitempty).
func descFile(f *idl.File) map[string]interface{} {
	out := map[string]interface{}{}
	types := map[string]interface{}{}
	svcs := map[string]interface{}{}
	scopes := map[string]interface{}{}
	for _, d := range f.Decls {
		switch {
		case d.TypeDef != nil:
			types[d.TypeDef.Name] = descType(d.TypeDef.Type)
		case d.Enum != nil:
			vals := map[string]interface{}{}
			for _, v := range d.Enum.Values {
				k := strconv.Itoa(v.Value)
				l, _ := vals[k].([]interface{})
				vals[k] = append(l, v.Name)
			}
			t := map[string]interface{}{}
			if len(vals) > 0 {
				t["e"] = vals
			}
			types[d.Enum.Name] = t
		case d.Struct != nil:
			t := map[string]interface{}{}
			if len(d.Struct.Fields) > 0 {
				key := "s"
				if d.Struct.Kind == idl.KindUnion {
					key = "u"
				}
				t[key] = descFields(d.Struct.Fields)
			}
			types[d.Struct.Name] = t
		case d.Service != nil:
			ms := map[string]interface{}{}
			for _, m := range d.Service.Methods {
				md := map[string]interface{}{}
				if len(m.Args) > 0 {
					md["p"] = descFields(m.Args)
				}
				res := descFields(m.Throws)
				if m.Ret != nil {
					res["0"] = map[string]interface{}{"t": descType(m.Ret)}
				}
				if len(res) > 0 {
					md["r"] = res
				}
				ms[m.Name] = md
			}
			svcs[d.Service.Name] = map[string]interface{}{"m": ms}
		case d.Scope != nil:
			sd := map[string]interface{}{"p": d.Scope.Prefix}
			ops := map[string]interface{}{}
			for _, o := range d.Scope.Ops {
				ops[o.Name] = descType(o.Type)
			}
			if len(ops) > 0 {
				sd["o"] = ops
			}
			scopes[d.Scope.Name] = sd
		}
	}
	if len(svcs) > 0 {
		out["s"] = svcs
	}
	if len(scopes) > 0 {
		out["c"] = scopes
	}
	if len(types) > 0 {
		out["t"] = types
	}
	return out
}

func normJSON(v interface{}) interface{} {
	switch x := v.(type) {
	case map[string]interface{}:
		o := map[string]interface{}{}
		for k, e := range x {
			o[k] = normJSON(e)
		}
		return o
	case []interface{}:
		o := []interface{}{}
		for _, e := range x {
			o = append(o, normJSON(e))
		}
		return o
	case float64:
		return int64(x)
	}
	return v
}

// jsonCrossCheck renders p (default style), runs `frugal -gen json` on it and
// compares the descriptor with the model.  Returns "" when equal, else the
// failure (kind, text).
func jsonCrossCheck(bin string, p *idl.Program, dir string) (kind, text string, files map[string]string) {
	st := idl.DefaultStyle()
	root, err := idl.WriteProgram(p, dir, st)
	if err != nil {
		return "harness", err.Error(), nil
	}
	defer os.RemoveAll(dir)
	outDir := filepath.Join(dir, "out")
	os.MkdirAll(outDir, 0o755)
	r := emit.Run(bin, dir, 120*time.Second, "-gen", "json", "-out", outDir, root)
	if r.TimedOut {
		return "timeout", "frugal -gen json did not finish within 120 s", programTexts(p, st)
	}
	if r.ExitCode != 0 {
		return "compiler-failed", fmt.Sprintf("frugal -gen json exit %d: %s %s", r.ExitCode, r.Stdout, r.Stderr), programTexts(p, st)
	}
	b, err := os.ReadFile(filepath.Join(outDir, "frugal.json"))
	if err != nil {
		return "no-output", "frugal -gen json wrote no frugal.json: " + err.Error(), programTexts(p, st)
	}
	var got map[string]interface{}
	if err := json.Unmarshal(b, &got); err != nil {
		return "bad-json", "frugal.json is not JSON: " + err.Error(), programTexts(p, st)
	}
	want := map[string]interface{}{}
	for _, f := range reachable(p) {
		want[f.Base] = descFile(f)
	}
	g := normJSON(got)
	if sameTree(want, g) {
		return "", "", nil
	}
	ds := diffTrees(want, g, "model", "descriptor", 6)
	t := ""
	leaf := "?"
	for i, d := range ds {
		if i == 0 {
			leaf = d.Leaf
		} else {
			t += " | "
		}
		t += d.Text
	}
	return "descriptor-differs:" + leaf, t, programTexts(p, st)
}
