package main

import (
	"encoding/json"
	"fmt"
	"os"
	"path/filepath"
	"strconv"
	"time"

	"verif/emit"
	"verif/idl"
)

// Second, independent view of the parsed model: the descriptor written by
// `frugal -gen json` (documentation/json.md), compared with what the model
// says for the subset the descriptor carries: type names, field ids, field
// names and types, enum values, service methods with parameters / results,
// scopes with prefix and operations.

func descType(t *idl.Type) map[string]interface{} {
	switch t.Name {
	case "list":
		return map[string]interface{}{"v": descType(t.Val)}
	case "set":
		return map[string]interface{}{"k": descType(t.Val)}
	case "map":
		return map[string]interface{}{"k": descType(t.Key), "v": descType(t.Val)}
	}
	if idl.IsBase(t.Name) || t.Name == "i8" {
		return map[string]interface{}{"b": t.Name}
	}
	return map[string]interface{}{"n": t.Name}
}

func descFields(fs []*idl.Field) map[string]interface{} {
	m := map[string]interface{}{}
	for _, f := range fs {
		m[strconv.Itoa(f.ID)] = map[string]interface{}{"n": f.Name, "t": descType(f.Type)}
	}
	return m
}

// descFile is the descriptor of one file according to the model (empty maps
// are omitted, as encoding/json does with omitempty).
func descFile(f *idl.File) map[string]interface{} {
	out := map[string]interface{}{}
	types := map[string]interface{}{}
	svcs := map[string]interface{}{}
	scopes := map[string]interface{}{}
	for _, d := range f.Decls {
		switch {
		case d.TypeDef != nil:
			types[d.TypeDef.Name] = descType(d.TypeDef.Type)
		case d.Enum != nil:
			vals := map[string]interface{}{}
			for _, v := range d.Enum.Values {
				k := strconv.Itoa(v.Value)
				l, _ := vals[k].([]interface{})
				vals[k] = append(l, v.Name)
			}
			t := map[string]interface{}{}
			if len(vals) > 0 {
				t["e"] = vals
			}
			types[d.Enum.Name] = t
		case d.Struct != nil:
			t := map[string]interface{}{}
			if len(d.Struct.Fields) > 0 {
				key := "s"
				if d.Struct.Kind == idl.KindUnion {
					key = "u"
				}
				t[key] = descFields(d.Struct.Fields)
			}
			types[d.Struct.Name] = t
		case d.Service != nil:
			ms := map[string]interface{}{}
			for _, m := range d.Service.Methods {
				md := map[string]interface{}{}
				if len(m.Args) > 0 {
					md["p"] = descFields(m.Args)
				}
				res := descFields(m.Throws)
				if m.Ret != nil {
					res["0"] = map[string]interface{}{"t": descType(m.Ret)}
				}
				if len(res) > 0 {
					md["r"] = res
				}
				ms[m.Name] = md
			}
			svcs[d.Service.Name] = map[string]interface{}{"m": ms}
		case d.Scope != nil:
			sd := map[string]interface{}{"p": d.Scope.Prefix}
			ops := map[string]interface{}{}
			for _, o := range d.Scope.Ops {
				ops[o.Name] = descType(o.Type)
			}
			if len(ops) > 0 {
				sd["o"] = ops
			}
			scopes[d.Scope.Name] = sd
		}
	}
	if len(svcs) > 0 {
		out["s"] = svcs
	}
	if len(scopes) > 0 {
		out["c"] = scopes
	}
	if len(types) > 0 {
		out["t"] = types
	}
	return out
}

func normJSON(v interface{}) interface{} {
	switch x := v.(type) {
	case map[string]interface{}:
		o := map[string]interface{}{}
		for k, e := range x {
			o[k] = normJSON(e)
		}
		return o
	case []interface{}:
		o := []interface{}{}
		for _, e := range x {
			o = append(o, normJSON(e))
		}
		return o
	case float64:
		return int64(x)
	}
	return v
}

// jsonCrossCheck renders p (default style), runs `frugal -gen json` on it and
// compares the descriptor with the model.  Returns "" when equal, else the
// failure (kind, text).
func jsonCrossCheck(bin string, p *idl.Program, dir string) (kind, text string, files map[string]string) {
	st := idl.DefaultStyle()
	root, err := idl.WriteProgram(p, dir, st)
	if err != nil {
		return "harness", err.Error(), nil
	}
	defer os.RemoveAll(dir)
	outDir := filepath.Join(dir, "out")
	os.MkdirAll(outDir, 0o755)
	r := emit.Run(bin, dir, 120*time.Second, "-gen", "json", "-out", outDir, root)
	if r.TimedOut {
		return "timeout", "frugal -gen json did not finish within 120 s", programTexts(p, st)
	}
	if r.ExitCode != 0 {
		return "compiler-failed", fmt.Sprintf("frugal -gen json exit %d: %s %s", r.ExitCode, r.Stdout, r.Stderr), programTexts(p, st)
	}
	b, err := os.ReadFile(filepath.Join(outDir, "frugal.json"))
	if err != nil {
		return "no-output", "frugal -gen json wrote no frugal.json: " + err.Error(), programTexts(p, st)
	}
	var got map[string]interface{}
	if err := json.Unmarshal(b, &got); err != nil {
		return "bad-json", "frugal.json is not JSON: " + err.Error(), programTexts(p, st)
	}
	want := map[string]interface{}{}
	for _, f := range reachable(p) {
		want[f.Base] = descFile(f)
	}
	g := normJSON(got)
	if sameTree(want, g) {
		return "", "", nil
	}
	ds := diffTrees(want, g, "model", "descriptor", 6)
	t := ""
	leaf := "?"
	for i, d := range ds {
		if i == 0 {
			leaf = d.Leaf
		} else {
			t += " | "
		}
		t += d.Text
	}
	return "descriptor-differs:" + leaf, t, programTexts(p, st)
}

// ---- descriptor witnesses: annotations on type uses ------------------------
//
// The model of verif/idl has no annotations on type expressions, so the
// random pool never writes `string (format = "uuid")`.  The descriptor
// carries them (`a`), and every use of a type is its own descriptor: an
// annotated use has exactly its own annotations, an un-annotated use of the
// same base type has none -- in fields, typedefs, arguments, return types,
// container elements, in one file and across includes.  Hand-written programs
// with the descriptor they declare, run on every invocation.

type jsonWitness struct {
	Name  string
	Files [][2]string // relative path, text; last = root
	Want  map[string]interface{}
}

func jb(name string) map[string]interface{} { return map[string]interface{}{"b": name} }
func jba(name, k, v string) map[string]interface{} {
	return map[string]interface{}{"b": name, "a": map[string]interface{}{k: v}}
}
func jfield(name string, t map[string]interface{}) map[string]interface{} {
	return map[string]interface{}{"n": name, "t": t}
}

type jm = map[string]interface{}

func jsonWitnesses() []jsonWitness {
	inc := `typedef string (format = "uuid") Uuid
typedef string Plain

struct Q {
  1: string plain,
  2: i64 (js.type = "Long") big,
  3: i64 small
}
`
	root := `include "inc.frugal"

typedef i64 (js.type = "Long") Big
typedef list<string (format = "email")> Emails
typedef list<string> Names

struct P {
  1: string s,
  2: string (format = "uuid") id,
  3: i64 n,
  4: map<string (k = "1"), i64> m,
  5: inc.Uuid u,
  6: binary (enc = "b64") blob,
  7: binary raw,
  8: list<string> tags
}

service S {
  string echo(1: string (format = "uuid") id, 2: string msg, 3: list<i64 (js.type = "Long")> xs, 4: list<i64> ys),
  i64 (js.type = "Long") count(),
  i64 size()
}

scope Ev {
  Said: string
}
`
	want := jm{
		"inc": jm{"t": jm{
			"Uuid":  jba("string", "format", "uuid"),
			"Plain": jb("string"),
			"Q": jm{"s": jm{
				"1": jfield("plain", jb("string")),
				"2": jfield("big", jba("i64", "js.type", "Long")),
				"3": jfield("small", jb("i64")),
			}},
		}},
		"main": jm{
			"t": jm{
				"Big":    jba("i64", "js.type", "Long"),
				"Emails": jm{"v": jba("string", "format", "email")},
				"Names":  jm{"v": jb("string")},
				"P": jm{"s": jm{
					"1": jfield("s", jb("string")),
					"2": jfield("id", jba("string", "format", "uuid")),
					"3": jfield("n", jb("i64")),
					"4": jfield("m", jm{"k": jba("string", "k", "1"), "v": jb("i64")}),
					"5": jfield("u", jm{"n": "inc.Uuid"}),
					"6": jfield("blob", jba("binary", "enc", "b64")),
					"7": jfield("raw", jb("binary")),
					"8": jfield("tags", jm{"v": jb("string")}),
				}},
			},
			"s": jm{"S": jm{"m": jm{
				"echo": jm{
					"p": jm{
						"1": jfield("id", jba("string", "format", "uuid")),
						"2": jfield("msg", jb("string")),
						"3": jfield("xs", jm{"v": jba("i64", "js.type", "Long")}),
						"4": jfield("ys", jm{"v": jb("i64")}),
					},
					"r": jm{"0": jm{"t": jb("string")}},
				},
				"count": jm{"r": jm{"0": jm{"t": jba("i64", "js.type", "Long")}}},
				"size":  jm{"r": jm{"0": jm{"t": jb("i64")}}},
			}}},
			"c": jm{"Ev": jm{"p": "", "o": jm{"Said": jb("string")}}},
		},
	}
	// the same declarations in one file, un-annotated uses first and last
	single := `struct A {
  1: string before,
  2: string (format = "uuid") id,
  3: string after
}

typedef string (max = "10") Short
typedef string Long

struct B {
  1: string again
}
`
	wantSingle := jm{"w": jm{"t": jm{
		"A": jm{"s": jm{
			"1": jfield("before", jb("string")),
			"2": jfield("id", jba("string", "format", "uuid")),
			"3": jfield("after", jb("string")),
		}},
		"Short": jba("string", "max", "10"),
		"Long":  jb("string"),
		"B":     jm{"s": jm{"1": jfield("again", jb("string"))}},
	}}}
	// enum members that share a number (legal Thrift: aliases); documentation/json.md:
	// "e" maps each value to the list of names declared for it, in order
	aliases := `namespace go al

enum Shade {
  RED = 1,
  CRIMSON = 1,
  GREEN = 2,
  GREY = 5,
  GRAY = 5
}

enum Plain { A, B }
`
	ja := func(names ...string) []interface{} {
		var out []interface{}
		for _, n := range names {
			out = append(out, n)
		}
		return out
	}
	wantAliases := jm{"al": jm{"t": jm{
		"Shade": jm{"e": jm{"1": ja("RED", "CRIMSON"), "2": ja("GREEN"), "5": ja("GREY", "GRAY")}},
		"Plain": jm{"e": jm{"0": ja("A"), "1": ja("B")}},
	}}}
	return []jsonWitness{
		{Name: "enum-aliases", Files: [][2]string{{"al.frugal", aliases}}, Want: wantAliases},
		{Name: "across-includes", Files: [][2]string{{"inc.frugal", inc}, {"main.frugal", root}}, Want: want},
		{Name: "one-file", Files: [][2]string{{"w.frugal", single}}, Want: wantSingle},
	}
}

// runJSONWitness returns "" when the descriptor equals the declared one.
func runJSONWitness(bin string, w jsonWitness, dir string) (kind, text string, files map[string]string) {
	defer os.RemoveAll(dir)
	files = map[string]string{}
	root := ""
	for _, f := range w.Files {
		path := filepath.Join(dir, filepath.FromSlash(f[0]))
		os.MkdirAll(filepath.Dir(path), 0o755)
		os.WriteFile(path, []byte(f[1]), 0o644)
		files[f[0]] = f[1]
		root = path
	}
	outDir := filepath.Join(dir, "out")
	os.MkdirAll(outDir, 0o755)
	r := emit.Run(bin, dir, 120*time.Second, "-gen", "json", "-out", outDir, root)
	if r.TimedOut {
		return "timeout", "frugal -gen json did not finish within 120 s", files
	}
	if r.ExitCode != 0 {
		return "compiler-failed", fmt.Sprintf("frugal -gen json exit %d: %s %s", r.ExitCode, cleanMsg(r.Stdout), cleanMsg(r.Stderr)), files
	}
	b, err := os.ReadFile(filepath.Join(outDir, "frugal.json"))
	if err != nil {
		return "no-output", "frugal -gen json wrote no frugal.json: " + err.Error(), files
	}
	var got map[string]interface{}
	if err := json.Unmarshal(b, &got); err != nil {
		return "bad-json", "frugal.json is not JSON: " + err.Error(), files
	}
	if sameTree(w.Want, normJSON(got)) {
		return "", "", nil
	}
	t := ""
	for i, d := range diffTrees(w.Want, normJSON(got), "declared", "descriptor", 8) {
		if i > 0 {
			t += " | "
		}
		t += d.Text
	}
	return "differs", t, files
}
