package main

import (
	"bufio"
	"encoding/json"
	"fmt"
	"math/rand"
	"os"
	"path/filepath"
	"strconv"
	"sync"
	"time"

	"verif/ev"
	"verif/idl"
)

// job is one unit of work of a child process: a model of one of the pools
// with all its renderings, or one lexical class.
type job struct {
	Pool string // "witness", "fixed", "multidir", "history", "core", "stress"
	I    int
}

type bounds struct {
	core, stress, fixed, renderings, jsonSample, multidir, history int
}

func tierBounds(thorough bool) bounds {
	if thorough {
		return bounds{core: 5000, stress: 1000, fixed: 50, renderings: 8, jsonSample: 250, multidir: 600, history: 400}
	}
	return bounds{core: 150, stress: 30, fixed: 4, renderings: 4, jsonSample: 24, multidir: 40, history: 24}
}

// jobList is a pure function of the tier.
func jobList(thorough bool) []job {
	b := tierBounds(thorough)
	var out []job
	for i := range lexClasses() {
		out = append(out, job{"witness", i})
	}
	for i := 0; i < b.fixed; i++ {
		out = append(out, job{"fixed", i})
	}
	for i := 0; i < b.multidir; i++ {
		out = append(out, job{"multidir", i})
	}
	for i := 0; i < b.history; i++ {
		out = append(out, job{"history", i})
	}
	for i := 0; i < b.core; i++ {
		out = append(out, job{"core", i})
		if b.stress*i/b.core != b.stress*(i+1)/b.core { // stress models interleaved evenly
			out = append(out, job{"stress", b.stress * i / b.core})
		}
	}
	return out
}

func stressConfig() idl.Config {
	c := idl.CoreConfig()
	c.MaxFiles = 4
	c.ForwardRefs = true
	c.AllCapsSnakeTypeNames = true
	c.ThrowsSameTypeTwice = true
	c.OddServiceNames = true
	c.TypedefOfStruct = true
	c.TypedefOfEnum = true
	c.TransitiveTypedefs = true
	c.BinaryKeys = true
	c.ExoticPrefixChars = true
	// quarantined for the parser (own lexical witnesses); failures are attributed by neutralising the construct
	c.NegativeEnumValues = true
	c.OneLetterPrefixVar = true
	return c
}

var (
	fixedOnce  sync.Once
	fixedSeeds []int64
)

// fixedSeedList finds the seeds (independent of VERIF_SEED) of the first n
// generated core models that exercise every separator and comment position.
func fixedSeedList(n int) []int64 {
	fixedOnce.Do(func() {
		for s := int64(0); len(fixedSeeds) < 64 && s < 200000; s++ {
			p := idl.Generate(rand.New(rand.NewSource(424200+s)), idl.CoreConfig())
			sanitize(p)
			if rich(p) {
				fixedSeeds = append(fixedSeeds, 424200+s)
			}
		}
	})
	if n > len(fixedSeeds) {
		n = len(fixedSeeds)
	}
	return fixedSeeds[:n]
}

// genModel builds the model of a job: a pure function of (VERIF_SEED, pool, i).
func genModel(run *ev.Run, j job) (*idl.Program, string) {
	switch j.Pool {
	case "fixed":
		seeds := fixedSeedList(j.I + 1)
		if j.I >= len(seeds) {
			return nil, ""
		}
		p := idl.Generate(rand.New(rand.NewSource(seeds[j.I])), idl.CoreConfig())
		sanitize(p)
		return p, fmt.Sprintf("fixed#%d (idl.Generate, CoreConfig, math/rand seed %d)", j.I, seeds[j.I])
	case "multidir":
		return genMultiDir(run, j.I)
	case "stress":
		p := idl.Generate(run.Rand(fmt.Sprintf("c10-stress-model-%d", j.I)), stressConfig())
		if n := sanitize(p); n > 0 {
			p.Features["sanitized_operation_annotation"] = true
		}
		return p, fmt.Sprintf("stress#%d (VERIF_SEED %d)", j.I, run.Seed)
	}
	p := idl.Generate(run.Rand(fmt.Sprintf("c10-core-model-%d", j.I)), idl.CoreConfig())
	if n := sanitize(p); n > 0 {
		p.Features["sanitized_operation_annotation"] = true
	}
	if j.I%2 == 1 {
		applyShapes(p, run.Rand(fmt.Sprintf("c10-core-shapes-%d", j.I)))
	}
	return p, fmt.Sprintf("core#%d (VERIF_SEED %d)", j.I, run.Seed)
}

// stylesOf lists the renderings of a job: the default style first.
func stylesOf(run *ev.Run, j job, b bounds) []idl.Style {
	out := []idl.Style{idl.DefaultStyle()}
	if j.Pool == "fixed" {
		return append(out, singleKnobStyles()...)
	}
	rng := run.Rand(fmt.Sprintf("c10-%s-style-%d", j.Pool, j.I))
	for len(out) < b.renderings {
		out = append(out, randomStyle(rng))
	}
	return out
}

// jobResult is one line of a worker's output file.
type jobResult struct {
	ID         int                    `json:"id"`
	Pool       string                 `json:"pool"`
	I          int                    `json:"i"`
	Done       bool                   `json:"done,omitempty"` // end-of-worker marker
	Features   []string               `json:"features,omitempty"`
	Styles     []string               `json:"styles,omitempty"`
	Renderings int                    `json:"renderings"`
	Parses     int                    `json:"parses"` // ParseFrugal calls, including bisection and round trips
	Files      int                    `json:"files"`
	SingleKnob int                    `json:"single_knob"`
	RoundTrips int                    `json:"round_trips"`
	Failures   []failure              `json:"failures,omitempty"`
	Sample     map[string]interface{} `json:"sample,omitempty"`
	Hang       bool                   `json:"hang,omitempty"`
	HangPath   string                 `json:"hang_path,omitempty"`
	// history jobs: the steps taken, joined with ">"
	History    string   `json:"history,omitempty"`
	HistoryOps []string `json:"history_ops,omitempty"`
	// witness jobs
	Class    string   `json:"class,omitempty"`
	Pinned   string   `json:"pinned,omitempty"`
	Passed   bool     `json:"passed,omitempty"`
	Variants []string `json:"variants,omitempty"`
}

func workerMain(args []string) int {
	// worker <tier> <w> <n> <from> <out> <log> [only]
	if len(args) < 6 {
		fmt.Fprintln(os.Stderr, "usage: worker tier w n from out log [only]")
		return 2
	}
	tier := args[0]
	w, _ := strconv.Atoi(args[1])
	n, _ := strconv.Atoi(args[2])
	from, _ := strconv.Atoi(args[3])
	only := len(args) > 6 && args[6] == "only"
	if ms, err := strconv.Atoi(os.Getenv("VERIF_C10_WATCHDOG_MS")); err == nil && ms >= 0 { // testing aid for the hang path
		parseWatchdog = time.Duration(ms) * time.Millisecond
	}
	if only {
		parseWatchdog *= 2
	}
	run := ev.New("C10", tier, "exploration") // for the seeded streams only; never finished here
	out, err := os.OpenFile(args[4], os.O_CREATE|os.O_WRONLY|os.O_APPEND, 0o644)
	if err != nil {
		fmt.Fprintln(os.Stderr, err)
		return 2
	}
	defer out.Close()
	parseLog, err = os.OpenFile(args[5], os.O_CREATE|os.O_WRONLY|os.O_APPEND, 0o644)
	if err != nil {
		fmt.Fprintln(os.Stderr, err)
		return 2
	}
	bw := bufio.NewWriter(out)
	emitLine := func(r *jobResult) {
		b, _ := json.Marshal(r)
		bw.Write(b)
		bw.WriteByte('\n')
		bw.Flush()
	}
	base := filepath.Join(ev.ScratchDir(), fmt.Sprintf("c10-w%d", w))
	b := tierBounds(run.Thorough())
	for id, j := range jobList(run.Thorough()) {
		if id < from || id%n != w {
			continue
		}
		logParse("JOB %d %s %d", id, j.Pool, j.I)
		var r *jobResult
		if j.Pool == "witness" {
			r = runWitnessJob(j, filepath.Join(base, fmt.Sprintf("wit%d", j.I)))
		} else if j.Pool == "history" {
			r = runHistoryJob(run, j, filepath.Join(base, fmt.Sprintf("history%d", j.I)))
		} else {
			r = runModelJob(run, j, b, filepath.Join(base, fmt.Sprintf("%s%d", j.Pool, j.I)))
		}
		r.ID, r.Pool, r.I = id, j.Pool, j.I
		emitLine(r)
		if r.Hang {
			return 9 // a runaway parser goroutine cannot be stopped: let the parent start a fresh process
		}
		if only {
			break
		}
	}
	emitLine(&jobResult{ID: -1, Done: true})
	return 0
}

func excerpt(s string, n int) string {
	if len(s) > n {
		return s[:n] + "..."
	}
	return s
}

func runModelJob(run *ev.Run, j job, b bounds, base string) *jobResult {
	r := &jobResult{}
	p, label := genModel(run, j)
	if p == nil {
		return r
	}
	r.Features = p.FeatureList()
	expected := canonProgram(p)
	e := &evaluator{base: base}
	defer func() {
		r.Parses, r.Files = e.parsed, e.files
		if !r.Hang {
			os.RemoveAll(base)
		}
	}()
	for k, st := range stylesOf(run, j, b) {
		o := e.run(p, expected, st)
		r.Renderings++
		r.Styles = append(r.Styles, st.String())
		if j.Pool == "fixed" && k > 0 {
			r.SingleKnob++
		}
		if o.Kind == "hang" {
			r.Hang, r.HangPath = true, o.Root
			r.Failures = append(r.Failures, failure{Sig: "C10:parser-hang", What: o.describe() + " [style " + knobLabel(st) + "]", Witness: witnessOf(p, st, o, label)})
			return r
		}
		if k == 0 && j.I < 2 && j.Pool == "core" {
			r.Sample = map[string]interface{}{"model": label, "features": r.Features, "style": st.String(), "root_file_excerpt": excerpt(idl.RenderFile(p.Root(), st), 700), "files": len(expected)}
		}
		if k == 1 && j.I == 0 && j.Pool == "core" {
			r.Sample["second_style"] = st.String()
			r.Sample["second_style_excerpt"] = excerpt(idl.RenderFile(p.Root(), st), 700)
		}
		if !o.OK {
			fails, modelLevel := e.explain(p, expected, st, o, label, j.Pool)
			r.Failures = append(r.Failures, fails...)
			if modelLevel {
				e.cleanup(o)
				break
			}
		}
		if k == 0 && o.Res != nil && o.Res.ok() {
			rst := idl.DefaultStyle()
			if j.I%2 == 1 {
				rst = randomStyle(run.Rand(fmt.Sprintf("c10-%s-rtstyle-%d", j.Pool, j.I)))
			}
			r.Failures = append(r.Failures, e.roundTrip(p, o.Res, rst, label)...)
			r.RoundTrips++
		}
		e.cleanup(o)
	}
	return r
}

// roundTrip re-renders the parse tree (through the reverse mapping) with
// style st and parses the text again: same dump expected.
func (e *evaluator) roundTrip(p *idl.Program, first *parseResult, st idl.Style, label string) []failure {
	rootDir := filepath.Dir(first.Root)
	rootName := relKey(rootDir, first.Root) + filepath.Ext(first.Root)
	var files []*idl.File
	for key, t := range first.Trees {
		f, err := reverseFile(t)
		if f != nil {
			f.Base = key // the place its include chain names (relative path without extension)
		}
		if err != nil {
			return []failure{{Sig: "C10:roundtrip:not-renderable", What: "the parse tree holds something the declared model never said: " + err.Error(),
				Witness: witnessOf(p, idl.DefaultStyle(), nil, label)}}
		}
		files = append(files, f)
	}
	var texts map[string]string
	eval := func(st idl.Style) *outcome {
		e.n++
		dir := filepath.Join(e.base, fmt.Sprintf("rt%d", e.n))
		defer os.RemoveAll(dir)
		os.MkdirAll(dir, 0o755)
		texts = map[string]string{}
		for _, f := range files {
			texts[f.FileName()] = idl.RenderFile(f, st)
			path := filepath.Join(dir, filepath.FromSlash(f.FileName()))
			os.MkdirAll(filepath.Dir(path), 0o755)
			os.WriteFile(path, []byte(texts[f.FileName()]), 0o644)
		}
		res := parseProgram(filepath.Join(dir, filepath.FromSlash(rootName)))
		e.parsed++
		e.files += len(res.Files)
		return judge(first.Files, res)
	}
	mk := func(sig string, st idl.Style, o *outcome, tx map[string]string) failure {
		w := witnessOf(p, idl.DefaultStyle(), nil, label)
		w["rerendered_style"] = st.String()
		w["rerendered_files"] = tx
		w["observed"] = o.describe()
		return failure{Sig: sig, What: "render(parse(text)) does not parse back to the same model: " + o.describe() + " [re-rendered with style " + knobLabel(st) + "]", Witness: w}
	}
	o := eval(st)
	if o.OK {
		return nil
	}
	tx := texts
	if len(o.Classes) > 0 {
		return []failure{mk("C10:lexical:"+o.Classes[0], st, o, tx)}
	}
	if st != idl.DefaultStyle() {
		if od := eval(idl.DefaultStyle()); od.OK {
			var out []failure
			for _, b := range bisectStyle(st, o, eval) {
				out = append(out, mk("C10:roundtrip:style:"+b.part, b.st, b.o, nil))
			}
			return out
		} else {
			o, st, tx = od, idl.DefaultStyle(), texts
		}
	}
	return []failure{mk("C10:roundtrip:"+o.what(), st, o, tx)}
}

func runWitnessJob(j job, base string) *jobResult {
	classes := lexClasses()
	c := classes[j.I]
	r := &jobResult{Class: c.Class, Pinned: c.Pinned, Passed: true}
	defer os.RemoveAll(base)
	var bad []string
	wit := map[string]interface{}{"class": c.Class, "rule": c.Rule}
	vars := []interface{}{}
	for vi, v := range c.Variants {
		dir := filepath.Join(base, fmt.Sprintf("v%d", vi))
		files := map[string]string{}
		root := ""
		for _, f := range v.Files {
			path := filepath.Join(dir, f[0])
			os.MkdirAll(filepath.Dir(path), 0o755)
			os.WriteFile(path, []byte(f[1]), 0o644)
			files[f[0]] = f[1]
			root = path
		}
		expected := map[string]tree{}
		for i, m := range v.Model { // Model[i] is what Files[i] declares; files are known by relative path
			expected[relKey(".", v.Files[i][0])] = idl.Canon(m)
		}
		res := parseProgram(root)
		r.Renderings++
		r.Parses++
		r.Files += len(res.Files)
		o := judge(expected, res)
		o.Classes = nil // a witness is judged exactly
		obs := "accepted, parsed model equals the declared one"
		if !o.OK {
			obs = o.describe()
			bad = append(bad, v.Name+": "+obs)
			r.Passed = false
		}
		r.Variants = append(r.Variants, v.Name+": "+obs)
		vars = append(vars, map[string]interface{}{"variant": v.Name, "files": files, "observed": obs, "expected": expected})
		if o.Kind == "hang" {
			r.Hang, r.HangPath = true, root
			break
		}
	}
	wit["variants"] = vars
	if !r.Passed {
		what := fmt.Sprintf("lexical class %s (%s): %d of %d witness programs fail: ", c.Class, c.Rule, len(bad), len(c.Variants))
		for i, b := range bad {
			if i > 0 {
				what += " || "
			}
			what += b
		}
		r.Failures = append(r.Failures, failure{Sig: "C10:lexical:" + c.Class, What: what, Witness: wit})
	}
	return r
}
