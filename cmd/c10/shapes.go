package main

import (
	"math/rand"
	"strings"

	"verif/idl"
)

// sanitize restricts a generated model to what the IDL can express: after a
// base or container type, "(k = 'v')" is a *type* annotation by Thrift's
// grammar (FieldType TypeAnnotations), so "Op: string (k = 'v')" cannot carry
// an annotation of the operation.  Such operation annotations are dropped
// from the model (the construct has its own lexical witness).
func sanitize(p *idl.Program) int {
	n := 0
	for _, f := range p.Files {
		for _, sc := range f.Scopes() {
			for _, op := range sc.Ops {
				if len(op.Ann) > 0 && (op.Type.IsContainer() || idl.IsBase(op.Type.Name)) {
					op.Ann = nil
					n++
				}
			}
		}
	}
	return n
}

// Identifier shapes that the grammar must (and, on the pinned tree, does)
// accept in *name* positions: field, argument, method, operation names.
var nameShapes = []struct{ name, tag string }{
	{"_lead", "underscores_digits"}, {"__dunder", "underscores_digits"}, {"trailing_", "underscores_digits"},
	{"mid__dle", "underscores_digits"}, {"x9y8z", "underscores_digits"}, {"_", "underscores_digits"}, {"a_1_b", "underscores_digits"},
	{"stringList", "keyword_prefixed"}, {"i32x", "keyword_prefixed"}, {"boolean", "keyword_prefixed"},
	{"byteArray", "keyword_prefixed"}, {"doubleUp", "keyword_prefixed"}, {"binaryData", "keyword_prefixed"},
	{"i16th", "keyword_prefixed"}, {"i64bit", "keyword_prefixed"},
	{"voidResult", "keyword_prefixed"}, {"onewayThing", "keyword_prefixed"}, {"optionalThing", "keyword_prefixed"},
	{"requiredThing", "keyword_prefixed"}, {"listOfThings", "keyword_prefixed"}, {"mapper", "keyword_prefixed"},
	{"setting", "keyword_prefixed"}, {"includeIt", "keyword_prefixed"}, {"namespaced", "keyword_prefixed"},
	{"constant", "keyword_prefixed"}, {"typedefd", "keyword_prefixed"}, {"enumerated", "keyword_prefixed"},
	{"structure", "keyword_prefixed"}, {"unionized", "keyword_prefixed"}, {"exceptional", "keyword_prefixed"},
	{"servicesX", "keyword_prefixed"}, {"scoped", "keyword_prefixed"}, {"prefixed", "keyword_prefixed"},
	{"throwsIt", "keyword_prefixed"}, {"extendsIt", "keyword_prefixed"}, {"trueish", "keyword_prefixed"}, {"falsey", "keyword_prefixed"},
}

// Identifier shapes for struct / typedef names (used as types everywhere):
// only those that do NOT start with a base type, void, oneway, optional or
// required (quarantined lexical classes with their own witnesses).
var typeShapes = []struct{ name, tag string }{
	{"_Lead", "underscores_digits"}, {"With_9_digits", "underscores_digits"}, {"Trailing_", "underscores_digits"}, {"__X", "underscores_digits"},
	{"listOfThings", "keyword_prefixed"}, {"mapper", "keyword_prefixed"}, {"setting", "keyword_prefixed"},
	{"structure", "keyword_prefixed"}, {"enumerated", "keyword_prefixed"}, {"unionized", "keyword_prefixed"},
	{"exceptional", "keyword_prefixed"}, {"scoped", "keyword_prefixed"}, {"prefixed", "keyword_prefixed"},
	{"throwsIt", "keyword_prefixed"}, {"extendsIt", "keyword_prefixed"}, {"constant", "keyword_prefixed"},
	{"includeIt", "keyword_prefixed"}, {"namespaced", "keyword_prefixed"}, {"typedefd", "keyword_prefixed"},
	{"trueType", "keyword_prefixed"}, {"falseType", "keyword_prefixed"}, {"int", "keyword_prefixed"}, {"i8x", "keyword_prefixed"},
}

// applyShapes renames a random subset of identifiers of p to the shapes above
// (references updated), and tags the program.  The result is still valid by
// construction: shapes are pairwise distinct, never equal to a generated name,
// and each is used at most once per name space.
func applyShapes(p *idl.Program, rng *rand.Rand) {
	feat := func(tag, pos string) { p.Features["shape_"+tag+"_as_"+pos] = true }
	for _, f := range p.Files {
		// names without references: fields, arguments, thrown names, methods, operations
		pick := func() []int { return rng.Perm(len(nameShapes)) }
		renameFields := func(fs []*idl.Field, pos string, prob int) {
			perm := pick()
			k := 0
			for _, fl := range fs {
				if rng.Intn(prob) == 0 && k < len(perm) {
					s := nameShapes[perm[k]]
					k++
					fl.Name = s.name
					feat(s.tag, pos)
				}
			}
		}
		for _, st := range f.Structs() {
			if rng.Intn(2) == 0 {
				renameFields(st.Fields, "field_name", 2)
			}
		}
		for _, sv := range f.Services() {
			perm := pick()
			k := 0
			for _, m := range sv.Methods {
				if rng.Intn(3) == 0 && k < len(perm) {
					s := nameShapes[perm[k]]
					k++
					m.Name = s.name
					feat(s.tag, "method_name")
				}
				if rng.Intn(2) == 0 {
					renameFields(m.Args, "argument_name", 2)
				}
				if rng.Intn(3) == 0 {
					renameFields(m.Throws, "throws_name", 2)
				}
			}
		}
		for _, sc := range f.Scopes() {
			perm := pick()
			k := 0
			for _, op := range sc.Ops {
				if rng.Intn(3) == 0 && k < len(perm) {
					s := nameShapes[perm[k]]
					k++
					op.Name = s.name
					feat(s.tag, "operation_name")
				}
			}
		}
		// type names (structs, unions, exceptions, typedefs), references rewritten program-wide
		perm := rng.Perm(len(typeShapes))
		k := 0
		for _, d := range f.Decls {
			if k >= 3 || k >= len(perm) {
				break
			}
			var old *string
			switch {
			case d.Struct != nil:
				old = &d.Struct.Name
			case d.TypeDef != nil:
				old = &d.TypeDef.Name
			}
			if old == nil || rng.Intn(3) != 0 {
				continue
			}
			s := typeShapes[perm[k]]
			k++
			renameType(p, f, *old, s.name)
			*old = s.name
			feat(s.tag, "type_name")
		}
	}
}

// renameType rewrites every type expression of the program that names
// `old` of file `home` (locally or include-qualified).
func renameType(p *idl.Program, home *idl.File, old, neu string) {
	var fix func(t *idl.Type, in *idl.File)
	fix = func(t *idl.Type, in *idl.File) {
		if t == nil {
			return
		}
		if t.IsContainer() {
			fix(t.Key, in)
			fix(t.Val, in)
			return
		}
		if in == home && t.Name == old {
			t.Name = neu
		} else if in != home && t.Name == home.Base+"."+old {
			t.Name = home.Base + "." + neu
		}
	}
	for _, f := range p.Files {
		fields := func(fs []*idl.Field) {
			for _, fl := range fs {
				fix(fl.Type, f)
			}
		}
		for _, d := range f.Decls {
			switch {
			case d.TypeDef != nil:
				fix(d.TypeDef.Type, f)
			case d.Const != nil:
				fix(d.Const.Type, f)
			case d.Struct != nil:
				fields(d.Struct.Fields)
			case d.Service != nil:
				for _, m := range d.Service.Methods {
					fix(m.Ret, f)
					fields(m.Args)
					fields(m.Throws)
				}
			case d.Scope != nil:
				for _, op := range d.Scope.Ops {
					fix(op.Type, f)
				}
			}
		}
	}
}

// Quarantined constructs of the stress pool: neutralising them in the model
// tells whether a failure is due to exactly that construct.
func neutraliseNegativeEnums(p *idl.Program) bool {
	changed := false
	for _, f := range p.Files {
		for _, e := range f.Enums() {
			min := 0
			for _, v := range e.Values {
				if v.Value < min {
					min = v.Value
				}
			}
			if min < 0 {
				for _, v := range e.Values {
					v.Value -= min
				}
				changed = true
			}
		}
	}
	return changed
}

func neutraliseOneLetterVars(p *idl.Program) bool {
	changed := false
	for _, f := range p.Files {
		for _, sc := range f.Scopes() {
			toks := strings.Split(sc.Prefix, ".")
			for i, t := range toks {
				if len(t) == 3 && t[0] == '{' && t[2] == '}' {
					toks[i] = "{" + t[1:2] + t[1:2] + "}"
					changed = true
				}
			}
			sc.Prefix = strings.Join(toks, ".")
		}
	}
	return changed
}

// rich reports whether a fixed model exercises every separator / comment
// position the single-knob renderings are about.
func rich(p *idl.Program) bool {
	for _, t := range []string{"includes", "docstrings", "annotations", "scope_prefix", "prefix_variable", "throws", "union", "exception", "const", "map", "field_default", "enum_explicit_values", "enum_implicit_values"} {
		if !p.Features[t] {
			return false
		}
	}
	multiDocIndented, methods2, ops2, quoted, enum2, fields2 := false, false, false, false, false, false
	multi := func(c []string) {
		if len(c) > 1 {
			multiDocIndented = true
		}
	}
	var lit func(v interface{})
	lit = func(v interface{}) {
		switch x := v.(type) {
		case string:
			if strings.ContainsAny(x, "\"'") {
				quoted = true
			}
		case []interface{}:
			for _, e := range x {
				lit(e)
			}
		case []idl.KV:
			for _, e := range x {
				lit(e.Key)
				lit(e.Value)
			}
		}
	}
	for _, f := range reachable(p) {
		for _, d := range f.Decls {
			switch {
			case d.Enum != nil:
				if len(d.Enum.Values) > 1 {
					enum2 = true
				}
				for _, v := range d.Enum.Values {
					multi(v.Comment)
				}
			case d.Struct != nil:
				if len(d.Struct.Fields) > 1 {
					fields2 = true
				}
				for _, fl := range d.Struct.Fields {
					multi(fl.Comment)
					lit(fl.Default)
				}
			case d.Const != nil:
				lit(d.Const.Value)
			case d.Service != nil:
				if len(d.Service.Methods) > 1 {
					methods2 = true
				}
				for _, m := range d.Service.Methods {
					multi(m.Comment)
				}
			case d.Scope != nil:
				if len(d.Scope.Ops) > 1 {
					ops2 = true
				}
				for _, o := range d.Scope.Ops {
					multi(o.Comment)
				}
			}
		}
	}
	return multiDocIndented && methods2 && ops2 && quoted && enum2 && fields2
}
