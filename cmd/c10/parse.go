package main

import (
	"fmt"
	"os"
	"path/filepath"
	"runtime/debug"
	"sort"
	"strings"
	"sync"
	"time"

	"github.com/Workiva/frugal/compiler/parser"

	"verif/idl"
)

// parseResult is what one in-process run of the real parser gave.
type parseResult struct {
	Files map[string]map[string]interface{} // file base name -> dump (root and every parsed include, recursively)
	Trees map[string]*parser.Frugal
	Root  string
	Err   string // parser.ParseFrugal returned an error
	Panic string // recovered panic (value + stack)
	Hang  bool   // the watchdog fired
}

func (r *parseResult) ok() bool { return r.Err == "" && r.Panic == "" && !r.Hang }

// parseLog, when set, receives the path of every file before it is parsed, so
// that the last line names the input that killed the process.
var (
	parseLog   *os.File
	parseLogMu sync.Mutex
)

func logParse(format string, a ...interface{}) {
	parseLogMu.Lock()
	defer parseLogMu.Unlock()
	if parseLog != nil {
		fmt.Fprintf(parseLog, format+"\n", a...)
	}
}

// parseWatchdog bounds one ParseFrugal call (a program of a few kB parses in
// milliseconds).
var parseWatchdog = 90 * time.Second

// parseProgram runs parser.ParseFrugal(root) under recover() and a watchdog
// and dumps every file of the resulting tree.
func parseProgram(root string) *parseResult {
	logParse("PARSE %s", root)
	res := &parseResult{Root: root}
	type out struct {
		f   *parser.Frugal
		err error
		pan string
	}
	ch := make(chan out, 1)
	go func() {
		var o out
		defer func() {
			if r := recover(); r != nil {
				o.pan = fmt.Sprintf("%v\n%s", r, debug.Stack())
			}
			ch <- o
		}()
		o.f, o.err = parser.ParseFrugal(root)
	}()
	var o out
	select {
	case o = <-ch:
	case <-time.After(parseWatchdog):
		res.Hang = true
		return res
	}
	if o.pan != "" {
		res.Panic = o.pan
		return res
	}
	if o.err != nil {
		res.Err = o.err.Error()
		return res
	}
	if o.f == nil {
		res.Err = "ParseFrugal returned (nil, nil)"
		return res
	}
	res.Files = map[string]map[string]interface{}{}
	res.Trees = map[string]*parser.Frugal{}
	func() {
		defer func() {
			if r := recover(); r != nil {
				res.Panic = fmt.Sprintf("while walking the parse tree: %v\n%s", r, debug.Stack())
			}
		}()
		// Files are known by the path their include chain resolves to (relative
		// to the root's directory, extension dropped): every includer must be
		// served the file of ITS directory, whatever other file of the same
		// base name has been parsed before.
		rootDir := filepath.Dir(root)
		var walk func(f *parser.Frugal, abs string, depth int)
		walk = func(f *parser.Frugal, abs string, depth int) {
			if f == nil || depth > 64 {
				return
			}
			key := relKey(rootDir, abs)
			if _, seen := res.Files[key]; seen {
				return
			}
			d := dumpFrugal(f)
			res.Files[key] = d
			res.Trees[key] = f
			if got := relKey(rootDir, f.Path); got != key {
				d["resolved_to_other_file"] = fmt.Sprintf("the include chain names %s, the tree handed out is that of %s", key, got)
			}
			for _, inc := range f.Includes {
				name := filepath.Base(inc.Value)
				if k := strings.LastIndex(name, "."); k > 0 {
					name = name[:k]
				}
				sub, ok := f.ParsedIncludes[name]
				if !ok || sub == nil {
					d["parsed_include_missing"] = fmt.Sprintf("ParsedIncludes has no entry %q for include %q", name, inc.Value)
					continue
				}
				if sub.Name != name {
					d["parsed_include_key_mismatch"] = fmt.Sprintf("ParsedIncludes[%q].Name = %q", name, sub.Name)
				}
				walk(sub, filepath.Join(filepath.Dir(abs), inc.Value), depth+1)
			}
		}
		walk(o.f, root, 0)
	}()
	return res
}

// relKey names a file by its path relative to the root's directory, with
// slashes and without the extension ("sub/types"); for a program in one
// directory that is the base name.
func relKey(rootDir, abs string) string {
	rel, err := filepath.Rel(rootDir, filepath.Clean(abs))
	if err != nil {
		rel = abs
	}
	rel = filepath.ToSlash(rel)
	if b := filepath.Base(rel); filepath.Ext(b) != "" && filepath.Ext(b) != b {
		rel = rel[:len(rel)-len(filepath.Ext(b))]
	}
	return rel
}

// fileByKey finds the file of p whose Base (a relative path without
// extension for programs spread over directories) is key.
func fileByKey(p *idl.Program, key string) *idl.File {
	for _, f := range p.Files {
		if f.Base == key {
			return f
		}
	}
	return nil
}

// reachable returns the files of p reachable from the root through includes;
// include paths are resolved relative to the directory of the including file.
func reachable(p *idl.Program) []*idl.File {
	seen := map[string]bool{}
	var out []*idl.File
	var walk func(f *idl.File)
	walk = func(f *idl.File) {
		if f == nil || seen[f.Base] {
			return
		}
		seen[f.Base] = true
		out = append(out, f)
		for _, inc := range f.Includes {
			walk(fileByKey(p, relKey(".", filepath.Join(filepath.Dir(f.Base), inc.Path))))
		}
	}
	walk(p.Root())
	return out
}

// writeProgram renders every file of p under dir (sub-directories created)
// and returns the root path.
func writeProgram(p *idl.Program, dir string, st idl.Style) (string, error) {
	for _, f := range p.Files {
		path := filepath.Join(dir, filepath.FromSlash(f.FileName()))
		if err := os.MkdirAll(filepath.Dir(path), 0o755); err != nil {
			return "", err
		}
		if err := os.WriteFile(path, []byte(idl.RenderFile(f, st)), 0o644); err != nil {
			return "", err
		}
	}
	return filepath.Join(dir, filepath.FromSlash(p.Root().FileName())), nil
}

// canonProgram is the model's side: file base -> idl.Canon(file), for the
// files the parser will see.
func canonProgram(p *idl.Program) map[string]map[string]interface{} {
	out := map[string]map[string]interface{}{}
	for _, f := range reachable(p) {
		out[f.Base] = idl.Canon(f)
	}
	return out
}

// comparePrograms lists the differences between the model's canon and the
// parser's dump, file by file.
func comparePrograms(canon, dump map[string]map[string]interface{}, la, lb string) []diff {
	var out []diff
	var names []string
	seen := map[string]bool{}
	for n := range canon {
		names = append(names, n)
		seen[n] = true
	}
	for n := range dump {
		if !seen[n] {
			names = append(names, n)
		}
	}
	sort.Strings(names)
	for _, n := range names {
		c, cok := canon[n]
		d, dok := dump[n]
		switch {
		case !cok:
			out = append(out, diff{Path: n, Kind: "files", Leaf: "extra", Text: fmt.Sprintf("file %s: present on the %s side only", n, lb)})
		case !dok:
			out = append(out, diff{Path: n, Kind: "files", Leaf: "missing", Text: fmt.Sprintf("file %s: present on the %s side only", n, la)})
		default:
			if sameTree(c, d) {
				continue
			}
			if r, ok := d["resolved_to_other_file"]; ok { // named first: it explains everything else that differs in this file
				out = append(out, diff{Path: n + ".resolved_to_other_file", Kind: "includes", Leaf: "resolved_to_other_file", Text: fmt.Sprintf("%s: %v", n, r)})
			}
			for _, x := range diffTrees(c, d, la, lb, 8) {
				if x.Leaf == "resolved_to_other_file" {
					continue
				}
				x.Text = n + ": " + x.Text
				out = append(out, x)
			}
		}
	}
	return out
}
