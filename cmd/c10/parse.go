package main

import (
	"fmt"
	"os"
	"path/filepath"
	"runtime/debug"
	"sort"
	"strings"
	"sync"
	"time"

	"github.com/Workiva/frugal/compiler/parser"

	"verif/idl"
)

// parseResult is what one in-process run of the real parser gave.
type parseResult struct {
	Files map[string]map[string]interface{} // file base name -> dump (root and every parsed include, recursively)
	Trees map[string]*parser.Frugal
	Root  string
	Err   string // parser.ParseFrugal returned an error
	Panic string // recovered panic (value + stack)
	Hang  bool   // the watchdog fired
}

func (r *parseResult) ok() bool { return r.Err == "" && r.Panic == "" && !r.Hang }

// parseLog, when set, receives the path of every file before it is parsed, so
// that the last line names the input that killed the process.
var (
	parseLog   *os.File
	parseLogMu sync.Mutex
)

func logParse(format string, a ...interface{}) {
	parseLogMu.Lock()
	defer parseLogMu.Unlock()
	if parseLog != nil {
		fmt.Fprintf(parseLog, format+"\n", a...)
	}
}

// parseWatchdog bounds one ParseFrugal call (a program of a few kB parses in
// milliseconds).
var parseWatchdog = 90 * time.Second

// parseProgram runs parser.ParseFrugal(root) under recover() and a watchdog
// and dumps every file of the resulting tree.
func parseProgram(root string) *parseResult {
	logParse("PARSE %s", root)
	res := &parseResult{Root: root}
	type out struct {
		f   *parser.Frugal
		err error
		pan string
	}
	ch := make(chan out, 1)
	go func() {
		var o out
		defer func() {
			if r := recover(); r != nil {
				o.pan = fmt.Sprintf("%v\n%s", r, debug.Stack())
			}
			ch <- o
		}()
		o.f, o.err = parser.ParseFrugal(root)
	}()
	var o out
	select {
	case o = <-ch:
	case <-time.After(parseWatchdog):
		res.Hang = true
		return res
	}
	if o.pan != "" {
		res.Panic = o.pan
		return res
	}
	if o.err != nil {
		res.Err = o.err.Error()
		return res
	}
	if o.f == nil {
		res.Err = "ParseFrugal returned (nil, nil)"
		return res
	}
	res.Files = map[string]map[string]interface{}{}
	res.Trees = map[string]*parser.Frugal{}
	func() {
		defer func() {
			if r := recover(); r != nil {
				res.Panic = fmt.Sprintf("while walking the parse tree: %v\n%s", r, debug.Stack())
			}
		}()
		var walk func(f *parser.Frugal, depth int)
		walk = func(f *parser.Frugal, depth int) {
			if f == nil || depth > 64 {
				return
			}
			if _, seen := res.Files[f.Name]; seen {
				return
			}
			res.Files[f.Name] = dumpFrugal(f)
			res.Trees[f.Name] = f
			var names []string
			for n := range f.ParsedIncludes {
				names = append(names, n)
			}
			sort.Strings(names)
			for _, n := range names {
				inc := f.ParsedIncludes[n]
				if inc != nil && inc.Name != n {
					res.Files[f.Name]["parsed_include_key_mismatch"] = fmt.Sprintf("ParsedIncludes[%q].Name = %q", n, inc.Name)
				}
				walk(inc, depth+1)
			}
		}
		walk(o.f, 0)
	}()
	return res
}

// reachable returns the files of p reachable from the root through includes.
func reachable(p *idl.Program) []*idl.File {
	seen := map[string]bool{}
	var out []*idl.File
	var walk func(f *idl.File)
	walk = func(f *idl.File) {
		if f == nil || seen[f.Base] {
			return
		}
		seen[f.Base] = true
		out = append(out, f)
		for _, inc := range f.Includes {
			b := filepath.Base(inc.Path)
			if k := strings.LastIndex(b, "."); k > 0 {
				b = b[:k]
			}
			walk(p.File(b))
		}
	}
	walk(p.Root())
	return out
}

// canonProgram is the model's side: file base -> idl.Canon(file), for the
// files the parser will see.
func canonProgram(p *idl.Program) map[string]map[string]interface{} {
	out := map[string]map[string]interface{}{}
	for _, f := range reachable(p) {
		out[f.Base] = idl.Canon(f)
	}
	return out
}

// comparePrograms lists the differences between the model's canon and the
// parser's dump, file by file.
func comparePrograms(canon, dump map[string]map[string]interface{}, la, lb string) []diff {
	var out []diff
	var names []string
	seen := map[string]bool{}
	for n := range canon {
		names = append(names, n)
		seen[n] = true
	}
	for n := range dump {
		if !seen[n] {
			names = append(names, n)
		}
	}
	sort.Strings(names)
	for _, n := range names {
		c, cok := canon[n]
		d, dok := dump[n]
		switch {
		case !cok:
			out = append(out, diff{Path: n, Kind: "files", Leaf: "extra", Text: fmt.Sprintf("file %s: present on the %s side only", n, lb)})
		case !dok:
			out = append(out, diff{Path: n, Kind: "files", Leaf: "missing", Text: fmt.Sprintf("file %s: present on the %s side only", n, la)})
		default:
			if sameTree(c, d) {
				continue
			}
			for _, x := range diffTrees(c, d, la, lb, 8) {
				x.Text = n + ": " + x.Text
				out = append(out, x)
			}
		}
	}
	return out
}
