package main

import (
	"fmt"
	"path"
	"path/filepath"
	"strings"

	"verif/ev"
	"verif/idl"
)

// Programs spread over directories in which different files include
// *different* files that share a base name.  Includes are resolved relative
// to the including file, so this is legal as long as no single file includes
// two files of one base name (the compiler rejects that: "Duplicate include")
// and no file reaches a namesake of itself (the cycle check goes by name).
// Construction: two independently generated programs A and B are put into
// two directories, one reachable non-root file of each is renamed to the same
// base name, and a new root includes both roots.  File.Base holds the
// relative path without extension ("svc/alpha/common").

// renameBase renames file old of p to neu and rewrites include paths,
// include-qualified type names, constant identifiers and extends clauses.
func renameBase(p *idl.Program, old, neu string) {
	pre := old + "."
	q := func(s string) string {
		if strings.HasPrefix(s, pre) {
			return neu + "." + s[len(pre):]
		}
		return s
	}
	var typ func(t *idl.Type)
	typ = func(t *idl.Type) {
		if t == nil {
			return
		}
		if t.IsContainer() {
			typ(t.Key)
			typ(t.Val)
			return
		}
		t.Name = q(t.Name)
	}
	var val func(v interface{}) interface{}
	val = func(v interface{}) interface{} {
		switch x := v.(type) {
		case idl.Ident:
			return idl.Ident(q(string(x)))
		case []interface{}:
			for i := range x {
				x[i] = val(x[i])
			}
		case []idl.KV:
			for i := range x {
				x[i].Key, x[i].Value = val(x[i].Key), val(x[i].Value)
			}
		}
		return v
	}
	fields := func(fs []*idl.Field) {
		for _, f := range fs {
			typ(f.Type)
			if f.Default != nil {
				f.Default = val(f.Default)
			}
		}
	}
	for _, f := range p.Files {
		if f.Base == old {
			f.Base = neu
		}
		// qualified names `old.X` refer to the file only where it is included: a
		// file that does not include it may have an enum called `old`, whose
		// values are written `old.VALUE` too
		includesOld := false
		for _, inc := range f.Includes {
			if e := path.Ext(inc.Path); strings.TrimSuffix(path.Base(inc.Path), e) == old {
				includesOld = true
			}
		}
		if !includesOld {
			continue
		}
		for _, inc := range f.Includes {
			if e := path.Ext(inc.Path); strings.TrimSuffix(path.Base(inc.Path), e) == old {
				inc.Path = path.Join(path.Dir(inc.Path), neu+e)
			}
		}
		for _, d := range f.Decls {
			switch {
			case d.TypeDef != nil:
				typ(d.TypeDef.Type)
			case d.Const != nil:
				typ(d.Const.Type)
				d.Const.Value = val(d.Const.Value)
			case d.Struct != nil:
				fields(d.Struct.Fields)
			case d.Service != nil:
				d.Service.Extends = q(d.Service.Extends)
				for _, m := range d.Service.Methods {
					typ(m.Ret)
					fields(m.Args)
					fields(m.Throws)
				}
			case d.Scope != nil:
				for _, o := range d.Scope.Ops {
					typ(o.Type)
				}
			}
		}
	}
}

var (
	sharedBaseNames = []string{"common", "types", "shared_defs", "model"}
	dirPairs        = [][2]string{{"a", "b"}, {".", "sub"}, {"left", "."}, {"svc/alpha", "svc/beta"}, {"pkg", "pkg/inner"}}
)

// genMultiDir builds model i of the multi-directory pool.
func genMultiDir(run *ev.Run, i int) (*idl.Program, string) {
	rng := run.Rand(fmt.Sprintf("c10-multidir-%d", i))
	cfg := idl.CoreConfig()
	cfg.MinFiles, cfg.MaxFiles = 2, 3
	a := idl.Generate(run.Rand(fmt.Sprintf("c10-multidir-a-%d", i)), cfg)
	b := idl.Generate(run.Rand(fmt.Sprintf("c10-multidir-b-%d", i)), cfg)
	sanitize(a)
	sanitize(b)
	shared := sharedBaseNames[rng.Intn(len(sharedBaseNames))]
	pick := func(p *idl.Program) {
		var cands []*idl.File
		for _, f := range reachable(p) {
			if f != p.Root() {
				cands = append(cands, f)
			}
		}
		renameBase(p, cands[rng.Intn(len(cands))].Base, shared)
	}
	pick(a)
	pick(b)
	renameBase(a, a.Root().Base, "root_of_a")
	renameBase(b, b.Root().Base, "root_of_b")
	dirs := dirPairs[rng.Intn(len(dirPairs))]
	place := func(p *idl.Program, dir string) {
		for _, f := range p.Files {
			f.Base = path.Join(dir, f.Base)
		}
	}
	place(a, dirs[0])
	place(b, dirs[1])
	// Every second model also has a same-base-name chain: the shared-name file
	// of one side reaches the shared-name file of the other side, through a
	// helper file or directly (never both directions: that would be a cycle,
	// and never two files of one base name included by one file).
	chain := ""
	if rng.Intn(2) == 0 {
		from, to, fromDir, toDir := a, b, dirs[0], dirs[1]
		if rng.Intn(2) == 0 {
			from, to, fromDir, toDir = b, a, dirs[1], dirs[0]
		}
		src := fileByKey(from, path.Join(fromDir, shared))
		dst := fileByKey(to, path.Join(toDir, shared))
		rel, err := filepath.Rel(filepath.FromSlash(fromDir), filepath.FromSlash(dst.FileName()))
		if err == nil && src != nil && len(dst.Enums()) > 0 {
			rel = filepath.ToSlash(rel)
			use := &idl.Decl{Struct: &idl.Struct{Kind: idl.KindStruct, Name: "ChainLink", Fields: []*idl.Field{
				{ID: 1, Name: "far", Req: idl.ReqOptional, Type: idl.T(shared + "." + dst.Enums()[0].Name)},
			}}}
			if rng.Intn(3) == 0 {
				chain = "direct"
				src.Includes = append(src.Includes, &idl.Include{Path: rel})
				src.Decls = append(src.Decls, use)
			} else {
				chain = "transitive"
				helper := &idl.File{Base: path.Join(fromDir, "chain_helper"), Ext: ".frugal", Includes: []*idl.Include{{Path: rel}}, Decls: []*idl.Decl{use}}
				from.Files = append([]*idl.File{helper}, from.Files...)
				src.Includes = append(src.Includes, &idl.Include{Path: "chain_helper.frugal"})
			}
		}
	}
	firstStruct := func(p *idl.Program) string {
		for _, d := range p.Root().Decls {
			if d.Struct != nil && d.Struct.Kind != idl.KindException {
				return d.Struct.Name
			}
		}
		return p.Root().Structs()[0].Name
	}
	main := &idl.File{Base: "main_entry", Ext: ".frugal"}
	incA := &idl.Include{Path: a.Root().FileName()}
	incB := &idl.Include{Path: b.Root().FileName()}
	main.Includes = []*idl.Include{incA, incB}
	if rng.Intn(2) == 0 {
		main.Includes = []*idl.Include{incB, incA}
	}
	main.Decls = []*idl.Decl{{Struct: &idl.Struct{Kind: idl.KindStruct, Name: "Entry", Fields: []*idl.Field{
		{ID: 1, Name: "fromA", Type: idl.T("root_of_a." + firstStruct(a))},
		{ID: 2, Name: "fromB", Req: idl.ReqOptional, Type: idl.T("root_of_b." + firstStruct(b))},
	}}}}
	out := &idl.Program{Features: map[string]bool{"multidir_same_base_name_includes": true, "includes": true}}
	for k := range a.Features {
		out.Features[k] = true
	}
	for k := range b.Features {
		out.Features[k] = true
	}
	if chain != "" {
		out.Features["multidir_"+chain+"_same_base_name_chain"] = true
	}
	out.Files = append(append(append(out.Files, a.Files...), b.Files...), main)
	return out, fmt.Sprintf("multidir#%d (VERIF_SEED %d; %s/ and %s/ each hold a different %s%s)", i, run.Seed, dirs[0], dirs[1], shared, ".frugal|.thrift")
}
