package main

import (
	"fmt"
	"os"
	"path/filepath"
	"regexp"
	"strings"

	"verif/idl"
)

type tree = map[string]interface{}

// outcome of rendering one model with one style and parsing it.
type outcome struct {
	OK      bool
	Kind    string // "parse-error", "panic", "hang", "mismatch"
	Err     string
	Diffs   []diff
	Classes []string // quarantined lexical classes that fully explain a mismatch
	Res     *parseResult
	Dir     string
	Root    string
}

// what names the observation for a signature: the leaf key of the first
// difference, or the kind of failure.
func (o *outcome) what() string {
	if o.Kind == "mismatch" && len(o.Diffs) > 0 {
		return o.Diffs[0].Leaf
	}
	return o.Kind
}

func (o *outcome) describe() string {
	switch o.Kind {
	case "parse-error":
		return "valid IDL rejected: " + cleanMsg(o.Err)
	case "panic":
		return "parser panicked on valid IDL: " + firstLine(o.Err)
	case "hang":
		return fmt.Sprintf("parser did not return within %v on valid IDL", parseWatchdog)
	case "mismatch":
		var t []string
		for i, d := range o.Diffs {
			if i == 4 {
				t = append(t, fmt.Sprintf("(+%d more)", len(o.Diffs)-4))
				break
			}
			t = append(t, d.Text)
		}
		return "parsed model differs from the declared one: " + strings.Join(t, " | ")
	}
	return "ok"
}

var reScratchPath = regexp.MustCompile(`(^|[\s:\[(])/[^\s:]*/([^/\s:]+\.(?:frugal|thrift))`)

// cleanMsg removes scratch directories and line breaks from a diagnostic.
func cleanMsg(s string) string {
	s = reScratchPath.ReplaceAllString(s, "$1$2")
	return strings.Join(strings.Fields(strings.ReplaceAll(s, "\n", " / ")), " ")
}

func firstLine(s string) string {
	if i := strings.IndexByte(s, '\n'); i >= 0 {
		return s[:i]
	}
	return s
}

// Tolerant views: a quarantined lexical class is "the" explanation of a
// mismatch when undoing exactly its documented effect on the parser's dump
// makes the dump equal to the model.  Anything else stays a mismatch.
var tolerantViews = []struct {
	class string
	fix   func(line string) string
}{
	// rawCommentToDocStr splits on "\n" only: with CRLF files every docstring line but the last keeps its "\r"
	{"docstring_crlf", func(l string) string { return strings.TrimRight(l, "\r") }},
	// rawCommentToDocStr trims "* " only: continuation lines indented with a tab keep "\t * "
	{"docstring_tab_indent", func(l string) string {
		if strings.HasPrefix(l, "\t") {
			return strings.TrimLeft(l, "* \t")
		}
		return l
	}},
}

func mapComments(v interface{}, fix func(string) string) interface{} {
	switch x := v.(type) {
	case map[string]interface{}:
		o := make(map[string]interface{}, len(x))
		for k, e := range x {
			if k == "comment" {
				if l, ok := e.([]interface{}); ok {
					nl := make([]interface{}, 0, len(l))
					for _, s := range l {
						if str, ok := s.(string); ok {
							nl = append(nl, fix(str))
						} else {
							nl = append(nl, s)
						}
					}
					o[k] = nl
					continue
				}
			}
			o[k] = mapComments(e, fix)
		}
		return o
	case []interface{}:
		o := make([]interface{}, 0, len(x))
		for _, e := range x {
			o = append(o, mapComments(e, fix))
		}
		return o
	}
	return v
}

func viewProgram(d map[string]tree, idx []int) map[string]tree {
	out := map[string]tree{}
	for n, t := range d {
		var v interface{} = normalize(t)
		for _, i := range idx {
			v = mapComments(v, tolerantViews[i].fix)
		}
		out[n] = v.(map[string]interface{})
	}
	return out
}

// judge compares a parse result with the expected trees.
func judge(expected map[string]tree, res *parseResult) *outcome {
	o := &outcome{Res: res, Root: res.Root, Dir: filepath.Dir(res.Root)}
	switch {
	case res.Hang:
		o.Kind = "hang"
		return o
	case res.Panic != "":
		o.Kind, o.Err = "panic", res.Panic
		return o
	case res.Err != "":
		o.Kind, o.Err = "parse-error", res.Err
		return o
	}
	o.Diffs = comparePrograms(expected, res.Files, "model", "parser")
	if len(o.Diffs) == 0 {
		o.OK = true
		return o
	}
	o.Kind = "mismatch"
	for _, idx := range [][]int{{0}, {1}, {0, 1}} {
		if len(comparePrograms(expected, viewProgram(res.Files, idx), "model", "parser")) == 0 {
			for _, i := range idx {
				o.Classes = append(o.Classes, tolerantViews[i].class)
			}
			break
		}
	}
	return o
}

// evaluator renders, parses and judges; every rendering gets its own
// directory under base.
type evaluator struct {
	base string
	n    int
	// counters
	parsed, files int
}

func (e *evaluator) run(p *idl.Program, expected map[string]tree, st idl.Style) *outcome {
	e.n++
	dir := filepath.Join(e.base, fmt.Sprintf("r%d", e.n))
	root, err := writeProgram(p, dir, st)
	if err != nil {
		return &outcome{Kind: "parse-error", Err: "harness: cannot write the program: " + err.Error(), Dir: dir}
	}
	res := parseProgram(root)
	e.parsed++
	e.files += len(res.Files)
	o := judge(expected, res)
	o.Dir, o.Root = dir, root
	return o
}

func (e *evaluator) cleanup(o *outcome) {
	if o != nil && o.Dir != "" && !o.Res.Hang {
		os.RemoveAll(o.Dir)
	}
}

// failure is one refuting observation, already reduced to a signature.
type failure struct {
	Sig     string                 `json:"sig"`
	What    string                 `json:"what"`
	Witness map[string]interface{} `json:"witness"`
}

func programTexts(p *idl.Program, st idl.Style) map[string]string {
	out := map[string]string{}
	for _, f := range reachable(p) {
		out[f.FileName()] = idl.RenderFile(f, st)
	}
	return out
}

func witnessOf(p *idl.Program, st idl.Style, o *outcome, label string) map[string]interface{} {
	w := map[string]interface{}{
		"model":    label,
		"style":    st.String(),
		"knobs":    knobLabel(st),
		"features": p.FeatureList(),
		"root":     p.Root().FileName(),
		"files":    programTexts(p, st),
	}
	if o != nil {
		w["observed"] = o.describe()
		if o.Kind == "panic" {
			w["stack"] = o.Err
		}
		var ds []string
		for _, d := range o.Diffs {
			ds = append(ds, d.Text)
		}
		if ds != nil {
			w["differences"] = ds
		}
	}
	return w
}

var (
	reParserFrame = regexp.MustCompile(`compiler/parser\.(?:\(\*?\w+\)\.)?(\w+)`)
)

func panicSite(stack string) string {
	for _, l := range strings.Split(stack, "\n") {
		if strings.Contains(l, "runtime/") || strings.Contains(l, "runtime.") {
			continue
		}
		if m := reParserFrame.FindStringSubmatch(l); m != nil && m[1] != "ParseFrugal" {
			return m[1]
		}
	}
	return "unknown-site"
}

// errClass reduces a parser diagnostic to a stable class (no names, no positions).
func errClass(msg string) string {
	for _, c := range []struct{ sub, class string }{
		{"expected end of service", "expected-end-of-service"},
		{"expected end of scope", "expected-end-of-scope"},
		{"invalid prefix variable", "invalid-prefix-variable"},
		{"syntax error", "syntax-error"},
		{"runtime error:", "parser-panic-recovered"}, // pigeon recovers panics of action code and returns them as errors
		{"panic occurred", "parser-panic-recovered"},
		{"Invalid return type", "invalid-return-type"},
		{"Invalid argument type", "invalid-argument-type"},
		{"Invalid exception type", "invalid-exception-type"},
		{"Invalid operation type", "invalid-operation-type"},
		{"Invalid alias", "invalid-alias"},
		{"Invalid type", "invalid-type"},
		{"Duplicate", "duplicate"},
		{"Referenced", "referenced-constant-not-found"},
		{"Circular include", "circular-include"},
		{"Bad include name", "bad-include-name"},
		{"Invalid file", "invalid-file"},
		{"conflict", "name-conflict"},
		{"Void method", "void-method-returns"},
		{"Oneway method", "oneway-method-throws"},
		{"not found", "not-found"},
		{"no such file", "no-such-file"},
	} {
		if strings.Contains(msg, c.sub) {
			return c.class
		}
	}
	return "other-diagnostic"
}

// modelSig is the signature of a failure that does not depend on the style.
func modelSig(o *outcome) string {
	switch o.Kind {
	case "parse-error":
		if c := errClass(o.Err); c == "parser-panic-recovered" { // pigeon turns a panic in an action into an error
			site := "unknown-rule"
			if m := regexp.MustCompile(`rule (\w+):`).FindStringSubmatch(o.Err); m != nil {
				site = m[1]
			}
			return "C10:parser-panic:recovered:" + site
		}
		return "C10:valid-idl-rejected:" + errClass(o.Err)
	case "panic":
		return "C10:parser-panic:" + panicSite(o.Err)
	case "hang":
		return "C10:parser-hang"
	}
	for _, d := range o.Diffs {
		if d.Leaf == "resolved_to_other_file" { // an includer was served another directory's file of the same base name
			return "C10:mismatch:includes.resolved_to_other_file"
		}
	}
	if len(o.Diffs) > 0 {
		return "C10:mismatch:" + o.Diffs[0].Kind + "." + o.Diffs[0].Leaf
	}
	return "C10:mismatch:unknown"
}

// bisected is one culprit found by bisectStyle: part = "<knob>=<value>:<what>".
type bisected struct {
	part string
	st   idl.Style
	o    *outcome
}

// bisectStyle names the knob(s) that make eval fail, given that eval passes
// with the default style and fails (outcome o) with st: first every differing
// knob alone on top of the default style; if none reproduces the failure, the
// knobs of st are reset greedily while it still fails (an interaction).
func bisectStyle(st idl.Style, o *outcome, eval func(idl.Style) *outcome) []bisected {
	def := idl.DefaultStyle()
	failed := func(o *outcome) bool { return !o.OK && len(o.Classes) == 0 }
	var out []bisected
	for _, k := range differingKnobs(st) {
		s1 := def
		copyKnob(&s1, st, k)
		if o1 := eval(s1); failed(o1) {
			out = append(out, bisected{fmt.Sprintf("%s=%s:%s", k, knobValue(s1, k), o1.what()), s1, o1})
		}
	}
	if len(out) > 0 {
		return out
	}
	cur, last := st, o
	for _, k := range differingKnobs(st) {
		try := cur
		copyKnob(&try, def, k)
		if o1 := eval(try); failed(o1) {
			cur, last = try, o1
		}
	}
	return []bisected{{knobLabel(cur) + ":" + last.what(), cur, last}}
}

// explain reduces a failing rendering to signatures: a quarantined lexical
// class, one style knob (bisected against the default style), or the model.
func (e *evaluator) explain(p *idl.Program, expected map[string]tree, st idl.Style, o *outcome, label, pool string) (fails []failure, modelLevel bool) {
	mk := func(sig string, st idl.Style, o *outcome) failure {
		return failure{Sig: sig, What: o.describe() + " [style " + knobLabel(st) + "]", Witness: witnessOf(p, st, o, label)}
	}
	if len(o.Classes) > 0 {
		var out []failure
		for _, c := range o.Classes {
			out = append(out, mk("C10:lexical:"+c, st, o))
		}
		return out, false
	}
	def := idl.DefaultStyle()
	if st != def {
		od := e.run(p, expected, def)
		defer e.cleanup(od)
		if od.OK || len(od.Classes) > 0 {
			// the model is fine: name the knob
			var out []failure
			for _, b := range bisectStyle(st, o, func(s idl.Style) *outcome {
				o1 := e.run(p, expected, s)
				e.cleanup(o1)
				return o1
			}) {
				out = append(out, mk("C10:style:"+b.part, b.st, b.o))
			}
			return out, false
		}
		o = od
		st = def
	}
	// the failure is in the model, not in the style
	if pool == "stress" {
		for _, q := range []struct {
			feature, class string
			neutralise     func(*idl.Program) bool
		}{
			{"negative_enum_value", "negative_enum_value", neutraliseNegativeEnums},
			{"one_letter_prefix_variable", "one_letter_prefix_variable", neutraliseOneLetterVars},
		} {
			if !p.Features[q.feature] {
				continue
			}
			before := witnessOf(p, st, o, label)
			if !q.neutralise(p) {
				continue
			}
			exp2 := canonProgram(p)
			o2 := e.run(p, exp2, st)
			e.cleanup(o2)
			if o2.OK {
				return []failure{{Sig: "C10:lexical:" + q.class, What: o.describe() + " [random stress model; passes once the construct is removed from the model]", Witness: before}}, true
			}
			// keep the neutralised model: try the next quarantined construct on top
			expected, o = exp2, o2
		}
	}
	if o.Kind == "parse-error" && errClass(o.Err) == "circular-include" && (p.Features["multidir_transitive_same_base_name_chain"] || p.Features["multidir_direct_same_base_name_chain"]) {
		// no file of these models reaches itself: a namesake on the include stack was taken for a cycle
		return []failure{mk("C10:lexical:same_base_name_transitive_include", st, o)}, true
	}
	return []failure{mk(modelSig(o), st, o)}, true
}
