package main

import (
	"fmt"
	"reflect"
	"sort"
	"strings"

	"github.com/Workiva/frugal/compiler/parser"
)

// dumpFrugal walks the compiler's own parse tree of ONE file into exactly the
// shape of idl.Canon (maps / slices / strings / int64 / bool / float64).  The
// back pointers (Service.Frugal, Scope.Frugal, Operation.Scope) and
// ParsedIncludes are not followed here.
func dumpFrugal(f *parser.Frugal) map[string]interface{} {
	out := map[string]interface{}{}
	incs := []interface{}{}
	for _, i := range f.Includes {
		m := map[string]interface{}{"name": i.Name, "value": i.Value}
		if len(i.Annotations) > 0 { // the model never annotates includes
			m["annotations"] = dumpAnn(i.Annotations)
		}
		incs = append(incs, m)
	}
	out["includes"] = incs
	nss := []interface{}{}
	for _, n := range f.Namespaces {
		m := map[string]interface{}{"scope": n.Scope, "value": n.Value}
		if len(n.Annotations) > 0 {
			m["annotations"] = dumpAnn(n.Annotations)
		}
		nss = append(nss, m)
	}
	out["namespaces"] = nss
	tds := []interface{}{}
	for _, t := range f.Typedefs {
		tds = append(tds, map[string]interface{}{"name": t.Name, "type": dumpType(t.Type), "comment": dumpComment(t.Comment), "annotations": dumpAnn(t.Annotations)})
	}
	out["typedefs"] = tds
	enums := []interface{}{}
	for _, e := range f.Enums {
		vs := []interface{}{}
		for _, v := range e.Values {
			vs = append(vs, map[string]interface{}{"name": v.Name, "value": int64(v.Value), "comment": dumpComment(v.Comment), "annotations": dumpAnn(v.Annotations)})
		}
		enums = append(enums, map[string]interface{}{"name": e.Name, "values": vs, "comment": dumpComment(e.Comment), "annotations": dumpAnn(e.Annotations)})
	}
	out["enums"] = enums
	consts := []interface{}{}
	for _, c := range f.Constants {
		consts = append(consts, map[string]interface{}{"name": c.Name, "type": dumpType(c.Type), "value": dumpValue(c.Value), "comment": dumpComment(c.Comment), "annotations": dumpAnn(c.Annotations)})
	}
	out["constants"] = consts
	sl := func(list []*parser.Struct) []interface{} {
		o := []interface{}{}
		for _, s := range list {
			o = append(o, map[string]interface{}{"name": s.Name, "kind": structKind(s), "fields": dumpFields(s.Fields), "comment": dumpComment(s.Comment), "annotations": dumpAnn(s.Annotations)})
		}
		return o
	}
	out["structs"], out["unions"], out["exceptions"] = sl(f.Structs), sl(f.Unions), sl(f.Exceptions)
	svcs := []interface{}{}
	for _, s := range f.Services {
		ms := []interface{}{}
		for _, m := range s.Methods {
			ret := "void"
			if m.ReturnType != nil {
				ret = dumpType(m.ReturnType)
			}
			ms = append(ms, map[string]interface{}{"name": m.Name, "oneway": m.Oneway, "return": ret,
				"arguments": dumpFields(m.Arguments), "exceptions": dumpFields(m.Exceptions),
				"comment": dumpComment(m.Comment), "annotations": dumpAnn(m.Annotations)})
		}
		svcs = append(svcs, map[string]interface{}{"name": s.Name, "extends": s.Extends, "methods": ms, "comment": dumpComment(s.Comment), "annotations": dumpAnn(s.Annotations)})
	}
	out["services"] = svcs
	scs := []interface{}{}
	for _, s := range f.Scopes {
		ops := []interface{}{}
		for _, o := range s.Operations {
			ops = append(ops, map[string]interface{}{"name": o.Name, "type": dumpType(o.Type), "comment": dumpComment(o.Comment), "annotations": dumpAnn(o.Annotations)})
		}
		prefix := ""
		vars := []interface{}{}
		if s.Prefix != nil {
			prefix = s.Prefix.String
			for _, v := range s.Prefix.Variables {
				vars = append(vars, v)
			}
		}
		scs = append(scs, map[string]interface{}{"name": s.Name, "prefix": prefix, "variables": vars, "operations": ops, "comment": dumpComment(s.Comment), "annotations": dumpAnn(s.Annotations)})
	}
	out["scopes"] = scs
	return out
}

func structKind(s *parser.Struct) (k string) {
	defer func() {
		if recover() != nil {
			k = fmt.Sprintf("unknown(%d)", int(s.Type))
		}
	}()
	return s.Type.String()
}

// dumpType is Type.String(); annotations on a type expression (which the
// model never writes) are made visible so that they cannot get lost.
func dumpType(t *parser.Type) string {
	if t == nil {
		return "<nil>"
	}
	s := t.String()
	if hasTypeAnnotations(t) {
		s += " " + typeAnnString(t)
	}
	return s
}

func hasTypeAnnotations(t *parser.Type) bool {
	if t == nil {
		return false
	}
	return len(t.Annotations) > 0 || hasTypeAnnotations(t.KeyType) || hasTypeAnnotations(t.ValueType)
}

func typeAnnString(t *parser.Type) string {
	if t == nil {
		return ""
	}
	var parts []string
	for _, a := range t.Annotations {
		parts = append(parts, fmt.Sprintf("%s=%q", a.Name, a.Value))
	}
	s := "(type-annotations on " + t.Name + ": " + strings.Join(parts, ",") + ")"
	if k := typeAnnString(t.KeyType); k != "" && hasTypeAnnotations(t.KeyType) {
		s += k
	}
	if v := typeAnnString(t.ValueType); v != "" && hasTypeAnnotations(t.ValueType) {
		s += v
	}
	return s
}

func dumpComment(c []string) []interface{} {
	out := []interface{}{}
	for _, l := range c {
		out = append(out, l)
	}
	return out
}

func dumpAnn(a parser.Annotations) []interface{} {
	out := []interface{}{}
	for _, x := range a {
		if x == nil {
			out = append(out, nil)
			continue
		}
		out = append(out, map[string]interface{}{"name": x.Name, "value": x.Value})
	}
	return out
}

func modifierName(m parser.FieldModifier) string {
	switch m {
	case parser.Required:
		return "required"
	case parser.Optional:
		return "optional"
	case parser.Default:
		return "default"
	}
	return fmt.Sprintf("unknown(%d)", int(m))
}

func dumpFields(fs []*parser.Field) []interface{} {
	out := []interface{}{}
	for _, f := range fs {
		var def interface{}
		if f.Default != nil {
			def = dumpValue(f.Default)
		}
		out = append(out, map[string]interface{}{"id": int64(f.ID), "name": f.Name, "requiredness": modifierName(f.Modifier), "type": dumpType(f.Type), "default": def, "comment": dumpComment(f.Comment), "annotations": dumpAnn(f.Annotations)})
	}
	return out
}

// dumpValue canonicalises a constant value of the parse tree.
func dumpValue(v interface{}) interface{} {
	switch x := v.(type) {
	case nil:
		return nil
	case parser.Identifier:
		return map[string]interface{}{"identifier": string(x)}
	case []parser.KeyValue:
		out := []interface{}{}
		for _, kv := range x {
			out = append(out, []interface{}{dumpValue(kv.Key), dumpValue(kv.Value)})
		}
		return map[string]interface{}{"map": out}
	case []interface{}:
		out := []interface{}{}
		for _, e := range x {
			out = append(out, dumpValue(e))
		}
		return out
	case int64, float64, string, bool:
		return x
	case int:
		return int64(x)
	}
	return fmt.Sprintf("<unexpected %T: %v>", v, v)
}

// normalize rebuilds a canonical tree with one number type for integers
// (int64) and non-nil empty slices, so that reflect.DeepEqual compares
// structure only.
func normalize(v interface{}) interface{} {
	switch x := v.(type) {
	case nil:
		return nil
	case map[string]interface{}:
		o := make(map[string]interface{}, len(x))
		for k, e := range x {
			o[k] = normalize(e)
		}
		return o
	case []interface{}:
		o := make([]interface{}, 0, len(x))
		for _, e := range x {
			o = append(o, normalize(e))
		}
		return o
	case []string:
		o := make([]interface{}, 0, len(x))
		for _, e := range x {
			o = append(o, e)
		}
		return o
	case int:
		return int64(x)
	case int32:
		return int64(x)
	case int64, float64, string, bool:
		return x
	}
	return fmt.Sprintf("<unexpected %T: %v>", v, v)
}

// diff is one difference between the model's canon and the parser's dump.
type diff struct {
	Path string // e.g. structs[2].fields[1].requiredness
	Kind string // top-level kind, e.g. structs
	Leaf string // last key, e.g. requiredness
	Text string // "structs[2].fields[1].requiredness: model=optional parser=default"
}

// sameTree is reflect.DeepEqual on normalised trees.
func sameTree(a, b interface{}) bool {
	return reflect.DeepEqual(normalize(a), normalize(b))
}

// diffTrees lists the differences (first max) between two normalised trees;
// la / lb name the two sides in the text.
func diffTrees(a, b interface{}, la, lb string, max int) []diff {
	var out []diff
	var walk func(path, kind, leaf string, x, y interface{})
	add := func(path, kind, leaf, text string) {
		if len(out) < max {
			out = append(out, diff{Path: path, Kind: kind, Leaf: leaf, Text: path + ": " + text})
		}
	}
	short := func(v interface{}) string {
		s := fmt.Sprintf("%#v", v)
		switch t := v.(type) {
		case string:
			s = fmt.Sprintf("%q", t)
		case int64, float64, bool, nil:
			s = fmt.Sprintf("%v", t)
		case []interface{}:
			s = fmt.Sprintf("%v", t)
		case map[string]interface{}:
			s = fmt.Sprintf("%v", t)
		}
		if len(s) > 200 {
			s = s[:200] + "..."
		}
		return s
	}
	name := func(v interface{}) string {
		if m, ok := v.(map[string]interface{}); ok {
			if n, ok := m["name"].(string); ok {
				return n
			}
		}
		return ""
	}
	walk = func(path, kind, leaf string, x, y interface{}) {
		if len(out) >= max {
			return
		}
		switch xv := x.(type) {
		case map[string]interface{}:
			yv, ok := y.(map[string]interface{})
			if !ok {
				add(path, kind, leaf, fmt.Sprintf("%s=%s %s=%s", la, short(x), lb, short(y)))
				return
			}
			keys := map[string]bool{}
			for k := range xv {
				keys[k] = true
			}
			for k := range yv {
				keys[k] = true
			}
			var ks []string
			for k := range keys {
				ks = append(ks, k)
			}
			sort.Strings(ks)
			for _, k := range ks {
				p := k
				if path != "" {
					p = path + "." + k
				}
				kd := kind
				if kd == "" {
					kd = k
				}
				xe, xok := xv[k]
				ye, yok := yv[k]
				switch {
				case !xok:
					add(p, kd, k, fmt.Sprintf("%s=<absent> %s=%s", la, lb, short(ye)))
				case !yok:
					add(p, kd, k, fmt.Sprintf("%s=%s %s=<absent>", la, short(xe), lb))
				default:
					walk(p, kd, k, xe, ye)
				}
			}
		case []interface{}:
			yv, ok := y.([]interface{})
			if !ok {
				add(path, kind, leaf, fmt.Sprintf("%s=%s %s=%s", la, short(x), lb, short(y)))
				return
			}
			if len(xv) != len(yv) {
				var xn, yn []string
				for _, e := range xv {
					xn = append(xn, name(e))
				}
				for _, e := range yv {
					yn = append(yn, name(e))
				}
				add(path, kind, leaf, fmt.Sprintf("%s has %d entries [%s], %s has %d entries [%s]; %s=%s %s=%s", la, len(xv), strings.Join(xn, ","), lb, len(yv), strings.Join(yn, ","), la, short(x), lb, short(y)))
				return
			}
			for i := range xv {
				walk(fmt.Sprintf("%s[%d]", path, i), kind, leaf, xv[i], yv[i])
			}
		default:
			if !reflect.DeepEqual(x, y) {
				add(path, kind, leaf, fmt.Sprintf("%s=%s %s=%s", la, short(x), lb, short(y)))
			}
		}
	}
	walk("", "", "", normalize(a), normalize(b))
	return out
}
