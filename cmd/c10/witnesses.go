package main

import (
	"strings"

	"verif/idl"
)

// A lexical class is one way of writing valid Thrift/Frugal IDL, pinned down
// by hand-written minimal programs (variants) with the model each of them
// declares.  Every class is evaluated on every invocation under its own
// signature "C10:lexical:<class>": the class fails when any variant is
// rejected or parsed into a different model.
type lexVariant struct {
	Name  string
	Files [][2]string // relative path, text; the last one is the root
	Model []*idl.File // the declared model, one entry per file
}

type lexClass struct {
	Class    string
	Pinned   string // behaviour on the pinned tree when the check was written: "fails" | "passes" (informational)
	Rule     string // what the Thrift IDL reference / Frugal documentation says
	Variants []lexVariant
}

// ---- tiny model-building vocabulary -------------------------------------

func mfile(base string, decls ...*idl.Decl) *idl.File {
	return &idl.File{Base: base, Ext: ".frugal", Decls: decls}
}
func mstruct(name string, fields ...*idl.Field) *idl.Decl {
	return &idl.Decl{Struct: &idl.Struct{Kind: idl.KindStruct, Name: name, Fields: fields}}
}
func mexception(name string, fields ...*idl.Field) *idl.Decl {
	return &idl.Decl{Struct: &idl.Struct{Kind: idl.KindException, Name: name, Fields: fields}}
}
func mfield(id int, t *idl.Type, name string) *idl.Field {
	return &idl.Field{ID: id, Name: name, Type: t}
}
func mreq(f *idl.Field, r string) *idl.Field { f.Req = r; return f }
func mdoc(f *idl.Field, lines ...string) *idl.Field {
	f.Comment = lines
	return f
}
func mann(f *idl.Field, a ...idl.Annotation) *idl.Field { f.Ann = a; return f }
func menum(name string, vals ...*idl.EnumValue) *idl.Decl {
	return &idl.Decl{Enum: &idl.Enum{Name: name, Values: vals}}
}
func mval(name string, v int) *idl.EnumValue { return &idl.EnumValue{Name: name, Value: v} }
func mconst(t *idl.Type, name string, v interface{}) *idl.Decl {
	return &idl.Decl{Const: &idl.Const{Name: name, Type: t, Value: v}}
}
func mtypedef(t *idl.Type, name string) *idl.Decl {
	return &idl.Decl{TypeDef: &idl.TypeDef{Name: name, Type: t}}
}
func mservice(name string, methods ...*idl.Method) *idl.Decl {
	return &idl.Decl{Service: &idl.Service{Name: name, Methods: methods}}
}
func mmethod(ret *idl.Type, name string, args ...*idl.Field) *idl.Method {
	return &idl.Method{Name: name, Ret: ret, Args: args}
}
func mscope(name, prefix string, ops ...*idl.Operation) *idl.Decl {
	return &idl.Decl{Scope: &idl.Scope{Name: name, Prefix: prefix, Ops: ops}}
}
func mop(name string, t *idl.Type) *idl.Operation { return &idl.Operation{Name: name, Type: t} }

func one(name, text string, decls ...*idl.Decl) lexVariant {
	return lexVariant{Name: name, Files: [][2]string{{"w.frugal", text}}, Model: []*idl.File{mfile("w", decls...)}}
}

var (
	tString = idl.T("string")
	tI32    = idl.T("i32")
	tBool   = idl.T("bool")
)

func lexClasses() []lexClass {
	var out []lexClass
	add := func(c lexClass) { out = append(out, c) }

	// ---------------- classes the pinned tree is known to fail ----------------

	var v []lexVariant
	for _, n := range []string{"stringList", "i32x", "boolean", "byteArray", "doubleUp", "binaryData", "i16th", "i64bit"} {
		v = append(v, one(n, "struct "+n+" {\n}\n\nstruct User {\n  1: "+n+" item\n}\n",
			mstruct(n), mstruct("User", mfield(1, idl.T(n), "item"))))
	}
	add(lexClass{Class: "basetype_prefixed_type_name", Pinned: "fails",
		Rule: "an identifier is the longest run of letters, digits, '.', '_': a type named stringList / i32x / boolean is an identifier, not the base type followed by something", Variants: v})

	add(lexClass{Class: "void_prefixed_return_type", Pinned: "fails",
		Rule: "a return type named voidResult is an identifier, not `void` followed by a name",
		Variants: []lexVariant{one("voidResult", "struct voidResult {\n}\n\nservice Api {\n  voidResult fetch()\n}\n",
			mstruct("voidResult"), mservice("Api", mmethod(idl.T("voidResult"), "fetch")))}})

	add(lexClass{Class: "oneway_prefixed_return_type", Pinned: "fails",
		Rule: "a return type named onewayThing is an identifier, not `oneway` followed by a type",
		Variants: []lexVariant{one("onewayThing", "struct onewayThing {\n}\n\nservice Api {\n  onewayThing fetch()\n}\n",
			mstruct("onewayThing"), mservice("Api", mmethod(idl.T("onewayThing"), "fetch")))}})

	v = nil
	for _, n := range []string{"optionalThing", "requiredThing"} {
		v = append(v, one(n, "struct Thing {\n}\n\nstruct "+n+" {\n}\n\nstruct User {\n  1: "+n+" item\n}\n",
			mstruct("Thing"), mstruct(n), mstruct("User", mfield(1, idl.T(n), "item"))))
	}
	add(lexClass{Class: "modifier_prefixed_field_type", Pinned: "fails",
		Rule: "a field type named optionalThing / requiredThing is an identifier, not the requiredness keyword followed by a type", Variants: v})

	add(lexClass{Class: "several_definitions_on_one_line", Pinned: "fails",
		Rule: "Thrift definitions need no separator: `struct A {} struct B {}` on one line is two definitions",
		Variants: []lexVariant{
			one("structs", "struct A {} struct B {}\n", mstruct("A"), mstruct("B")),
			one("consts", "const i32 A = 1 const i32 B = 2\n", mconst(tI32, "A", int64(1)), mconst(tI32, "B", int64(2))),
			one("enums", "enum E { X } enum F { Y }\n", menum("E", mval("X", 0)), menum("F", mval("Y", 0))),
		}})

	add(lexClass{Class: "whitespace_before_angle_bracket", Pinned: "fails",
		Rule: "`map`, `list`, `set` and `<` are separate tokens: `map <string,i32>` is a map type",
		Variants: []lexVariant{
			one("map", "struct A {\n  1: map <string,i32> m\n}\n", mstruct("A", mfield(1, idl.MapOf(tString, tI32), "m"))),
			one("list", "struct A {\n  1: list <string> l\n}\n", mstruct("A", mfield(1, idl.ListOf(tString), "l"))),
			one("set", "struct A {\n  1: set <i32> s\n}\n", mstruct("A", mfield(1, idl.SetOf(tI32), "s"))),
		}})

	nsFile := func(lang, val string) []*idl.File {
		f := mfile("w", mstruct("A"))
		f.Namespaces = []*idl.Namespace{{Lang: lang, Value: val}}
		return []*idl.File{f}
	}
	add(lexClass{Class: "namespace_scope_with_underscore", Pinned: "fails",
		Rule:     "the namespace scope is an identifier (Thrift's own c_glib generator is named with an underscore)",
		Variants: []lexVariant{{Name: "c_glib", Files: [][2]string{{"w.frugal", "namespace c_glib foo\n\nstruct A {\n}\n"}}, Model: nsFile("c_glib", "foo")}}})

	add(lexClass{Class: "hex_integer_constant", Pinned: "fails",
		Rule:     "IntConstant admits hexadecimal: 0x1F is 31",
		Variants: []lexVariant{one("0x1F", "const i32 MASK = 0x1F\n", mconst(tI32, "MASK", int64(31)))}})

	add(lexClass{Class: "exponent_only_double_constant", Pinned: "fails",
		Rule:     "DoubleConstant admits an exponent without a fraction: 1e5 is 100000.0",
		Variants: []lexVariant{one("1e5", "const double BIG = 1e5\n", mconst(idl.T("double"), "BIG", float64(100000)))}})

	add(lexClass{Class: "cpp_include", Pinned: "fails",
		Rule:     "`cpp_include \"<vector>\"` is a valid header statement (ignored by every non-C++ generator)",
		Variants: []lexVariant{one("cpp_include", "cpp_include \"<vector>\"\n\nstruct A {\n}\n", mstruct("A"))}})

	add(lexClass{Class: "field_without_id", Pinned: "fails",
		Rule: "field ids are optional in Thrift; fields without one get -1, -2, ... in order of appearance",
		Variants: []lexVariant{
			one("struct", "struct A {\n  string a,\n  i32 b\n}\n", mstruct("A", mfield(-1, tString, "a"), mfield(-2, tI32, "b"))),
			one("arguments", "service S {\n  void put(string key, i32 value)\n}\n", mservice("S", mmethod(nil, "put", mfield(-1, tString, "key"), mfield(-2, tI32, "value")))),
		}})

	add(lexClass{Class: "negative_enum_value", Pinned: "fails",
		Rule: "an explicit enum value may be negative; the next implicit value is the previous one plus one",
		Variants: []lexVariant{one("minus-one", "enum E {\n  A = -1,\n  B\n}\n",
			menum("E", &idl.EnumValue{Name: "A", Value: -1, Explicit: true}, mval("B", 0)))}})

	add(lexClass{Class: "enum_explicit_value_decreasing", Pinned: "fails",
		Rule: "implicit enum numbering is previous value + 1 (Thrift), not maximum so far + 1",
		Variants: []lexVariant{one("5-2-implicit", "enum E {\n  A = 5,\n  B = 2,\n  C\n}\n",
			menum("E", &idl.EnumValue{Name: "A", Value: 5, Explicit: true}, &idl.EnumValue{Name: "B", Value: 2, Explicit: true}, mval("C", 3)))}})

	add(lexClass{Class: "one_letter_prefix_variable", Pinned: "fails",
		Rule: "a scope prefix variable is an identifier; one letter is enough ({b})",
		Variants: []lexVariant{one("b", "struct A {\n}\n\nscope Events prefix foo.{b} {\n  Sent: A\n}\n",
			mstruct("A"), mscope("Events", "foo.{b}", mop("Sent", idl.T("A"))))}})

	add(lexClass{Class: "newline_within_statement", Pinned: "fails",
		Rule: "Thrift is free-form: a line break (or a // comment) may separate any two tokens of a field, const or typedef",
		Variants: []lexVariant{
			one("field", "struct A {\n  1:\n    string a\n}\n", mstruct("A", mfield(1, tString, "a"))),
			one("const", "const string GREETING =\n  \"hello\"\n", mconst(tString, "GREETING", "hello")),
			one("line-comment-between-tokens", "struct A {\n  1: optional // not always there\n     string a\n}\n", mstruct("A", mreq(mfield(1, tString, "a"), idl.ReqOptional))),
		}})

	add(lexClass{Class: "const_map_semicolon_separator", Pinned: "fails",
		Rule: "entries of a constant map are separated by ',' or ';' or nothing, like list entries",
		Variants: []lexVariant{
			one("semicolon", "const map<i32,i32> M = {1: 2; 3: 4}\n", mconst(idl.MapOf(tI32, tI32), "M", []idl.KV{{Key: int64(1), Value: int64(2)}, {Key: int64(3), Value: int64(4)}})),
			one("none", "const map<i32,i32> M = {1: 2 3: 4}\n", mconst(idl.MapOf(tI32, tI32), "M", []idl.KV{{Key: int64(1), Value: int64(2)}, {Key: int64(3), Value: int64(4)}})),
		}})

	opAnn := mop("Sent", tString)
	opAnn.Ann = []idl.Annotation{{Name: "deprecated", Value: "use Sent2"}}
	add(lexClass{Class: "operation_annotation_after_base_type", Pinned: "fails",
		Rule: "the grammar's Operation rule is `name ':' FieldType TypeAnnotations?`: annotations written after the type belong to the operation whatever the type (on the pinned tree FieldType swallows them as type annotations when the type is a base or container type; ambiguity inherited from Thrift's `FieldType TypeAnnotations`, arguably by design)",
		Variants: []lexVariant{one("string", "scope Events {\n  Sent: string (deprecated = \"use Sent2\")\n}\n",
			mscope("Events", "", opAnn))}})

	add(lexClass{Class: "docstring_crlf", Pinned: "fails",
		Rule: "a /**@ docstring means the same with CRLF line ends (no '\\r' inside the comment lines)",
		Variants: []lexVariant{one("crlf", "struct A {\r\n  /**@\r\n   * line one\r\n   * line two\r\n   */\r\n  1: string a\r\n}\r\n",
			mstruct("A", mdoc(mfield(1, tString, "a"), "line one", "line two")))}})

	add(lexClass{Class: "docstring_tab_indent", Pinned: "fails",
		Rule: "the leading ' * ' decoration of docstring continuation lines is stripped whatever the indentation character",
		Variants: []lexVariant{one("tab", "struct A {\n\t/**@\n\t * line one\n\t * line two\n\t */\n\t1: string a\n}\n",
			mstruct("A", mdoc(mfield(1, tString, "a"), "line one", "line two")))}})

	// ---------------- shapes that work on the pinned tree (regression guards) ----------------

	lot := idl.T("listOfThings")
	add(lexClass{Class: "keyword_prefixed_names", Pinned: "passes",
		Rule: "names that merely start with a keyword are ordinary identifiers in every name position",
		Variants: []lexVariant{one("all-positions", `struct listOfThings {
  1: string stringList,
  2: i32 i32x,
  3: bool boolean,
  4: binary byteArray,
  5: double doubleUp,
  6: binary binaryData,
  7: i64 voidResult,
  8: i16 onewayThing,
  9: optional string optionalThing,
  10: required string requiredThing
}

enum enumerated {
  structure,
  unionized
}

exception exceptional {
  1: string includeIt
}

service servicesApi {
  listOfThings voidResult(1: listOfThings mapper, 2: enumerated setting),
  void onewayThing(),
  oneway void optionalThing(1: string requiredThing),
  string stringy() throws (1: exceptional throwsIt)
}

scope scoped prefix prefixed.{listOfThings}.{i32x} {
  includeIt: listOfThings
  stringList: string
}
`,
			mstruct("listOfThings", mfield(1, tString, "stringList"), mfield(2, tI32, "i32x"), mfield(3, tBool, "boolean"),
				mfield(4, idl.T("binary"), "byteArray"), mfield(5, idl.T("double"), "doubleUp"), mfield(6, idl.T("binary"), "binaryData"),
				mfield(7, idl.T("i64"), "voidResult"), mfield(8, idl.T("i16"), "onewayThing"),
				mreq(mfield(9, tString, "optionalThing"), idl.ReqOptional), mreq(mfield(10, tString, "requiredThing"), idl.ReqRequired)),
			menum("enumerated", mval("structure", 0), mval("unionized", 1)),
			mexception("exceptional", mfield(1, tString, "includeIt")),
			mservice("servicesApi",
				mmethod(lot, "voidResult", mfield(1, lot, "mapper"), mfield(2, idl.T("enumerated"), "setting")),
				mmethod(nil, "onewayThing"),
				&idl.Method{Name: "optionalThing", Oneway: true, Args: []*idl.Field{mfield(1, tString, "requiredThing")}},
				&idl.Method{Name: "stringy", Ret: tString, Throws: []*idl.Field{mfield(1, idl.T("exceptional"), "throwsIt")}}),
			mscope("scoped", "prefixed.{listOfThings}.{i32x}", mop("includeIt", lot), mop("stringList", tString)),
		)}})

	add(lexClass{Class: "container_prefixed_type_names", Pinned: "passes",
		Rule: "types named listOfThings / mapper / setting are identifiers (no '<' follows)",
		Variants: []lexVariant{one("types", `struct listOfThings {
}

struct mapper {
  1: listOfThings a,
  2: list<setting> b,
  3: map<string,mapper> c
}

typedef set<i32> setting

service S {
  listOfThings get(1: mapper m),
  mapper put(),
  setting all()
}
`,
			mstruct("listOfThings"),
			mstruct("mapper", mfield(1, lot, "a"), mfield(2, idl.ListOf(idl.T("setting")), "b"), mfield(3, idl.MapOf(tString, idl.T("mapper")), "c")),
			mtypedef(idl.SetOf(tI32), "setting"),
			mservice("S", mmethod(lot, "get", mfield(1, idl.T("mapper"), "m")), mmethod(idl.T("mapper"), "put"), mmethod(idl.T("setting"), "all")),
		)}})

	add(lexClass{Class: "underscores_and_digits_in_identifiers", Pinned: "passes",
		Rule: "identifiers may start with '_' and contain '_' and digits anywhere after the first character",
		Variants: []lexVariant{one("shapes", `struct _Lead {
  1: string _a,
  2: i32 b__c,
  3: bool d_,
  4: _Lead x9y8,
  5: list<With_9_digits> _
}

struct With_9_digits {
}

typedef _Lead __Alias

const i32 MAX_9 = 9

enum E_1 {
  V_1,
  _V2
}
`,
			mstruct("_Lead", mfield(1, tString, "_a"), mfield(2, tI32, "b__c"), mfield(3, tBool, "d_"), mfield(4, idl.T("_Lead"), "x9y8"), mfield(5, idl.ListOf(idl.T("With_9_digits")), "_")),
			mstruct("With_9_digits"),
			mtypedef(idl.T("_Lead"), "__Alias"),
			mconst(tI32, "MAX_9", int64(9)),
			menum("E_1", mval("V_1", 0), mval("_V2", 1)),
		)}})

	annStruct := mstruct("A", mann(mfield(1, tString, "a"), idl.Annotation{Name: "x.y", Value: "z"}, idl.Annotation{Name: "a_b.c", Value: "q"}))
	annStruct.Struct.Ann = []idl.Annotation{{Name: "go.tag", Value: "t"}}
	add(lexClass{Class: "dotted_annotation_names", Pinned: "passes",
		Rule:     "annotation names are identifiers and may contain dots",
		Variants: []lexVariant{one("dots", "struct A {\n  1: string a (x.y = \"z\", a_b.c = 'q')\n} (go.tag = \"t\")\n", annStruct)}})

	add(lexClass{Class: "mixed_separators", Pinned: "passes",
		Rule: "',' ';' or nothing may follow each field, enum value, function and list entry, mixed freely, including after the last one",
		Variants: []lexVariant{one("mixed", `struct A {
  1: string a,
  2: i32 b;
  3: bool c
  4: double d,
}

enum E {
  X,
  Y;
  Z
  W = 9;
}

service S {
  void a(1: string x; 2: i32 y 3: bool z),
  void b();
  void c()
  void d(),
}

const list<i32> L = [1, 2; 3 4]
`,
			mstruct("A", mfield(1, tString, "a"), mfield(2, tI32, "b"), mfield(3, tBool, "c"), mfield(4, idl.T("double"), "d")),
			menum("E", mval("X", 0), mval("Y", 1), mval("Z", 2), &idl.EnumValue{Name: "W", Value: 9, Explicit: true}),
			mservice("S", mmethod(nil, "a", mfield(1, tString, "x"), mfield(2, tI32, "y"), mfield(3, tBool, "z")), mmethod(nil, "b"), mmethod(nil, "c"), mmethod(nil, "d")),
			mconst(idl.ListOf(tI32), "L", []interface{}{int64(1), int64(2), int64(3), int64(4)}),
		)}})

	add(lexClass{Class: "i8_base_type", Pinned: "passes",
		Rule: "i8 is a base type (alias of byte)",
		Variants: []lexVariant{one("i8", "struct A {\n  1: i8 tiny,\n  2: list<i8> many,\n  3: map<i8,string> names\n}\n\nconst i8 SMALL = 7\n",
			mstruct("A", mfield(1, idl.T("i8"), "tiny"), mfield(2, idl.ListOf(idl.T("i8")), "many"), mfield(3, idl.MapOf(idl.T("i8"), tString), "names")),
			mconst(idl.T("i8"), "SMALL", int64(7)))}})

	nsf := mfile("w", mstruct("A"))
	nsf.Namespaces = []*idl.Namespace{{Lang: "py.twisted", Value: "foo.bar"}, {Lang: "*", Value: "baz"}, {Lang: "smalltalk.category", Value: "qux"}, {Lang: "java", Value: "com.example_1.Thing"}}
	add(lexClass{Class: "namespace_scopes_dotted_and_star", Pinned: "passes",
		Rule:     "namespace scopes such as py.twisted and * are accepted",
		Variants: []lexVariant{{Name: "scopes", Files: [][2]string{{"w.frugal", "namespace py.twisted foo.bar\nnamespace * baz\nnamespace smalltalk.category qux\nnamespace java com.example_1.Thing\n\nstruct A {\n}\n"}}, Model: []*idl.File{nsf}}}})

	add(lexClass{Class: "trailing_line_comments", Pinned: "passes",
		Rule: "a // or # comment may end any line",
		Variants: []lexVariant{one("trailing", `typedef i32 Id // the id
const i32 X = 1 # one
struct A { // after the brace
  1: i32 a, // trailing
  2: i32 b # hash
  3: i32 c /* block */
} // after
enum E {
  X1, // c
  Y1 # d
}
service S {
  void a(), // c
  void b() # d
}
`,
			mtypedef(tI32, "Id"), mconst(tI32, "X", int64(1)),
			mstruct("A", mfield(1, tI32, "a"), mfield(2, tI32, "b"), mfield(3, tI32, "c")),
			menum("E", mval("X1", 0), mval("Y1", 1)),
			mservice("S", mmethod(nil, "a"), mmethod(nil, "b")),
		)}})

	rootSub := mfile("w", mstruct("A", mfield(1, idl.T("inc.B"), "b")))
	rootSub.Includes = []*idl.Include{{Path: "sub/inc.frugal"}}
	rootThrift := mfile("w", mstruct("A", mfield(1, idl.T("base.B"), "b")))
	rootThrift.Includes = []*idl.Include{{Path: "base.thrift"}}
	baseThrift := mfile("base", mstruct("B"))
	baseThrift.Ext = ".thrift"
	add(lexClass{Class: "include_paths", Pinned: "passes",
		Rule: "an include is known by the base name of its path without the extension (sub/inc.frugal -> inc; base.thrift -> base)",
		Variants: []lexVariant{
			{Name: "subdirectory", Files: [][2]string{{"sub/inc.frugal", "struct B {\n}\n"}, {"w.frugal", "include \"sub/inc.frugal\"\n\nstruct A {\n  1: inc.B b\n}\n"}},
				Model: []*idl.File{mfile("inc", mstruct("B")), rootSub}},
			{Name: "thrift-extension", Files: [][2]string{{"base.thrift", "struct B {\n}\n"}, {"w.frugal", "include 'base.thrift'\n\nstruct A {\n  1: base.B b\n}\n"}},
				Model: []*idl.File{baseThrift, rootThrift}},
		}})

	rootDeep := mfile("w", mstruct("A", mfield(1, idl.T("deep.B"), "b"), mfield(2, idl.T("near.C"), "c")))
	rootDeep.Includes = []*idl.Include{{Path: "a/b/deep.frugal"}, {Path: "./near.frugal"}}
	out[len(out)-1].Variants = append(out[len(out)-1].Variants, lexVariant{Name: "nested-and-dot-slash",
		Files: [][2]string{{"a/b/deep.frugal", "struct B {\n}\n"}, {"near.frugal", "struct C {\n}\n"}, {"w.frugal", "include \"a/b/deep.frugal\"\ninclude \"./near.frugal\"\n\nstruct A {\n  1: deep.B b,\n  2: near.C c\n}\n"}},
		Model: []*idl.File{mfile("deep", mstruct("B")), mfile("near", mstruct("C")), rootDeep}})

	// different files of one base name in different directories
	withInc := func(f *idl.File, paths ...string) *idl.File {
		for _, p := range paths {
			f.Includes = append(f.Includes, &idl.Include{Path: p})
		}
		return f
	}
	add(lexClass{Class: "same_base_name_includes", Pinned: "passes",
		Rule: "an include path is resolved relative to the including file: two different files with the same base name in different directories are two files, and every includer gets the one of its own path",
		Variants: []lexVariant{
			{Name: "sibling-of-nested-file",
				Files: [][2]string{
					{"types.frugal", "enum Color {\n  RED\n}\n\nstruct Box {\n  1: i32 top\n}\n"},
					{"sub/types.frugal", "enum Shade {\n  DARK,\n  LIGHT\n}\n\nstruct Box {\n  1: string label,\n  2: Shade shade\n}\n"},
					{"sub/widgets.frugal", "include \"types.frugal\"\n\nstruct Widget {\n  1: types.Box box,\n  2: types.Shade shade\n}\n"},
					{"main.frugal", "include \"types.frugal\"\ninclude \"sub/widgets.frugal\"\n\nstruct Main {\n  1: types.Box box,\n  2: types.Color c,\n  3: widgets.Widget w\n}\n"},
				},
				Model: []*idl.File{
					mfile("types", menum("Color", mval("RED", 0)), mstruct("Box", mfield(1, tI32, "top"))),
					mfile("types", menum("Shade", mval("DARK", 0), mval("LIGHT", 1)), mstruct("Box", mfield(1, tString, "label"), mfield(2, idl.T("Shade"), "shade"))),
					withInc(mfile("widgets", mstruct("Widget", mfield(1, idl.T("types.Box"), "box"), mfield(2, idl.T("types.Shade"), "shade"))), "types.frugal"),
					withInc(mfile("main", mstruct("Main", mfield(1, idl.T("types.Box"), "box"), mfield(2, idl.T("types.Color"), "c"), mfield(3, idl.T("widgets.Widget"), "w"))), "types.frugal", "sub/widgets.frugal"),
				}},
			{Name: "two-directories-same-shape", // both files parse and validate whichever is served: only the tree tells
				Files: [][2]string{
					{"a/common.frugal", "struct C {\n  1: i32 a\n}\n"},
					{"b/common.frugal", "struct C {\n  1: string b\n}\n"},
					{"a/x.frugal", "include \"common.frugal\"\n\nstruct X {\n  1: common.C c\n}\n"},
					{"b/y.frugal", "include \"common.frugal\"\n\nstruct Y {\n  1: common.C c\n}\n"},
					{"main.frugal", "include \"a/x.frugal\"\ninclude \"b/y.frugal\"\n\nstruct M {\n  1: x.X x,\n  2: y.Y y\n}\n"},
				},
				Model: []*idl.File{
					mfile("common", mstruct("C", mfield(1, tI32, "a"))),
					mfile("common", mstruct("C", mfield(1, tString, "b"))),
					withInc(mfile("x", mstruct("X", mfield(1, idl.T("common.C"), "c"))), "common.frugal"),
					withInc(mfile("y", mstruct("Y", mfield(1, idl.T("common.C"), "c"))), "common.frugal"),
					withInc(mfile("main", mstruct("M", mfield(1, idl.T("x.X"), "x"), mfield(2, idl.T("y.Y"), "y"))), "a/x.frugal", "b/y.frugal"),
				}},
			{Name: "parent-directory",
				Files: [][2]string{
					{"common.frugal", "struct C {\n  1: i32 a\n}\n"},
					{"sub/common.frugal", "struct C {\n  1: string b\n}\n"},
					{"sub/deep/w.frugal", "include \"../../common.frugal\"\n\nstruct W {\n  1: common.C c\n}\n"},
					{"main.frugal", "include \"sub/common.frugal\"\ninclude \"sub/deep/w.frugal\"\n\nstruct M {\n  1: common.C c,\n  2: w.W w\n}\n"},
				},
				Model: []*idl.File{
					mfile("common", mstruct("C", mfield(1, tI32, "a"))),
					mfile("common", mstruct("C", mfield(1, tString, "b"))),
					withInc(mfile("w", mstruct("W", mfield(1, idl.T("common.C"), "c"))), "../../common.frugal"),
					withInc(mfile("main", mstruct("M", mfield(1, idl.T("common.C"), "c"), mfield(2, idl.T("w.W"), "w"))), "sub/common.frugal", "sub/deep/w.frugal"),
				}},
		}})

	add(lexClass{Class: "same_base_name_transitive_include", Pinned: "passes",
		Rule: "a cycle is a file that reaches itself: a file may transitively (or directly) include a different file that shares its base name",
		Variants: []lexVariant{
			{Name: "through-a-helper",
				Files: [][2]string{
					{"b/common.frugal", "struct K {\n}\n"},
					{"a/helpers.frugal", "include \"../b/common.frugal\"\n\nstruct H {\n  1: common.K k\n}\n"},
					{"a/common.frugal", "include \"helpers.frugal\"\n\nstruct C {\n  1: helpers.H h\n}\n"},
					{"main.frugal", "include \"a/common.frugal\"\n\nstruct M {\n  1: common.C c\n}\n"},
				},
				Model: []*idl.File{
					mfile("common", mstruct("K")),
					withInc(mfile("helpers", mstruct("H", mfield(1, idl.T("common.K"), "k"))), "../b/common.frugal"),
					withInc(mfile("common", mstruct("C", mfield(1, idl.T("helpers.H"), "h"))), "helpers.frugal"),
					withInc(mfile("main", mstruct("M", mfield(1, idl.T("common.C"), "c"))), "a/common.frugal"),
				}},
			{Name: "directly",
				Files: [][2]string{
					{"b/common.frugal", "struct K {\n  1: string b\n}\n"},
					{"a/common.frugal", "include \"../b/common.frugal\"\n\nstruct C {\n  1: common.K k\n}\n"},
					{"main.frugal", "include \"a/common.frugal\"\n\nstruct M {\n  1: common.C c\n}\n"},
				},
				Model: []*idl.File{
					mfile("common", mstruct("K", mfield(1, tString, "b"))),
					withInc(mfile("common", mstruct("C", mfield(1, idl.T("common.K"), "k"))), "../b/common.frugal"),
					withInc(mfile("main", mstruct("M", mfield(1, idl.T("common.C"), "c"))), "a/common.frugal"),
				}},
		}})

	unionDecl := &idl.Decl{Struct: &idl.Struct{Kind: idl.KindUnion, Name: "U", Fields: []*idl.Field{mfield(1, tString, "a"), mfield(2, tI32, "b"), mfield(3, tBool, "c")}}}
	add(lexClass{Class: "union_members_are_optional", Pinned: "passes",
		Rule: "every member of a union is optional, whatever requiredness keyword is written (Thrift: 'required field of union set to optional')",
		Variants: []lexVariant{
			one("keywords", "union U {\n  1: required string a,\n  2: optional i32 b,\n  3: bool c\n}\n", unionDecl),
		}})

	tdbl := idl.T("double")
	padStruct := mstruct("S",
		&idl.Field{ID: 1, Name: "a", Type: tI32, Default: int64(100)},
		&idl.Field{ID: 10, Name: "b", Req: idl.ReqOptional, Type: tI32, Default: int64(-100)},
		&idl.Field{ID: 11, Name: "c", Type: tdbl, Default: float64(7.5)})
	padSvc := mservice("V", &idl.Method{Name: "f", Args: []*idl.Field{mfield(1, tI32, "x"), mfield(9, tI32, "y")}, Throws: []*idl.Field{mfield(1, idl.T("X"), "e")}})
	add(lexClass{Class: "zero_padded_integers", Pinned: "passes",
		Rule: "Thrift integers are decimal ([+-]?[0-9]+ read base 10): leading zeros change nothing, 010 is ten and 09 is nine, in constant values, list / map elements, enum values, field ids, defaults and exponents of doubles",
		Variants: []lexVariant{one("everywhere", `const i32 ZIP = 010
const i32 NEG = -0012
const i64 NINE = 09
const i32 P = +007
const list<i32> CODES = [007, 010, 0089, 100]
const map<i32,i32> M = {01: 010, 002: -03}
const double D = 1.5e08
const double E = 01.50
const double F = -00.25E-03
const double G = 2.5e+007

enum E1 {
  LOW = 001,
  MID = 010,
  HIGH
}

exception X {
}

struct S {
  01: i32 a = 0100,
  010: optional i32 b = -0100,
  0011: double c = 007.5
}

service V {
  void f(01: i32 x, 09: i32 y) throws (001: X e)
}
`,
			mconst(tI32, "ZIP", int64(10)), mconst(tI32, "NEG", int64(-12)), mconst(idl.T("i64"), "NINE", int64(9)), mconst(tI32, "P", int64(7)),
			mconst(idl.ListOf(tI32), "CODES", []interface{}{int64(7), int64(10), int64(89), int64(100)}),
			mconst(idl.MapOf(tI32, tI32), "M", []idl.KV{{Key: int64(1), Value: int64(10)}, {Key: int64(2), Value: int64(-3)}}),
			mconst(tdbl, "D", float64(1.5e8)), mconst(tdbl, "E", float64(1.5)), mconst(tdbl, "F", float64(-0.25e-3)), mconst(tdbl, "G", float64(2.5e7)),
			menum("E1", &idl.EnumValue{Name: "LOW", Value: 1, Explicit: true}, &idl.EnumValue{Name: "MID", Value: 10, Explicit: true}, mval("HIGH", 11)),
			mexception("X"), padStruct, padSvc,
		)}})

	crModel := func() []*idl.Decl {
		opt := mreq(mfield(2, idl.ListOf(tString), "names"), idl.ReqOptional)
		return []*idl.Decl{
			menum("Kind", mval("PLAIN", 0), &idl.EnumValue{Name: "FANCY", Value: 5, Explicit: true}, mval("OTHER", 6)),
			mstruct("Item", &idl.Field{ID: 1, Name: "id", Type: tI32, Default: int64(7)}, opt),
			mservice("Api", mmethod(idl.T("Item"), "get", mfield(1, tI32, "id"), mfield(2, idl.T("Kind"), "kind"))),
		}
	}
	crText := "enum Kind {\n  PLAIN,\n  FANCY = 5,\n  OTHER\n}\n\nstruct Item {\n  1: i32 id = 7,\n  2: optional list<string> names\n}\n\nservice Api {\n  Item get(1: i32 id, 2: Kind kind)\n}\n"
	add(lexClass{Class: "bare_cr_whitespace", Pinned: "passes",
		Rule: "a carriage return is plain white space wherever it stands (Thrift's lexer skips [ \\t\\r\\n]*), not only directly in front of a line feed",
		Variants: []lexVariant{
			one("crcrlf-line-ends", strings.ReplaceAll(crText, "\n", "\r\r\n"), crModel()...),
			one("before-indentation", strings.ReplaceAll(crText, "\n  ", "\n\r  "), crModel()...),
			one("after-colon-and-comma", strings.ReplaceAll(strings.ReplaceAll(crText, ": ", ":\r"), ", ", ",\r"), crModel()...),
			one("cr-only-inside-bodies", strings.ReplaceAll(crText, "\n  ", "\r  "), crModel()...),
			one("between-all-tokens", strings.ReplaceAll(crText, " ", "\r"), crModel()...),
		}})

	td := idl.T("double")
	add(lexClass{Class: "numeric_constant_forms", Pinned: "passes",
		Rule: "signed integers, doubles with fraction and exponent, leading or trailing '.'",
		Variants: []lexVariant{one("numbers", "const double A = 1.5e3\nconst double B = 1.5E-3\nconst double C = -0.5\nconst double D = .5\nconst double E = 5.\nconst i32 F = +5\nconst i64 G = -9223372036854775808\n",
			mconst(td, "A", float64(1500)), mconst(td, "B", float64(0.0015)), mconst(td, "C", float64(-0.5)), mconst(td, "D", float64(0.5)), mconst(td, "E", float64(5)),
			mconst(tI32, "F", int64(5)), mconst(idl.T("i64"), "G", int64(-9223372036854775808)))}})

	add(lexClass{Class: "constant_container_forms", Pinned: "passes",
		Rule: "trailing separators, ';' and no separators in lists, nested and empty containers, both quote styles",
		Variants: []lexVariant{one("containers", "const list<i32> L = [1, 2,]\nconst map<i32,i32> M = {1: 2,}\nconst list<string> S = ['a'; \"b\" 'c']\nconst map<string,list<i32>> N = {\"k\": [1, 2], 'j': []}\nconst map<i32,i32> EMPTY = {}\nconst string Q = 'it\\'s \"quoted\"'\n",
			mconst(idl.ListOf(tI32), "L", []interface{}{int64(1), int64(2)}),
			mconst(idl.MapOf(tI32, tI32), "M", []idl.KV{{Key: int64(1), Value: int64(2)}}),
			mconst(idl.ListOf(tString), "S", []interface{}{"a", "b", "c"}),
			mconst(idl.MapOf(tString, idl.ListOf(tI32)), "N", []idl.KV{{Key: "k", Value: []interface{}{int64(1), int64(2)}}, {Key: "j", Value: []interface{}{}}}),
			mconst(idl.MapOf(tI32, tI32), "EMPTY", []idl.KV{}),
			mconst(tString, "Q", "it's \"quoted\""),
		)}})

	docEnum := menum("E", &idl.EnumValue{Name: "X", Value: 0, Comment: []string{"first"}}, mval("Y", 1))
	docEnum.Enum.Comment = []string{"A real docstring."}
	add(lexClass{Class: "comment_kinds_mixed_in_one_file", Pinned: "passes",
		Rule: "//, #, /* */, multi-line and /** */ comments are whitespace wherever whitespace with a line break is allowed; /**@ */ is a docstring",
		Variants: []lexVariant{one("comments", `// line comment
# hash comment
/* block comment */
/*
 * multi-line block
 */
/** javadoc-looking, not a docstring */
struct A { // after brace
  # before field
  1: string a, /* after sep */
  /* before */ 2: i32 b
  // last
}
/**@ A real docstring. */
enum E {
  /**@ first */
  X, // x
  # hash
  Y
}
`,
			mstruct("A", mfield(1, tString, "a"), mfield(2, tI32, "b")), docEnum)}})

	return out
}
