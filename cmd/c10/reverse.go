package main

import (
	"fmt"
	"path/filepath"
	"strings"

	"github.com/Workiva/frugal/compiler/parser"

	"verif/idl"
)

// reverseFile maps the compiler's parse tree of one file back to an idl.File
// (declarations grouped by kind, enum values all explicit), so that it can be
// rendered again: render(parse(text)) must parse to the same dump.
func reverseFile(f *parser.Frugal) (*idl.File, error) {
	base := filepath.Base(f.Path)
	ext := filepath.Ext(base)
	out := &idl.File{Base: strings.TrimSuffix(base, ext), Ext: ext}
	for _, i := range f.Includes {
		out.Includes = append(out.Includes, &idl.Include{Path: i.Value})
	}
	for _, n := range f.Namespaces {
		out.Namespaces = append(out.Namespaces, &idl.Namespace{Lang: n.Scope, Value: n.Value})
	}
	var err error
	typ := func(t *parser.Type) *idl.Type {
		r, e := reverseType(t)
		if e != nil && err == nil {
			err = e
		}
		return r
	}
	val := func(v interface{}) interface{} {
		r, e := reverseValue(v)
		if e != nil && err == nil {
			err = e
		}
		return r
	}
	fields := func(fs []*parser.Field, forced bool) []*idl.Field {
		var o []*idl.Field
		for _, x := range fs {
			req := idl.ReqDefault
			switch x.Modifier {
			case parser.Required:
				req = idl.ReqRequired
			case parser.Optional:
				req = idl.ReqOptional
			}
			if forced { // union members / thrown exceptions: the keyword is implied
				req = idl.ReqDefault
			}
			nf := &idl.Field{Comment: x.Comment, ID: x.ID, Name: x.Name, Req: req, Type: typ(x.Type), Ann: reverseAnn(x.Annotations)}
			if x.Default != nil {
				nf.Default = val(x.Default)
			}
			o = append(o, nf)
		}
		return o
	}
	for _, e := range f.Enums {
		ne := &idl.Enum{Comment: e.Comment, Name: e.Name, Ann: reverseAnn(e.Annotations)}
		for _, v := range e.Values {
			ne.Values = append(ne.Values, &idl.EnumValue{Comment: v.Comment, Name: v.Name, Value: v.Value, Explicit: true, Ann: reverseAnn(v.Annotations)})
		}
		out.Decls = append(out.Decls, &idl.Decl{Enum: ne})
	}
	for _, t := range f.Typedefs {
		out.Decls = append(out.Decls, &idl.Decl{TypeDef: &idl.TypeDef{Comment: t.Comment, Name: t.Name, Type: typ(t.Type), Ann: reverseAnn(t.Annotations)}})
	}
	for _, c := range f.Constants {
		out.Decls = append(out.Decls, &idl.Decl{Const: &idl.Const{Comment: c.Comment, Name: c.Name, Type: typ(c.Type), Value: val(c.Value), Ann: reverseAnn(c.Annotations)}})
	}
	sl := func(list []*parser.Struct, kind string) {
		for _, s := range list {
			out.Decls = append(out.Decls, &idl.Decl{Struct: &idl.Struct{Kind: kind, Comment: s.Comment, Name: s.Name, Fields: fields(s.Fields, kind == idl.KindUnion), Ann: reverseAnn(s.Annotations)}})
		}
	}
	sl(f.Structs, idl.KindStruct)
	sl(f.Unions, idl.KindUnion)
	sl(f.Exceptions, idl.KindException)
	for _, s := range f.Services {
		ns := &idl.Service{Comment: s.Comment, Name: s.Name, Extends: s.Extends, Ann: reverseAnn(s.Annotations)}
		for _, m := range s.Methods {
			nm := &idl.Method{Comment: m.Comment, Name: m.Name, Oneway: m.Oneway, Args: fields(m.Arguments, false), Throws: fields(m.Exceptions, true), Ann: reverseAnn(m.Annotations)}
			if m.ReturnType != nil {
				nm.Ret = typ(m.ReturnType)
			}
			ns.Methods = append(ns.Methods, nm)
		}
		out.Decls = append(out.Decls, &idl.Decl{Service: ns})
	}
	for _, s := range f.Scopes {
		ns := &idl.Scope{Comment: s.Comment, Name: s.Name, Ann: reverseAnn(s.Annotations)}
		if s.Prefix != nil {
			ns.Prefix = s.Prefix.String
		}
		for _, o := range s.Operations {
			ns.Ops = append(ns.Ops, &idl.Operation{Comment: o.Comment, Name: o.Name, Type: typ(o.Type), Ann: reverseAnn(o.Annotations)})
		}
		out.Decls = append(out.Decls, &idl.Decl{Scope: ns})
	}
	return out, err
}

func reverseAnn(a parser.Annotations) []idl.Annotation {
	var out []idl.Annotation
	for _, x := range a {
		if x != nil {
			out = append(out, idl.Annotation{Name: x.Name, Value: x.Value})
		}
	}
	return out
}

func reverseType(t *parser.Type) (*idl.Type, error) {
	if t == nil {
		return nil, fmt.Errorf("nil type in the parse tree")
	}
	if hasOwnAnnotations(t) {
		return nil, fmt.Errorf("type expression %s carries annotations, which the model cannot express", t.String())
	}
	switch t.Name {
	case "map":
		k, err := reverseType(t.KeyType)
		if err != nil {
			return nil, err
		}
		v, err := reverseType(t.ValueType)
		if err != nil {
			return nil, err
		}
		return idl.MapOf(k, v), nil
	case "list", "set":
		v, err := reverseType(t.ValueType)
		if err != nil {
			return nil, err
		}
		if t.Name == "list" {
			return idl.ListOf(v), nil
		}
		return idl.SetOf(v), nil
	}
	return idl.T(t.Name), nil
}

func hasOwnAnnotations(t *parser.Type) bool { return len(t.Annotations) > 0 }

func reverseValue(v interface{}) (interface{}, error) {
	switch x := v.(type) {
	case parser.Identifier:
		return idl.Ident(string(x)), nil
	case []parser.KeyValue:
		out := []idl.KV{}
		for _, kv := range x {
			k, err := reverseValue(kv.Key)
			if err != nil {
				return nil, err
			}
			val, err := reverseValue(kv.Value)
			if err != nil {
				return nil, err
			}
			out = append(out, idl.KV{Key: k, Value: val})
		}
		return out, nil
	case []interface{}:
		out := []interface{}{}
		for _, e := range x {
			r, err := reverseValue(e)
			if err != nil {
				return nil, err
			}
			out = append(out, r)
		}
		return out, nil
	case int64, float64, string, bool:
		return x, nil
	}
	return nil, fmt.Errorf("unexpected constant value %T in the parse tree", v)
}
