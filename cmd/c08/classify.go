package main

import (
	"strings"
)

// refParts is the documented topic of one (scope, op, delimiter, values).
type refParts struct {
	HasPrefix bool
	Tokens    []tok
	Values    []string
	Scope     string
	Delim     string
	Op        string
}

// substituted returns the prefix with the i-th variable replaced by vals[i];
// the '.' between the tokens is the one written in the IDL (kept verbatim:
// see the assumption recorded in the evidence).
func (r *refParts) substituted(vals []string) string {
	var parts []string
	vi := 0
	for _, t := range r.Tokens {
		if t.Var {
			parts = append(parts, vals[vi])
			vi++
		} else {
			parts = append(parts, t.Text)
		}
	}
	return strings.Join(parts, ".")
}

func (r *refParts) head() string {
	if !r.HasPrefix {
		return ""
	}
	return r.substituted(r.Values) + r.Delim
}

// Topic is prefix ⊕ delim ⊕ scope ⊕ delim ⊕ op, no leading part for an empty prefix.
func (r *refParts) Topic() string { return r.head() + r.Scope + r.Delim + r.Op }

type deviation struct{ Component, Detail string }

var delimCandidates = []string{".", "/", "-", "_", ":", "|", "%"}

func delimDetail(c string) string {
	switch c {
	case ".":
		return "dot-instead-of-delimiter"
	case "":
		return "missing"
	}
	return "wrong-delimiter"
}

func caseDetail(want, got string) string {
	switch {
	case want != "" && strings.ToLower(want[:1]) == want[:1] && got == upperFirst(want):
		return "lowercase-first-title-cased"
	case got == strings.ToLower(want):
		return "lower-cased"
	case got == strings.ToUpper(want):
		return "upper-cased"
	}
	return "other-case"
}

func permutations(n int) [][]int {
	var out [][]int
	var rec func(cur []int, used []bool)
	rec = func(cur []int, used []bool) {
		if len(cur) == n {
			out = append(out, append([]int(nil), cur...))
			return
		}
		for i := 0; i < n; i++ {
			if !used[i] {
				used[i] = true
				rec(append(cur, i), used)
				used[i] = false
			}
		}
	}
	rec(nil, make([]bool, n))
	return out
}

// classify says which components of the observed topic differ from the
// reference (nil = equal).
func classify(r *refParts, got string) []deviation {
	if got == r.Topic() {
		return nil
	}
	if len(got) < len(r.Op) || !strings.EqualFold(got[len(got)-len(r.Op):], r.Op) {
		return []deviation{{"other", "operation-name-not-last"}}
	}
	ox := got[len(got)-len(r.Op):]
	rest := got[:len(got)-len(r.Op)]
	cands := append([]string{r.Delim}, delimCandidates...)
	cands = append(cands, "")
	found := false
	var c, sx, head string
	for _, cand := range cands {
		if !strings.HasSuffix(rest, cand) {
			continue
		}
		before := rest[:len(rest)-len(cand)]
		if len(before) >= len(r.Scope) && strings.EqualFold(before[len(before)-len(r.Scope):], r.Scope) {
			c, sx, head, found = cand, before[len(before)-len(r.Scope):], before[:len(before)-len(r.Scope)], true
			break
		}
	}
	if !found {
		return []deviation{{"other", "scope-name-not-before-operation"}}
	}
	var devs []deviation
	if ox != r.Op {
		devs = append(devs, deviation{"op-name", caseDetail(r.Op, ox)})
	}
	if c != r.Delim {
		devs = append(devs, deviation{"delimiter-between-scope-and-op", delimDetail(c)})
	}
	if sx != r.Scope {
		devs = append(devs, deviation{"scope-name-case", caseDetail(r.Scope, sx)})
	}
	want := r.head()
	if head == want {
		return devs
	}
	if !r.HasPrefix {
		for _, d := range delimCandidates {
			if head == d {
				return append(devs, deviation{"leading-delimiter", "empty-prefix"})
			}
		}
		return append(devs, deviation{"prefix-substitution", "text-before-scope-for-empty-prefix"})
	}
	if head == "" {
		return append(devs, deviation{"prefix-substitution", "prefix-missing"})
	}
	if n := len(r.Values); n > 1 && n <= 4 {
		for _, p := range permutations(n) {
			vals := make([]string, n)
			for i, j := range p {
				vals[i] = r.Values[j]
			}
			if s := r.substituted(vals) + r.Delim; s != want && s == head {
				return append(devs, deviation{"variable-order", "permuted"})
			}
		}
	}
	sub := r.substituted(r.Values)
	for _, d := range append(append([]string{}, delimCandidates...), "") {
		if d != r.Delim && head == sub+d {
			return append(devs, deviation{"delimiter-after-prefix", delimDetail(d)})
		}
	}
	for _, d := range delimCandidates {
		if head == d+want {
			return append(devs, deviation{"leading-delimiter", "before-prefix"})
		}
	}
	// dots inside the prefix replaced by the delimiter?
	if r.Delim != "." && head == strings.ReplaceAll(sub, ".", r.Delim)+r.Delim {
		return append(devs, deviation{"prefix-substitution", "prefix-dots-replaced-by-delimiter"})
	}
	if strings.Contains(head, "%!") {
		// text produced by Go's fmt for a malformed verb ("%!(NOVERB)", "%!.(string=...")
		return append(devs, deviation{"prefix-substitution", "fmt-bad-verb-text-in-topic"})
	}
	return append(devs, deviation{"prefix-substitution", "other"})
}

// errSlug turns "kind: details" into a signature-safe slug of the kind.
func errSlug(err string) string {
	k := err
	if i := strings.Index(k, ":"); i >= 0 {
		k = k[:i]
	}
	var b strings.Builder
	for _, r := range strings.ToLower(k) {
		switch {
		case r >= 'a' && r <= 'z', r >= '0' && r <= '9':
			b.WriteRune(r)
		default:
			if b.Len() > 0 && !strings.HasSuffix(b.String(), "-") {
				b.WriteByte('-')
			}
		}
	}
	s := strings.Trim(b.String(), "-")
	if len(s) > 80 {
		s = s[:80]
	}
	if s == "" {
		s = "error"
	}
	return s
}
