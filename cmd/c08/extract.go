package main

import (
	"fmt"
	"os"
	"regexp"
	"strconv"
	"strings"
	"unicode"
)

// site is one place of an emitted Java or Dart file where a topic is built:
// the expressions bound to op, prefix, topic and the delimiter constant, and
// the String parameters of the enclosing method (the prefix variables).
type site struct {
	Lang                                  string
	File                                  string
	Line                                  int
	Kind                                  string // pub | sub | sub2
	Method                                string // the method name after publish / subscribe / _publish
	Params                                []string
	Op                                    string
	Prefix                                string
	Topic                                 string
	Delim                                 string
	HasOp, HasPrefix, HasDelim, HasHeader bool
}

// evalStatus of an evaluated expression.
const (
	stOK           = iota
	stThrows       // evaluating it at run time certainly throws
	stCompileError // the expression certainly does not compile
	stUnknown      // shape not understood: inconclusive
)

type evalResult struct {
	Status int
	Value  string
	Msg    string
	Stage  string // op | prefix | topic | delimiter
}

func rhs(line, marker string) (string, bool) {
	i := strings.Index(line, marker)
	if i < 0 {
		return "", false
	}
	s := strings.TrimSpace(line[i+len(marker):])
	if !strings.HasSuffix(s, ";") {
		return s, true // evaluator will call it an unknown shape
	}
	return strings.TrimSpace(strings.TrimSuffix(s, ";")), true
}

var (
	javaHeader = regexp.MustCompile(`^\s*public\s+(?:void|FSubscription)\s+(publish|subscribe)(\w+)\s*\(([^)]*)\)`)
	javaStrPar = regexp.MustCompile(`^(?:final\s+)?String\s+(\w+)$`)
	dartHeader = regexp.MustCompile(`^\s*Future(?:<[^>]*>)?\s+(_publish|subscribe)(\w+)\s*\(([^)]*)`)
	dartStrPar = regexp.MustCompile(`^String\s+(\w+)$`)
)

// extractJava scans one emitted Java file.
func extractJava(path string) ([]site, error) {
	b, err := os.ReadFile(path)
	if err != nil {
		return nil, err
	}
	var out []site
	var cur site
	delim, hasDelim := "", false
	for i, line := range strings.Split(string(b), "\n") {
		if e, ok := rhs(line, "static final String DELIMITER ="); ok {
			delim, hasDelim = e, true
			continue
		}
		if m := javaHeader.FindStringSubmatch(line); m != nil {
			cur = site{Lang: "java", File: path, HasHeader: true, Method: m[2]}
			cur.Kind = "pub"
			parts := splitParams(m[3])
			if m[1] == "subscribe" {
				cur.Kind = "sub"
				if len(parts) > 0 && strings.Contains(parts[len(parts)-1], "ThrowableHandler ") && strings.HasSuffix(m[2], "Throwable") {
					cur.Kind = "sub2"
				}
			}
			if len(parts) > 0 {
				parts = parts[:len(parts)-1] // payload / handler
			}
			if len(parts) > 0 && strings.HasPrefix(parts[0], "FContext ") {
				parts = parts[1:]
			}
			for _, p := range parts {
				if pm := javaStrPar.FindStringSubmatch(p); pm != nil {
					cur.Params = append(cur.Params, pm[1])
				} else {
					cur.Params = append(cur.Params, "?"+p)
				}
			}
			continue
		}
		if e, ok := rhs(line, "String op ="); ok {
			cur.Op, cur.HasOp = e, true
			continue
		}
		if e, ok := rhs(line, "String prefix ="); ok {
			cur.Prefix, cur.HasPrefix = e, true
			continue
		}
		if e, ok := rhs(line, "String topic ="); ok {
			s := cur
			s.Topic, s.Line = e, i+1
			s.Delim, s.HasDelim = delim, hasDelim
			out = append(out, s)
			cur.HasOp, cur.HasPrefix = false, false
		}
	}
	return out, nil
}

// extractDart scans one emitted Dart scope file.
func extractDart(path string) ([]site, error) {
	b, err := os.ReadFile(path)
	if err != nil {
		return nil, err
	}
	var out []site
	var cur site
	delim, hasDelim := "", false
	for i, line := range strings.Split(string(b), "\n") {
		if e, ok := rhs(line, "const String delimiter ="); ok {
			delim, hasDelim = e, true
			continue
		}
		if m := dartHeader.FindStringSubmatch(line); m != nil {
			cur = site{Lang: "dart", File: path, HasHeader: true, Kind: "pub", Method: m[2]}
			parts := splitParams(m[3])
			if m[1] == "subscribe" {
				cur.Kind = "sub"
				for j, p := range parts {
					if strings.HasPrefix(p, "dynamic ") {
						parts = parts[:j]
						break
					}
				}
			} else if len(parts) > 0 {
				parts = parts[:len(parts)-1] // payload
			}
			if len(parts) > 0 && strings.HasSuffix(parts[0], "FContext ctx") {
				parts = parts[1:]
			}
			for _, p := range parts {
				if pm := dartStrPar.FindStringSubmatch(p); pm != nil {
					cur.Params = append(cur.Params, pm[1])
				} else {
					cur.Params = append(cur.Params, "?"+p)
				}
			}
			continue
		}
		if e, ok := rhs(line, "var op ="); ok {
			cur.Op, cur.HasOp = e, true
			continue
		}
		if e, ok := rhs(line, "var prefix ="); ok {
			cur.Prefix, cur.HasPrefix = e, true
			continue
		}
		if e, ok := rhs(line, "var topic ="); ok {
			s := cur
			s.Topic, s.Line = e, i+1
			s.Delim, s.HasDelim = delim, hasDelim
			out = append(out, s)
			cur.HasOp, cur.HasPrefix = false, false
		}
	}
	return out, nil
}

func splitParams(s string) []string {
	var out []string
	for _, p := range strings.Split(s, ",") {
		p = strings.TrimSpace(p)
		if p != "" {
			out = append(out, p)
		}
	}
	return out
}

// ---------------------------------------------------------------- Java

// javaLiteral parses a Java string literal at the start of s; returns the
// value, the rest, and a status.
func javaLiteral(s string) (string, string, int, string) {
	if !strings.HasPrefix(s, `"`) {
		return "", s, stUnknown, "not a string literal"
	}
	var b strings.Builder
	i := 1
	for i < len(s) {
		c := s[i]
		switch {
		case c == '"':
			return b.String(), s[i+1:], stOK, ""
		case c == '\\':
			if i+1 >= len(s) {
				return "", "", stCompileError, "unterminated string literal"
			}
			e := s[i+1]
			switch e {
			case 'b':
				b.WriteByte('\b')
			case 't':
				b.WriteByte('\t')
			case 'n':
				b.WriteByte('\n')
			case 'f':
				b.WriteByte('\f')
			case 'r':
				b.WriteByte('\r')
			case 's':
				b.WriteByte(' ')
			case '"', '\'', '\\':
				b.WriteByte(e)
			case 'u', '0', '1', '2', '3', '4', '5', '6', '7':
				return "", "", stUnknown, "unicode/octal escape in Java literal not modelled"
			default:
				return "", "", stCompileError, fmt.Sprintf("illegal escape character \\%c in Java string literal", e)
			}
			i += 2
		default:
			b.WriteByte(c)
			i++
		}
	}
	return "", "", stCompileError, "unterminated Java string literal"
}

var javaSpec = regexp.MustCompile(`^%(\d+\$)?([-#+ 0,(<]*)?(\d+)?(\.\d+)?([tT])?([a-zA-Z%])`)

// javaFormat models java.lang.String.format for String arguments: %s, %%, %n
// exactly; every malformed specifier throws as java.util.Formatter does; a
// well-formed specifier other than those three is not modelled (unknown).
func javaFormat(f string, args []string) (string, int, string) {
	var b strings.Builder
	next := 0
	for i := 0; i < len(f); {
		if f[i] != '%' {
			b.WriteByte(f[i])
			i++
			continue
		}
		m := javaSpec.FindStringSubmatch(f[i:])
		if m == nil {
			bad := "%"
			if i+1 < len(f) {
				bad = string(f[i+1])
			}
			return "", stThrows, fmt.Sprintf("java.util.UnknownFormatConversionException: Conversion = '%s' (format %q)", bad, f)
		}
		plain := m[1] == "" && m[2] == "" && m[3] == "" && m[4] == "" && m[5] == ""
		switch {
		case m[6] == "s" && plain:
			if next >= len(args) {
				return "", stThrows, fmt.Sprintf("java.util.MissingFormatArgumentException: Format specifier '%%s' (format %q, %d arguments)", f, len(args))
			}
			b.WriteString(args[next])
			next++
		case m[6] == "%" && plain:
			b.WriteByte('%')
		case m[6] == "n" && plain:
			b.WriteByte('\n')
		case m[6] == "d" && plain, m[6] == "f" && plain, m[6] == "x" && plain, m[6] == "e" && plain, m[6] == "c" && plain, m[6] == "o" && plain, m[6] == "g" && plain, m[6] == "a" && plain:
			if next >= len(args) {
				return "", stThrows, fmt.Sprintf("java.util.MissingFormatArgumentException: Format specifier '%%%s' (format %q)", m[6], f)
			}
			return "", stThrows, fmt.Sprintf("java.util.IllegalFormatConversionException: %s != java.lang.String (format %q)", m[6], f)
		default:
			return "", stUnknown, fmt.Sprintf("Java format specifier %q not modelled", m[0])
		}
		i += len(m[0])
	}
	return b.String(), stOK, ""
}

// evalJava evaluates the tiny expression language of the emitted Java:
// string literal | identifier | String.format(expr, expr...).
func evalJava(expr string, env map[string]string) evalResult {
	v, rest, st, msg := evalJavaExpr(strings.TrimSpace(expr), env)
	if st != stOK {
		return evalResult{Status: st, Msg: msg}
	}
	if strings.TrimSpace(rest) != "" {
		return evalResult{Status: stUnknown, Msg: "text after the expression: " + shapeOf(rest)}
	}
	return evalResult{Status: stOK, Value: v}
}

func evalJavaExpr(s string, env map[string]string) (string, string, int, string) {
	s = strings.TrimLeft(s, " \t")
	switch {
	case strings.HasPrefix(s, `"`):
		return javaLiteral(s)
	case strings.HasPrefix(s, "String.format("):
		s = s[len("String.format("):]
		var vals []string
		for {
			v, rest, st, msg := evalJavaExpr(s, env)
			if st != stOK {
				return "", "", st, msg
			}
			vals = append(vals, v)
			rest = strings.TrimLeft(rest, " \t")
			if strings.HasPrefix(rest, ",") {
				s = rest[1:]
				continue
			}
			if strings.HasPrefix(rest, ")") {
				out, st, msg := javaFormat(vals[0], vals[1:])
				return out, rest[1:], st, msg
			}
			return "", "", stUnknown, "String.format argument list: " + shapeOf(rest)
		}
	default:
		j := 0
		for j < len(s) && (s[j] == '_' || s[j] == '$' || unicode.IsLetter(rune(s[j])) || (j > 0 && unicode.IsDigit(rune(s[j])))) {
			j++
		}
		if j == 0 {
			return "", "", stUnknown, "expression: " + shapeOf(s)
		}
		v, ok := env[s[:j]]
		if !ok {
			return "", "", stCompileError, "cannot find symbol " + s[:j]
		}
		return v, s[j:], stOK, ""
	}
}

// ---------------------------------------------------------------- Dart

// evalDart evaluates a single-quoted Dart string literal with $name and
// ${name} interpolation.
func evalDart(expr string, env map[string]string) evalResult {
	s := strings.TrimSpace(expr)
	if !strings.HasPrefix(s, "'") {
		return evalResult{Status: stUnknown, Msg: "expression: " + shapeOf(s)}
	}
	var b strings.Builder
	i := 1
	isStart := func(c byte) bool { return c == '_' || (c >= 'a' && c <= 'z') || (c >= 'A' && c <= 'Z') }
	isPart := func(c byte) bool { return isStart(c) || (c >= '0' && c <= '9') }
	for i < len(s) {
		c := s[i]
		switch {
		case c == '\'':
			if rest := strings.TrimSpace(s[i+1:]); rest != "" {
				return evalResult{Status: stUnknown, Msg: "text after the string literal: " + shapeOf(rest)}
			}
			return evalResult{Status: stOK, Value: b.String()}
		case c == '\\':
			if i+1 >= len(s) {
				return evalResult{Status: stCompileError, Msg: "unterminated Dart string literal"}
			}
			e := s[i+1]
			switch e {
			case 'n':
				b.WriteByte('\n')
			case 'r':
				b.WriteByte('\r')
			case 'f':
				b.WriteByte('\f')
			case 'b':
				b.WriteByte('\b')
			case 't':
				b.WriteByte('\t')
			case 'v':
				b.WriteByte('\v')
			case 'x', 'u':
				return evalResult{Status: stUnknown, Msg: "hex/unicode escape in Dart literal not modelled"}
			default:
				b.WriteByte(e) // Dart: \k is k for every other k
			}
			i += 2
		case c == '$':
			if i+1 < len(s) && s[i+1] == '{' {
				j := strings.IndexByte(s[i:], '}')
				if j < 0 {
					return evalResult{Status: stCompileError, Msg: "unterminated ${ in Dart string literal"}
				}
				name := s[i+2 : i+j]
				v, ok := env[name]
				if !ok {
					if !isIdent(name) {
						return evalResult{Status: stUnknown, Msg: "interpolated expression not modelled: " + shapeOf(name)}
					}
					return evalResult{Status: stCompileError, Msg: "Dart: undefined name '" + name + "' in string interpolation"}
				}
				b.WriteString(v)
				i += j + 1
				continue
			}
			j := i + 1
			if j >= len(s) || !isStart(s[j]) {
				return evalResult{Status: stCompileError, Msg: "Dart: '$' in a string literal must be followed by an identifier or '{' (a literal dollar needs a backslash)"}
			}
			for j < len(s) && isPart(s[j]) {
				j++
			}
			name := s[i+1 : j]
			v, ok := env[name]
			if !ok {
				return evalResult{Status: stCompileError, Msg: "Dart: undefined name '" + name + "' in string interpolation"}
			}
			b.WriteString(v)
			i = j
		default:
			b.WriteByte(c)
			i++
		}
	}
	return evalResult{Status: stCompileError, Msg: "unterminated Dart string literal"}
}

func isIdent(s string) bool {
	if s == "" {
		return false
	}
	for i := 0; i < len(s); i++ {
		c := s[i]
		if !(c == '_' || (c >= 'a' && c <= 'z') || (c >= 'A' && c <= 'Z') || (i > 0 && c >= '0' && c <= '9')) {
			return false
		}
	}
	return true
}

// shapeOf abstracts an unknown expression: letters -> a, digits -> 9, the
// punctuation kept, runs collapsed, so that shapes can be counted.
func shapeOf(s string) string {
	var b strings.Builder
	var last rune
	for _, r := range s {
		switch {
		case unicode.IsLetter(r):
			r = 'a'
		case unicode.IsDigit(r):
			r = '9'
		case unicode.IsSpace(r):
			r = ' '
		}
		if r == last && (r == 'a' || r == '9' || r == ' ') {
			continue
		}
		b.WriteRune(r)
		last = r
	}
	out := b.String()
	if len(out) > 60 {
		out = out[:60] + "…"
	}
	return strconv.Quote(out)
}

// evalSite computes the topic of one site for one tuple of variable values.
func evalSite(s *site, vars []string, values []string) (opName string, res evalResult) {
	base := evalJava
	delimName := "DELIMITER"
	if s.Lang == "dart" {
		base = evalDart
		delimName = "delimiter"
	}
	// an expression the evaluator does not understand is inconclusive unless
	// it is certainly broken by a quote character pasted from the prefix
	eval := func(expr string, env map[string]string) evalResult {
		r := base(expr, env)
		if r.Status == stUnknown {
			if broken, why := brokenByQuote(s.Lang, expr); broken {
				return evalResult{Status: stCompileError, Msg: why + " (" + expr + ")"}
			}
		}
		return r
	}
	if !s.HasOp || !s.HasPrefix || !s.HasDelim || !s.HasHeader {
		return "", evalResult{Status: stUnknown, Msg: fmt.Sprintf("topic statement without op/prefix/delimiter/method header nearby (op=%v prefix=%v delimiter=%v header=%v)", s.HasOp, s.HasPrefix, s.HasDelim, s.HasHeader), Stage: "topic"}
	}
	env := map[string]string{}
	d := eval(s.Delim, env)
	if d.Status != stOK {
		d.Stage = "delimiter"
		return "", d
	}
	env[delimName] = d.Value
	// parameters are bound BY NAME, as a caller does who reads the emitted
	// signature: the parameter called like a prefix variable receives that
	// variable's value, whatever its position
	byName := map[string]string{}
	for i, v := range vars {
		if i < len(values) {
			byName[v] = values[i]
		}
	}
	var strangers []string
	for _, p := range s.Params {
		if strings.HasPrefix(p, "?") {
			return "", evalResult{Status: stUnknown, Msg: "non-String parameter before the payload: " + shapeOf(p[1:]), Stage: "topic"}
		}
		if v, ok := byName[p]; ok {
			env[p] = v
		} else {
			strangers = append(strangers, p)
		}
	}
	o := eval(s.Op, env)
	if o.Status != stOK {
		o.Stage = "op"
		return "", o
	}
	if len(s.Params) != len(values) {
		return o.Value, evalResult{Status: stCompileError, Msg: fmt.Sprintf("emitted method takes %d String parameters %v, the scope declares %d prefix variables", len(s.Params), s.Params, len(vars)), Stage: "prefix"}
	}
	if len(strangers) > 0 {
		return o.Value, evalResult{Status: stCompileError, Msg: fmt.Sprintf("emitted method takes String parameters %v, %v are not prefix variables of the scope %v (parameter-name mismatch)", s.Params, strangers, vars), Stage: "prefix"}
	}
	env["op"] = o.Value
	p := eval(s.Prefix, env)
	if p.Status != stOK {
		p.Stage = "prefix"
		return o.Value, p
	}
	env["prefix"] = p.Value
	t := eval(s.Topic, env)
	t.Stage = "topic"
	return o.Value, t
}

// brokenByQuote decides lexically whether a right-hand side that the evaluator
// did not understand certainly fails to compile because a quote character
// pasted from the prefix ends a string literal early: (a) the line ends
// inside a string literal (single-line literals cannot span lines), or (b) a
// string literal starts directly after an operand (identifier, number,
// closing bracket; in Java also another literal) with no operator between.
func brokenByQuote(lang, rhs string) (bool, string) {
	in := byte(0)
	var prev byte         // last significant character outside literals
	afterLiteral := false // that character was the closing quote of a literal
	for i := 0; i < len(rhs); i++ {
		c := rhs[i]
		if in != 0 {
			switch {
			case c == '\\':
				i++
			case c == in:
				in = 0
				prev, afterLiteral = c, true
			}
			continue
		}
		if c == '"' || c == '\'' {
			operand := !afterLiteral && (isIdentByte(prev) || prev == ')' || prev == ']')
			if lang == "java" && afterLiteral {
				operand = true // Java has no adjacent-literal concatenation
			}
			if lang == "dart" && prev == 'r' && !afterLiteral && (i < 2 || !isIdentByte(rhs[i-2])) {
				operand = false // raw string r'...'
			}
			if operand {
				return true, "a string literal starts directly after an operand: a quote character of the prefix ended the literal early"
			}
			in = c
			continue
		}
		if c != ' ' && c != '\t' {
			prev, afterLiteral = c, false
		}
	}
	if in != 0 {
		return true, "unterminated string literal: a quote character of the prefix ended the literal early"
	}
	return false, ""
}

func isIdentByte(c byte) bool {
	return c == '_' || c == '$' || (c >= '0' && c <= '9') || (c >= 'a' && c <= 'z') || (c >= 'A' && c <= 'Z')
}

// kindOf names the class of a definite evaluation failure (part of the signature).
func kindOf(msg string) string {
	for _, p := range [][2]string{
		{"UnknownFormatConversionException", "java-unknown-format-conversion"},
		{"MissingFormatArgumentException", "java-missing-format-argument"},
		{"IllegalFormatConversionException", "java-illegal-format-conversion"},
		{"ended the literal early", "string-literal-broken-by-quote"},
		{"illegal escape", "java-illegal-escape"},
		{"unterminated", "unterminated-string-literal"},
		{"cannot find symbol", "java-unknown-symbol"},
		{"undefined name", "dart-undefined-interpolation-name"},
		{"'$' in a string literal", "dart-bare-dollar"},
		{"parameter-name mismatch", "parameter-name-mismatch"},
		{"emitted method takes", "parameter-count-mismatch"},
	} {
		if strings.Contains(msg, p[0]) {
			return p[1]
		}
	}
	return "other"
}

// evalOpName evaluates only the op literal (to associate the site with the model).
func evalOpName(s *site) (string, bool) {
	if !s.HasOp {
		return "", false
	}
	var r evalResult
	if s.Lang == "dart" {
		r = evalDart(s.Op, map[string]string{})
	} else {
		r = evalJava(s.Op, map[string]string{})
	}
	return r.Value, r.Status == stOK
}
