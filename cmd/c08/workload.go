package main

import (
	"fmt"
	"math/rand"
	"strings"

	"verif/idl"
)

// tok is one '.'-separated token of a scope prefix.
type tok struct {
	Text string // the word, or the variable name
	Var  bool
}

// isTwin: a static word spelled exactly like one of the prefix's variables.
func isTwin(t tok, vars []string) bool {
	if t.Var {
		return false
	}
	for _, v := range vars {
		if t.Text == v {
			return true
		}
	}
	return false
}

// scopeSpec is one generated scope with everything the oracle needs.
type scopeSpec struct {
	Batch       *batch
	Scope       *idl.Scope
	Tokens      []tok
	Vars        []string
	Cases       [][]string // variable values, one slice per case, in variable order
	CaseClass   []string   // value class of each case
	CaseStress  []string   // stress class of each case ("" = none)
	NameClass   string
	OpClass     map[string]string
	PrefixShape string   // e.g. "wvw" (w = word, v = variable, t / n = word spelled like / containing a variable of the prefix: shapeText), "-" = no prefix
	Stress      []string // stress feature classes of the scope
	// SkipLangs: targets not evaluated for this (witness) scope because they can
	// only be inconclusive there (e.g. Dart for a single quote in the prefix);
	// the thorough tier evaluates every target on the random exotic scopes.
	SkipLangs map[string]bool
	Layout    string // layout variant after the `prefix` keyword in the rendered IDL
}

// batch is one IDL file compiled once per (delimiter, target).
type batch struct {
	Name   string
	Text   string
	Scopes []*scopeSpec
	ByOp   map[string]*scopeSpec
	Delims []string
	Kind   string   // core | witness | exotic
	Langs  []string // targets compiled for this batch (nil = all six)
}

func (b *batch) has(lang string) bool {
	if b.Langs == nil {
		return true
	}
	for _, l := range b.Langs {
		if l == lang {
			return true
		}
	}
	return false
}

var c08words = []string{
	"alpha", "bravo", "cargo", "delta", "ember", "fable", "gamma", "harbor", "iris", "jolt",
	"karma", "lumen", "metro", "nova", "orbit", "pixel", "quartz", "raven", "sigma", "tango",
	"umbra", "vapor", "willow", "xenon", "yonder", "zephyr", "amber", "birch", "cedar", "dune",
	"flint", "grove", "heron", "inlet", "jade", "kelp", "lotus", "maple", "nectar", "onyx",
}

var c08prefixWords = []string{"foo", "bar", "v1", "Bar-1", "x_y", "UP", "a", "svc-2", "9lives", "Mixed_Case-7", "zz", "topic", "op", "prefix"}

// variable names: >= 2 characters (the parser rejects one-letter variables),
// never a name the emitted code uses itself (op, prefix, topic, ctx, req, ...).
var c08varNames = []string{"user", "tenant", "region", "account", "deviceId", "stream2", "user_id", "shardKey", "zone", "groupName"}

func upperFirst(s string) string {
	if s == "" {
		return s
	}
	return strings.ToUpper(s[:1]) + s[1:]
}

func normName(s string) string { return strings.ToLower(strings.ReplaceAll(s, "_", "")) }

var nameClasses = []string{"lower", "Upper", "camel", "UpperCamel", "snake", "Upper_snake", "ALLCAPS", "ALLCAPS_SNAKE"}

// makeName renders words in the given case class.
func makeName(rng *rand.Rand, class string) string {
	w1 := c08words[rng.Intn(len(c08words))]
	w2 := c08words[rng.Intn(len(c08words))]
	digit := ""
	if rng.Intn(5) == 0 {
		digit = fmt.Sprint(2 + rng.Intn(8))
	}
	switch class {
	case "lower":
		if rng.Intn(2) == 0 {
			return w1 + digit
		}
		return w1 + w2 + digit
	case "Upper":
		return upperFirst(w1) + digit
	case "camel":
		return w1 + upperFirst(w2) + digit
	case "UpperCamel":
		return upperFirst(w1) + upperFirst(w2) + digit
	case "snake":
		return w1 + "_" + w2 + digit
	case "Upper_snake":
		return upperFirst(w1) + "_" + w2 + digit
	case "ALLCAPS":
		return strings.ToUpper(w1) + digit
	default: // ALLCAPS_SNAKE
		return strings.ToUpper(w1+"_"+w2) + digit
	}
}

type namer struct {
	rng  *rand.Rand
	used map[string]bool
}

func (n *namer) name(class string) string {
	for {
		s := makeName(n.rng, class)
		k := normName(s)
		if n.used[k] {
			continue
		}
		n.used[k] = true
		return s
	}
}

const valueAlphabet = "ABCDEFGHIJKLMNOPQRSTUVWXYZabcdefghijklmnopqrstuvwxyz0123456789_-"

func randValue(rng *rand.Rand, n int) string {
	b := make([]byte, n)
	for i := range b {
		b[i] = valueAlphabet[rng.Intn(len(valueAlphabet))]
	}
	return string(b)
}

var edgeValues = []string{"-", "_", "-_-", "0042", "A", "z", "ZZZZZZZZZZZZ", "a-b_c-d_e-f", "__init__", "--"}
var specialValues = []string{"%s", "{}", "$op", "a.b", "%", "x y", "é", "{0}", "${prefix}", "\\"}

// exotic prefix characters by kind: suffixes appended to a prefix word.
var exoticKinds = map[string][]string{
	"percent":      {"%", "%s", "%d", "%%"},
	"single_quote": {"'"},
	"double_quote": {"\""},
	"backslash":    {"\\"},
	"dollar":       {"$x", "$"},
}
var exoticKindOrder = []string{"percent", "single_quote", "double_quote", "backslash", "dollar"}

var payloadTypes = []string{"Pay", "Pay", "Pay", "Pay", "i32", "string"}

// genScope draws one scope.
func genScope(rng *rand.Rand, names, ops *namer, thorough bool, exoticKind string) *scopeSpec {
	sp := &scopeSpec{OpClass: map[string]string{}}
	sp.NameClass = nameClasses[rng.Intn(len(nameClasses))]
	sc := &idl.Scope{Name: names.name(sp.NameClass)}
	// prefix: 0..4 tokens, at most 3 variables, any positions
	ntok := rng.Intn(5)
	varPool := append([]string(nil), c08varNames...)
	rng.Shuffle(len(varPool), func(i, j int) { varPool[i], varPool[j] = varPool[j], varPool[i] })
	shape := ""
	words := 0
	for i := 0; i < ntok; i++ {
		if len(sp.Vars) < 3 && rng.Intn(5) < 2 {
			v := varPool[len(sp.Vars)]
			sp.Vars = append(sp.Vars, v)
			sp.Tokens = append(sp.Tokens, tok{Text: v, Var: true})
			shape += "v"
		} else {
			sp.Tokens = append(sp.Tokens, tok{Text: c08prefixWords[rng.Intn(len(c08prefixWords))]})
			shape += "w"
			words++
		}
	}
	if exoticKind != "" {
		if words == 0 {
			sp.Tokens = append(sp.Tokens, tok{Text: c08prefixWords[rng.Intn(len(c08prefixWords))]})
			shape += "w"
		}
		sufs := exoticKinds[exoticKind]
		done := false
		for !done {
			for i := range sp.Tokens {
				if !sp.Tokens[i].Var && rng.Intn(2) == 0 {
					sp.Tokens[i].Text += sufs[rng.Intn(len(sufs))]
					done = true
				}
			}
		}
		sp.Stress = append(sp.Stress, "exotic_prefix_"+exoticKind)
	}
	if shape == "" {
		shape = "-"
	}
	sp.PrefixShape = shape
	sc.Prefix = prefixText(sp.Tokens)
	// operations
	opClasses := []string{"lower", "Upper", "camel", "UpperCamel", "UpperCamel", "snake", "ALLCAPS"}
	for i, n := 0, 1+rng.Intn(3); i < n; i++ {
		cl := opClasses[rng.Intn(len(opClasses))]
		op := &idl.Operation{Name: ops.name(cl), Type: idl.T(payloadTypes[rng.Intn(len(payloadTypes))])}
		sp.OpClass[op.Name] = cl
		sc.Ops = append(sc.Ops, op)
	}
	sp.Scope = sc
	// variable values
	k := len(sp.Vars)
	if k == 0 {
		sp.Cases, sp.CaseClass, sp.CaseStress = [][]string{{}}, []string{"none"}, []string{""}
		return sp
	}
	add := func(class, stress string, vals []string) {
		sp.Cases = append(sp.Cases, vals)
		sp.CaseClass = append(sp.CaseClass, class)
		sp.CaseStress = append(sp.CaseStress, stress)
	}
	mixed := func() []string {
		v := make([]string, k)
		for i := range v {
			v[i] = randValue(rng, 1+rng.Intn(12))
		}
		return v
	}
	add("mixed", "", mixed())
	e := mixed()
	e[rng.Intn(k)] = ""
	add("one_empty", "", e)
	edge := make([]string, k)
	for i := range edge {
		if rng.Intn(3) == 0 {
			edge[i] = randValue(rng, 12)
		} else {
			edge[i] = edgeValues[rng.Intn(len(edgeValues))]
		}
	}
	add("edge", "", edge)
	if thorough {
		add("mixed", "", mixed())
		all := make([]string, k)
		add("all_empty", "", all)
		sv := make([]string, k)
		for i := range sv {
			sv[i] = specialValues[rng.Intn(len(specialValues))]
		}
		add("special_chars", "value_special_chars", sv)
	}
	return sp
}

// prefixText renders the tokens the way the IDL spells a prefix.
func prefixText(toks []tok) string {
	var parts []string
	for _, t := range toks {
		if t.Var {
			parts = append(parts, "{"+t.Text+"}")
		} else {
			parts = append(parts, t.Text)
		}
	}
	return strings.Join(parts, ".")
}

// shapeText is the prefix shape of the evidence: w = word, v = variable,
// t = word that is the twin of (spelled exactly like) a variable of the prefix,
// n = word that merely contains a variable's name; "-" = no prefix.
func shapeText(toks []tok, vars []string) string {
	if len(toks) == 0 {
		return "-"
	}
	shape := ""
	for _, t := range toks {
		switch {
		case t.Var:
			shape += "v"
		case isTwin(t, vars):
			shape += "t"
		case nearTwin(t.Text, vars):
			shape += "n"
		default:
			shape += "w"
		}
	}
	return shape
}

func nearTwin(word string, vars []string) bool {
	for _, v := range vars {
		if word != v && strings.Contains(word, v) {
			return true
		}
	}
	return false
}

// twinTokens adds the key/value style of prefix (`tenant.{tenant}.user.{user}`,
// `{zone}.zone`) to a drawn scope: a static word of the prefix is spelled
// exactly like one of the prefix's variables, or contains its name.  The
// braces alone tell a variable from a word, so the prescribed topic keeps the
// word verbatim and substitutes the variable only.  Applied after genScope
// with a PRNG stream of its own, so the rest of the drawn workload is what it
// was before this dimension existed.
//
// Per scope with >= 1 variable, one of (1 in 3 each): nothing; a twin; a
// near twin (word containing the variable name: `users`, `user_id`, `myuser`).
// The word replaces an existing static word or is inserted directly before /
// directly after its variable, or at the far end of the prefix.
func twinTokens(rng *rand.Rand, sp *scopeSpec) {
	if len(sp.Vars) == 0 || len(sp.Stress) > 0 {
		return
	}
	mode := rng.Intn(3)
	if mode == 0 {
		return
	}
	n := 1
	if len(sp.Vars) > 1 && rng.Intn(2) == 0 {
		n = 2
	}
	order := rng.Perm(len(sp.Vars))
	for k := 0; k < n; k++ {
		v := sp.Vars[order[k]]
		word := tok{Text: v}
		if mode == 2 {
			word = tok{Text: []string{v + "s", v + "_id", "my" + v, upperFirst(v)}[rng.Intn(4)]}
		}
		var statics []int
		vpos := -1
		for i, t := range sp.Tokens {
			if !t.Var && !isTwin(t, sp.Vars) {
				statics = append(statics, i)
			}
			if t.Var && t.Text == v {
				vpos = i
			}
		}
		place := rng.Intn(4)
		if place == 0 && len(statics) == 0 {
			place = 1 + rng.Intn(3)
		}
		insert := func(at int) {
			sp.Tokens = append(sp.Tokens, tok{})
			copy(sp.Tokens[at+1:], sp.Tokens[at:])
			sp.Tokens[at] = word
		}
		switch place {
		case 0: // replaces a static word, wherever it is
			sp.Tokens[statics[rng.Intn(len(statics))]] = word
		case 1: // key.{key}
			insert(vpos)
		case 2: // {key}.key
			insert(vpos + 1)
		default: // far end: first or last token of the prefix
			if vpos >= len(sp.Tokens)/2 {
				insert(0)
			} else {
				insert(len(sp.Tokens))
			}
		}
	}
	sp.PrefixShape = shapeText(sp.Tokens, sp.Vars)
	sp.Scope.Prefix = prefixText(sp.Tokens)
}

func finishBatch(b *batch) {
	f := &idl.File{Base: b.Name, Ext: ".frugal"}
	f.Decls = append(f.Decls, &idl.Decl{Struct: &idl.Struct{Kind: idl.KindStruct, Name: "Pay", Fields: []*idl.Field{{ID: 1, Name: "n", Type: idl.T("i32")}}}})
	b.ByOp = map[string]*scopeSpec{}
	for _, sp := range b.Scopes {
		sp.Batch = b
		f.Decls = append(f.Decls, &idl.Decl{Scope: sp.Scope})
		for _, op := range sp.Scope.Ops {
			b.ByOp[op.Name] = sp
		}
	}
	b.Text = idl.RenderFile(f, idl.DefaultStyle())
	// layout variants after the `prefix` keyword (the grammar allows any run of
	// blanks, tabs, newlines and comments there): the prescribed topic does not
	// depend on the layout
	n := 0
	for _, sp := range b.Scopes {
		if sp.Scope.Prefix == "" {
			continue
		}
		lay := prefixLayouts[n%len(prefixLayouts)]
		n++
		head := "scope " + sp.Scope.Name + " prefix "
		if strings.Count(b.Text, head) != 1 {
			continue
		}
		sp.Layout = lay.name
		b.Text = strings.Replace(b.Text, head, "scope "+sp.Scope.Name+lay.before+"prefix"+lay.after, 1)
	}
}

// prefixLayouts: white space / comments around the `prefix` keyword.
var prefixLayouts = []struct{ name, before, after string }{
	{"two-blanks", " ", "  "},
	{"one-blank", " ", " "},
	{"tab", "\t", "\t"},
	{"newline", "\n    ", "\n        "},
	{"blank-tab-blank", "  ", " \t "},
	{"comment", " ", " /* c */ "},
}

// genBatch draws one file; exoticKind != "" makes every scope of the file carry
// that kind of exotic prefix character (one kind per file: a target whose
// generator or tool chain chokes on it loses that file only).
func genBatch(rng, twinRng *rand.Rand, name string, nScopes int, thorough bool, exoticKind string) *batch {
	b := &batch{Name: name, Kind: "core"}
	if exoticKind != "" {
		b.Kind = "exotic"
	}
	names := &namer{rng: rng, used: map[string]bool{"pay": true}}
	ops := &namer{rng: rng, used: map[string]bool{}}
	for i := 0; i < nScopes; i++ {
		sp := genScope(rng, names, ops, thorough, exoticKind)
		twinTokens(twinRng, sp)
		b.Scopes = append(b.Scopes, sp)
	}
	finishBatch(b)
	return b
}

// witnessBatches are the fixed, hand-written programs that are run on every
// invocation, in both tiers, whatever the seed: together they hold the minimal
// witness of every known finding of the property (known_findings.json), so
// that each is re-observed (KNOWN-FINDING line) or reported as gone.
//
//	c08w   core shapes, delimiters . / _ and the empty one   lower-case-first scope names (go/java/dart title-case),
//	       and the witnesses of the two fixed findings (Go '.', Dart $user_);
//	       key/value prefixes (static word spelled like a variable of the prefix)
//	c08wp  -delim %: one scope with a variable          percent_delimiter (go, java, dart);
//	       + a static-only prefix and a scope without prefix (correct everywhere: guards)
//	c08wq  prefix words with %, $ and '                 exotic_prefix_percent (go, java, dart),
//	       exotic_prefix_dollar (dart), exotic_prefix_single_quote (py, py:asyncio, py:tornado)
//	c08wx  prefix word with a backslash                 exotic_prefix_backslash (java, dart; go: the
//	       generator aborts on the file, gofmt error: no publisher at all)
//	c08wy  prefix word with a double quote              exotic_prefix_double_quote (java; go as above)
func witnessBatches() []*batch {
	type w struct {
		name, class string
		toks        []tok
		op          string
		cases       [][]string
		stress      string
		skip        []string
	}
	build := func(b *batch, ws []w) *batch {
		for _, x := range ws {
			sp := &scopeSpec{NameClass: x.class, OpClass: map[string]string{x.op: "Upper"}, Tokens: append([]tok(nil), x.toks...)}
			for _, t := range sp.Tokens {
				if t.Var {
					sp.Vars = append(sp.Vars, t.Text)
				}
			}
			sp.PrefixShape = shapeText(sp.Tokens, sp.Vars)
			sp.Scope = &idl.Scope{Name: x.name, Prefix: prefixText(sp.Tokens), Ops: []*idl.Operation{{Name: x.op, Type: idl.T("Pay")}}}
			sp.Cases = x.cases
			for range x.cases {
				sp.CaseClass = append(sp.CaseClass, "fixed")
				sp.CaseStress = append(sp.CaseStress, "")
			}
			if x.stress != "" {
				sp.Stress = []string{x.stress}
			}
			if len(x.skip) > 0 {
				sp.SkipLangs = map[string]bool{}
				for _, l := range x.skip {
					sp.SkipLangs[l] = true
				}
			}
			b.Scopes = append(b.Scopes, sp)
		}
		finishBatch(b)
		return b
	}
	core := build(&batch{Name: "c08w", Kind: "witness", Delims: []string{".", "/", "_", ""}}, []w{
		{"Events", "Upper", []tok{{"foo", false}, {"user", true}}, "Sent", [][]string{{"alice"}, {""}}, "", nil},
		{"events2", "lower", []tok{{"foo", false}, {"user", true}, {"bar", false}}, "Created", [][]string{{"bob-1"}}, "", nil},
		{"Plain", "Upper", nil, "Ping", [][]string{{}}, "", nil},
		{"plainLower", "camel", nil, "Pong", [][]string{{}}, "", nil},
		{"Fixed", "Upper", []tok{{"foo", false}, {"bar", false}}, "Done", [][]string{{}}, "", nil},
		{"Multi", "Upper", []tok{{"a", false}, {"user", true}, {"b", false}, {"tenant", true}}, "Both", [][]string{{"u1", "t1"}, {"same", "same"}}, "", nil},
		// variable names with '_' and digits, one of them last (followed by the delimiter)
		{"Ledger", "Upper", []tok{{"acct_id", true}, {"v2", false}, {"shard_9", true}}, "Posted", [][]string{{"a-1", "s_2"}}, "", nil},
		// key/value style: a static word spelled exactly like a variable of the same
		// prefix (before it, after it), values that are themselves the names; and
		// words that only contain a variable's name.  Only braces make a variable.
		{"Keyed", "Upper", []tok{{"region", false}, {"region", true}, {"zone", false}, {"zone", true}}, "Stored", [][]string{{"eu-1", "b"}, {"zone", "region"}}, "", nil},
		{"Trail", "Upper", []tok{{"shardKey", true}, {"shardKey", false}, {"v3", false}}, "Moved", [][]string{{"k7"}}, "", nil},
		{"Nearby", "Upper", []tok{{"users", false}, {"user", true}, {"user_id", false}}, "Seen", [][]string{{"carol"}}, "", nil},
	})
	pct := build(&batch{Name: "c08wp", Kind: "witness", Delims: []string{"%"}}, []w{
		{"Lumen", "Upper", []tok{{"UP", false}, {"account", true}}, "Tick", [][]string{{"GQWW4yg"}}, "", nil},
		// static-only prefix and no prefix: plain literals, correct with '%' in every target
		{"Metrics", "Upper", []tok{{"telemetry", false}, {"prod", false}}, "Recorded", [][]string{{}}, "", nil},
		{"Bare", "Upper", nil, "Beat", [][]string{{}}, "", nil},
	})
	exo := build(&batch{Name: "c08wq", Kind: "witness", Delims: []string{"."}}, []w{
		{"Birch", "Upper", []tok{{"region", true}, {"prefix%", false}}, "Umbra", [][]string{{"VQCIRqOjkY"}}, "exotic_prefix_percent", nil},
		// '%' in a static-only prefix is a plain literal: correct in every target
		{"Cedar", "Upper", []tok{{"rate%", false}, {"x%%y", false}}, "Dune", [][]string{{}}, "exotic_prefix_percent", nil},
		{"Onyx", "Upper", []tok{{"prefix$x", false}}, "Tango", [][]string{{}}, "exotic_prefix_dollar", nil},
		{"Heron", "Upper", []tok{{"tenant", true}, {"a'", false}}, "Maple", [][]string{{"Uk"}}, "exotic_prefix_single_quote", nil},
	})
	bsl := build(&batch{Name: "c08wx", Kind: "witness", Delims: []string{"."}}, []w{
		{"Xenon", "Upper", []tok{{"v1\\", false}}, "Raven", [][]string{{}}, "exotic_prefix_backslash", nil},
	})
	dq := build(&batch{Name: "c08wy", Kind: "witness", Delims: []string{"."}}, []w{
		{"Quartz", "Upper", []tok{{"say\"hi", false}, {"zone", true}}, "Nova", [][]string{{"eu"}}, "exotic_prefix_double_quote", nil},
	})
	return []*batch{core, pct, exo, bsl, dq}
}

// scopeText renders one scope for witnesses.
func scopeText(sp *scopeSpec) string {
	f := &idl.File{Base: "w", Ext: ".frugal", Decls: []*idl.Decl{{Scope: sp.Scope}}}
	return strings.TrimSpace(idl.RenderFile(f, idl.DefaultStyle()))
}

// stressOf names the stress / feature class of a tuple ("" = core).  One class
// only, the most specific one, so that signatures do not multiply: exotic
// prefix characters > '%' delimiter > static word spelled like (or containing
// the name of) a variable of the prefix > special characters in variable
// values.  compare() puts the class into a signature only when no plain tuple
// of the run shows the same deviation, i.e. when the class is what it takes.
func stressOf(sp *scopeSpec, delim string, ci int) string {
	switch {
	case len(sp.Stress) > 0:
		return sp.Stress[0]
	case delim == "%":
		return "percent_delimiter"
	case strings.Contains(sp.PrefixShape, "t"):
		return "static_word_named_like_variable"
	case strings.Contains(sp.PrefixShape, "n"):
		return "static_word_contains_variable_name"
	case ci >= 0 && ci < len(sp.CaseStress) && sp.CaseStress[ci] != "":
		return sp.CaseStress[ci]
	}
	return ""
}
