package main

import (
	"fmt"
	"math/rand"
	"sort"
	"strings"

	"verif/idl"
)

// tok is one '.'-separated token of a scope prefix.
type tok struct {
	Text string // the word, or the variable name
	Var  bool
}

// scopeSpec is one generated scope with everything the oracle needs.
type scopeSpec struct {
	Batch       *batch
	Scope       *idl.Scope
	Tokens      []tok
	Vars        []string
	Cases       [][]string // variable values, one slice per case, in variable order
	CaseClass   []string   // value class of each case
	CaseStress  []string   // stress class of each case ("" = none)
	NameClass   string
	OpClass     map[string]string
	PrefixShape string   // e.g. "wvw" (w = word, v = variable), "-" = no prefix
	Stress      []string // stress feature classes of the scope
}

// batch is one IDL file compiled once per (delimiter, target).
type batch struct {
	Name   string
	Text   string
	Scopes []*scopeSpec
	ByOp   map[string]*scopeSpec
	Delims []string
	Kind   string // core | witness | exotic
}

var c08words = []string{
	"alpha", "bravo", "cargo", "delta", "ember", "fable", "gamma", "harbor", "iris", "jolt",
	"karma", "lumen", "metro", "nova", "orbit", "pixel", "quartz", "raven", "sigma", "tango",
	"umbra", "vapor", "willow", "xenon", "yonder", "zephyr", "amber", "birch", "cedar", "dune",
	"flint", "grove", "heron", "inlet", "jade", "kelp", "lotus", "maple", "nectar", "onyx",
}

var c08prefixWords = []string{"foo", "bar", "v1", "Bar-1", "x_y", "UP", "a", "svc-2", "9lives", "Mixed_Case-7", "zz", "topic", "op", "prefix"}

// variable names: >= 2 characters (the parser rejects one-letter variables),
// never a name the emitted code uses itself (op, prefix, topic, ctx, req, ...).
var c08varNames = []string{"user", "tenant", "region", "account", "deviceId", "stream2", "user_id", "shardKey", "zone", "groupName"}

func upperFirst(s string) string {
	if s == "" {
		return s
	}
	return strings.ToUpper(s[:1]) + s[1:]
}

func normName(s string) string { return strings.ToLower(strings.ReplaceAll(s, "_", "")) }

var nameClasses = []string{"lower", "Upper", "camel", "UpperCamel", "snake", "Upper_snake", "ALLCAPS", "ALLCAPS_SNAKE"}

// makeName renders words in the given case class.
func makeName(rng *rand.Rand, class string) string {
	w1 := c08words[rng.Intn(len(c08words))]
	w2 := c08words[rng.Intn(len(c08words))]
	digit := ""
	if rng.Intn(5) == 0 {
		digit = fmt.Sprint(2 + rng.Intn(8))
	}
	switch class {
	case "lower":
		if rng.Intn(2) == 0 {
			return w1 + digit
		}
		return w1 + w2 + digit
	case "Upper":
		return upperFirst(w1) + digit
	case "camel":
		return w1 + upperFirst(w2) + digit
	case "UpperCamel":
		return upperFirst(w1) + upperFirst(w2) + digit
	case "snake":
		return w1 + "_" + w2 + digit
	case "Upper_snake":
		return upperFirst(w1) + "_" + w2 + digit
	case "ALLCAPS":
		return strings.ToUpper(w1) + digit
	default: // ALLCAPS_SNAKE
		return strings.ToUpper(w1+"_"+w2) + digit
	}
}

type namer struct {
	rng  *rand.Rand
	used map[string]bool
}

func (n *namer) name(class string) string {
	for {
		s := makeName(n.rng, class)
		k := normName(s)
		if n.used[k] {
			continue
		}
		n.used[k] = true
		return s
	}
}

const valueAlphabet = "ABCDEFGHIJKLMNOPQRSTUVWXYZabcdefghijklmnopqrstuvwxyz0123456789_-"

func randValue(rng *rand.Rand, n int) string {
	b := make([]byte, n)
	for i := range b {
		b[i] = valueAlphabet[rng.Intn(len(valueAlphabet))]
	}
	return string(b)
}

var edgeValues = []string{"-", "_", "-_-", "0042", "A", "z", "ZZZZZZZZZZZZ", "a-b_c-d_e-f", "__init__", "--"}
var specialValues = []string{"%s", "{}", "$op", "a.b", "%", "x y", "é", "{0}", "${prefix}", "\\"}

// exotic prefix characters by kind: suffixes appended to a prefix word.
var exoticKinds = map[string][]string{
	"percent":      {"%", "%s", "%d", "%%"},
	"single_quote": {"'"},
	"double_quote": {"\""},
	"backslash":    {"\\"},
	"dollar":       {"$x", "$"},
}
var exoticKindOrder = []string{"percent", "single_quote", "double_quote", "backslash", "dollar"}

var payloadTypes = []string{"Pay", "Pay", "Pay", "Pay", "i32", "string"}

// genScope draws one scope.
func genScope(rng *rand.Rand, names, ops *namer, thorough bool, exoticKind string) *scopeSpec {
	sp := &scopeSpec{OpClass: map[string]string{}}
	sp.NameClass = nameClasses[rng.Intn(len(nameClasses))]
	sc := &idl.Scope{Name: names.name(sp.NameClass)}
	// prefix: 0..4 tokens, at most 3 variables, any positions
	ntok := rng.Intn(5)
	varPool := append([]string(nil), c08varNames...)
	rng.Shuffle(len(varPool), func(i, j int) { varPool[i], varPool[j] = varPool[j], varPool[i] })
	shape := ""
	words := 0
	for i := 0; i < ntok; i++ {
		if len(sp.Vars) < 3 && rng.Intn(5) < 2 {
			v := varPool[len(sp.Vars)]
			sp.Vars = append(sp.Vars, v)
			sp.Tokens = append(sp.Tokens, tok{Text: v, Var: true})
			shape += "v"
		} else {
			sp.Tokens = append(sp.Tokens, tok{Text: c08prefixWords[rng.Intn(len(c08prefixWords))]})
			shape += "w"
			words++
		}
	}
	if exoticKind != "" {
		if words == 0 {
			sp.Tokens = append(sp.Tokens, tok{Text: c08prefixWords[rng.Intn(len(c08prefixWords))]})
			shape += "w"
		}
		sufs := exoticKinds[exoticKind]
		done := false
		for !done {
			for i := range sp.Tokens {
				if !sp.Tokens[i].Var && rng.Intn(2) == 0 {
					sp.Tokens[i].Text += sufs[rng.Intn(len(sufs))]
					done = true
				}
			}
		}
		sp.Stress = append(sp.Stress, "exotic_prefix_"+exoticKind)
	}
	if shape == "" {
		shape = "-"
	}
	sp.PrefixShape = shape
	var parts []string
	for _, t := range sp.Tokens {
		if t.Var {
			parts = append(parts, "{"+t.Text+"}")
		} else {
			parts = append(parts, t.Text)
		}
	}
	sc.Prefix = strings.Join(parts, ".")
	// operations
	opClasses := []string{"lower", "Upper", "camel", "UpperCamel", "UpperCamel", "snake", "ALLCAPS"}
	for i, n := 0, 1+rng.Intn(3); i < n; i++ {
		cl := opClasses[rng.Intn(len(opClasses))]
		op := &idl.Operation{Name: ops.name(cl), Type: idl.T(payloadTypes[rng.Intn(len(payloadTypes))])}
		sp.OpClass[op.Name] = cl
		sc.Ops = append(sc.Ops, op)
	}
	sp.Scope = sc
	// variable values
	k := len(sp.Vars)
	if k == 0 {
		sp.Cases, sp.CaseClass, sp.CaseStress = [][]string{{}}, []string{"none"}, []string{""}
		return sp
	}
	add := func(class, stress string, vals []string) {
		sp.Cases = append(sp.Cases, vals)
		sp.CaseClass = append(sp.CaseClass, class)
		sp.CaseStress = append(sp.CaseStress, stress)
	}
	mixed := func() []string {
		v := make([]string, k)
		for i := range v {
			v[i] = randValue(rng, 1+rng.Intn(12))
		}
		return v
	}
	add("mixed", "", mixed())
	e := mixed()
	e[rng.Intn(k)] = ""
	add("one_empty", "", e)
	edge := make([]string, k)
	for i := range edge {
		if rng.Intn(3) == 0 {
			edge[i] = randValue(rng, 12)
		} else {
			edge[i] = edgeValues[rng.Intn(len(edgeValues))]
		}
	}
	add("edge", "", edge)
	if thorough {
		add("mixed", "", mixed())
		all := make([]string, k)
		add("all_empty", "", all)
		sv := make([]string, k)
		for i := range sv {
			sv[i] = specialValues[rng.Intn(len(specialValues))]
		}
		add("special_chars", "value_special_chars", sv)
	}
	return sp
}

func finishBatch(b *batch) {
	f := &idl.File{Base: b.Name, Ext: ".frugal"}
	f.Decls = append(f.Decls, &idl.Decl{Struct: &idl.Struct{Kind: idl.KindStruct, Name: "Pay", Fields: []*idl.Field{{ID: 1, Name: "n", Type: idl.T("i32")}}}})
	b.ByOp = map[string]*scopeSpec{}
	for _, sp := range b.Scopes {
		sp.Batch = b
		f.Decls = append(f.Decls, &idl.Decl{Scope: sp.Scope})
		for _, op := range sp.Scope.Ops {
			b.ByOp[op.Name] = sp
		}
	}
	b.Text = idl.RenderFile(f, idl.DefaultStyle())
}

func genBatch(rng *rand.Rand, name string, nScopes int, thorough bool, exotic bool) *batch {
	b := &batch{Name: name, Kind: "core"}
	names := &namer{rng: rng, used: map[string]bool{"pay": true}}
	ops := &namer{rng: rng, used: map[string]bool{}}
	for i := 0; i < nScopes; i++ {
		kind := ""
		if exotic {
			kind = exoticKindOrder[i%len(exoticKindOrder)]
			b.Kind = "exotic"
		}
		b.Scopes = append(b.Scopes, genScope(rng, names, ops, thorough, kind))
	}
	finishBatch(b)
	return b
}

// witnessBatch is the fixed, hand-written program that reproduces the known
// findings on every invocation whatever the seed.
func witnessBatch() *batch {
	b := &batch{Name: "c08w", Kind: "witness", Delims: []string{".", "/", "_"}}
	mk := func(name, class string, toks []tok, op string, cases [][]string) {
		sp := &scopeSpec{NameClass: class, OpClass: map[string]string{op: "Upper"}, Tokens: toks}
		var parts []string
		shape := ""
		for _, t := range toks {
			if t.Var {
				sp.Vars = append(sp.Vars, t.Text)
				parts = append(parts, "{"+t.Text+"}")
				shape += "v"
			} else {
				parts = append(parts, t.Text)
				shape += "w"
			}
		}
		if shape == "" {
			shape = "-"
		}
		sp.PrefixShape = shape
		sp.Scope = &idl.Scope{Name: name, Prefix: strings.Join(parts, "."), Ops: []*idl.Operation{{Name: op, Type: idl.T("Pay")}}}
		sp.Cases = cases
		for range cases {
			sp.CaseClass = append(sp.CaseClass, "fixed")
			sp.CaseStress = append(sp.CaseStress, "")
		}
		b.Scopes = append(b.Scopes, sp)
	}
	mk("Events", "Upper", []tok{{"foo", false}, {"user", true}}, "Sent", [][]string{{"alice"}, {""}})
	mk("events2", "lower", []tok{{"foo", false}, {"user", true}, {"bar", false}}, "Created", [][]string{{"bob-1"}})
	mk("Plain", "Upper", nil, "Ping", [][]string{{}})
	mk("plainLower", "camel", nil, "Pong", [][]string{{}})
	mk("Fixed", "Upper", []tok{{"foo", false}, {"bar", false}}, "Done", [][]string{{}})
	mk("Multi", "Upper", []tok{{"a", false}, {"user", true}, {"b", false}, {"tenant", true}}, "Both", [][]string{{"u1", "t1"}, {"same", "same"}})
	finishBatch(b)
	return b
}

// scopeText renders one scope for witnesses.
func scopeText(sp *scopeSpec) string {
	f := &idl.File{Base: "w", Ext: ".frugal", Decls: []*idl.Decl{{Scope: sp.Scope}}}
	return strings.TrimSpace(idl.RenderFile(f, idl.DefaultStyle()))
}

func stressOf(sp *scopeSpec, delim string, ci int) string {
	var s []string
	s = append(s, sp.Stress...)
	if delim == "%" {
		s = append(s, "percent_delimiter")
	}
	if ci >= 0 && ci < len(sp.CaseStress) && sp.CaseStress[ci] != "" {
		s = append(s, sp.CaseStress[ci])
	}
	sort.Strings(s)
	return strings.Join(s, "+")
}
