// Command c08 monitors property C08: for every scope, operation, prefix,
// variable values and -delim option, the topic a generated publisher publishes
// on equals the topic the generated subscriber subscribes to, is
// prefix[vars substituted] ⊕ delim ⊕ scope ⊕ delim ⊕ op, and is the same string
// in the Go, Java, Dart and Python (plain, asyncio, tornado) outputs.
//
// Go and Python outputs are executed (recording transports); Java and Dart
// topic expressions are extracted from the emitted source and evaluated.
package main

import (
	"bufio"
	"encoding/json"
	"fmt"
	"go/ast"
	"go/parser"
	"go/token"
	"os"
	"os/exec"
	"path/filepath"
	"regexp"
	"sort"
	"strings"
	"sync"
	"time"

	"verif/emit"
	"verif/ev"
)

var langs = []string{"go", "java", "dart", "py", "py_asyncio", "py_tornado"}

var genFlag = map[string]string{"java": "java", "dart": "dart", "py": "py", "py_asyncio": "py:asyncio", "py_tornado": "py:tornado"}

// sides every language is expected to provide for one operation
var langSides = map[string][]string{
	"go":         {"pub", "sub", "sub2"},
	"java":       {"pub", "sub", "sub2"},
	"dart":       {"pub", "sub"},
	"py":         {"pub"},
	"py_asyncio": {"pub", "sub"},
	"py_tornado": {"pub", "sub"},
}

var how = map[string]string{"go": "executed", "py": "executed", "py_asyncio": "executed", "py_tornado": "executed", "java": "evaluated", "dart": "evaluated"}

// unit is one (batch, delimiter): compiled once per target.
type unit struct {
	B       *batch
	Delim   string
	Key     string
	Dirs    map[string]string // lang -> output directory
	CompErr map[string]string // lang -> compiler failure
	GoPkg   string            // import path of the emitted Go package
	GoDir   string
	mu      sync.Mutex
}

// obs is what one side of one language yielded for one tuple.
type obs struct {
	Topic string
	Has   bool
	Err   string
	Inc   bool // inconclusive (unknown expression shape)
}

func (o obs) String() string {
	switch {
	case o.Has:
		return o.Topic
	case o.Inc:
		return "?inconclusive: " + o.Err
	case o.Err != "":
		return "!" + o.Err
	}
	return "?missing"
}

type store struct {
	mu sync.Mutex
	m  map[string]map[string]map[string]obs // tuple -> lang -> side
}

func tkey(unitKey, scope, op string, ci int) string {
	return fmt.Sprintf("%s\x00%s\x00%s\x00%d", unitKey, scope, op, ci)
}

func (s *store) put(unitKey, scope, op string, ci int, lang, side string, o obs) {
	s.mu.Lock()
	defer s.mu.Unlock()
	k := tkey(unitKey, scope, op, ci)
	if s.m[k] == nil {
		s.m[k] = map[string]map[string]obs{}
	}
	if s.m[k][lang] == nil {
		s.m[k][lang] = map[string]obs{}
	}
	if _, dup := s.m[k][lang][side]; !dup {
		s.m[k][lang][side] = o
	}
}

type c08 struct {
	run     *ev.Run
	h       *emit.Harness
	scratch string
	units   []*unit
	st      *store
	incMu   sync.Mutex
	inc     map[string]int // inconclusive shapes -> count
	notes   map[string]int
	legDown map[string]string
}

func (c *c08) inconclusive(shape string) {
	c.incMu.Lock()
	c.inc[shape]++
	c.incMu.Unlock()
}

func (c *c08) down(leg, why string) {
	c.incMu.Lock()
	c.legDown[leg] = why
	c.incMu.Unlock()
}

func (c *c08) note(s string) {
	c.incMu.Lock()
	c.notes[s]++
	c.incMu.Unlock()
}

func main() { os.Exit(runC08()) }

func runC08() int {
	run := ev.New("C08", ev.ArgTier(), "exploration")
	run.Rule("scope-only programs built with the idl model (one struct + 10-20 scopes per file): scope names lower/Upper/camel/UpperCamel/snake/Upper_snake/ALLCAPS/ALLCAPS_SNAKE, operation names likewise, prefixes of 0-4 '.'-separated tokens with 0-3 variables in any position, two scopes in three that have a variable also get one or two static words spelled exactly like a variable of the same prefix (key/value style `tenant.{tenant}`, `{zone}.zone`) or containing its name (`users.{user}`), replacing a word or inserted before / after the variable or at the far end, payloads struct/i32/string; each file compiled for go, java, dart, py, py:asyncio, py:tornado once per -delim value (the white space after the `prefix` keyword varies per scope: one blank, two blanks, tab, newline, blank-tab-blank, comment); each (scope, op, delim) run with 1 (no variable) or 3-6 tuples of variable values over [A-Za-z0-9_-]{0,12} (classes mixed / one empty / edge; thorough adds all-empty and special characters); plus a fixed hand-written witness file; thorough adds '%' as delimiter and prefix words with %, quotes, backslash, $; one evaluation = one (scope, op, delim, values) tuple compared across all languages and the reference; distinct = scope-name class x prefix shape x delimiter")
	run.Assume("reference topic = prefix as written in the IDL with {variables} substituted ⊕ delim ⊕ scope name as written ⊕ delim ⊕ operation name, nothing before the scope for an empty prefix. Reading of the documentation: README 'Prefixes' documents <scope>.<operation> and foo.bar.Events.EventCreated for the default delimiter only, and `-delim` is described as 'the delimiter for pub/sub topic tokens'; nothing says that the '.' written between prefix tokens in the IDL is rewritten, and none of the six generators rewrites it, so the reference keeps the prefix verbatim and uses the delimiter only between prefix, scope and operation")
	run.Assume("Go: emitted publishers/subscribers executed through reflection against recording FPublisherTransport/FSubscriberTransport; constructors found by go/ast in the emitted files, methods by their Publish/Subscribe + operation-name method names")
	run.Assume("Python: emitted modules executed unmodified in CPython with stub thrift/frugal/tornado modules (py/stubs2/c08stubs.py); py and py:asyncio under python3, py:tornado under python 2.7.18 when available")
	run.Assume("Java and Dart (no runtime in the sandbox): op / prefix / topic statements and the delimiter constant extracted from the emitted source by line patterns and evaluated by a model of String.format (%s, %%, %n and malformed specifiers) and of Dart string interpolation; any other shape is inconclusive")
	thorough := run.Thorough()
	c := &c08{run: run, st: &store{m: map[string]map[string]map[string]obs{}}, inc: map[string]int{}, notes: map[string]int{}, legDown: map[string]string{}}
	c.scratch = filepath.Join(ev.ScratchDir(), "c08")
	os.MkdirAll(c.scratch, 0o755)

	// ---- workload
	rng := run.Rand("c08-workload")
	twinRng := run.Rand("c08-twin-tokens")
	others := []string{"/", "-", "_", ":", "|"}
	delims := []string{"."}
	if thorough {
		delims = append(delims, others...)
		delims = append(delims, "") // the empty delimiter is accepted by the CLI (-delim "")
	} else {
		p := rng.Perm(len(others))
		delims = append(delims, others[p[0]], others[p[1]])
	}
	nb, per := 4, 10
	if thorough {
		nb, per = 100, 20
	}
	batches := witnessBatches()
	for i := 0; i < nb; i++ {
		b := genBatch(rng, twinRng, fmt.Sprintf("c08b%03d", i), per, thorough, "")
		b.Delims = append([]string(nil), delims...)
		if thorough && i < 10 {
			b.Delims = append(b.Delims, "%")
		}
		batches = append(batches, b)
	}
	if thorough {
		for i, kind := range exoticKindOrder {
			b := genBatch(rng, twinRng, fmt.Sprintf("c08x%d%s", i, strings.ReplaceAll(kind, "_", "")), 16, thorough, kind)
			b.Delims = []string{"."} // one stress class at a time: '%' as delimiter is exercised on core scopes
			batches = append(batches, b)
		}
	}
	nScopes := 0
	for _, b := range batches {
		nScopes += len(b.Scopes)
		for di, d := range b.Delims {
			c.units = append(c.units, &unit{B: b, Delim: d, Key: fmt.Sprintf("%s_d%d", b.Name, di), Dirs: map[string]string{}, CompErr: map[string]string{}})
		}
	}
	run.Set("scopes", nScopes)
	twins, nears := 0, 0
	for _, b := range batches {
		for _, sp := range b.Scopes {
			if strings.Contains(sp.PrefixShape, "t") {
				twins++
			} else if strings.Contains(sp.PrefixShape, "n") {
				nears++
			}
		}
	}
	run.Set("scopes_with_static_word_named_like_variable", twins)
	run.Set("scopes_with_static_word_containing_variable_name", nears)
	run.Set("batches", len(batches))
	run.Set("compilation_units", len(c.units))
	run.Set("delimiters", delims)

	// ---- compile everything
	if _, err := emit.FrugalBin(); err != nil {
		run.Inconclusive("the compiler does not build: " + err.Error())
		return finish(run, 3)
	}
	h, err := emit.NewHarness("c08h")
	if err != nil {
		run.Inconclusive("harness module: " + err.Error())
		return finish(run, 3)
	}
	c.h = h
	c.compileAll()

	// ---- the four legs
	var wg sync.WaitGroup
	wg.Add(2)
	go func() { defer wg.Done(); c.goLeg() }()
	go func() { defer wg.Done(); c.pythonLeg() }()
	c.sourceLeg()
	wg.Wait()

	// ---- oracle
	c.compare()
	return finish(run, -1, c)
}

func finish(run *ev.Run, force int, cs ...*c08) int {
	down := false
	for _, c := range cs {
		shapes := map[string]int{}
		var keys []string
		for k, n := range c.inc {
			shapes[k] = n
			keys = append(keys, k)
		}
		sort.Strings(keys)
		for _, k := range keys {
			run.Inconclusive(fmt.Sprintf("%s (%d tuples)", k, c.inc[k]))
		}
		run.Set("inconclusive_expression_shapes", shapes)
		if len(c.notes) > 0 {
			run.Set("notes", c.notes)
		}
		for l, why := range c.legDown {
			run.Inconclusive("leg " + l + " produced nothing: " + why)
			down = true
		}
	}
	code := run.Finish()
	if force >= 0 && code == 0 {
		return force
	}
	if code == 0 && down {
		fmt.Println("INCONCLUSIVE property=C08 a language leg produced no topic at all")
		return 3
	}
	return code
}

// ------------------------------------------------------------ compilation

func (c *c08) compileAll() {
	bin, _ := emit.FrugalBin()
	type task struct {
		u    *unit
		lang string
	}
	idlDirs := map[string]string{}
	for _, u := range c.units {
		if _, ok := idlDirs[u.B.Name]; !ok {
			d := filepath.Join(c.scratch, "idl", u.B.Name)
			os.MkdirAll(d, 0o755)
			os.WriteFile(filepath.Join(d, u.B.Name+".frugal"), []byte(u.B.Text), 0o644)
			idlDirs[u.B.Name] = d
		}
	}
	tasks := make(chan task)
	var wg sync.WaitGroup
	for w := 0; w < 12; w++ {
		wg.Add(1)
		go func() {
			defer wg.Done()
			for t := range tasks {
				u, lang := t.u, t.lang
				dir := idlDirs[u.B.Name]
				file := u.B.Name + ".frugal"
				var r *emit.Result
				var out string
				if lang == "go" {
					out = filepath.Join(c.h.Dir, "gen", u.Key)
					r = c.h.Gen(u.Key, dir, file, "", "-delim", u.Delim)
				} else {
					out = filepath.Join(c.scratch, "out", u.Key, lang)
					os.MkdirAll(out, 0o755)
					r = emit.Run(bin, dir, 60*time.Second, "-gen", genFlag[lang], "-out", out, "-delim", u.Delim, file)
				}
				u.mu.Lock()
				if r.ExitCode != 0 || r.TimedOut {
					u.CompErr[lang] = fmt.Sprintf("exit %d timeout=%v: %s", r.ExitCode, r.TimedOut, strings.TrimSpace(r.Stderr+" "+r.Stdout))
				} else {
					u.Dirs[lang] = out
				}
				u.mu.Unlock()
			}
		}()
	}
	for _, u := range c.units {
		for _, l := range langs {
			if u.B.has(l) {
				tasks <- task{u, l}
			}
		}
	}
	close(tasks)
	wg.Wait()
	fails := 0
	for _, u := range c.units {
		for l, e := range u.CompErr {
			fails++
			// not inconclusive: a target whose generator rejects the legal scope
			// has no publisher and no subscriber; compare() reports it per tuple
			c.note(fmt.Sprintf("compiler failed for %s (%s batch %s, delimiter %q): %s", l, u.B.Kind, u.B.Name, u.Delim, firstLine(e)))
		}
	}
	c.run.Set("compiler_failures", fails)
}

func genName(l string) string {
	if l == "go" {
		return "go"
	}
	return genFlag[l]
}

func firstLine(s string) string {
	s = strings.TrimSpace(s)
	if i := strings.IndexByte(s, '\n'); i >= 0 {
		// keep the beginning of the second line too: the compiler prints
		// "Failed to generate x.frugal:" and the reason on the next line
		rest := strings.TrimSpace(s[i+1:])
		if j := strings.IndexByte(rest, '\n'); j >= 0 {
			rest = rest[:j]
		}
		s = strings.TrimSpace(s[:i]) + " " + rest
	}
	if len(s) > 200 {
		s = s[:200]
	}
	return s
}

// ------------------------------------------------------------ Go leg

type goFile struct {
	u    *unit
	path string
	ctor map[string][2]string // scope key -> constructor func names
}

var goErrLine = regexp.MustCompile(`(?m)^(?:\./)?(\S*gen/[^\s:]+/f_[^/\s:]+_scope\.go):(\d+):(\d+): (.*)$`)

// scopesInText associates an emitted file with model scopes through the
// operation-name string literals it contains (no naming rule involved).
func scopesInText(u *unit, text string) []*scopeSpec {
	seen := map[*scopeSpec]bool{}
	var out []*scopeSpec
	for op, sp := range u.B.ByOp {
		if strings.Contains(text, `"`+op+`"`) && !seen[sp] {
			seen[sp] = true
			out = append(out, sp)
		}
	}
	return out
}

func (c *c08) goCompileError(u *unit, path, msg string) {
	b, _ := os.ReadFile(path)
	sps := scopesInText(u, string(b))
	if len(sps) == 0 {
		c.note("emitted Go file dropped, no model scope recognised in it: " + filepath.Base(path) + ": " + msg)
	}
	for _, sp := range sps {
		for _, op := range sp.Scope.Ops {
			for ci := range sp.Cases {
				for _, side := range langSides["go"] {
					c.st.put(u.Key, sp.Scope.Name, op.Name, ci, "go", side, obs{Err: "compile-error: emitted Go does not compile: " + msg})
				}
			}
		}
	}
	os.Rename(path, path+".dropped")
}

func (c *c08) writeRegistry(u *unit) (n int) {
	ents, _ := filepath.Glob(filepath.Join(u.GoDir, "f_*_scope.go"))
	sort.Strings(ents)
	type pair struct{ pub, sub string }
	reg := map[string]*pair{}
	params := map[string][]string{}
	pkgName := ""
	for _, p := range ents {
		fset := token.NewFileSet()
		f, err := parser.ParseFile(fset, p, nil, parser.AllErrors)
		if err != nil {
			c.goCompileError(u, p, firstLine(err.Error()))
			continue
		}
		pkgName = f.Name.Name
		for _, d := range f.Decls {
			fd, ok := d.(*ast.FuncDecl)
			if ok && fd.Recv != nil && (strings.HasPrefix(fd.Name.Name, "Publish") || strings.HasPrefix(fd.Name.Name, "Subscribe")) {
				// parameter names of the emitted methods: the harness binds the
				// variable values by name
				var names []string
				for _, fl := range fd.Type.Params.List {
					if len(fl.Names) == 0 {
						names = append(names, "_")
					}
					for _, n := range fl.Names {
						names = append(names, n.Name)
					}
				}
				params[fd.Name.Name] = names
				continue
			}
			if !ok || fd.Recv != nil || !strings.HasPrefix(fd.Name.Name, "New") {
				continue
			}
			name := fd.Name.Name
			// the constructor's result type is the exported interface of the same
			// name without "New"
			if fd.Type.Results == nil || len(fd.Type.Results.List) != 1 {
				continue
			}
			id, ok := fd.Type.Results.List[0].Type.(*ast.Ident)
			if !ok || "New"+id.Name != name {
				continue
			}
			switch {
			case strings.HasSuffix(name, "ErrorableSubscriber"):
			case strings.HasSuffix(name, "Publisher"):
				k := strings.TrimSuffix(strings.TrimPrefix(name, "New"), "Publisher")
				if reg[k] == nil {
					reg[k] = &pair{}
				}
				reg[k].pub = name
			case strings.HasSuffix(name, "Subscriber"):
				k := strings.TrimSuffix(strings.TrimPrefix(name, "New"), "Subscriber")
				if reg[k] == nil {
					reg[k] = &pair{}
				}
				reg[k].sub = name
			}
		}
	}
	regPath := filepath.Join(u.GoDir, "zz_registry.go")
	if len(reg) == 0 || pkgName == "" {
		os.Remove(regPath)
		return 0
	}
	var keys []string
	for k := range reg {
		keys = append(keys, k)
	}
	sort.Strings(keys)
	var sb strings.Builder
	fmt.Fprintf(&sb, "// generated by verif/cmd/c08 from the go/ast of the emitted scope files\npackage %s\n\nimport frugal \"github.com/Workiva/frugal/lib/go\"\n\n", pkgName)
	sb.WriteString("var ZZRegistry = map[string][2]func(*frugal.FScopeProvider) interface{}{\n")
	for _, k := range keys {
		p := reg[k]
		fn := func(name string) string {
			if name == "" {
				return "nil"
			}
			return "func(p *frugal.FScopeProvider) interface{} { return " + name + "(p) }"
		}
		fmt.Fprintf(&sb, "\t%q: {%s, %s},\n", k, fn(p.pub), fn(p.sub))
	}
	sb.WriteString("}\n\n// parameter names of the emitted Publish* / Subscribe* methods\nvar ZZParams = map[string][]string{\n")
	var mnames []string
	for m := range params {
		mnames = append(mnames, m)
	}
	sort.Strings(mnames)
	for _, m := range mnames {
		fmt.Fprintf(&sb, "\t%q: {", m)
		for i, n := range params[m] {
			if i > 0 {
				sb.WriteString(", ")
			}
			fmt.Fprintf(&sb, "%q", n)
		}
		sb.WriteString("},\n")
	}
	sb.WriteString("}\n")
	os.WriteFile(regPath, []byte(sb.String()), 0o644)
	return len(reg)
}

func (c *c08) goLeg() {
	run := c.run
	var linked []*unit
	for _, u := range c.units {
		dir, ok := u.Dirs["go"]
		if !ok {
			continue
		}
		// the emitted package directory = the one holding f_*_scope.go
		filepath.Walk(dir, func(p string, info os.FileInfo, err error) error {
			if err == nil && !info.IsDir() && strings.HasPrefix(info.Name(), "f_") && strings.HasSuffix(info.Name(), "_scope.go") && u.GoDir == "" {
				u.GoDir = filepath.Dir(p)
			}
			return nil
		})
		if u.GoDir == "" {
			c.note("no f_*_scope.go emitted for " + u.Key)
			continue
		}
		rel, _ := filepath.Rel(c.h.Dir, u.GoDir)
		u.GoPkg = c.h.Module + "/" + filepath.ToSlash(rel)
		linked = append(linked, u)
	}
	if len(linked) == 0 {
		c.down("go", "no emitted Go package")
		return
	}
	if err := c.h.CopySources(filepath.Join(ev.Root(), "harness/c08"), "c08"); err != nil {
		c.down("go", err.Error())
		return
	}
	bin := filepath.Join(c.h.Dir, "c08.bin")
	var buildOut string
	built := false
	dropped := 0
	for round := 0; round < 10 && !built; round++ {
		var sb strings.Builder
		sb.WriteString("// generated by verif/cmd/c08\npackage main\n\nimport (\n")
		n := 0
		for i, u := range linked {
			if c.writeRegistry(u) > 0 {
				fmt.Fprintf(&sb, "\tp%d %q\n", i, u.GoPkg)
				n++
			}
		}
		sb.WriteString(")\n\nfunc init() {\n")
		for i, u := range linked {
			if _, err := os.Stat(filepath.Join(u.GoDir, "zz_registry.go")); err == nil {
				fmt.Fprintf(&sb, "\tpackages[%q] = p%d.ZZRegistry\n\tparamNames[%q] = p%d.ZZParams\n", u.Key, i, u.Key, i)
			}
		}
		sb.WriteString("}\n")
		if n == 0 {
			sb.Reset()
			sb.WriteString("package main\n")
		}
		os.WriteFile(filepath.Join(c.h.Dir, "c08", "zz_packages.go"), []byte(sb.String()), 0o644)
		cmd := exec.Command("go", "build", "-tags", "verif", "-gcflags=vh/gen/...=-e", "-o", bin, "./c08")
		cmd.Dir = c.h.Dir
		cmd.Env = append(os.Environ(), "GOFLAGS=-mod=mod", "GOPROXY=off", "GOSUMDB=off", "GOTOOLCHAIN=local")
		t0 := time.Now()
		b, err := cmd.CombinedOutput()
		run.Set(fmt.Sprintf("go_build_round_%d_s", round), time.Since(t0).Seconds())
		buildOut = string(b)
		if err == nil {
			built = true
			break
		}
		// attribute the errors to emitted scope files, drop those, retry
		bad := map[string]string{}
		for _, m := range goErrLine.FindAllStringSubmatch(buildOut, -1) {
			p := m[1]
			if !filepath.IsAbs(p) {
				p = filepath.Join(c.h.Dir, p)
			}
			if _, ok := bad[p]; !ok {
				bad[p] = m[4]
			}
		}
		if len(bad) == 0 {
			break
		}
		for p, msg := range bad {
			for _, u := range linked {
				if strings.HasPrefix(p, u.GoDir+string(filepath.Separator)) {
					c.goCompileError(u, p, msg)
					dropped++
				}
			}
		}
	}
	run.Set("go_scope_files_dropped_for_compile_errors", dropped)
	if !built {
		c.down("go", "the harness does not build against the emitted Go: "+firstLine(buildOut))
		fmt.Println(buildOut)
		return
	}
	// cases
	type jobJSON struct {
		Key    string      `json:"key"`
		Scopes interface{} `json:"scopes"`
	}
	var jobs []jobJSON
	byKey := map[string]*unit{}
	for _, u := range linked {
		byKey[u.Key] = u
		jobs = append(jobs, jobJSON{Key: u.Key, Scopes: scopesJSON(u.B)})
	}
	in := filepath.Join(c.scratch, "go-cases.json")
	out := filepath.Join(c.scratch, "go-out.jsonl")
	jb, _ := json.Marshal(map[string]interface{}{"jobs": jobs})
	os.WriteFile(in, jb, 0o644)
	r := emit.Run(bin, c.h.Dir, 15*time.Minute, in, out)
	if r.ExitCode != 0 || r.TimedOut {
		c.down("go", fmt.Sprintf("harness exit %d timeout=%v: %s", r.ExitCode, r.TimedOut, firstLine(r.Stderr+r.Stdout)))
		return
	}
	f, err := os.Open(out)
	if err != nil {
		c.down("go", err.Error())
		return
	}
	defer f.Close()
	sc := bufio.NewScanner(f)
	sc.Buffer(make([]byte, 1<<20), 1<<26)
	n := 0
	for sc.Scan() {
		var res struct {
			Key, Scope, Op, Side, Topic, Err, Note string
			Case                                   int
			Has                                    bool
		}
		if json.Unmarshal(sc.Bytes(), &res) != nil {
			continue
		}
		if res.Note != "" {
			c.note("go: " + res.Note)
			continue
		}
		u := byKey[res.Key]
		if u == nil {
			continue
		}
		o := obs{Topic: res.Topic, Has: res.Has}
		if res.Err != "" {
			o = obs{Err: "go-error: " + res.Err}
		}
		sp := u.B.ByOp[res.Op]
		if sp == nil {
			continue
		}
		if res.Case < 0 {
			for ci := range sp.Cases {
				c.st.put(u.Key, res.Scope, res.Op, ci, "go", res.Side, o)
			}
		} else {
			c.st.put(u.Key, res.Scope, res.Op, res.Case, "go", res.Side, o)
			n++
		}
	}
	if n == 0 {
		c.down("go", "the harness reported no topic")
	}
}

type scopeJSONT struct {
	Name  string     `json:"name"`
	Ops   []string   `json:"ops"`
	Vars  []string   `json:"vars"`
	Cases [][]string `json:"cases"`
}

func scopesJSON(b *batch) interface{} {
	var out []scopeJSONT
	for _, sp := range b.Scopes {
		s := scopeJSONT{Name: sp.Scope.Name, Vars: sp.Vars, Cases: sp.Cases}
		if s.Vars == nil {
			s.Vars = []string{}
		}
		for _, op := range sp.Scope.Ops {
			s.Ops = append(s.Ops, op.Name)
		}
		out = append(out, s)
	}
	return out
}

// ------------------------------------------------------------ Python leg

func (c *c08) pythonLeg() {
	py2 := false
	{
		cmd := exec.Command("python", "-c", "import sys; sys.stdout.write(str(sys.version_info[0]))")
		cmd.Env = append(os.Environ(), "PYENV_VERSION=2.7.18")
		if b, err := cmd.Output(); err == nil && strings.TrimSpace(string(b)) == "2" {
			py2 = true
		}
	}
	c.run.Set("py_tornado_interpreter", map[bool]string{true: "python 2.7.18", false: "python3 (2.7 not available)"}[py2])
	type jobJSON struct {
		Key     string      `json:"key"`
		Flavour string      `json:"flavour"`
		Dir     string      `json:"dir"`
		Scopes  interface{} `json:"scopes"`
	}
	type group struct {
		name string
		py2  bool
		jobs []jobJSON
		lang map[string]string // job key -> lang
	}
	g3 := &group{name: "py3", lang: map[string]string{}}
	g2 := &group{name: "py2", py2: py2, lang: map[string]string{}}
	byKey := map[string]*unit{}
	for _, u := range c.units {
		byKey[u.Key] = u
		for _, l := range []string{"py", "py_asyncio", "py_tornado"} {
			dir, ok := u.Dirs[l]
			if !ok {
				continue
			}
			g := g3
			if l == "py_tornado" {
				g = g2
			}
			k := u.Key + "|" + l
			g.jobs = append(g.jobs, jobJSON{Key: k, Flavour: strings.TrimPrefix(l, "py_"), Dir: dir, Scopes: scopesJSON(u.B)})
			g.lang[k] = l
		}
	}
	counts := map[string]int{}
	var cmu sync.Mutex
	var wg sync.WaitGroup
	sem := make(chan struct{}, 8)
	for _, g := range []*group{g3, g2} {
		const chunk = 24
		for i := 0; i < len(g.jobs); i += chunk {
			j := i + chunk
			if j > len(g.jobs) {
				j = len(g.jobs)
			}
			wg.Add(1)
			go func(g *group, jobs []jobJSON, idx int) {
				defer wg.Done()
				sem <- struct{}{}
				defer func() { <-sem }()
				in := filepath.Join(c.scratch, fmt.Sprintf("%s-jobs-%d.json", g.name, idx))
				out := filepath.Join(c.scratch, fmt.Sprintf("%s-out-%d.jsonl", g.name, idx))
				jb, _ := json.Marshal(map[string]interface{}{"jobs": jobs})
				os.WriteFile(in, jb, 0o644)
				exe := "python3"
				env := os.Environ()
				if g.py2 {
					exe = "python"
					env = append(env, "PYENV_VERSION=2.7.18")
				}
				cmd := exec.Command(exe, "-W", "ignore", filepath.Join(ev.Root(), "py", "topic_runner.py"), in, out)
				cmd.Env = append(env, "PYTHONDONTWRITEBYTECODE=1")
				done := make(chan error, 1)
				var outb []byte
				go func() { var err error; outb, err = cmd.CombinedOutput(); done <- err }()
				select {
				case err := <-done:
					if err != nil {
						c.note(fmt.Sprintf("python runner (%s) failed: %v: %s", g.name, err, firstLine(string(outb))))
						return
					}
				case <-time.After(15 * time.Minute):
					if cmd.Process != nil {
						cmd.Process.Kill()
					}
					c.note("python runner (" + g.name + ") watchdog")
					return
				}
				f, err := os.Open(out)
				if err != nil {
					return
				}
				defer f.Close()
				sc := bufio.NewScanner(f)
				sc.Buffer(make([]byte, 1<<20), 1<<26)
				for sc.Scan() {
					var res struct {
						Key, Scope, Op, Side, Err, Note, Missing string
						Topic                                    *string
						Case                                     int
					}
					if json.Unmarshal(sc.Bytes(), &res) != nil || res.Key == "" {
						continue
					}
					lang := g.lang[res.Key]
					if res.Note != "" {
						c.note(lang + ": " + res.Note)
						continue
					}
					u := byKey[strings.SplitN(res.Key, "|", 2)[0]]
					if u == nil {
						continue
					}
					sp := u.B.ByOp[res.Op]
					if sp == nil {
						continue
					}
					var o obs
					switch {
					case res.Topic != nil:
						o = obs{Topic: *res.Topic, Has: true}
					case res.Missing != "":
						o = obs{Err: "python-missing: " + res.Missing}
					default:
						o = obs{Err: "python-error: " + res.Err}
					}
					if res.Case < 0 {
						for ci := range sp.Cases {
							c.st.put(u.Key, res.Scope, res.Op, ci, lang, res.Side, o)
						}
					} else {
						c.st.put(u.Key, res.Scope, res.Op, res.Case, lang, res.Side, o)
						if o.Has {
							cmu.Lock()
							counts[lang]++
							cmu.Unlock()
						}
					}
				}
			}(g, g.jobs[i:j], i/chunk)
		}
	}
	wg.Wait()
	for _, l := range []string{"py", "py_asyncio", "py_tornado"} {
		if counts[l] == 0 {
			c.down(l, "no topic recorded by the Python runner")
		}
	}
}

// ------------------------------------------------------------ Java / Dart

func (c *c08) sourceLeg() {
	for _, u := range c.units {
		for _, lang := range []string{"java", "dart"} {
			dir, ok := u.Dirs[lang]
			if !ok {
				continue
			}
			var sites []site
			filepath.Walk(dir, func(p string, info os.FileInfo, err error) error {
				if err != nil || info.IsDir() {
					return nil
				}
				n := info.Name()
				var ss []site
				switch {
				case lang == "java" && (strings.HasSuffix(n, "Publisher.java") || strings.HasSuffix(n, "Subscriber.java")):
					ss, _ = extractJava(p)
				case lang == "dart" && strings.HasPrefix(n, "f_") && strings.HasSuffix(n, "_scope.dart"):
					ss, _ = extractDart(p)
				}
				sites = append(sites, ss...)
				return nil
			})
			served := map[string]bool{}
			for i := range sites {
				s := &sites[i]
				// which operation the site belongs to: the emitted method is named
				// publish<Op> / subscribe<Op>[Throwable] / _publish<Op>; fall back to
				// the op literal when that does not name an operation of the model
				opName := s.Method
				sp := u.B.ByOp[opName]
				if sp == nil && s.Kind != "pub" && strings.HasSuffix(opName, "Throwable") {
					opName = strings.TrimSuffix(opName, "Throwable")
					sp = u.B.ByOp[opName]
				}
				if sp == nil {
					lit, ok := evalOpName(s)
					if !ok {
						c.inconclusive(fmt.Sprintf("%s: topic site in a method %q that matches no operation, op literal not understood: %s", lang, s.Method, shapeOf(s.Op)))
						continue
					}
					opName, sp = lit, u.B.ByOp[lit]
				}
				if sp == nil {
					c.note(fmt.Sprintf("%s: topic site for unknown operation %q", lang, opName))
					continue
				}
				if sp.SkipLangs[lang] {
					continue
				}
				served[opName+"\x00"+s.Kind] = true
				for ci, vals := range sp.Cases {
					_, r := evalSite(s, sp.Vars, vals)
					var o obs
					switch r.Status {
					case stOK:
						o = obs{Topic: r.Value, Has: true}
					case stThrows:
						o = obs{Err: kindOf(r.Msg) + "-thrown-in-" + r.Stage + "-expression: " + r.Msg}
					case stCompileError:
						o = obs{Err: kindOf(r.Msg) + "-in-" + r.Stage + "-expression: " + r.Msg}
					default:
						o = obs{Inc: true, Err: r.Msg}
						c.inconclusive(fmt.Sprintf("%s %s expression of unknown shape: %s", lang, r.Stage, r.Msg))
					}
					c.st.put(u.Key, sp.Scope.Name, opName, ci, lang, s.Kind, o)
				}
			}
			for _, sp := range u.B.Scopes {
				if sp.SkipLangs[lang] {
					continue
				}
				for _, op := range sp.Scope.Ops {
					for _, side := range langSides[lang] {
						if !served[op.Name+"\x00"+side] {
							for ci := range sp.Cases {
								c.st.put(u.Key, sp.Scope.Name, op.Name, ci, lang, side, obs{Inc: true, Err: "no topic statement found"})
								c.inconclusive(fmt.Sprintf("%s: no topic statement found for the %s side of an operation (emitted source shape unknown or file broken)", lang, side))
							}
						}
					}
				}
			}
		}
	}
}

// ------------------------------------------------------------ oracle

func (c *c08) compare() {
	run := c.run
	sigCount := map[string]int{}
	topicsPerLang := map[string]int{}
	errorsPerLang := map[string]int{}
	missingPerLang := map[string]int{}
	allIdentical := 0
	// A deviation is (language pair, component, detail); it is attributed to a
	// stress class only when no core tuple of this run shows the same
	// deviation, so reports are collected first and signed afterwards:
	//   core:   C08:<lang>-vs-<x>:<component>:<detail>
	//   stress: C08:<lang>-vs-<x>:<component>:<class>:<prefix shape>:<detail>
	type pending struct {
		head, detail, stress, shape, what string
		witness                           map[string]interface{}
	}
	var reports []pending
	coreDevs := map[string]bool{}
	for _, u := range c.units {
		for _, sp := range u.B.Scopes {
			for _, op := range sp.Scope.Ops {
				for ci, vals := range sp.Cases {
					ref := &refParts{HasPrefix: len(sp.Tokens) > 0, Tokens: sp.Tokens, Values: vals, Scope: sp.Scope.Name, Delim: u.Delim, Op: op.Name}
					want := ref.Topic()
					run.Eval(1)
					run.Distinct(fmt.Sprintf("scope=%s prefix=%s delim=%s", sp.NameClass, sp.PrefixShape, u.Delim))
					got := c.st.m[tkey(u.Key, sp.Scope.Name, op.Name, ci)]
					stress := stressOf(sp, u.Delim, ci)
					topics := map[string]map[string]string{}
					for _, l := range langs {
						topics[l] = map[string]string{}
						for _, s := range langSides[l] {
							if o, ok := got[l][s]; ok {
								topics[l][s] = o.String()
							} else {
								topics[l][s] = "?missing"
							}
						}
					}
					values := map[string]string{}
					for i, v := range sp.Vars {
						values[v] = vals[i]
					}
					witness := map[string]interface{}{
						"idl_scope": scopeText(sp), "prefix_keyword_layout": sp.Layout, "delim": u.Delim, "variables": sp.Vars, "values": vals, "values_by_name": values,
						"operation": op.Name, "reference": want, "topics": topics, "batch": u.B.Name,
						"reproduce": fmt.Sprintf("struct Pay { 1: i32 n } + the scope above in x.frugal; frugal -gen <go|java|dart|py|py:asyncio|py:tornado> -delim '%s' x.frugal", u.Delim),
					}
					// prefix shape: the templates differ per shape (no prefix / plain
					// literal / printf-style template), so stress signatures carry it
					shape := "prefix-with-variables"
					switch {
					case len(sp.Tokens) == 0:
						shape = "no-prefix"
					case len(sp.Vars) == 0:
						shape = "static-prefix"
					}
					report := func(head, detail, what string) {
						if stress == "" {
							coreDevs[head+":"+detail] = true
						}
						reports = append(reports, pending{head, detail, stress, shape, what, witness})
					}
					identical := true
					for _, l := range langs {
						if !u.B.has(l) || sp.SkipLangs[l] {
							continue
						}
						if e, failed := u.CompErr[l]; failed {
							identical = false
							errorsPerLang[l]++
							report(fmt.Sprintf("C08:%s-vs-reference:no-topic", l), "compiler-fails",
								fmt.Sprintf("%s: the compiler itself fails on the file that holds this scope (-gen %s -delim %q): %s; no publisher or subscriber exists; reference topic %q", l, genName(l), u.Delim, firstLine(e), want))
							continue
						}
						var first *obs
						firstSide := ""
						seen := map[string]bool{}
						for _, s := range langSides[l] {
							o, ok := got[l][s]
							if !ok {
								if _, failed := u.CompErr[l]; !failed && c.legDown[l] == "" {
									missingPerLang[l]++
								}
								identical = false
								continue
							}
							if o.Inc {
								identical = false
								continue
							}
							if o.Has {
								topicsPerLang[l]++
							} else {
								errorsPerLang[l]++
							}
							// publisher vs subscriber (and the two subscriber variants)
							if first == nil {
								oc := o
								first, firstSide = &oc, s
							} else if o.String() != first.String() && (o.Has || first.Has) {
								report(fmt.Sprintf("C08:%s-vs-%s:pub-vs-sub", l, l), firstSide+"-ne-"+s,
									fmt.Sprintf("%s (%s): the %s side uses %q, the %s side %q for the same scope, operation and variable values (delimiter %q)", l, how[l], firstSide, first.String(), s, o.String(), u.Delim))
							}
							if seen[o.String()] {
								continue
							}
							seen[o.String()] = true
							if o.Has && o.Topic == want {
								continue
							}
							identical = false
							if !o.Has {
								comp := "no-topic"
								if strings.Contains(o.Err, "-prefix-expression") {
									comp = "prefix-substitution"
								}
								report(fmt.Sprintf("C08:%s-vs-reference:%s", l, comp), errSlug(o.Err),
									fmt.Sprintf("%s (%s) %s side yields no topic: %s; reference topic %q", l, how[l], s, o.Err, want))
								continue
							}
							for _, d := range classify(ref, o.Topic) {
								report(fmt.Sprintf("C08:%s-vs-reference:%s", l, d.Component), d.Detail,
									fmt.Sprintf("%s (%s) %s side uses topic %q, the reference is %q (component: %s, %s)", l, how[l], s, o.Topic, want, d.Component, d.Detail))
							}
						}
					}
					if identical {
						allIdentical++
					}
					if ci == 0 && len(sp.Vars) > 0 && u.B.Kind == "core" {
						run.Sample(map[string]interface{}{"idl_scope": scopeText(sp), "delim": u.Delim, "values": values, "operation": op.Name, "reference": want, "topics": topics})
					}
				}
			}
		}
	}
	for _, r := range reports {
		sig := r.head + ":" + r.detail
		if r.stress != "" && !coreDevs[sig] {
			sig = r.head + ":" + r.stress + ":" + r.shape + ":" + r.detail
		}
		sigCount[sig]++
		run.Violation(sig, r.what, r.witness)
	}
	for _, l := range langs {
		run.Set("topics_"+l+"_"+how[l], topicsPerLang[l])
		if errorsPerLang[l] > 0 {
			run.Set("error_observations_"+l, errorsPerLang[l])
		}
		if missingPerLang[l] > 0 {
			run.Set("missing_observations_"+l, missingPerLang[l])
			c.inconclusive(fmt.Sprintf("%s: no observation for some (operation, side) although the leg ran", l))
		}
	}
	run.Set("tuples_identical_in_all_languages_and_reference", allIdentical)
	run.Set("signature_counts", sigCount)
}
