// Command smoke builds the fixture harness and runs the rig smoke test.
package main

import (
	"fmt"
	"os"
	"path/filepath"

	"verif/emit"
	"verif/ev"
)

func main() {
	h, err := emit.NewHarness("smoke")
	if err != nil {
		fmt.Println(err)
		os.Exit(2)
	}
	if r := h.Gen("", filepath.Join(ev.Root(), "fixtures"), "main.frugal", ""); r.ExitCode != 0 {
		fmt.Println("frugal failed:", r.Stdout, r.Stderr)
		os.Exit(2)
	}
	h.CopySources(filepath.Join(ev.Root(), "harness/e2e"), "e2e")
	h.CopySources(filepath.Join(ev.Root(), "harness/smoke"), "smoke")
	bin, out, err := h.Build("./smoke", "smoke.bin", false)
	if err != nil {
		fmt.Println("build failed:", out)
		os.Exit(2)
	}
	os.Exit(emit.ExecHarness(bin))
}
