// Command c09 monitors property C09: the request context (user headers,
// correlation id, timeout) travels with the call to the handler / subscriber
// callback, response headers travel back, the reply carries the request's op
// id and correlation id, and the handler's context carries a fresh op id
// (DESIGN.md §4 C09).
//
// This is the thin driver: it generates Go from /verif/fixtures with the
// compiler built from the repository under test, copies the monitor
// (/verif/harness/c09) next to the emitted code, builds it against the runtime
// under test and runs it.  The harness binary is the check: it owns the ev.Run
// and writes evidence/C09.json.
package main

import (
	"fmt"
	"os"
	"path/filepath"

	"verif/emit"
	"verif/ev"
)

func main() {
	h, err := emit.NewHarness("c09")
	if err != nil {
		fmt.Println("INCONCLUSIVE property=C09 cannot create the harness module:", err)
		os.Exit(2)
	}
	if r := h.Gen("", filepath.Join(ev.Root(), "fixtures"), "main.frugal", ""); r.ExitCode != 0 || r.TimedOut {
		fmt.Println("INCONCLUSIVE property=C09 the compiler under test failed on the fixture IDL:", r.Stdout, r.Stderr)
		os.Exit(2)
	}
	if err := h.CopySources(filepath.Join(ev.Root(), "harness/e2e"), "e2e"); err != nil {
		fmt.Println(err)
		os.Exit(2)
	}
	if err := h.CopySources(filepath.Join(ev.Root(), "harness/c09"), "c09"); err != nil {
		fmt.Println(err)
		os.Exit(2)
	}
	if os.Getenv("VERIF_VET") != "" {
		if out, err := h.Vet("./c09"); err != nil {
			fmt.Println("go vet:", out)
			os.Exit(2)
		}
	}
	bin, out, err := h.Build("./c09", "c09.bin", false)
	if err != nil {
		fmt.Println("BUILD-FAILED property=C09 (emitted code + monitor do not build against the tree under test)")
		fmt.Println(out)
		os.Exit(2)
	}
	code := emit.ExecHarness(bin, os.Args[1:]...)
	if code != 0 && code != 1 && code != 3 {
		fmt.Printf("INCONCLUSIVE property=C09 the monitor process ended abnormally (exit %d)\n", code)
	}
	os.Exit(code)
}
