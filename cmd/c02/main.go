// Command c02 decides property C02: it draws random valid IDL programs,
// compiles them with the compiler built from the repository under test,
// adds registries to the emitted Go packages (verif/stubgen), builds the
// harness in /verif/harness/c02 against them and aggregates what it observed.
package main

import (
	"encoding/json"
	"fmt"
	"os"
	"os/exec"
	"path/filepath"
	"regexp"
	"sort"
	"strings"
	"sync"

	"verif/emit"
	"verif/ev"
	"verif/idl"
	"verif/stubgen"
)

type progSpec struct {
	Sub  string `json:"sub"`
	Seed int64  `json:"seed"`
	Cfg  string `json:"cfg"`
}

type batch struct {
	Programs      []progSpec `json:"programs"`
	ValuesPerType int        `json:"values_per_type"`
	Seed          int64      `json:"seed"`
	Out           string     `json:"out"`
}

type violation struct {
	Sig     string      `json:"sig"`
	What    string      `json:"what"`
	Witness interface{} `json:"witness"`
}

type progResult struct {
	Sub        string      `json:"sub"`
	Features   []string    `json:"features"`
	Types      int         `json:"types"`
	Values     int         `json:"values"`
	Defaults   int         `json:"fields_left_at_declared_default"`
	Encodings  int         `json:"encodings"`
	Reads      int         `json:"reads"`
	MissingReq int         `json:"missing_required_cases"`
	UnionBad   int         `json:"union_bad_cases"`
	Unknown    int         `json:"unknown_fields_injected"`
	Unmapped   []string    `json:"unmapped"`
	TagNotes   []string    `json:"tag_notes"`
	Violations []violation `json:"violations"`
	Sample     interface{} `json:"sample,omitempty"`
}

func cfgByName(name string) idl.Config {
	return idl.ConfigByName(name)
}

func cfgByNameOld(name string) idl.Config {
	c := idl.CoreConfig()
	for _, flag := range strings.Split(name, "+") {
		switch flag {
		case "typedef_of_enum":
			c.TypedefOfEnum = true
		case "typedef_of_struct":
			c.TypedefOfStruct = true
		case "transitive_typedefs":
			c.TransitiveTypedefs = true
		case "binary_keys":
			c.BinaryKeys = true
		case "forward_refs":
			c.ForwardRefs = true
		}
	}
	return c
}

var (
	probMu        sync.Mutex
	batchProblems = map[int][]string{}
)

var pkgErr = regexp.MustCompile(`(?m)^(?:vet: )?gen/(p\d+)/`)

func main() {
	run := ev.New("C02", ev.ArgTier(), "exploration")
	run.Rule("random valid multi-file IDL programs (core pool of verif/idl; all type constructors, modifiers, defaults, typedef chains, includes, enums, nested containers) are compiled with the compiler under test; for every struct / union / exception / <method>_args / <method>_result type x {binary, compact, json} x N model-generated values: emitted Write -> independent schema-less decode == encoding the IDL declares; reference-written encoding (shuffled fields, unknown fields) -> emitted Read == value; Read(Write(v)) == v; missing required field rejected; union with 0 or 2 members never written. plus a directed sub-pool: root file and an include declare a struct of the same bare name with different fields, the root file writes struct literals of the included type as constants and inside list / map defaults of fields that are left at their declared default. plus a directed sub-pool: the same pools with a typedef of an enum declared in an included file used from another file as the type of fields / arguments / constants / container elements and keys whose defaults name enum values. distinct = distinct (feature vector of the program) + distinct (type kind, protocol) pairs exercised")
	run.Assume("Apache Thrift Go library (protocols) is correct: it is a dependency, not the subject")
	run.Assume("verif/idl model + verif/tvalue schema-less codec + verif/gocodec reflection mapping (fields by declaration order, emitted IsSet<F> defines 'set' of optional fields)")
	nProgs, perBatch, values := 16, 8, 12
	if run.Thorough() {
		nProgs, perBatch, values = 160, 10, 40
	}
	rng := run.Rand("c02-programs")
	var specs []progSpec
	for i := 0; i < nProgs; i++ {
		cfg := "core"
		if i%2 == 1 {
			cfg = "core+shadow" // same constructs, same-named typedefs in several files
		}
		if i%3 == 2 {
			cfg += "+argmods" // method arguments with optional / required modifiers and defaults
		}
		if i%4 == 1 {
			cfg += "+i8" // the base type spelled i8 (Thrift's alias of byte) among the field / argument / return types
		}
		specs = append(specs, progSpec{Sub: fmt.Sprintf("p%d", i), Seed: rng.Int63(), Cfg: cfg})
	}
	var batches [][]progSpec
	for i := 0; i < len(specs); i += perBatch {
		j := i + perBatch
		if j > len(specs) {
			j = len(specs)
		}
		batches = append(batches, specs[i:j])
	}
	// directed sub-pool (own PRNG stream, own batches: the programs above do not
	// move): the same pools plus a typedef of an enum declared in an INCLUDED
	// file, used from another file as the declared type of fields / arguments /
	// constants / container elements and keys whose default names an enum value
	// (verif/idl/incenumalias.go).  Two consecutive batches = both generator option sets.
	nAlias := 6
	if run.Thorough() {
		nAlias = 24
	}
	arng := run.Rand("c02-included-enum-alias")
	var aspecs []progSpec
	for i := 0; i < nAlias; i++ {
		cfg := []string{"core", "core+shadow", "core+argmods"}[i%3] + "+" + idl.IncludedEnumAliasFlag
		aspecs = append(aspecs, progSpec{Sub: fmt.Sprintf("p%d", nProgs+i), Seed: arng.Int63(), Cfg: cfg})
	}
	aliasFrom := len(batches) // index of the first directed batch
	batches = append(batches, aspecs[:nAlias/2], aspecs[nAlias/2:])
	nProgs += nAlias
	// second directed sub-pool (verif/idl/samenamestruct.go; own stream, own batches):
	// the root file and a file it includes declare a struct of the same bare name
	// with different fields; the root file writes struct literals of the INCLUDED
	// type as constants and inside list / map defaults of fields, which the
	// harness leaves at their declared default.
	nSame := 4
	if run.Thorough() {
		nSame = 16
	}
	srng := run.Rand("c02-same-named-struct-literals")
	var sspecs []progSpec
	for i := 0; i < nSame; i++ {
		cfg := []string{"core", "core+shadow"}[i%2] + "+" + idl.SameNameStructFlag
		sspecs = append(sspecs, progSpec{Sub: fmt.Sprintf("p%d", nProgs+i), Seed: srng.Int63(), Cfg: cfg})
	}
	sameFrom := len(batches)
	batches = append(batches, sspecs[:nSame/2], sspecs[nSame/2:])
	nProgs += nSame
	sameBad := 0
	var sameProblems []string
	var wg sync.WaitGroup
	sem := make(chan struct{}, 6)
	var mu sync.Mutex
	rejected, uncompilable := 0, 0
	var firstProblems []string
	aliasBad := 0
	var aliasProblems []string
	totals := map[string]int{}
	for bi, bs := range batches {
		wg.Add(1)
		sem <- struct{}{}
		go func(bi int, bs []progSpec) {
			defer wg.Done()
			defer func() { <-sem }()
			res, rej, unc, err := runBatch(bi, bs, values, run.Seed)
			mu.Lock()
			defer mu.Unlock()
			probMu.Lock()
			if bi >= sameFrom {
				sameBad += rej + unc
				if len(sameProblems) < 6 {
					sameProblems = append(sameProblems, batchProblems[bi]...)
				}
			} else if bi >= aliasFrom {
				aliasBad += rej + unc
				if len(aliasProblems) < 6 {
					aliasProblems = append(aliasProblems, batchProblems[bi]...)
				}
			} else {
				rejected += rej
				uncompilable += unc
				if len(firstProblems) < 4 {
					firstProblems = append(firstProblems, batchProblems[bi]...)
				}
			}
			probMu.Unlock()
			if err != nil {
				run.Inconclusive(fmt.Sprintf("batch %d: %v", bi, err))
				return
			}
			for _, r := range res {
				run.Eval(r.Values * 3)
				totals["types"] += r.Types
				totals["values"] += r.Values
				totals["fields_left_at_declared_default"] += r.Defaults
				totals["encodings_decoded"] += r.Encodings
				totals["reference_encodings_read"] += r.Reads
				totals["missing_required_cases"] += r.MissingReq
				totals["union_bad_member_count_cases"] += r.UnionBad
				totals["unknown_fields_injected"] += r.Unknown
				totals["tag_notes"] += len(r.TagNotes)
				run.Distinct("program features: " + strings.Join(r.Features, ","))
				if len(r.Unmapped) > 0 {
					run.Violation("C02:emitted-type-missing", "an IDL type has no emitted Go type with Read/Write (or its wire name differs): "+strings.Join(r.Unmapped, "; "), map[string]interface{}{"program": r.Sub, "unmapped": r.Unmapped})
				}
				for _, v := range r.Violations {
					run.Violation(v.Sig, v.What, v.Witness)
				}
				if r.Sample != nil {
					run.Sample(r.Sample)
				}
			}
		}(bi, bs)
	}
	wg.Wait()
	for k, v := range totals {
		run.Set(k, v)
	}
	for _, k := range []string{"struct", "union", "exception", "args", "result"} {
		for _, p := range []string{"binary", "compact", "json"} {
			if totals["types"] > 0 {
				run.Distinct("kind/protocol " + k + "/" + p)
			}
		}
	}
	run.Set("programs", nProgs)
	run.Set("programs_with_included_enum_alias_defaults", nAlias)
	run.Set("go_generator_option_sets", []string{"(none)", "slim"})
	run.Distinct("generator options: none")
	run.Distinct("generator options: slim")
	run.Set("programs_rejected_by_the_compiler_(C11)", rejected)
	run.Set("programs_whose_emitted_go_does_not_compile_(C11)", uncompilable)
	if rejected+uncompilable > 0 {
		// the core pool is what a careful user writes: if the compiler rejects such
		// a program or emits Go that does not build, there is no generated code
		// that could encode anything the IDL declares
		run.Violation("C02:core-program-not-compilable", fmt.Sprintf("%d core programs were rejected by the compiler and the emitted Go of %d does not build: %s", rejected, uncompilable, strings.Join(firstProblems, " | ")), map[string]interface{}{"problems": firstProblems})
	}
	run.Set("included_enum_alias_programs_not_compilable", aliasBad)
	if aliasBad > 0 {
		// same reasoning for the directed sub-pool; the signature names the construct
		// class every program of that sub-pool carries (on top of a core program)
		run.Violation("C02:program-not-compilable:typedef_of_included_enum_with_enum_value_defaults", fmt.Sprintf("%d of %d valid programs that use a typedef of an included file's enum as the declared type of defaulted fields / arguments / constants / container elements were rejected by the compiler or their emitted Go does not build (replay: idl.GenerateNamed(seed, cfg)): %s", aliasBad, nAlias, strings.Join(aliasProblems, " | ")), map[string]interface{}{"problems": aliasProblems})
	}
	run.Set("programs_with_same_named_struct_in_root_and_include", nSame)
	run.Set("same_named_struct_programs_not_compilable", sameBad)
	if sameBad > 0 {
		run.Violation("C02:program-not-compilable:same_struct_name_in_root_and_include_with_struct_literals", fmt.Sprintf("%d of %d valid programs whose root file and an include declare a struct of the same bare name, with struct literals of the included type in constants and container defaults, were rejected by the compiler or their emitted Go does not build (replay: idl.GenerateDirected(seed, cfg)): %s", sameBad, nSame, strings.Join(sameProblems, " | ")), map[string]interface{}{"problems": sameProblems})
	}
	if rejected+uncompilable+aliasBad+sameBad > nProgs/2 {
		run.Inconclusive(fmt.Sprintf("%d of %d programs could not be compiled (see C11)", rejected+uncompilable+aliasBad+sameBad, nProgs))
	}
	os.Exit(run.Finish())
}

// genOptsFor alternates the Go generator's options over the batches: the
// "slim" option emits different Read/Write code (helpers in lib/go/encoder.go).
func genOptsFor(bi int) string {
	if bi%2 == 1 {
		return "slim"
	}
	return ""
}

func runBatch(bi int, bs []progSpec, values int, seed int64) ([]*progResult, int, int, error) {
	h, err := emit.NewHarness(fmt.Sprintf("c02b%d", bi))
	if err != nil {
		return nil, 0, 0, err
	}
	rejected, uncompilable := 0, 0
	var live []progSpec
	for _, ps := range bs {
		prog := idl.GenerateDirected(ps.Seed, ps.Cfg)
		src := filepath.Join(h.Dir, "src", ps.Sub)
		if _, err := idl.WriteProgram(prog, src, idl.DefaultStyle()); err != nil {
			return nil, 0, 0, err
		}
		if r := h.Gen(ps.Sub, src, prog.Root().FileName(), genOptsFor(bi)); r.ExitCode != 0 {
			rejected++
			probMu.Lock()
			batchProblems[bi] = append(batchProblems[bi], ps.Sub+" (seed "+fmt.Sprint(ps.Seed)+", "+ps.Cfg+"): "+firstLines(strings.TrimSpace(r.Stdout+r.Stderr), 2))
			probMu.Unlock()
			os.RemoveAll(filepath.Join(h.Dir, "gen", ps.Sub))
			continue
		}
		live = append(live, ps)
	}
	if err := h.CopySources(filepath.Join(ev.Root(), "harness/c02"), "c02"); err != nil {
		return nil, rejected, 0, err
	}
	var bin string
	for attempt := 0; attempt < 3; attempt++ {
		paths, err := stubgen.GenerateTree(filepath.Join(h.Dir, "gen"), "vh/gen")
		if err != nil {
			return nil, rejected, uncompilable, err
		}
		var imp strings.Builder
		imp.WriteString("package main\n\nimport (\n")
		for _, p := range paths {
			fmt.Fprintf(&imp, "\t_ %q\n", p)
		}
		imp.WriteString(")\n")
		os.WriteFile(filepath.Join(h.Dir, "c02", "zz_imports.go"), []byte(imp.String()), 0o644)
		var out string
		bin, out, err = h.Build("./c02", "c02.bin", false)
		if err == nil {
			break
		}
		// drop the programs whose emitted Go does not compile (C11's verdict)
		bad := map[string]bool{}
		for _, m := range pkgErr.FindAllStringSubmatch(out, -1) {
			if !bad[m[1]] {
				probMu.Lock()
				if i := strings.Index(out, m[0]); i >= 0 {
					batchProblems[bi] = append(batchProblems[bi], firstLines(out[i:], 1))
				}
				probMu.Unlock()
			}
			bad[m[1]] = true
		}
		if len(bad) == 0 || attempt == 2 {
			return nil, rejected, uncompilable, fmt.Errorf("harness build failed: %s", firstLines(out, 12))
		}
		var keep []progSpec
		for _, ps := range live {
			if bad[ps.Sub] {
				uncompilable++
				probMu.Lock()
				batchProblems[bi] = append(batchProblems[bi], fmt.Sprintf("[%s = seed %d, %s]", ps.Sub, ps.Seed, ps.Cfg))
				probMu.Unlock()
				os.RemoveAll(filepath.Join(h.Dir, "gen", ps.Sub))
			} else {
				keep = append(keep, ps)
			}
		}
		live = keep
		bin = ""
	}
	if bin == "" || len(live) == 0 {
		return nil, rejected, uncompilable, nil
	}
	bt := batch{Programs: live, ValuesPerType: values, Seed: seed, Out: filepath.Join(h.Dir, "results.json")}
	b, _ := json.Marshal(bt)
	bf := filepath.Join(h.Dir, "batch.json")
	os.WriteFile(bf, b, 0o644)
	cmd := exec.Command(bin, bf)
	cmd.Env = os.Environ()
	if o, err := cmd.CombinedOutput(); err != nil {
		return nil, rejected, uncompilable, fmt.Errorf("harness run failed: %v: %s", err, firstLines(string(o), 30))
	}
	rb, err := os.ReadFile(bt.Out)
	if err != nil {
		return nil, rejected, uncompilable, err
	}
	var res []*progResult
	if err := json.Unmarshal(rb, &res); err != nil {
		return nil, rejected, uncompilable, err
	}
	sort.Slice(res, func(i, j int) bool { return res[i].Sub < res[j].Sub })
	return res, rejected, uncompilable, nil
}

func firstLines(s string, n int) string {
	l := strings.Split(s, "\n")
	if len(l) > n {
		l = l[:n]
	}
	return strings.Join(l, "\n")
}
