package main

import (
	"fmt"
	"os"
	"path/filepath"

	"verif/ev"
)

// handPair is a hand-minimised old/new pair that is re-run on every
// invocation (the minimal witnesses of the findings of the random workload,
// and a few anchors of the oracle itself).
type handPair struct {
	name     string
	sig      string // signature reported when the expectation is not met
	wantFail bool
	root     string
	old, new map[string]string
}

var handPairs = []handPair{
	{
		name: "struct of an included file retyped, root unchanged", sig: "C18:missed-breaking:in-included-file:retype-field", wantFail: true, root: "root.frugal",
		old: map[string]string{"inc.frugal": "struct Item {\n  1: required i32 id,\n}\n", "root.frugal": "include \"inc.frugal\"\nservice Store {\n  inc.Item get(1: i32 id),\n}\n"},
		new: map[string]string{"inc.frugal": "struct Item {\n  1: required string id,\n}\n", "root.frugal": "include \"inc.frugal\"\nservice Store {\n  inc.Item get(1: i32 id),\n}\n"},
	},
	{
		name: "innermost type of map<string,list<set<T>>> changed", sig: "C18:missed-breaking:retype-field:nested", wantFail: true, root: "a.thrift",
		old: map[string]string{"a.thrift": "struct S {\n  1: i32 a,\n  2: map<string, list<set<i32>>> m,\n}\n"},
		new: map[string]string{"a.thrift": "struct S {\n  1: i32 a,\n  2: map<string, list<set<i64>>> m,\n}\n"},
	},
	{
		name: "typedef target changed, field spelled the same", sig: "C18:missed-breaking:retarget-typedef:via-typedef", wantFail: true, root: "a.thrift",
		old: map[string]string{"a.thrift": "typedef i32 Id\nstruct S {\n  1: list<Id> ids,\n}\n"},
		new: map[string]string{"a.thrift": "typedef string Id\nstruct S {\n  1: list<Id> ids,\n}\n"},
	},
	{
		name: "typedef of an included file retargeted, used by the root", sig: "C18:missed-breaking:retarget-typedef:via-typedef:via-include", wantFail: true, root: "root.frugal",
		old: map[string]string{"inc.frugal": "typedef i32 Id\n", "root.frugal": "include \"inc.frugal\"\nstruct S {\n  1: inc.Id id,\n}\n"},
		new: map[string]string{"inc.frugal": "typedef string Id\n", "root.frugal": "include \"inc.frugal\"\nstruct S {\n  1: inc.Id id,\n}\n"},
	},
	{
		name: "typedef two includes away retargeted (api -> model -> ids, api does not include ids), bare alias chain", sig: "C18:missed-breaking:retarget-typedef:via-typedef:via-include:transitive-chain", wantFail: true, root: "api.frugal",
		old: map[string]string{"ids.frugal": "typedef i32 Id\n", "model.frugal": "include \"ids.frugal\"\ntypedef ids.Id Handle\n", "api.frugal": "include \"model.frugal\"\nstruct S {\n  1: model.Handle h,\n}\n"},
		new: map[string]string{"ids.frugal": "typedef i64 Id\n", "model.frugal": "include \"ids.frugal\"\ntypedef ids.Id Handle\n", "api.frugal": "include \"model.frugal\"\nstruct S {\n  1: model.Handle h,\n}\n"},
	},
	{
		name: "typedef two includes away retargeted, reached inside a container alias of the middle file", sig: "C18:missed-breaking:retarget-typedef:via-typedef:via-include:transitive-container-alias", wantFail: true, root: "api.frugal",
		old: map[string]string{"ids.frugal": "typedef i32 Id\n", "model.frugal": "include \"ids.frugal\"\ntypedef list<ids.Id> Handles\n", "api.frugal": "include \"model.frugal\"\nstruct S {\n  1: model.Handles hs,\n}\n"},
		new: map[string]string{"ids.frugal": "typedef i64 Id\n", "model.frugal": "include \"ids.frugal\"\ntypedef list<ids.Id> Handles\n", "api.frugal": "include \"model.frugal\"\nstruct S {\n  1: model.Handles hs,\n}\n"},
	},
	{
		name: "alias inlined inside a container alias of the middle file (same underlying type)", sig: "C18:false-alarm:inline-typedef-use:nested:via-typedef:via-include:transitive", wantFail: false, root: "api.frugal",
		old: map[string]string{"ids.frugal": "typedef i32 Id\n", "model.frugal": "include \"ids.frugal\"\ntypedef list<ids.Id> Handles\n", "api.frugal": "include \"model.frugal\"\nstruct S {\n  1: model.Handles hs,\n}\n"},
		new: map[string]string{"ids.frugal": "typedef i32 Id\n", "model.frugal": "include \"ids.frugal\"\ntypedef list<i32> Handles\n", "api.frugal": "include \"model.frugal\"\nstruct S {\n  1: model.Handles hs,\n}\n"},
	},
	{
		name: "service re-parented onto a same-named service of another include", sig: "C18:missed-breaking:change-extends:same-short-name", wantFail: true, root: "root.frugal",
		old: map[string]string{"core.frugal": "namespace * core\n\nservice Base {\n    void ping(),\n    i32 version(),\n}\n", "legacy.frugal": "namespace * legacy\n\n// An unrelated service that happens to share the name of core.Base.\nservice Base {\n    string describe(1: string what),\n}\n", "root.frugal": "namespace * root\n\ninclude \"core.frugal\"\ninclude \"legacy.frugal\"\n\nstruct Item {\n    1: i64 id,\n    2: optional string label,\n}\n\nservice Store extends core.Base {\n    Item get(1: i64 id),\n    void put(1: Item item),\n}\n"},
		new: map[string]string{"core.frugal": "namespace * core\n\nservice Base {\n    void ping(),\n    i32 version(),\n}\n", "legacy.frugal": "namespace * legacy\n\n// An unrelated service that happens to share the name of core.Base.\nservice Base {\n    string describe(1: string what),\n}\n", "root.frugal": "namespace * root\n\ninclude \"core.frugal\"\ninclude \"legacy.frugal\"\n\nstruct Item {\n    1: i64 id,\n    2: optional string label,\n}\n\nservice Store extends legacy.Base {\n    Item get(1: i64 id),\n    void put(1: Item item),\n}\n"},
	},
	{
		name: "diamond: the first-visited parent drops the shared include, the shared include has a retyped field", sig: "C18:missed-breaking:in-shared-include-dropped-by-one-parent:retype-field", wantFail: true, root: "root.frugal",
		old: map[string]string{"common.frugal": "namespace * common\n\nstruct Money {\n    1: i32 amount,\n    2: string currency,\n}\n", "billing.frugal": "namespace * billing\n\ninclude \"common.frugal\"\n\nstruct Invoice {\n    1: i64 id,\n    2: optional common.Money total,\n}\n", "orders.frugal": "namespace * orders\n\ninclude \"common.frugal\"\n\nstruct Order {\n    1: i64 id,\n    2: common.Money price,\n}\n", "root.frugal": "namespace * root\n\ninclude \"billing.frugal\"\ninclude \"orders.frugal\"\n\nservice Shop {\n    orders.Order order(1: i64 id),\n    billing.Invoice invoice(1: i64 orderId),\n}\n"},
		new: map[string]string{"common.frugal": "namespace * common\n\nstruct Money {\n    1: i64 amount,\n    2: string currency,\n}\n", "billing.frugal": "namespace * billing\n\nstruct Invoice {\n    1: i64 id,\n}\n", "orders.frugal": "namespace * orders\n\ninclude \"common.frugal\"\n\nstruct Order {\n    1: i64 id,\n    2: common.Money price,\n}\n", "root.frugal": "namespace * root\n\ninclude \"billing.frugal\"\ninclude \"orders.frugal\"\n\nservice Shop {\n    orders.Order order(1: i64 id),\n    billing.Invoice invoice(1: i64 orderId),\n}\n"},
	},
	{
		name: "literal segment and same-named prefix variable renamed together", sig: "C18:missed-breaking:change-prefix:literal-shares-variable-name", wantFail: true, root: "a.frugal",
		old: map[string]string{"a.frugal": "scope Events prefix user.{user}.events {\n  Sent: string\n}\nscope Tenants prefix v1.tenant.{tenant} {\n  Sent: string\n}\n"},
		new: map[string]string{"a.frugal": "scope Events prefix account.{account}.events {\n  Sent: string\n}\nscope Tenants prefix v1.tenant.{tenant} {\n  Sent: string\n}\n"},
	},
	{
		name: "prefix variables renamed whose names occur inside literal segments", sig: "C18:false-alarm:rename-prefix-variable:variable-name-occurs-in-literal", wantFail: false, root: "a.frugal",
		old: map[string]string{"a.frugal": "scope Orders prefix orders.{order} {\n  Sent: string\n}\nscope Feed prefix data.{at}.feed {\n  Sent: string\n}\n"},
		new: map[string]string{"a.frugal": "scope Orders prefix orders.{orderId} {\n  Sent: string\n}\nscope Feed prefix data.{id}.feed {\n  Sent: string\n}\n"},
	},
	{
		name: "struct turned into a union of the same name", sig: "C18:missed-breaking:change-kind", wantFail: true, root: "a.thrift",
		old: map[string]string{"a.thrift": "struct Shape {\n  1: i32 side,\n  2: optional string label,\n}\nstruct User {\n  1: Shape s,\n}\n"},
		new: map[string]string{"a.thrift": "union Shape {\n  1: i32 side,\n  2: string label,\n}\nstruct User {\n  1: Shape s,\n}\n"},
	},
	{
		name: "struct turned into an exception of the same name", sig: "C18:missed-breaking:change-kind", wantFail: true, root: "a.thrift",
		old: map[string]string{"a.thrift": "struct Problem {\n  1: i32 code,\n}\n"},
		new: map[string]string{"a.thrift": "exception Problem {\n  1: i32 code,\n}\n"},
	},
	{
		name: "element types of container constants changed (values still fit)", sig: "C18:false-alarm:change-const-type:nested", wantFail: false, root: "a.thrift",
		old: map[string]string{"a.thrift": "const list<i32> PRIMES = [2, 3, 5]\nconst map<string, i32> AGES = {\"a\": 1}\nconst map<string, list<i32>> TABLE = {\"a\": [1, 2]}\n"},
		new: map[string]string{"a.thrift": "const list<i64> PRIMES = [2, 3, 5]\nconst map<string, i64> AGES = {\"a\": 1}\nconst map<string, list<i16>> TABLE = {\"a\": [1, 2]}\n"},
	},
	{
		name: "void method spelled `throws ()` gets its first exception", sig: "C18:missed-breaking:add-first-exception-to-void:empty-throws-clause", wantFail: true, root: "a.thrift",
		old: map[string]string{"a.thrift": "exception Boom {\n  1: i32 code,\n}\nservice S {\n  void m() throws (),\n}\n"},
		new: map[string]string{"a.thrift": "exception Boom {\n  1: i32 code,\n}\nservice S {\n  void m() throws (1: Boom b),\n}\n"},
	},
	{
		name: "void method loses its only exception, empty clause kept", sig: "C18:missed-breaking:remove-all-exceptions-of-void:empty-throws-clause", wantFail: true, root: "a.thrift",
		old: map[string]string{"a.thrift": "exception Boom {\n  1: i32 code,\n}\nservice S {\n  void m() throws (1: Boom b),\n}\n"},
		new: map[string]string{"a.thrift": "exception Boom {\n  1: i32 code,\n}\nservice S {\n  void m() throws (),\n}\n"},
	},
	{
		name: "`void m()` respelled `void m() throws ()` and back", sig: "C18:false-alarm:toggle-empty-throws:empty-throws-clause", wantFail: false, root: "a.thrift",
		old: map[string]string{"a.thrift": "service S {\n  void m(),\n  void n() throws (),\n}\n"},
		new: map[string]string{"a.thrift": "service S {\n  void m() throws (),\n  void n(),\n}\n"},
	},
	{
		name: "middle implicit variant removed, later variant shifts onto its number", sig: "C18:missed-breaking:remove-enum-value:later-variants-shift", wantFail: true, root: "a.thrift",
		old: map[string]string{"a.thrift": "enum Color {\n  RED,\n  GREEN,\n  BLUE,\n}\n"},
		new: map[string]string{"a.thrift": "enum Color {\n  RED,\n  BLUE,\n}\n"},
	},
	{
		name: "variant keeps its name, changes its number", sig: "C18:missed-breaking:renumber-enum-value", wantFail: true, root: "a.thrift",
		old: map[string]string{"a.thrift": "enum Color {\n  RED = 0,\n  GREEN = 1,\n}\n"},
		new: map[string]string{"a.thrift": "enum Color {\n  RED = 0,\n  GREEN = 5,\n}\n"},
	},
	{
		name: "last default field removed", sig: "C18:missed-breaking:remove-field", wantFail: true, root: "a.thrift",
		old: map[string]string{"a.thrift": "struct S {\n  1: i32 a,\n  2: optional i32 b,\n  3: string c,\n}\n"},
		new: map[string]string{"a.thrift": "struct S {\n  1: i32 a,\n  2: optional i32 b,\n}\n"},
	},
	{
		name: "typedef introduced with the same underlying type", sig: "C18:false-alarm:introduce-typedef", wantFail: false, root: "a.thrift",
		old: map[string]string{"a.thrift": "struct S {\n  1: map<string, list<i32>> m,\n}\n"},
		new: map[string]string{"a.thrift": "typedef list<i32> Ints\ntypedef map<string, Ints> Index\nstruct S {\n  1: Index m,\n}\n"},
	},
	{
		name: "renames, added optional field, renamed prefix variable, namespace and constant changes", sig: "C18:false-alarm:documented-compatible-edits", wantFail: false, root: "a.frugal",
		old: map[string]string{"a.frugal": "namespace go a\nconst i32 LIMIT = 3\nenum Color { RED = 1, GREEN = 2 }\nstruct S {\n  1: i32 a,\n}\nservice Svc {\n  i32 get(1: S s),\n}\nscope Events prefix x.{user}.y {\n  Sent: S\n}\n"},
		new: map[string]string{"a.frugal": "namespace go a2\nconst i64 LIMIT = 4\nenum Color { CRIMSON = 1, GREEN = 2, BLUE = 3 }\nstruct S {\n  1: i32 renamed,\n  2: optional string added,\n}\nservice Svc {\n  i32 get(1: S renamedArg),\n  void added(),\n}\nscope Events prefix x.{account}.y {\n  Sent: S\n  Added: S\n}\n"},
	},
}

func knownWitnesses(run *ev.Run, bin, scratch string) {
	for i, hp := range handPairs {
		dir := filepath.Join(scratch, fmt.Sprintf("hand%d", i))
		for sub, files := range map[string]map[string]string{"old": hp.old, "new": hp.new} {
			os.MkdirAll(filepath.Join(dir, sub), 0o755)
			for n, txt := range files {
				os.WriteFile(filepath.Join(dir, sub, n), []byte(txt), 0o644)
			}
		}
		oldFile, newFile := filepath.Join(dir, "old", hp.root), filepath.Join(dir, "new", hp.root)
		bv := auditBinary(bin, oldFile, newFile)
		iv := newInproc().audit(oldFile, newFile)
		run.Eval(1)
		run.Distinct("hand-written: " + hp.name)
		run.Add("audits_through_binary", 1)
		run.Add("audits_in_process", 1)
		// every command-line shape on every hand pair
		if bv.Bad == "" && bv.Fail == hp.wantFail {
			for _, shape := range cliShapes {
				exit, line, bad, cmdline := cliShape(bin, shape, oldFile, newFile, filepath.Join(dir, "gen-"+shape))
				run.Add("audits_through_other_command_line_shapes", 1)
				switch {
				case bad != "":
					run.Inconclusive(fmt.Sprintf("hand-written pair %s: %s: %s", hp.name, cmdline, bad))
				case hp.wantFail && exit == 0:
					run.Violation("C18:missed-breaking:cli:"+shape, fmt.Sprintf("hand-written pair %q: %q exits 0 although the plain audit fails", hp.name, shape),
						map[string]interface{}{"old": hp.old, "new": hp.new, "command": cmdline, "exit": exit})
				case !hp.wantFail && exit != 0 && line:
					run.Violation("C18:false-alarm:cli:"+shape, fmt.Sprintf("hand-written pair %q: %q fails the audit although the plain audit passes", hp.name, shape),
						map[string]interface{}{"old": hp.old, "new": hp.new, "command": cmdline, "exit": exit})
				}
			}
		}
		for src, v := range map[string]verdict{"frugal -audit": bv, "in-process Auditor": iv} {
			if v.Bad != "" {
				run.Inconclusive(fmt.Sprintf("hand-written pair %s: %s: %s", hp.name, src, v.Bad))
				continue
			}
			if v.Fail != hp.wantFail {
				run.Violation(hp.sig, fmt.Sprintf("hand-written pair %q: %s audit failed=%v, expected failed=%v", hp.name, src, v.Fail, hp.wantFail),
					map[string]interface{}{"old": hp.old, "new": hp.new, "command": "frugal -audit old/" + hp.root + " new/" + hp.root, "verdict": v, "source": src})
			}
		}
	}
}
