package main

import (
	"fmt"
	"os"
	"path/filepath"

	"verif/ev"
)

// handPair is a hand-minimised old/new pair that is re-run on every
// invocation (the minimal witnesses of the findings of the random workload,
// and a few anchors of the oracle itself).
type handPair struct {
	name     string
	sig      string // signature reported when the expectation is not met
	wantFail bool
	root     string
	old, new map[string]string
}

var handPairs = []handPair{}

func knownWitnesses(run *ev.Run, bin, scratch string) {
	for i, hp := range handPairs {
		dir := filepath.Join(scratch, fmt.Sprintf("hand%d", i))
		for sub, files := range map[string]map[string]string{"old": hp.old, "new": hp.new} {
			os.MkdirAll(filepath.Join(dir, sub), 0o755)
			for n, txt := range files {
				os.WriteFile(filepath.Join(dir, sub, n), []byte(txt), 0o644)
			}
		}
		oldFile, newFile := filepath.Join(dir, "old", hp.root), filepath.Join(dir, "new", hp.root)
		bv := auditBinary(bin, oldFile, newFile)
		iv := newInproc().audit(oldFile, newFile)
		run.Eval(1)
		run.Distinct("hand-written: " + hp.name)
		run.Add("audits_through_binary", 1)
		run.Add("audits_in_process", 1)
		for src, v := range map[string]verdict{"frugal -audit": bv, "in-process Auditor": iv} {
			if v.Bad != "" {
				run.Inconclusive(fmt.Sprintf("hand-written pair %s: %s: %s", hp.name, src, v.Bad))
				continue
			}
			if v.Fail != hp.wantFail {
				run.Violation(hp.sig, fmt.Sprintf("hand-written pair %q: %s audit failed=%v, expected failed=%v", hp.name, src, v.Fail, hp.wantFail),
					map[string]interface{}{"old": hp.old, "new": hp.new, "command": "frugal -audit old/" + hp.root + " new/" + hp.root, "verdict": v, "source": src})
			}
		}
	}
}
