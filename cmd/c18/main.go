// Command c18 monitors the IDL audit (`frugal -audit old new`): for pairs of
// programs whose difference is known by construction (an edit script over the
// documented catalogue of breaking / compatible changes) the audit must fail
// if and only if the script contains a breaking operator.
package main

import (
	"fmt"
	"math/rand"
	"os"
	"path/filepath"
	"runtime"
	"sort"
	"strings"
	"sync"
	"time"

	"github.com/Workiva/frugal/compiler/parser"

	"verif/emit"
	"verif/ev"
	"verif/idl"
)

func main() { os.Exit(runC18()) }

// ---------------------------------------------------------------------------
// running the audit
// ---------------------------------------------------------------------------

// verdict of one audit run.
type verdict struct {
	Fail     bool     `json:"audit_failed"`
	Bad      string   `json:"not_an_audit_verdict,omitempty"` // parse error, panic, time-out: the run says nothing about the pair
	Errors   []string `json:"errors"`
	Warnings []string `json:"warnings"`
}

const auditFailedMarker = "FAILED: audit of"

type recLogger struct{ errs, warns []string }

func (l *recLogger) LogWarning(p ...string) { l.warns = append(l.warns, strings.Join(p, " ")) }
func (l *recLogger) LogError(p ...string)   { l.errs = append(l.errs, strings.Join(p, " ")) }
func (l *recLogger) ErrorsLogged() bool     { return len(l.errs) > 0 }
func (l *recLogger) reset()                 { l.errs, l.warns = nil, nil }

// inproc is one long-lived in-process auditor (as a program embedding the
// compiler would keep one): state leaking from one audit into the next shows
// as a verdict that a fresh auditor does not reproduce.
type inproc struct {
	log *recLogger
	aud *parser.Auditor
}

func newInproc() *inproc {
	l := &recLogger{}
	return &inproc{log: l, aud: parser.NewAuditorWithLogger(l)}
}

func (a *inproc) audit(oldFile, newFile string) (v verdict) {
	a.log.reset()
	defer func() {
		if r := recover(); r != nil {
			v = verdict{Bad: fmt.Sprintf("panic in Auditor.Audit: %v", r)}
		}
	}()
	err := a.aud.Audit(oldFile, newFile)
	v = verdict{Errors: append([]string{}, a.log.errs...), Warnings: append([]string{}, a.log.warns...)}
	if err != nil {
		if strings.HasPrefix(err.Error(), auditFailedMarker) {
			v.Fail = true
		} else {
			v.Bad = "Audit returned a non-audit error: " + err.Error()
		}
	}
	return v
}

func auditBinary(bin, oldFile, newFile string) verdict {
	r := emit.Run(bin, filepath.Dir(newFile), 120*time.Second, "-audit", oldFile, newFile)
	var v verdict
	for _, line := range strings.Split(r.Stdout, "\n") {
		line = strings.TrimRight(line, "\r")
		switch {
		case strings.HasPrefix(line, "ERROR:"):
			v.Errors = append(v.Errors, strings.TrimSpace(strings.TrimPrefix(line, "ERROR:")))
		case strings.HasPrefix(line, "WARNING:"):
			v.Warnings = append(v.Warnings, strings.TrimSpace(strings.TrimPrefix(line, "WARNING:")))
		}
	}
	switch {
	case r.TimedOut:
		v.Bad = "frugal -audit timed out"
	case r.ExitCode == 0:
	case strings.Contains(r.Stdout, auditFailedMarker):
		v.Fail = true
	default:
		v.Bad = fmt.Sprintf("frugal -audit exit=%d without an audit verdict: %s", r.ExitCode, clip(r.Stdout+r.Stderr, 400))
	}
	return v
}

// cliShapes are further ways of asking the command line for the same audit:
// the exit status is the verdict scripts act on, whatever else is on the line.
var cliShapes = []string{"audit+gen-json", "gen-go-before-audit", "flag=value+gen", "recurse+verbose", "old-then-new", "new-then-old"}

// cliShape runs one shape and returns the exit status, whether the output
// holds the audit's own failure line, and the command line for the witness.
func cliShape(bin, shape, oldFile, newFile, outDir string) (exit int, auditLine bool, bad string, cmdline string) {
	var args []string
	switch shape {
	case "audit+gen-json":
		args = []string{"--audit", oldFile, "--gen", "json", "--out", outDir, newFile}
	case "gen-go-before-audit":
		args = []string{"-out", outDir, "-gen", "go", "-audit", oldFile, newFile}
	case "flag=value+gen":
		args = []string{"-audit=" + oldFile, "-r", "-gen=json", "-out=" + outDir, newFile}
	case "recurse+verbose":
		args = []string{"-r", "-v", "-audit", oldFile, newFile}
	case "old-then-new": // several files: the old program against itself, then the new one
		args = []string{"-audit", oldFile, oldFile, newFile}
	case "new-then-old":
		args = []string{"-audit", oldFile, newFile, oldFile}
	}
	r := emit.Run(bin, filepath.Dir(newFile), 120*time.Second, args...)
	if r.TimedOut {
		bad = "timed out"
	}
	return r.ExitCode, strings.Contains(r.Stdout, auditFailedMarker), bad, "frugal " + strings.Join(args, " ")
}

func clip(s string, n int) string {
	s = strings.TrimSpace(s)
	if len(s) > n {
		return s[:n] + "..."
	}
	return s
}

// ---------------------------------------------------------------------------
// jobs
// ---------------------------------------------------------------------------

type baseProg struct {
	ix     int
	p      *idl.Program
	style  idl.Style
	oldDir string
	edits  []*edit
	empty  map[string]bool // methods of the old program spelled `throws ()`
}

type job struct {
	id     int
	base   *baseProg
	kind   string // single | pair | neighbour-pair | replace-pair | script | compat-script | identical | restyled
	edits  []int  // indices into base.edits, in application order
	style  idl.Style
	binary bool // also through the real binary
}

type fileOutcome struct {
	File      string   `json:"file"`
	Expect    string   `json:"expected"` // fail | pass | fail(in-included-file)
	InProc    verdict  `json:"in_process"`
	Binary    *verdict `json:"binary,omitempty"`
	FreshFail *bool    `json:"fresh_auditor_failed,omitempty"`
}

type result struct {
	job      *job
	skipped  string // why nothing was evaluated
	applied  []*edit
	dropped  int
	outcomes []fileOutcome
	vios     []vio
	audits   int
	binRuns  int
	binAgree int
	binDis   int
	newDir   string

	restyleRejected int
	shapeRuns       int
}

type vio struct {
	sig, what string
	witness   map[string]interface{}
}

// Only the lowest job of each signature keeps its witness (jobs are handed
// out in order, so few witnesses are ever built): thousands of pairs may hit
// one signature class.
var (
	witnessMu     sync.Mutex
	witnessLowest = map[string]int{}
)

func wantWitness(sig string, jobID int) bool {
	witnessMu.Lock()
	defer witnessMu.Unlock()
	if low, ok := witnessLowest[sig]; ok && low < jobID {
		return false
	}
	witnessLowest[sig] = jobID
	return true
}

func conflict(a, b *edit) bool {
	for _, x := range a.Keys {
		for _, y := range b.Keys {
			if x == y {
				return true
			}
		}
	}
	return false
}

// rareOps have few applicable sites in a random program (one-way methods,
// void methods and their exception sets, inheritance, widenable constants).
var rareOps = map[string]bool{
	"flip-oneway": true, "add-first-exception-to-void": true, "remove-all-exceptions-of-void": true, "retype-exception": true,
	"change-extends": true, "remove-extends": true, "add-extends": true, "change-const-type": true, "rename-prefix-variable": true,
}

// addFor maps a removing operator to the adding operators of the same list.
var addFor = map[string]map[string]bool{
	"remove-field":      {"add-optional-field-end": true, "add-default-field-end": true},
	"remove-enum-value": {"add-enum-value-end": true},
	"remove-arg":        {"add-arg-end": true},
	"remove-method":     {"add-method-end": true},
	"rename-method":     {"add-method-end": true},
	"remove-operation":  {"add-operation": true},
	"rename-operation":  {"add-operation": true},
	"remove-struct":     {"add-struct": true},
	"rename-struct":     {"add-struct": true},
	"remove-service":    {"add-service": true},
	"rename-service":    {"add-service": true},
	"remove-scope":      {"add-scope": true},
	"rename-scope":      {"add-scope": true},
}

// containerOf names the list an edit adds to / removes from: the first
// conflict key without its last component.
func containerOf(e *edit) string {
	k := e.Keys[0]
	if i := strings.LastIndex(k, "/"); i > 0 {
		return k[:i]
	}
	return k
}

// declOf names the top-level declaration an edit works in ("file/Decl").
func declOf(e *edit) string {
	parts := strings.SplitN(e.Keys[0], "/", 3)
	if len(parts) < 2 {
		return e.Keys[0]
	}
	return parts[0] + "/" + parts[1]
}

func opList(es []*edit, breaking bool) string {
	set := map[string]bool{}
	for _, e := range es {
		if e.Breaking == breaking {
			set[e.Op] = true
		}
	}
	var ops []string
	for o := range set {
		ops = append(ops, o)
	}
	sort.Strings(ops)
	if len(ops) > 3 {
		ops = append(ops[:3], "more")
	}
	return strings.Join(ops, "+")
}

func qualSuffix(bp *baseProg, es []*edit, g string) string {
	if len(es) != 1 {
		return ""
	}
	e := es[0]
	gf := bp.p.File(g)
	if e.Op == "retarget-typedef" && gf != nil {
		// where the audited file meets the alias: in another file? in a file it
		// does not even include (reached through an alias of an included file:
		// as a bare alias chain, or inside a container alias)?
		s := ":via-typedef"
		nested := false
		for _, q := range e.Quals {
			if q == "nested" {
				nested = true
			}
		}
		if e.File != g {
			s += ":via-include"
			if !includesFile(gf, e.File) {
				s += ":transitive-" + strings.Join(useShapes(bp.p, gf, bp.p.File(e.File), e.tdName), "+")
			}
		}
		if nested {
			s += ":nested"
		}
		return s
	}
	s := ""
	for _, q := range e.Quals {
		s += ":" + q
	}
	if e.File != g {
		s += ":via-include"
	}
	if gf != nil {
		if e.File != g && !includesFile(gf, e.File) {
			return s + ":transitive"
		}
		for _, h := range declRefs(bp.p, e) {
			if h != g && !includesFile(gf, h) {
				s += ":transitive"
				break
			}
		}
	}
	return s
}

// declRefs lists the files named (include.Name) by the types of the
// declaration an edit works in.
func declRefs(p *idl.Program, e *edit) []string {
	f := p.File(e.File)
	if f == nil {
		return nil
	}
	parts := strings.SplitN(e.Keys[0], "/", 3)
	if len(parts) < 2 {
		return nil
	}
	name := strings.TrimPrefix(parts[1], "td:")
	set := map[string]bool{}
	for _, d := range f.Decls {
		if d.Name() != name {
			continue
		}
		eachType(&idl.File{Decls: []*idl.Decl{d}}, func(t *idl.Type) {
			for _, nd := range typeNodes(t) {
				if i := strings.IndexByte(nd.t.Name, '.'); i > 0 && !nd.t.IsContainer() {
					set[nd.t.Name[:i]] = true
				}
			}
		})
	}
	var out []string
	for h := range set {
		out = append(out, h)
	}
	sort.Strings(out)
	return out
}

// useShapes says how the audited positions of file g reach typedef `name` of
// file `of`: "direct" (g names it), "chain" (through bare aliases only),
// "container-alias" (inside the container type of an alias).
func useShapes(p *idl.Program, g, of *idl.File, name string) []string {
	set := map[string]bool{}
	var walk func(f *idl.File, t *idl.Type, hops int, inContainerAlias bool)
	walk = func(f *idl.File, t *idl.Type, hops int, inContainerAlias bool) {
		if t == nil || hops > 32 {
			return
		}
		if t.IsContainer() {
			walk(f, t.Key, hops, inContainerAlias)
			walk(f, t.Val, hops, inContainerAlias)
			return
		}
		if idl.IsBase(t.Name) {
			return
		}
		r := p.Lookup(f, t.Name)
		if r == nil || r.TypeDef == nil {
			return
		}
		if of != nil && r.File == of && r.TypeDef.Name == name {
			switch {
			case hops == 0:
				set["direct"] = true
			case inContainerAlias:
				set["container-alias"] = true
			default:
				set["chain"] = true
			}
			return
		}
		walk(r.File, r.TypeDef.Type, hops+1, inContainerAlias || r.TypeDef.Type.IsContainer())
	}
	eachCheckedType(g, func(t *idl.Type, _ *idl.Field) { walk(g, t, 0, false) })
	var out []string
	for k := range set {
		out = append(out, k)
	}
	sort.Strings(out)
	return out
}

// blame names the operator of a refuted multi-edit script: the first edit
// that reproduces the wrong verdict when applied alone (same signature as the
// exhaustive single-edit pass gives it), else the combination.
func blame(bp *baseProg, g, oldFile string, cands, script []*edit, wrongFail bool, dir string, style idl.Style) string {
	if len(script) == 1 {
		return cands[0].Op + qualSuffix(bp, cands, g)
	}
	for i, e := range cands {
		c := &ectx{p: bp.p.Clone(), empty: copyFlags(bp.empty)}
		if !e.apply(c) || validateProgram(c.p) != nil || c.p.File(g) == nil {
			continue
		}
		d := filepath.Join(dir, fmt.Sprintf("blame%d", i))
		if _, err := writeProgram(c.p, d, style, c.empty); err != nil {
			continue
		}
		v := newInproc().audit(oldFile, filepath.Join(d, c.p.File(g).FileName()))
		os.RemoveAll(d)
		if v.Bad == "" && v.Fail == wrongFail {
			return e.Op + qualSuffix(bp, []*edit{e}, g)
		}
	}
	// no edit of the script is misjudged on its own: the others mask it
	var others []*edit
	for _, e := range script {
		mine := false
		for _, c := range cands {
			if c == e {
				mine = true
			}
		}
		if !mine {
			others = append(others, e)
		}
	}
	sig := opList(cands, cands[0].Breaking)
	if len(others) > 0 {
		sig += ":masked-by:" + opList(others, others[0].Breaking)
	} else {
		sig += ":only-in-combination"
	}
	return sig
}

func readFiles(dir string, p *idl.Program) map[string]string {
	out := map[string]string{}
	for _, f := range p.Files {
		b, _ := os.ReadFile(filepath.Join(dir, f.FileName()))
		out[f.FileName()] = string(b)
	}
	return out
}

// evaluate builds the new program of a job, writes it, runs the audits and
// applies the oracle.
func evaluate(j *job, a *inproc, bin string, scratch string) *result {
	res := &result{job: j}
	bp := j.base
	np := bp.p.Clone()
	c := &ectx{p: np, empty: copyFlags(bp.empty)}
	for _, ix := range j.edits {
		e := bp.edits[ix]
		if e.apply(c) {
			res.applied = append(res.applied, e)
		} else {
			res.dropped++
		}
	}
	np = c.p
	if len(j.edits) > 0 && len(res.applied) == 0 {
		res.skipped = "no edit of the script was applicable"
		return res
	}
	if j.kind == "single" && res.dropped > 0 {
		res.skipped = "site not applicable at application time"
		return res
	}
	if err := validateProgram(np); err != nil {
		res.skipped = "edited program rejected by the check's own validity net: " + err.Error()
		return res
	}
	res.newDir = filepath.Join(scratch, fmt.Sprintf("p%d", bp.ix), fmt.Sprintf("j%d", j.id))
	if _, err := writeProgram(np, res.newDir, j.style, c.empty); err != nil {
		res.skipped = "cannot write the new program: " + err.Error()
		return res
	}

	// which files are audited as roots: the root, plus every file an edit is in or affects
	rootBase := bp.p.Root().Base
	auditSet := map[string]bool{rootBase: true}
	breakingIn := map[string]bool{} // files in which a breaking edit is visible
	affected := map[string][]*edit{}
	for _, e := range res.applied {
		auditSet[e.File] = true
		if e.Breaking {
			// a retargeted typedef is a change of the places that use it: the
			// declaration alone is not audited (and not sent over the wire)
			for _, g := range e.Affects {
				breakingIn[g] = true
				auditSet[g] = true
				affected[g] = append(affected[g], e)
			}
		}
	}
	if len(j.edits) == 0 {
		for _, f := range bp.p.Files {
			auditSet[f.Base] = true
		}
	}
	var files []string
	for g := range auditSet {
		if np.File(g) != nil && bp.p.File(g) != nil {
			files = append(files, g)
		}
	}
	sort.Strings(files)

	script := []string{}
	for _, e := range res.applied {
		script = append(script, e.String())
	}
	for _, g := range files {
		oldFile := filepath.Join(bp.oldDir, bp.p.File(g).FileName())
		newFile := filepath.Join(res.newDir, np.File(g).FileName())
		// expectation for the pair (g and its includes, old vs new)
		// (a file that an edit of the script detached from g - its include was
		// dropped - is not part of the new program of g any more: a breaking
		// edit in it is judged only where it is still reachable)
		expect := "pass"
		if len(affected[g]) > 0 {
			expect = "fail"
		} else {
			newClosure := closure(np, g)
			for h := range closure(bp.p, g) {
				if !breakingIn[h] {
					continue
				}
				if newClosure[h] {
					expect = "fail(in-included-file)"
				} else if expect == "pass" {
					expect = "either(include-detached)"
				}
			}
		}
		fo := fileOutcome{File: np.File(g).FileName(), Expect: expect}
		fo.InProc = a.audit(oldFile, newFile)
		res.audits++
		verdicts := map[string]verdict{"in-process Auditor": fo.InProc}
		if j.binary && (g == rootBase || len(files) <= 3) {
			bv := auditBinary(bin, oldFile, newFile)
			fo.Binary = &bv
			res.binRuns++
			if bv.Bad == "" && fo.InProc.Bad == "" {
				if bv.Fail == fo.InProc.Fail && len(bv.Errors) == len(fo.InProc.Errors) && len(bv.Warnings) == len(fo.InProc.Warnings) {
					res.binAgree++
				} else {
					res.binDis++
				}
			}
			verdicts["frugal -audit"] = bv
			// one more command-line shape for the root pair, judged only where
			// the plain invocation is right (a wrong plain verdict has its own
			// signature): a breaking pair never exits 0, a compatible pair
			// never exits non-zero because of the audit
			if g == rootBase && bv.Bad == "" && (j.id/3)%2 == 0 {
				shape := cliShapes[(j.id/6)%len(cliShapes)]
				exit, line, bad, cmdline := cliShape(bin, shape, oldFile, newFile, filepath.Join(res.newDir, "zq-gen-out"))
				res.shapeRuns++
				var sig, what string
				switch {
				case bad != "":
					res.vios = append(res.vios, vio{sig: "INCONCLUSIVE", what: cmdline + ": " + bad})
				case strings.HasPrefix(expect, "fail") && bv.Fail && exit == 0:
					sig = "C18:missed-breaking:cli:" + shape
					what = fmt.Sprintf("%q exits 0 for a pair with a catalogued breaking edit (plain `frugal -audit old new` exits 1)", shape)
				case expect == "pass" && !bv.Fail && exit != 0 && line:
					sig = "C18:false-alarm:cli:" + shape
					what = fmt.Sprintf("%q fails the audit of a compatible pair (plain `frugal -audit old new` exits 0)", shape)
				}
				if sig != "" {
					var w map[string]interface{}
					if wantWitness(sig, j.id) {
						w = map[string]interface{}{"program": bp.ix, "job": j.id, "kind": j.kind, "expected": expect, "script": script, "command": cmdline, "exit": exit,
							"old": readFiles(bp.oldDir, bp.p), "new": readFiles(res.newDir, np)}
					}
					res.vios = append(res.vios, vio{sig: sig, what: what, witness: w})
				}
			}
		}
		for _, src := range []string{"frugal -audit", "in-process Auditor"} {
			v, ok := verdicts[src]
			if !ok {
				continue
			}
			if v.Bad != "" && j.kind == "restyled" {
				res.restyleRejected++
				continue
			}
			if v.Bad != "" {
				res.vios = append(res.vios, vio{sig: "INCONCLUSIVE", what: fmt.Sprintf("%s on %s (program %d, %s job %d): %s", src, fo.File, bp.ix, j.kind, j.id, v.Bad)})
				continue
			}
			var sig, what string
			switch {
			case expect == "fail" && !v.Fail:
				ops := opList(affected[g], true)
				sig = "C18:missed-breaking:" + blame(bp, g, oldFile, affected[g], res.applied, false, res.newDir, j.style)
				what = fmt.Sprintf("%s passed %s although the new program contains the catalogued breaking edit(s) %s", src, fo.File, ops)
			case expect == "fail(in-included-file)" && !v.Fail:
				var in []*edit
				for _, e := range res.applied {
					if e.Breaking {
						in = append(in, e)
					}
				}
				sig = "C18:missed-breaking:in-included-file:" + in[0].Op
				for _, e := range res.applied {
					if e.Op == "drop-include" {
						sig = "C18:missed-breaking:in-shared-include-dropped-by-one-parent:" + in[0].Op
					}
				}
				what = fmt.Sprintf("%s passed %s although a file it includes contains the catalogued breaking edit(s) %s (the audit compares the two named files only)", src, fo.File, opList(in, true))
			case expect == "pass" && v.Fail:
				if len(res.applied) == 0 {
					sig = "C18:false-alarm:" + j.kind
					what = fmt.Sprintf("%s failed %s although old and new are the same program (%s)", src, fo.File, j.kind)
				} else {
					ops := opList(res.applied, false)
					sig = "C18:false-alarm:" + blame(bp, g, oldFile, res.applied, res.applied, true, res.newDir, j.style)
					what = fmt.Sprintf("%s failed %s although the script holds catalogued compatible edits only (%s) in this file and its includes", src, fo.File, ops)
				}
			}
			if sig == "" {
				continue
			}
			// state leaking between audits? ask a fresh auditor
			if src == "in-process Auditor" {
				fv := newInproc().audit(oldFile, newFile)
				ff := fv.Fail
				fo.FreshFail = &ff
				if fv.Bad == "" && fv.Fail != v.Fail {
					sig = "C18:auditor-state-leaks-between-audits"
					what = fmt.Sprintf("a long-lived Auditor and a fresh one disagree on %s: reused=%v fresh=%v (expected %s)", fo.File, v.Fail, fv.Fail, expect)
				}
			}
			var w map[string]interface{}
			if wantWitness(sig, j.id) {
				w = map[string]interface{}{
					"program": bp.ix, "job": j.id, "kind": j.kind, "audited_file": fo.File, "expected": expect, "source": src,
					"script": script, "verdict": v,
					"command": fmt.Sprintf("frugal -audit old/%s new/%s", bp.p.File(g).FileName(), np.File(g).FileName()),
					"old":     readFiles(bp.oldDir, bp.p), "new": readFiles(res.newDir, np),
					"style": j.style.String(),
				}
			}
			res.vios = append(res.vios, vio{sig: sig, what: what, witness: w})
		}
		res.outcomes = append(res.outcomes, fo)
	}
	os.RemoveAll(res.newDir)
	return res
}

// ---------------------------------------------------------------------------
// the run
// ---------------------------------------------------------------------------

func runC18() int {
	run := ev.New("C18", ev.ArgTier(), "exploration")
	run.Rule("N random base programs (idl.Generate, CoreConfig, 1-3 files) + R more on which only the operators with few sites per program are enumerated + T more generated with TransitiveTypedefs and planted structures - a chain root -> zqmid -> zqdeep (root does not include zqdeep), three same-named services (local / zqcore / zqlegacy) with a child each, a diamond (zqfirst, zqsecond, zqthird all include zqshared) - on which every typedef operator, every extends change between same-named parents, every include drop and the whole catalogue inside zqshared are enumerated, plus pairs (one parent drops the shared include + a breaking edit inside it); new = old + an edit script over the documented catalogue " +
		"(compiler/parser/audit.go requirement comments + property text): (a) EVERY single operator at EVERY applicable site of every base program " +
		"(exhaustive per program: every field / argument / exception / method / operation / enum variant / declaration, every node of every type " +
		"expression, every typedef), (b) pairs of one breaking + one compatible edit (random sample, same-declaration neighbours, and replacements = a removal plus an addition to the same list; both orders), (c) random scripts of 2-6 edits " +
		"(mixed and compatible-only), (d) identical text and the same model re-rendered in other lexical styles. Expected: audit fails iff the " +
		"script holds >= 1 breaking operator, per audited file (the root, and every file an edit is in or is seen from). " +
		"distinct = (operator, site kind: declaration kind, position first/middle/last/only, nesting depth key/value, requiredness ...)")
	run.Assume("verif/idl renders the model faithfully (C10 anchors the parser against it); the label of each operator is the one documented in audit.go / the property text (catalogue in the evidence)")
	run.Assume("two edits of one script never share a site (conflict keys) and added ids / enum numbers / names are fresh, so no edit cancels another")

	nProg, nRare, nTrans, nDropPairs, nPairB, nPairC, nNeighbours, nReplace, nScripts, nRestyle, binEvery := 5, 30, 10, 16, 8, 8, 40, 60, 40, 4, 3
	if run.Thorough() {
		nProg, nRare, nTrans, nDropPairs, nPairB, nPairC, nNeighbours, nReplace, nScripts, nRestyle, binEvery = 200, 300, 150, 12, 6, 6, 30, 40, 24, 3, 8
	}
	bin, err := emit.FrugalBin()
	if err != nil {
		run.Inconclusive(err.Error())
		return run.Finish()
	}
	scratch := filepath.Join(ev.ScratchDir(), "c18")
	os.MkdirAll(scratch, 0o755)
	cfg := idl.CoreConfig()
	workers := runtime.NumCPU()
	if workers > 16 {
		workers = 16
	}
	if workers < 2 {
		workers = 2
	}

	// ---- base programs and job list: a pure function of (seed, tier) ----
	// (every base program has its own PRNG stream, so the programs are set up in parallel)
	setupOne := func(i int) (*baseProg, []*job, map[string]int) {
		var jobs []*job
		setup := newInproc()
		opSites := map[string]int{}
		rng := run.Rand(fmt.Sprintf("c18-prog-%d", i))
		pcfg := cfg
		if i >= nProg+nRare {
			// pool with typedefs that alias another file's types (chains across
			// includes; the root need not include the deepest file)
			pcfg.TransitiveTypedefs = true
			pcfg.MinFiles, pcfg.MaxFiles = 2, 3
		}
		bp := &baseProg{ix: i, p: idl.Generate(rng, pcfg), style: idl.RandomStyle(rng)}
		if i >= nProg+nRare {
			augmentTransitive(bp.p, rng)
		}
		if i%3 == 0 {
			bp.style = idl.DefaultStyle()
		}
		if err := validateProgram(bp.p); err != nil {
			run.Inconclusive(fmt.Sprintf("base program %d rejected by the check's validity net: %v", i, err))
			return nil, nil, nil
		}
		bp.oldDir = filepath.Join(scratch, fmt.Sprintf("p%d", i), "old")
		bp.empty = drawEmptyThrows(bp.p, rng)
		if i >= nProg+nRare {
			bp.empty[emptyKey(bp.p.Root().Base, "ZqThrows", "zqEmpty")] = true
			bp.empty[emptyKey(bp.p.Root().Base, "ZqThrows", "zqRet")] = true
			delete(bp.empty, emptyKey(bp.p.Root().Base, "ZqThrows", "zqPlain"))
		}
		root, _ := writeProgram(bp.p, bp.oldDir, bp.style, bp.empty)
		if v := setup.audit(root, root); v.Bad != "" {
			// the style is the parser's business (C10), not the audit's: fall back to the plain rendering
			run.Add("style_fallbacks", 1)
			bp.style = idl.DefaultStyle()
			root, _ = writeProgram(bp.p, bp.oldDir, bp.style, bp.empty)
			if v := setup.audit(root, root); v.Bad != "" {
				run.Inconclusive(fmt.Sprintf("base program %d does not parse: %s", i, v.Bad))
				return nil, nil, nil
			}
		}
		bp.edits = enumerate(bp.p, rng, bp.empty)
		add := func(kind string, edits []int, st idl.Style) {
			jobs = append(jobs, &job{base: bp, kind: kind, edits: edits, style: st})
		}
		// an include dropped by one file + a breaking edit inside that include,
		// which other files still include (diamonds): the shared file must
		// still be compared
		dropPairs := func() {
			var dp [][2]int
			for d, de := range bp.edits {
				if de.Op != "drop-include" || !strings.HasSuffix(de.SiteKind, "shared-with-other-files") {
					continue
				}
				target := strings.TrimPrefix(de.Keys[0], de.File+"/inc:")
				for b, be := range bp.edits {
					if be.Breaking && be.File == target {
						dp = append(dp, [2]int{d, b})
					}
				}
			}
			rng.Shuffle(len(dp), func(a, b int) { dp[a], dp[b] = dp[b], dp[a] })
			if len(dp) > nDropPairs {
				dp = dp[:nDropPairs]
			}
			for k, x := range dp {
				if k%2 == 0 {
					add("include-dropped+breaking", []int{x[0], x[1]}, bp.style)
				} else {
					add("include-dropped+breaking", []int{x[1], x[0]}, bp.style)
				}
			}
		}
		if i >= nProg+nRare {
			add("identical", nil, bp.style)
			for ix, e := range bp.edits {
				if transitiveOp(e) {
					add("single", []int{ix}, bp.style)
					opSites[e.Op]++
				}
			}
			dropPairs()
			return bp, jobs, opSites
		}
		if i >= nProg {
			// extra base programs for the operators that have only a handful
			// of applicable sites per program: every site of those, nothing else
			for ix, e := range bp.edits {
				if rareOps[e.Op] {
					add("single", []int{ix}, bp.style)
					opSites[e.Op]++
				}
			}
			return bp, jobs, opSites
		}
		add("identical", nil, bp.style)
		for k := 0; k < nRestyle; k++ {
			add("restyled", nil, idl.RandomStyle(rng))
		}
		var br, co []int
		for ix, e := range bp.edits {
			add("single", []int{ix}, bp.style)
			opSites[e.Op]++
			if e.Breaking {
				br = append(br, ix)
			} else {
				co = append(co, ix)
			}
		}
		// pairs: one breaking + one compatible
		pick := func(from []int, n int) []int {
			from = append([]int{}, from...)
			rng.Shuffle(len(from), func(a, b int) { from[a], from[b] = from[b], from[a] })
			if len(from) > n {
				from = from[:n]
			}
			return from
		}
		for bi, b := range pick(br, nPairB) {
			for ci, c := range pick(co, nPairC) {
				if conflict(bp.edits[b], bp.edits[c]) {
					continue
				}
				if (bi+ci)%2 == 0 {
					add("pair", []int{b, c}, bp.style)
				} else {
					add("pair", []int{c, b}, bp.style)
				}
			}
		}
		// neighbours: a breaking edit together with a compatible edit of the
		// same declaration (where one change is most likely to mask the other)
		byDecl := map[string][]int{}
		for _, c := range co {
			byDecl[declOf(bp.edits[c])] = append(byDecl[declOf(bp.edits[c])], c)
		}
		for k, b := range pick(br, nNeighbours) {
			cands := byDecl[declOf(bp.edits[b])]
			if len(cands) == 0 {
				continue
			}
			c := cands[rng.Intn(len(cands))]
			if conflict(bp.edits[b], bp.edits[c]) {
				continue
			}
			if k%2 == 0 {
				add("neighbour-pair", []int{b, c}, bp.style)
			} else {
				add("neighbour-pair", []int{c, b}, bp.style)
			}
		}
		// replacements: something removed (or renamed) and something else
		// added to the same list in one step - the addition must not mask
		// the removal
		var repl [][2]int
		for _, b := range br {
			want, ok := addFor[bp.edits[b].Op]
			if !ok {
				continue
			}
			for _, c := range co {
				if want[bp.edits[c].Op] && containerOf(bp.edits[b]) == containerOf(bp.edits[c]) && !conflict(bp.edits[b], bp.edits[c]) {
					repl = append(repl, [2]int{b, c})
				}
			}
		}
		rng.Shuffle(len(repl), func(a, b int) { repl[a], repl[b] = repl[b], repl[a] })
		if len(repl) > nReplace {
			repl = repl[:nReplace]
		}
		for k, bc := range repl {
			if k%2 == 0 {
				add("replace-pair", []int{bc[0], bc[1]}, bp.style)
			} else {
				add("replace-pair", []int{bc[1], bc[0]}, bp.style)
			}
		}
		dropPairs()
		// random scripts of 2-6 edits: compatible-only and mixed
		for k := 0; k < nScripts; k++ {
			pool, kind := co, "compat-script"
			if k%2 == 1 {
				kind = "script"
				pool = nil
				for ix := range bp.edits {
					pool = append(pool, ix)
				}
			}
			want := 2 + rng.Intn(5)
			var chosen []int
			for tries := 0; len(chosen) < want && tries < 40 && len(pool) > 0; tries++ {
				cand := pool[rng.Intn(len(pool))]
				ok := true
				for _, c := range chosen {
					if c == cand || conflict(bp.edits[c], bp.edits[cand]) {
						ok = false
					}
				}
				if ok {
					chosen = append(chosen, cand)
				}
			}
			if len(chosen) >= 2 {
				add(kind, chosen, bp.style)
			}
		}
		return bp, jobs, opSites
	}
	type setupResult struct {
		bp    *baseProg
		jobs  []*job
		sites map[string]int
	}
	setups := make([]setupResult, nProg+nRare+nTrans)
	{
		var wg sync.WaitGroup
		sem := make(chan struct{}, workers)
		for i := range setups {
			wg.Add(1)
			sem <- struct{}{}
			go func(i int) {
				defer wg.Done()
				defer func() { <-sem }()
				bp, js, sites := setupOne(i)
				setups[i] = setupResult{bp, js, sites}
			}(i)
		}
		wg.Wait()
	}
	var jobs []*job
	var bases []*baseProg
	opSites := map[string]int{}
	for _, su := range setups {
		if su.bp == nil {
			continue
		}
		bases = append(bases, su.bp)
		for _, j := range su.jobs {
			j.id = len(jobs)
			jobs = append(jobs, j)
		}
		for op, n := range su.sites {
			opSites[op] += n
		}
	}
	for i, j := range jobs {
		j.binary = binEvery == 1 || i%binEvery == 0 || j.kind == "identical"
	}

	// ---- evaluate in parallel, report in job order ----
	results := make([]*result, len(jobs))
	var wg sync.WaitGroup
	ch := make(chan *job, 64)
	for w := 0; w < workers; w++ {
		wg.Add(1)
		go func() {
			defer wg.Done()
			a := newInproc()
			for j := range ch {
				results[j.id] = evaluate(j, a, bin, scratch)
			}
		}()
	}
	for _, j := range jobs {
		ch <- j
	}
	close(ch)
	wg.Wait()

	// ---- verdicts and evidence ----
	opCount := map[string]int{}
	kindCount := map[string]int{}
	skipWhy := map[string]int{}
	labelCount := map[string]int{}
	warnSeen, errSeen := 0, 0
	sigCount := map[string]int{}
	for _, r := range results {
		if r.skipped != "" {
			w := r.skipped
			if i := strings.Index(w, ":"); i > 0 {
				w = w[:i]
			}
			skipWhy[r.job.kind+": "+w]++
			if os.Getenv("VERIF_C18_DEBUG") != "" {
				fmt.Printf("DEBUG skipped %s job %d: %s\n", r.job.kind, r.job.id, r.skipped)
				for _, ix := range r.job.edits {
					fmt.Printf("   %s\n", r.job.base.edits[ix])
				}
			}
			if r.job.kind == "single" && !strings.HasPrefix(r.skipped, "site not applicable") {
				run.Inconclusive(fmt.Sprintf("program %d single edit %s: %s", r.job.base.ix, r.job.base.edits[r.job.edits[0]], r.skipped))
			}
			continue
		}
		run.Eval(1)
		kindCount[r.job.kind]++
		brk := false
		for _, e := range r.applied {
			opCount[e.Op]++
			run.Distinct(e.Op + " @ " + e.SiteKind)
			if e.Breaking {
				brk = true
			}
		}
		if len(r.applied) == 0 {
			run.Distinct(r.job.kind)
		}
		if brk {
			labelCount["pairs_with_breaking_edit"]++
		} else {
			labelCount["pairs_compatible_only_or_identical"]++
		}
		run.Add("audits_in_process", r.audits)
		run.Add("audits_through_binary", r.binRuns)
		run.Add("audits_through_other_command_line_shapes", r.shapeRuns)
		run.Add("binary_vs_inprocess_agree", r.binAgree)
		run.Add("binary_vs_inprocess_disagree", r.binDis)
		run.Add("edits_dropped_in_combination", r.dropped)
		run.Add("restyled_renderings_rejected_by_the_parser", r.restyleRejected)
		for _, o := range r.outcomes {
			errSeen += len(o.InProc.Errors)
			warnSeen += len(o.InProc.Warnings)
			switch {
			case o.InProc.Fail:
				run.Add("audits_failed", 1)
			default:
				run.Add("audits_passed", 1)
			}
		}
		if len(r.applied) > 0 && r.job.id%97 == 0 {
			s := []string{}
			for _, e := range r.applied {
				s = append(s, e.String())
			}
			run.Sample(map[string]interface{}{"program": r.job.base.ix, "kind": r.job.kind, "script": s, "outcomes": r.outcomes})
		}
		for _, v := range r.vios {
			if v.sig == "INCONCLUSIVE" {
				run.Inconclusive(v.what)
				continue
			}
			sigCount[v.sig]++
			run.Violation(v.sig, v.what, v.witness)
		}
	}
	knownWitnesses(run, bin, scratch)

	run.Set("base_programs", len(bases))
	run.Set("base_programs_fully_enumerated", nProg)
	run.Set("base_programs_rare_operators_only", nRare)
	run.Set("base_programs_transitive_typedef_pool", nTrans)
	feat := map[string]bool{}
	files := 0
	for _, b := range bases {
		files += len(b.p.Files)
		for _, f := range b.p.FeatureList() {
			feat[f] = true
		}
	}
	run.Set("base_program_files", files)
	run.Set("base_program_features", len(feat))
	run.Set("pairs_by_kind", kindCount)
	run.Set("pairs_by_label", labelCount)
	run.Set("operators_applied", opCount)
	run.Set("operator_sites_enumerated", opSites)
	run.Set("command_line_shapes", cliShapes)
	run.Set("operators_in_catalogue", len(catalogue))
	run.Set("operators_exercised", len(opCount))
	run.Set("skipped", skipWhy)
	run.Set("refuting_observations_by_signature", sigCount)
	run.Set("error_lines_observed", errSeen)
	run.Set("warning_lines_observed", warnSeen)
	run.Set("single_edit_enumeration", "exhaustive per base program: every operator of the catalogue at every applicable site")
	cat := map[string]string{}
	never := []string{}
	for op, ce := range catalogue {
		l := "compatible: "
		if ce.Breaking {
			l = "BREAKING: "
		}
		cat[op] = l + ce.Why
		if opCount[op] == 0 {
			never = append(never, op)
		}
	}
	sort.Strings(never)
	run.Set("catalogue", cat)
	run.Set("operators_never_applied", never)
	if run.Thorough() && len(never) > 0 {
		run.Inconclusive("operators of the catalogue never exercised: " + strings.Join(never, ", "))
	}
	if run.Count("audits_through_binary") == 0 {
		run.Inconclusive("no pair went through the real binary")
	}
	return run.Finish()
}

var _ = rand.Int
