package main

import (
	"math/rand"

	"verif/idl"
)

// augmentTransitive plants a chain root -> zqmid -> zqdeep into a program:
// zqdeep declares aliases of base types, zqmid (which includes zqdeep and
// declares aliases only, so that nothing but the root's own positions uses
// them) re-exports them as a bare alias, as an alias of an alias, inside a
// container alias (element and key position) and inside a nested container
// alias; the root includes zqmid but NOT zqdeep and uses each zqmid alias in
// one audited position of its own (field, nested field, argument, return
// type).  Retargeting a zqdeep alias is then a breaking change of the root
// that the root reaches only transitively.
func augmentTransitive(p *idl.Program, rng *rand.Rand) {
	bases := []string{"bool", "byte", "i16", "i32", "i64", "double", "string"}
	b := func() *idl.Type { return idl.T(bases[rng.Intn(len(bases))]) }
	td := func(name string, t *idl.Type) *idl.Decl { return &idl.Decl{TypeDef: &idl.TypeDef{Name: name, Type: t}} }
	ext := ".frugal"
	if rng.Intn(3) == 0 {
		ext = ".thrift"
	}
	deep := &idl.File{Base: "zqdeep", Ext: ext}
	for _, n := range []string{"ZqIdA", "ZqIdB", "ZqIdC", "ZqIdD", "ZqIdE"} {
		deep.Decls = append(deep.Decls, td(n, b()))
	}
	mid := &idl.File{Base: "zqmid", Ext: ".frugal", Includes: []*idl.Include{{Path: deep.FileName()}}}
	var contB *idl.Type
	if rng.Intn(2) == 0 {
		contB = idl.ListOf(idl.T("zqdeep.ZqIdB"))
	} else {
		contB = idl.SetOf(idl.T("zqdeep.ZqIdB"))
	}
	var mapD *idl.Type
	if rng.Intn(2) == 0 {
		mapD = idl.MapOf(idl.T("zqdeep.ZqIdD"), idl.T("string"))
	} else {
		mapD = idl.MapOf(idl.T("string"), idl.T("zqdeep.ZqIdD"))
	}
	mid.Decls = []*idl.Decl{
		td("ZqHandleA", idl.T("zqdeep.ZqIdA")),
		td("ZqHandlesB", contB),
		td("ZqHandleC", idl.T("zqdeep.ZqIdC")),
		td("ZqHandleC2", idl.T("ZqHandleC")),
		td("ZqIndexD", mapD),
		td("ZqNestedE", idl.MapOf(idl.T("string"), idl.ListOf(idl.T("zqdeep.ZqIdE")))),
	}
	root := p.Root()
	root.Includes = append(root.Includes, &idl.Include{Path: mid.FileName()})
	at := len(root.Decls)
	for i, d := range root.Decls {
		if d.Service != nil || d.Scope != nil {
			at = i
			break
		}
	}
	structs := []*idl.Decl{
		{Struct: &idl.Struct{Kind: idl.KindStruct, Name: "ZqUserA", Fields: []*idl.Field{{ID: 1, Name: "zqA", Type: idl.T("zqmid.ZqHandleA")}}}},
		{Struct: &idl.Struct{Kind: idl.KindStruct, Name: "ZqUserB", Fields: []*idl.Field{{ID: 1, Name: "zqPlain", Type: idl.T("i32")}, {ID: 2, Name: "zqB", Req: idl.ReqOptional, Type: idl.T("zqmid.ZqHandlesB")}}}},
		{Struct: &idl.Struct{Kind: idl.KindStruct, Name: "ZqUserC", Fields: []*idl.Field{{ID: 1, Name: "zqC", Type: idl.MapOf(idl.T("string"), idl.ListOf(idl.T("zqmid.ZqHandleC2")))}}}},
	}
	for k, d := range structs {
		insertDecl(root, at+k, d)
	}
	svc := &idl.Decl{Service: &idl.Service{Name: "ZqTransitive", Methods: []*idl.Method{
		{Name: "zqLookup", Ret: idl.T("zqmid.ZqNestedE"), Args: []*idl.Field{{ID: 1, Name: "zqIndex", Type: idl.T("zqmid.ZqIndexD")}}},
	}}}
	at = len(root.Decls)
	for i, d := range root.Decls {
		if d.Scope != nil {
			at = i
			break
		}
	}
	insertDecl(root, at, svc)
	p.Files = append([]*idl.File{deep, mid}, p.Files...)
}

// transitiveOps are the operators enumerated on the transitive-typedef pool.
func transitiveOp(e *edit) bool {
	switch e.Op {
	case "retarget-typedef", "inline-typedef-use", "remove-typedef":
		return true
	case "introduce-typedef":
		return e.File == "zqmid" || e.File == "zqdeep"
	}
	return false
}
