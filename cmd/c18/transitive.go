package main

import (
	"math/rand"
	"strings"

	"verif/idl"
)

// augmentTransitive plants a chain root -> zqmid -> zqdeep into a program:
// zqdeep declares aliases of base types, zqmid (which includes zqdeep and
// declares aliases only, so that nothing but the root's own positions uses
// them) re-exports them as a bare alias, as an alias of an alias, inside a
// container alias (element and key position) and inside a nested container
// alias; the root includes zqmid but NOT zqdeep and uses each zqmid alias in
// one audited position of its own (field, nested field, argument, return
// type).  Retargeting a zqdeep alias is then a breaking change of the root
// that the root reaches only transitively.
func augmentTransitive(p *idl.Program, rng *rand.Rand) {
	bases := []string{"bool", "byte", "i16", "i32", "i64", "double", "string"}
	b := func() *idl.Type { return idl.T(bases[rng.Intn(len(bases))]) }
	td := func(name string, t *idl.Type) *idl.Decl { return &idl.Decl{TypeDef: &idl.TypeDef{Name: name, Type: t}} }
	ext := ".frugal"
	if rng.Intn(3) == 0 {
		ext = ".thrift"
	}
	deep := &idl.File{Base: "zqdeep", Ext: ext}
	for _, n := range []string{"ZqIdA", "ZqIdB", "ZqIdC", "ZqIdD", "ZqIdE"} {
		deep.Decls = append(deep.Decls, td(n, b()))
	}
	mid := &idl.File{Base: "zqmid", Ext: ".frugal", Includes: []*idl.Include{{Path: deep.FileName()}}}
	var contB *idl.Type
	if rng.Intn(2) == 0 {
		contB = idl.ListOf(idl.T("zqdeep.ZqIdB"))
	} else {
		contB = idl.SetOf(idl.T("zqdeep.ZqIdB"))
	}
	var mapD *idl.Type
	if rng.Intn(2) == 0 {
		mapD = idl.MapOf(idl.T("zqdeep.ZqIdD"), idl.T("string"))
	} else {
		mapD = idl.MapOf(idl.T("string"), idl.T("zqdeep.ZqIdD"))
	}
	mid.Decls = []*idl.Decl{
		td("ZqHandleA", idl.T("zqdeep.ZqIdA")),
		td("ZqHandlesB", contB),
		td("ZqHandleC", idl.T("zqdeep.ZqIdC")),
		td("ZqHandleC2", idl.T("ZqHandleC")),
		td("ZqIndexD", mapD),
		td("ZqNestedE", idl.MapOf(idl.T("string"), idl.ListOf(idl.T("zqdeep.ZqIdE")))),
	}
	root := p.Root()
	root.Includes = append(root.Includes, &idl.Include{Path: mid.FileName()})
	at := len(root.Decls)
	for i, d := range root.Decls {
		if d.Service != nil || d.Scope != nil {
			at = i
			break
		}
	}
	structs := []*idl.Decl{
		{Struct: &idl.Struct{Kind: idl.KindStruct, Name: "ZqUserA", Fields: []*idl.Field{{ID: 1, Name: "zqA", Type: idl.T("zqmid.ZqHandleA")}}}},
		{Struct: &idl.Struct{Kind: idl.KindStruct, Name: "ZqUserB", Fields: []*idl.Field{{ID: 1, Name: "zqPlain", Type: idl.T("i32")}, {ID: 2, Name: "zqB", Req: idl.ReqOptional, Type: idl.T("zqmid.ZqHandlesB")}}}},
		{Struct: &idl.Struct{Kind: idl.KindStruct, Name: "ZqUserC", Fields: []*idl.Field{{ID: 1, Name: "zqC", Type: idl.MapOf(idl.T("string"), idl.ListOf(idl.T("zqmid.ZqHandleC2")))}}}},
	}
	for k, d := range structs {
		insertDecl(root, at+k, d)
	}
	svc := &idl.Decl{Service: &idl.Service{Name: "ZqTransitive", Methods: []*idl.Method{
		{Name: "zqLookup", Ret: idl.T("zqmid.ZqNestedE"), Args: []*idl.Field{{ID: 1, Name: "zqIndex", Type: idl.T("zqmid.ZqIndexD")}}},
	}}}
	at = len(root.Decls)
	for i, d := range root.Decls {
		if d.Scope != nil {
			at = i
			break
		}
	}
	insertDecl(root, at, svc)
	p.Files = append([]*idl.File{deep, mid}, p.Files...)
	plantSameNameParents(p)
	plantDiamond(p)
	plantPrefixes(p)
	plantKindsAndConstants(p)
}

// plantKindsAndConstants gives the root one unreferenced definition of each
// kind (with required / optional / default members) and container constants
// up to two levels deep whose numbers fit every integer type.
func plantKindsAndConstants(p *idl.Program) {
	root := p.Root()
	at := len(root.Decls)
	for i, d := range root.Decls {
		if d.Service != nil || d.Scope != nil {
			at = i
			break
		}
	}
	fields := func() []*idl.Field {
		return []*idl.Field{{ID: 1, Name: "zqCode", Req: idl.ReqRequired, Type: idl.T("i32")}, {ID: 2, Name: "zqNote", Req: idl.ReqOptional, Type: idl.T("string")}, {ID: 3, Name: "zqTags", Type: idl.ListOf(idl.T("string"))}}
	}
	decls := []*idl.Decl{
		{Enum: &idl.Enum{Name: "ZqColor", Values: []*idl.EnumValue{{Name: "ZQ_RED", Value: 0}, {Name: "ZQ_GREEN", Value: 1}, {Name: "ZQ_BLUE", Value: 2}}}},
		{Enum: &idl.Enum{Name: "ZqLevel", Values: []*idl.EnumValue{{Name: "ZQ_LOW", Value: 1, Explicit: true}, {Name: "ZQ_MID", Value: 5, Explicit: true}, {Name: "ZQ_HIGH", Value: 9, Explicit: true}}}},
		{Struct: &idl.Struct{Kind: idl.KindStruct, Name: "ZqKindStruct", Fields: fields()}},
		{Struct: &idl.Struct{Kind: idl.KindUnion, Name: "ZqKindUnion", Fields: []*idl.Field{{ID: 1, Name: "zqCode", Type: idl.T("i32")}, {ID: 2, Name: "zqNote", Type: idl.T("string")}}}},
		{Struct: &idl.Struct{Kind: idl.KindException, Name: "ZqKindError", Fields: fields()}},
		{Const: &idl.Const{Name: "ZQ_LIST", Type: idl.ListOf(idl.T("i32")), Value: []interface{}{int64(1), int64(2), int64(3)}}},
		{Const: &idl.Const{Name: "ZQ_SET", Type: idl.SetOf(idl.T("i16")), Value: []interface{}{int64(4), int64(5)}}},
		{Const: &idl.Const{Name: "ZQ_MAP", Type: idl.MapOf(idl.T("string"), idl.T("i32")), Value: []idl.KV{{Key: "a", Value: int64(1)}, {Key: "b", Value: int64(2)}}}},
		{Const: &idl.Const{Name: "ZQ_BY_NUMBER", Type: idl.MapOf(idl.T("i32"), idl.T("string")), Value: []idl.KV{{Key: int64(1), Value: "one"}}}},
		{Const: &idl.Const{Name: "ZQ_NESTED", Type: idl.MapOf(idl.T("string"), idl.ListOf(idl.T("i32"))), Value: []idl.KV{{Key: "a", Value: []interface{}{int64(1), int64(2)}}}}},
	}
	for k, d := range decls {
		insertDecl(root, at+k, d)
	}
	// void methods without exceptions in both spellings (zqEmpty and zqRet are
	// rendered with `throws ()`), and one that throws
	at = len(root.Decls)
	for i, d := range root.Decls {
		if d.Scope != nil {
			at = i
			break
		}
	}
	insertDecl(root, at, &idl.Decl{Service: &idl.Service{Name: "ZqThrows", Methods: []*idl.Method{
		{Name: "zqPlain"}, {Name: "zqEmpty", Args: []*idl.Field{{ID: 1, Name: "zqArg", Type: idl.T("i32")}}},
		{Name: "zqOne", Throws: []*idl.Field{{ID: 1, Name: "zqErr", Type: idl.T("ZqKindError")}}},
		{Name: "zqRet", Ret: idl.T("i32")},
	}}})
}

// plantPrefixes gives the root scopes whose prefix spells a variable's name
// in a literal segment too (equal to it, or containing it).
func plantPrefixes(p *idl.Program) {
	root := p.Root()
	root.Ext = ".frugal"
	for _, sc := range [][2]string{
		{"ZqUserEvents", "user.{user}.events"}, {"ZqTenant", "v1.tenant.{tenant}"}, {"ZqRegion", "{region}.region.stream"},
		{"ZqOrders", "orders.{order}"}, {"ZqFeed", "data.{at}.feed"},
	} {
		root.Decls = append(root.Decls, &idl.Decl{Scope: &idl.Scope{Name: sc[0], Prefix: sc[1], Ops: []*idl.Operation{{Name: "ZqSent", Type: idl.T("string")}}}})
	}
}

// plantSameNameParents gives the root three services that are all called
// ZqBase (local, in zqcore, in zqlegacy) and one child of each, so that
// "extends changed" can be exercised between parents that differ in the
// file only.
func plantSameNameParents(p *idl.Program) {
	core := &idl.File{Base: "zqcore", Ext: ".frugal", Decls: []*idl.Decl{{Service: &idl.Service{Name: "ZqBase", Methods: []*idl.Method{
		{Name: "zqPing"}, {Name: "zqVersion", Ret: idl.T("i32")}}}}}}
	legacy := &idl.File{Base: "zqlegacy", Ext: ".frugal", Decls: []*idl.Decl{{Service: &idl.Service{Name: "ZqBase", Methods: []*idl.Method{
		{Name: "zqDescribe", Ret: idl.T("string"), Args: []*idl.Field{{ID: 1, Name: "zqWhat", Type: idl.T("string")}}}}}}}}
	root := p.Root()
	root.Includes = append(root.Includes, &idl.Include{Path: core.FileName()}, &idl.Include{Path: legacy.FileName()})
	at := len(root.Decls)
	for i, d := range root.Decls {
		if d.Scope != nil {
			at = i
			break
		}
	}
	child := func(name, ext, m string) *idl.Decl {
		return &idl.Decl{Service: &idl.Service{Name: name, Extends: ext, Methods: []*idl.Method{{Name: m, Ret: idl.T("i64"), Args: []*idl.Field{{ID: 1, Name: "zqKey", Type: idl.T("i64")}}}}}}
	}
	for k, d := range []*idl.Decl{
		{Service: &idl.Service{Name: "ZqBase", Methods: []*idl.Method{{Name: "zqLocal", Ret: idl.T("bool")}}}},
		child("ZqStoreCore", "zqcore.ZqBase", "zqGetCore"),
		child("ZqStoreLocal", "ZqBase", "zqGetLocal"),
		child("ZqStoreLegacy", "zqlegacy.ZqBase", "zqGetLegacy"),
	} {
		insertDecl(root, at+k, d)
	}
	p.Files = append([]*idl.File{core, legacy}, p.Files...)
}

// plantDiamond makes zqshared reachable from the root through three parents:
// zqfirst and zqthird name it in a constant and an unused alias only (they can
// drop the include compatibly), zqsecond uses it in an audited field and keeps
// it.  The audit visits includes in alphabetical order, depth first:
// zqfirst before zqsecond before zqthird.
func plantDiamond(p *idl.Program) {
	shared := &idl.File{Base: "zqshared", Ext: ".frugal", Decls: []*idl.Decl{
		{Enum: &idl.Enum{Name: "ZqKind", Values: []*idl.EnumValue{{Name: "ZQ_CASH", Value: 0}, {Name: "ZQ_CARD", Value: 1}}}},
		{Struct: &idl.Struct{Kind: idl.KindStruct, Name: "ZqMoney", Fields: []*idl.Field{{ID: 1, Name: "zqAmount", Type: idl.T("i32")}, {ID: 2, Name: "zqCurrency", Type: idl.T("string")}, {ID: 3, Name: "zqKind", Req: idl.ReqRequired, Type: idl.T("ZqKind")}}}},
	}}
	loose := func(base, st string) *idl.File {
		return &idl.File{Base: base, Ext: ".frugal", Includes: []*idl.Include{{Path: shared.FileName()}}, Decls: []*idl.Decl{
			{TypeDef: &idl.TypeDef{Name: "ZqCash", Type: idl.T("zqshared.ZqMoney")}},
			{Struct: &idl.Struct{Kind: idl.KindStruct, Name: st, Fields: []*idl.Field{{ID: 1, Name: "zqId", Type: idl.T("i64")}}}},
			{Const: &idl.Const{Name: "ZQ_DEFAULT_KIND", Type: idl.T("zqshared.ZqKind"), Value: idl.Ident("zqshared.ZqKind.ZQ_CARD")}},
		}}
	}
	first, third := loose("zqfirst", "ZqInvoice"), loose("zqthird", "ZqReceipt")
	second := &idl.File{Base: "zqsecond", Ext: ".frugal", Includes: []*idl.Include{{Path: shared.FileName()}}, Decls: []*idl.Decl{
		{Struct: &idl.Struct{Kind: idl.KindStruct, Name: "ZqOrder", Fields: []*idl.Field{{ID: 1, Name: "zqId", Type: idl.T("i64")}, {ID: 2, Name: "zqPrice", Type: idl.T("zqshared.ZqMoney")}}}},
	}}
	root := p.Root()
	for _, f := range []*idl.File{first, second, third} {
		root.Includes = append(root.Includes, &idl.Include{Path: f.FileName()})
	}
	at := len(root.Decls)
	for i, d := range root.Decls {
		if d.Scope != nil {
			at = i
			break
		}
	}
	insertDecl(root, at, &idl.Decl{Service: &idl.Service{Name: "ZqShop", Methods: []*idl.Method{
		{Name: "zqOrder", Ret: idl.T("zqsecond.ZqOrder"), Args: []*idl.Field{{ID: 1, Name: "zqId", Type: idl.T("i64")}}},
		{Name: "zqInvoice", Ret: idl.T("zqfirst.ZqInvoice"), Args: []*idl.Field{{ID: 1, Name: "zqOrderId", Type: idl.T("i64")}}},
		{Name: "zqReceipt", Ret: idl.T("zqthird.ZqReceipt")},
	}}})
	p.Files = append([]*idl.File{shared, first, second, third}, p.Files...)
}

// transitiveOps are the operators enumerated on the transitive-typedef pool.
func transitiveOp(e *edit) bool {
	switch e.Op {
	case "retarget-typedef", "inline-typedef-use", "remove-typedef":
		return true
	case "introduce-typedef":
		return e.File == "zqmid" || e.File == "zqdeep"
	case "change-extends", "remove-extends":
		return strings.Contains(e.Site, "service Zq")
	case "drop-include":
		return true
	case "renumber-enum-value", "remove-enum-value", "rename-enum-variant", "add-enum-value-end":
		return strings.Contains(e.Site, "enum Zq")
	case "toggle-empty-throws", "add-first-exception-to-void", "remove-all-exceptions-of-void", "add-exception-end":
		return strings.Contains(e.Site, "service Zq")
	case "change-kind", "change-const-type":
		return strings.Contains(e.Site, " Zq") || strings.Contains(e.Site, "const ZQ_")
	case "change-prefix", "rename-prefix-variable":
		return strings.Contains(e.Site, "scope Zq")
	}
	// the whole catalogue inside the planted shared include
	if e.File == "zqshared" {
		return true
	}
	return false
}
