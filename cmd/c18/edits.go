package main

import (
	"fmt"
	"math/rand"
	"sort"
	"strings"

	"verif/idl"
)

// catalogue maps every operator of the edit scripts to its label and to the
// place in compiler/parser/audit.go (requirement comments + the code that
// implements them) or in the property text that justifies the label.
type catEntry struct {
	Breaking bool
	Why      string
}

var catalogue = map[string]catEntry{
	// ---- breaking ----
	"remove-struct":                 {true, "audit.go:267 'Struct removed' (checkStructLike :278-285 'missing struct')"},
	"rename-struct":                 {true, "audit.go:267 'Struct removed': the old name is gone (:283); DESIGN: renaming a struct is a removal"},
	"change-kind":                   {true, "audit.go:267 'Struct removed': structs, exceptions and unions are audited as three separate lists (auditFrugal: checkStructLike x3), so a definition that keeps its name but changes kind is missing from its old list ('missing struct' :283); on the wire a union is all-optional / an exception is raised, not returned"},
	"remove-field":                  {true, "audit.go:270 'Non-optional field removed' (checkFields :392-394); only default/required fields of structs and exceptions"},
	"retype-field":                  {true, "audit.go:269 'Field type changed' (checkFields :377, checkType :421-446, recursion :444-445)"},
	"flip-requiredness":             {true, "audit.go:268 'Presence modifier changed from optional/default to required (or vice versa)' (:379-384)"},
	"add-required-field":            {true, "audit.go:271 'Addition of required field' (:406-408)"},
	"remove-enum-value":             {true, "audit.go:223 'Enum variant removed' (checkEnumValues :246-257, by numeric value)"},
	"renumber-enum-value":           {true, "audit.go:223 'Enum variant removed': variants are compared by numeric value (:246-257), the old number is gone although the name survives; the number is what travels on the wire"},
	"remove-scope":                  {true, "audit.go:110 'Scopes removed' (:126)"},
	"rename-scope":                  {true, "audit.go:110 'Scopes removed': the old name is gone (:126)"},
	"change-prefix":                 {true, "audit.go:111 'Scope prefix changed in any way other than renaming variables' (:131-152)"},
	"remove-operation":              {true, "audit.go:112 'Operation removed' (:165)"},
	"rename-operation":              {true, "audit.go:112 'Operation removed': the old name is gone (:165)"},
	"retype-operation":              {true, "audit.go:113 'Operation type changed' (:163)"},
	"remove-service":                {true, "audit.go:296 'Service removed/renamed' (:320)"},
	"rename-service":                {true, "audit.go:296 'Service removed/renamed' (:320)"},
	"change-extends":                {true, "audit.go:295 'Service inheritance changed' (:312-316)"},
	"remove-extends":                {true, "audit.go:295 'Service inheritance changed' (:313 old != \"\" && old != new); TestBreakingChanges 'extends changed: base -> \"\"'"},
	"remove-method":                 {true, "audit.go:297 'Method removed/renamed' (:356)"},
	"rename-method":                 {true, "audit.go:297 'Method removed/renamed' (:356)"},
	"flip-oneway":                   {true, "audit.go:298 'Method one-way changed' (:334-336)"},
	"retype-return":                 {true, "audit.go:299 'Method return type change' (:338; void <-> T through the nil guard :428-433)"},
	"retype-arg":                    {true, "audit.go:300 'Method argument type changed' (:340)"},
	"remove-arg":                    {true, "property text 'a removed ... argument'; audit.go:340 checkFields + :392 (arguments have default requiredness, i.e. non-optional)"},
	"retype-exception":              {true, "audit.go:301 'Method exception type changed' (:341)"},
	"add-first-exception-to-void":   {true, "audit.go:302 'Adding an exception with a nil return value and no current exceptions' (:348-350)"},
	"remove-all-exceptions-of-void": {true, "audit.go:303 'Removing an exception with a nil return value and only one current exception' (:352-354); property 'an exception-set change on a void method'"},
	"retarget-typedef":              {true, "property text 'a retyped field ... through typedefs'; audit.go:435-436 compares UnderlyingType of both sides"},
	// ---- compatible ----
	"rename-field":           {false, "audit.go:263 Warning 'Field name changed' (:389-391)"},
	"change-default":         {false, "audit.go:264 Warning 'Default value of field changed' (:386-388)"},
	"add-optional-field-end": {false, "property text 'added optional fields'; audit.go:265/271: only 'in the middle' warns (:402) and only required errors (:406)"},
	"add-default-field-end":  {false, "DESIGN 'added optional or default fields at the end'; audit.go:271: only a *required* added field is an error (:406)"},
	"rename-arg":             {false, "audit.go:290 Warning 'Name of argument changed'"},
	"add-arg-end":            {false, "audit.go:292: adding an argument only warns when 'in the middle'; arguments have default requiredness (:406 errors on required only)"},
	"rename-exception-field": {false, "audit.go:291 Warning 'Name of exception changed'"},
	"add-exception-end":      {false, "audit.go:293: adding an exception only warns when 'in the middle'; :302 restricts the error to void methods without exceptions (not generated there)"},
	"rename-enum-variant":    {false, "audit.go:221 Warning 'Enum variant name changed' (:248-253)"},
	"add-enum-value-end":     {false, "DESIGN 'added ... enum values'; audit.go:246 iterates over the old values only"},
	"add-enum":               {false, "audit.go:230 iterates over the old enums only"},
	"change-namespace":       {false, "audit.go:172 Warning 'Namespace changed'"},
	"remove-namespace":       {false, "audit.go:173 Warning 'Namespace removed'"},
	"add-namespace":          {false, "property text 'namespace ... changes'; audit.go:182 iterates over the old namespaces only"},
	"change-const-value":     {false, "audit.go:196 Warning 'Constant value changed'"},
	"change-const-type":      {false, "audit.go:197 Warning 'Constant type changed' (checkType with warn=true :208)"},
	"remove-const":           {false, "audit.go:195 Warning 'Constant removed'"},
	"add-const":              {false, "property text 'constant changes'; audit.go:205 iterates over the old constants only"},
	"rename-prefix-variable": {false, "audit.go:111 '... other than renaming variables' (:132-134)"},
	"drop-include":           {false, "the include list is not audited; only applicable when no audited position, extends clause or value of the file names the include: at most constants (audit.go:195 Warning 'Constant removed') and unused typedefs (not audited) go with it"},
	"toggle-empty-throws":    {false, "spelling only: `m()` and `m() throws ()` both declare no exception; audit.go:302-303 / :348-354 speak of the number of exceptions"},
	"add-extends":            {false, "audit.go:312 'It's fine to add inheritance, but not change it if it already exists'"},
	"add-method-end":         {false, "DESIGN 'added methods'; audit.go:331 iterates over the old methods only"},
	"add-service":            {false, "DESIGN 'added ... services'; audit.go:310 iterates over the old services only"},
	"add-scope":              {false, "DESIGN 'added ... scopes'; audit.go:120 iterates over the old scopes only"},
	"add-operation":          {false, "audit.go:160 iterates over the old operations only (only removal / retyping are listed :112-113)"},
	"add-struct":             {false, "audit.go:278 iterates over the old structs only"},
	"introduce-typedef":      {false, "DESIGN 'typedef introduced ... without changing the underlying type'; audit.go:435-436 compares underlying types"},
	"inline-typedef-use":     {false, "DESIGN 'typedef ... removed without changing the underlying type'; audit.go:435-436"},
	"remove-typedef":         {false, "DESIGN 'typedef ... removed without changing the underlying type' (every use inlined, declaration deleted); typedefs are not audited as declarations"},
}

// ectx is the state of one script application.
type ectx struct {
	p     *idl.Program
	fresh int
	empty map[string]bool // methods spelled with an empty throws clause (spelling.go)
}

func (c *ectx) name(prefix string) string {
	c.fresh++
	return fmt.Sprintf("%s%d", prefix, c.fresh)
}

// edit is one operator instance bound to one site of the base program.
type edit struct {
	Op       string
	Breaking bool
	Site     string   // where, human readable
	SiteKind string   // shape of the site (declaration kind, position, depth)
	Quals    []string // nested, via-typedef
	File     string   // file that is rewritten
	Affects  []string // files whose own audit is documented to see a breaking edit
	Keys     []string // two edits sharing a key are never combined
	tdName   string   // retarget-typedef: the alias
	apply    func(c *ectx) bool
}

func (e *edit) String() string {
	l := "compatible"
	if e.Breaking {
		l = "BREAKING"
	}
	q := ""
	if len(e.Quals) > 0 {
		q = " [" + strings.Join(e.Quals, ",") + "]"
	}
	return fmt.Sprintf("%s(%s) @ %s {%s}%s", e.Op, l, e.Site, e.SiteKind, q)
}

type enumerator struct {
	p     *idl.Program
	rng   *rand.Rand
	out   []*edit
	empty map[string]bool
}

func (en *enumerator) add(op, file, site, kind string, keys []string, apply func(c *ectx) bool) *edit {
	ce, ok := catalogue[op]
	if !ok {
		panic("operator not in catalogue: " + op)
	}
	e := &edit{Op: op, Breaking: ce.Breaking, Site: file + "/" + site, SiteKind: kind, File: file, Affects: []string{file}, Keys: keys, apply: apply}
	en.out = append(en.out, e)
	return e
}

// enumerate lists every applicable (operator, site) of program p.  Random
// choices (the replacement type, the new prefix token ...) are drawn here, so
// that the list is a pure function of (program, rng state).
func enumerate(p *idl.Program, rng *rand.Rand, empty map[string]bool) []*edit {
	en := &enumerator{p: p, rng: rng, empty: empty}
	for _, f := range p.Files {
		en.fileLevel(f)
		nStruct, nSvc, nScope, nEnum := len(f.Structs()), len(f.Services()), len(f.Scopes()), len(f.Enums())
		iStruct, iSvc, iScope, iEnum := 0, 0, 0, 0
		for di, d := range f.Decls {
			switch {
			case d.Struct != nil:
				en.structLevel(f, di, d.Struct, posClass(iStruct, nStruct))
				iStruct++
			case d.Enum != nil:
				en.enumLevel(f, d.Enum, posClass(iEnum, nEnum))
				iEnum++
			case d.Const != nil:
				en.constLevel(f, d.Const)
			case d.TypeDef != nil:
				en.typedefLevel(f, di, d.TypeDef)
			case d.Service != nil:
				en.serviceLevel(f, di, d.Service, posClass(iSvc, nSvc))
				iSvc++
			case d.Scope != nil:
				en.scopeLevel(f, di, d.Scope, posClass(iScope, nScope))
				iScope++
			}
		}
	}
	// a site is applicable iff the edit applies to the base program and leaves
	// it valid (e.g. an inherited method name may clash further down the
	// inheritance chain, an inlined alias may need an include the file lacks)
	var ok []*edit
	for _, e := range en.out {
		c := &ectx{p: p.Clone(), empty: copyFlags(empty)}
		if e.apply(c) && validateProgram(c.p) == nil {
			ok = append(ok, e)
		}
	}
	return ok
}

// ---------------------------------------------------------------------------
// type slots: retype / introduce typedef / inline typedef at every node
// ---------------------------------------------------------------------------

type slot struct {
	kind     string // field | arg | return | exception | operation | typedef
	op       string // retyping operator for this kind
	file     string
	site     string
	shape    string // container kind + position
	key      string
	declIx   int
	declName string
	self     string // name of the enclosing struct ("" otherwise)
	get      func(p *idl.Program) (**idl.Type, *idl.Field)
}

// candidate draws a replacement type for a node of a slot.
func (en *enumerator) candidate(f *idl.File, s *slot, key bool, old *idl.Type) *idl.Type {
	p := en.p
	oldRes := resolved(p, f, old)
	visible := []*idl.File{f}
	for _, g := range p.Files {
		if g != f && includesFile(f, g.Base) {
			visible = append(visible, g)
		}
	}
	ref := func(g *idl.File, n string) string {
		if g == f {
			return n
		}
		return g.Base + "." + n
	}
	var enums, structs, tds []string
	for _, g := range visible {
		for di, d := range g.Decls {
			if g == f && di >= s.declIx {
				break // only earlier declarations of the own file (no cycles, no forward references)
			}
			switch {
			case d.Enum != nil:
				enums = append(enums, ref(g, d.Enum.Name))
			case d.Struct != nil && d.Struct.Kind != idl.KindException:
				structs = append(structs, ref(g, d.Struct.Name))
			case d.TypeDef != nil:
				tds = append(tds, ref(g, d.TypeDef.Name))
			}
		}
	}
	keyBases := []string{"bool", "byte", "i16", "i32", "i64", "double", "string"}
	base := func(k bool) *idl.Type {
		if k {
			return idl.T(keyBases[en.rng.Intn(len(keyBases))])
		}
		return idl.T(idl.BaseTypes[en.rng.Intn(len(idl.BaseTypes))])
	}
	for tries := 0; tries < 60; tries++ {
		var t *idl.Type
		switch r := en.rng.Intn(20); {
		case r < 8:
			t = base(key)
		case r < 11:
			if len(enums) > 0 {
				t = idl.T(enums[en.rng.Intn(len(enums))])
			}
		case r < 14:
			if len(structs) > 0 && !key {
				t = idl.T(structs[en.rng.Intn(len(structs))])
			}
		case r < 16:
			if len(tds) > 0 {
				t = idl.T(tds[en.rng.Intn(len(tds))])
			}
		default:
			if key {
				continue
			}
			switch en.rng.Intn(4) {
			case 0:
				t = idl.ListOf(base(false))
			case 1:
				t = idl.SetOf(base(true))
			case 2:
				t = idl.MapOf(base(true), base(false))
			default:
				if !old.IsContainer() || len(typeNodes(old)) < 4 {
					t = idl.ListOf(old.Clone()) // wrap: T -> list<T>
				}
			}
		}
		if t == nil || !typeValid(p, f, t, key) {
			continue
		}
		if resolved(p, f, t) == oldRes {
			continue
		}
		if s.self != "" && mentionsName(p, f, t, f, s.self) {
			continue
		}
		return t
	}
	return nil
}

func (en *enumerator) slotEdits(f *idl.File, s *slot) {
	p := en.p
	tp, _ := s.get(p)
	if tp == nil || *tp == nil {
		return
	}
	for _, nd := range typeNodes(*tp) {
		nd := nd
		oldStr := nd.t.String()
		kind := s.kind + "/" + s.shape + "/" + pathKind(nd.path)
		var quals []string
		if nd.path != "" {
			quals = append(quals, "nested")
		}

		// --- retype (breaking) ---
		if s.kind != "exception" && s.kind != "typedef" {
			if nt := en.candidate(f, s, nd.key, nd.t); nt != nil {
				e := en.add(s.op, s.file, fmt.Sprintf("%s type@%q: %s -> %s", s.site, nd.path, oldStr, nt), kind, []string{s.key}, func(c *ectx) bool {
					return applyRetype(c, s, nd.path, oldStr, nt, nd.key)
				})
				e.Quals = quals
			}
		}

		// --- introduce a typedef with the same underlying type (compatible) ---
		if s.kind != "exception" && !(s.self != "" && mentionsName(p, f, nd.t, f, s.self)) {
			en.add("introduce-typedef", s.file, fmt.Sprintf("%s type@%q: %s -> new alias", s.site, nd.path, oldStr), kind, []string{s.key}, func(c *ectx) bool {
				cf := fileOf(c.p, s.file)
				if cf == nil {
					return false
				}
				tp, _ := s.get(c.p)
				if tp == nil || *tp == nil {
					return false
				}
				n := navigate(*tp, nd.path)
				if n == nil || n.String() != oldStr {
					return false
				}
				at := declIndex(cf, s.declName)
				if at < 0 {
					return false
				}
				alias := c.name("ZqAlias")
				insertDecl(cf, at, &idl.Decl{TypeDef: &idl.TypeDef{Name: alias, Type: n.Clone()}})
				*n = idl.Type{Name: alias}
				return true
			}).Quals = quals
		}

		// --- inline a typedef at this use (compatible) ---
		if !nd.t.IsContainer() && !idl.IsBase(nd.t.Name) {
			if r := p.Lookup(f, nd.t.Name); r != nil && r.TypeDef != nil {
				tdFile, tdName := r.File.Base, r.TypeDef.Name
				en.add("inline-typedef-use", s.file, fmt.Sprintf("%s type@%q: %s -> %s", s.site, nd.path, oldStr, idl.Qualify(r.TypeDef.Type, r.File, f)), kind,
					[]string{s.key, tdFile + "/td:" + tdName}, func(c *ectx) bool {
						tp, _ := s.get(c.p)
						if tp == nil || *tp == nil {
							return false
						}
						n := navigate(*tp, nd.path)
						if n == nil || n.String() != oldStr {
							return false
						}
						return inlineAt(c.p, fileOf(c.p, s.file), n, nd.key)
					}).Quals = append(append([]string{}, quals...), "via-typedef")
			}
		}
	}
}

// inlineAt replaces the typedef name held by node n (written in file f) by
// the typedef's target, provided the result is valid in f.
func inlineAt(p *idl.Program, f *idl.File, n *idl.Type, key bool) bool {
	if f == nil || n.IsContainer() || idl.IsBase(n.Name) {
		return false
	}
	r := p.Lookup(f, n.Name)
	if r == nil || r.TypeDef == nil {
		return false
	}
	before := resolved(p, f, n)
	nt := idl.Qualify(r.TypeDef.Type, r.File, f)
	if !typeValid(p, f, nt, key) || resolved(p, f, nt) != before {
		return false
	}
	*n = *nt
	return true
}

func applyRetype(c *ectx, s *slot, path, oldStr string, nt *idl.Type, key bool) bool {
	cf := fileOf(c.p, s.file)
	if cf == nil {
		return false
	}
	tp, fld := s.get(c.p)
	if tp == nil || *tp == nil {
		return false
	}
	n := navigate(*tp, path)
	if n == nil || n.String() != oldStr {
		return false
	}
	if !typeValid(c.p, cf, nt, key) || resolved(c.p, cf, nt) == resolved(c.p, cf, n) {
		return false
	}
	if s.self != "" && mentionsName(c.p, cf, nt, cf, s.self) {
		return false
	}
	*n = *nt.Clone()
	if fld != nil {
		fld.Default = nil
	}
	return true
}

// ---------------------------------------------------------------------------
// file level: namespaces, added declarations
// ---------------------------------------------------------------------------

func (en *enumerator) fileLevel(f *idl.File) {
	fb := f.Base
	for _, ns := range f.Namespaces {
		lang := ns.Lang
		en.add("change-namespace", fb, "namespace "+lang, "namespace", []string{fb + "/ns:" + lang}, func(c *ectx) bool {
			cf := fileOf(c.p, fb)
			for _, n := range cf.Namespaces {
				if n.Lang == lang {
					n.Value = n.Value + "_v2"
					return true
				}
			}
			return false
		})
		en.add("remove-namespace", fb, "namespace "+lang, "namespace", []string{fb + "/ns:" + lang}, func(c *ectx) bool {
			cf := fileOf(c.p, fb)
			for i, n := range cf.Namespaces {
				if n.Lang == lang {
					cf.Namespaces = append(cf.Namespaces[:i:i], cf.Namespaces[i+1:]...)
					return true
				}
			}
			return false
		})
	}
	for _, inc := range f.Includes {
		path := inc.Path
		target := path
		if k := strings.LastIndex(target, "."); k > 0 {
			target = target[:k]
		}
		shared := 0
		for _, g := range en.p.Files {
			if g != f && includesFile(g, target) {
				shared++
			}
		}
		kind := "include/only-includer"
		if shared > 0 {
			kind = "include/shared-with-other-files"
		}
		en.add("drop-include", fb, "include "+path, kind, []string{fb + "/inc:" + target}, func(c *ectx) bool {
			cf := fileOf(c.p, fb)
			tf := fileOf(c.p, target)
			if cf == nil || tf == nil || !includesFile(cf, target) {
				return false
			}
			names := func(t *idl.Type) bool {
				for _, nd := range typeNodes(t) {
					if !nd.t.IsContainer() && strings.HasPrefix(nd.t.Name, target+".") {
						return true
					}
				}
				return false
			}
			// constants and unused typedefs that name the include go with it
			var keep []*idl.Decl
			for _, d := range cf.Decls {
				switch {
				case d.Const != nil && (names(d.Const.Type) || valueNames(d.Const.Value, target)):
					continue
				case d.TypeDef != nil && names(d.TypeDef.Type) && !referenced(c.p, cf, d.TypeDef.Name, false):
					continue
				}
				keep = append(keep, d)
			}
			cf.Decls = keep
			for i, x := range cf.Includes {
				if x.Path == path {
					cf.Includes = append(cf.Includes[:i:i], cf.Includes[i+1:]...)
					break
				}
			}
			return true // anything else that still names the include fails the validity net: not an applicable site
		})
	}
	en.add("add-namespace", fb, "namespace +", "namespace", []string{fb + "/+ns"}, func(c *ectx) bool {
		cf := fileOf(c.p, fb)
		have := map[string]bool{}
		for _, n := range cf.Namespaces {
			have[n.Lang] = true
		}
		for _, l := range []string{"go", "java", "py", "dart"} {
			if !have[l] {
				cf.Namespaces = append(cf.Namespaces, &idl.Namespace{Lang: l, Value: "zq_" + fb})
				return true
			}
		}
		return false
	})
	en.add("add-struct", fb, "struct +", "decl", []string{fb + "/+struct"}, func(c *ectx) bool {
		cf := fileOf(c.p, fb)
		// before the first service / scope so that declaration order stays conventional
		at := len(cf.Decls)
		for i, d := range cf.Decls {
			if d.Service != nil || d.Scope != nil {
				at = i
				break
			}
		}
		insertDecl(cf, at, &idl.Decl{Struct: &idl.Struct{Kind: idl.KindStruct, Name: c.name("ZqStruct"), Fields: []*idl.Field{
			{ID: 1, Name: "zqA", Type: idl.T("i32")}, {ID: 2, Name: "zqB", Req: idl.ReqOptional, Type: idl.ListOf(idl.T("string"))}}}})
		return true
	})
	en.add("add-enum", fb, "enum +", "decl", []string{fb + "/+enum"}, func(c *ectx) bool {
		cf := fileOf(c.p, fb)
		insertDecl(cf, 0, &idl.Decl{Enum: &idl.Enum{Name: c.name("ZqEnum"), Values: []*idl.EnumValue{{Name: "ZQ_A", Value: 0}, {Name: "ZQ_B", Value: 1}}}})
		return true
	})
	en.add("add-const", fb, "const +", "decl", []string{fb + "/+const"}, func(c *ectx) bool {
		cf := fileOf(c.p, fb)
		at := len(cf.Decls)
		for i, d := range cf.Decls {
			if d.Service != nil || d.Scope != nil {
				at = i
				break
			}
		}
		insertDecl(cf, at, &idl.Decl{Const: &idl.Const{Name: strings.ToUpper(c.name("ZQ_CONST")), Type: idl.T("i32"), Value: int64(42)}})
		return true
	})
	en.add("add-service", fb, "service +", "decl", []string{fb + "/+service"}, func(c *ectx) bool {
		cf := fileOf(c.p, fb)
		at := len(cf.Decls)
		for i, d := range cf.Decls {
			if d.Scope != nil {
				at = i
				break
			}
		}
		insertDecl(cf, at, &idl.Decl{Service: &idl.Service{Name: c.name("ZqService"), Methods: []*idl.Method{
			{Name: "zqPing"}, {Name: "zqEcho", Ret: idl.T("string"), Args: []*idl.Field{{ID: 1, Name: "zqIn", Type: idl.T("string")}}}}}})
		return true
	})
	if f.Ext == ".frugal" {
		en.add("add-scope", fb, "scope +", "decl", []string{fb + "/+scope"}, func(c *ectx) bool {
			cf := fileOf(c.p, fb)
			cf.Decls = append(cf.Decls, &idl.Decl{Scope: &idl.Scope{Name: c.name("ZqScope"), Prefix: "zq.{zqVar}", Ops: []*idl.Operation{{Name: "ZqOp", Type: idl.T("string")}}}})
			return true
		})
	}
}

// ---------------------------------------------------------------------------
// structs, unions, exceptions
// ---------------------------------------------------------------------------

// valueNames reports whether a constant value holds an identifier of file
// `target` (target.Enum.VARIANT).
func valueNames(v interface{}, target string) bool {
	found := false
	mapIdents(idl.CloneValue(v), func(i idl.Ident) idl.Ident {
		if strings.HasPrefix(string(i), target+".") && strings.Count(string(i), ".") == 2 {
			found = true
		}
		return i
	})
	return found
}

func maxFieldID(fs []*idl.Field) int {
	m := 0
	for _, f := range fs {
		if f.ID > m {
			m = f.ID
		}
	}
	return m
}

func referenced(p *idl.Program, of *idl.File, name string, outsideOnly bool) bool {
	found := false
	for _, g := range p.Files {
		if outsideOnly && g == of {
			continue
		}
		eachType(g, func(t *idl.Type) {
			if mentionsName(p, g, t, of, name) {
				found = true
			}
		})
	}
	return found
}

func (en *enumerator) structLevel(f *idl.File, di int, s *idl.Struct, declPos string) {
	p := en.p
	fb, sn := f.Base, s.Name
	skey := fb + "/" + sn
	shapeOf := func(i int) string { return s.Kind + "/" + posClass(i, len(s.Fields)) }

	if !referenced(p, f, sn, false) {
		en.add("remove-struct", fb, s.Kind+" "+sn, s.Kind+"/decl-"+declPos, []string{skey}, func(c *ectx) bool {
			cf := fileOf(c.p, fb)
			if structOf(cf, sn) == nil || referenced(c.p, cf, sn, false) {
				return false
			}
			return removeDecl(cf, sn)
		})
	}
	if !referenced(p, f, sn, true) {
		kind := s.Kind + "/decl-" + declPos
		if referenced(p, f, sn, false) {
			kind += "/referenced"
		}
		en.add("rename-struct", fb, s.Kind+" "+sn, kind, []string{skey}, func(c *ectx) bool {
			cf := fileOf(c.p, fb)
			cs := structOf(cf, sn)
			if cs == nil || referenced(c.p, cf, sn, true) {
				return false
			}
			nn := c.name("ZqRenamed")
			cs.Name = nn
			eachType(cf, func(t *idl.Type) { renameInType(t, sn, nn) })
			return true
		})
	}

	// same name, other kind (struct <-> union, struct <-> exception)
	var kinds []string
	switch s.Kind {
	case idl.KindStruct:
		if len(s.Fields) > 0 {
			kinds = append(kinds, idl.KindUnion)
		}
		if !referenced(p, f, sn, false) {
			kinds = append(kinds, idl.KindException)
		}
	case idl.KindUnion:
		kinds = append(kinds, idl.KindStruct)
	case idl.KindException:
		if !referenced(p, f, sn, false) {
			kinds = append(kinds, idl.KindStruct)
		}
	}
	for _, to := range kinds {
		to, from := to, s.Kind
		kind := from + ">" + to + "/decl-" + declPos
		if referenced(p, f, sn, false) {
			kind += "/referenced"
		}
		en.add("change-kind", fb, from+" "+sn+" -> "+to, kind, []string{skey}, func(c *ectx) bool {
			cf := fileOf(c.p, fb)
			cs := structOf(cf, sn)
			if cs == nil || cs.Kind != from {
				return false
			}
			if (to == idl.KindException || from == idl.KindException) && referenced(c.p, cf, sn, false) {
				return false // exceptions are not field types, thrown types are exceptions
			}
			if to == idl.KindUnion {
				if len(cs.Fields) == 0 {
					return false
				}
				for _, x := range cs.Fields {
					x.Req, x.Default = idl.ReqDefault, nil // union members carry no requiredness
				}
			}
			cs.Kind = to
			return true
		})
	}

	baseMax := maxFieldID(s.Fields)
	addField := func(op, where string, req string, mk func(c *ectx, cs *idl.Struct) *idl.Field) {
		en.add(op, fb, s.Kind+" "+sn+" +field", s.Kind+"/"+where, []string{skey + "/+f:" + op + where}, func(c *ectx) bool {
			cs := structOf(fileOf(c.p, fb), sn)
			if cs == nil {
				return false
			}
			nf := mk(c, cs)
			if nf == nil {
				return false
			}
			nf.Req = req
			cs.Fields = append(cs.Fields, nf)
			sort.SliceStable(cs.Fields, func(i, j int) bool { return cs.Fields[i].ID < cs.Fields[j].ID })
			return true
		})
	}
	atEnd := func(c *ectx, cs *idl.Struct) *idl.Field {
		id := maxFieldID(cs.Fields)
		if baseMax > id {
			id = baseMax // never reuse the id of a field removed by another edit of the script
		}
		return &idl.Field{ID: id + 1, Name: c.name("zqAdded"), Type: idl.T("i64")}
	}
	if s.Kind != idl.KindUnion {
		addField("add-required-field", "end", idl.ReqRequired, atEnd)
		// a free id strictly between two existing ids ("in the middle")
		free := 0
		used := map[int]bool{}
		for _, fl := range s.Fields {
			used[fl.ID] = true
		}
		for _, fl := range s.Fields {
			if !used[fl.ID+1] && fl.ID+1 < baseMax {
				free = fl.ID + 1
				break
			}
		}
		if free > 0 {
			addField("add-required-field", "middle", idl.ReqRequired, func(c *ectx, cs *idl.Struct) *idl.Field {
				if fieldByID(cs.Fields, free) != nil {
					return nil
				}
				return &idl.Field{ID: free, Name: c.name("zqAdded"), Type: idl.T("string")}
			})
		}
		addField("add-optional-field-end", "end", idl.ReqOptional, atEnd)
	}
	addField("add-default-field-end", "end", idl.ReqDefault, atEnd)

	for i, fl := range s.Fields {
		i, fl := i, fl
		id := fl.ID
		fkey := fmt.Sprintf("%s/f:%d", skey, id)
		site := fmt.Sprintf("%s %s.%s#%d", s.Kind, sn, fl.Name, id)
		shape := shapeOf(i)
		get := func(pp *idl.Program) *idl.Field {
			cf := fileOf(pp, fb)
			if cf == nil {
				return nil
			}
			cs := structOf(cf, sn)
			if cs == nil {
				return nil
			}
			return fieldByID(cs.Fields, id)
		}
		if s.Kind != idl.KindUnion && fl.Req != idl.ReqOptional {
			en.add("remove-field", fb, site, shape+"/"+reqName(fl.Req), []string{fkey}, func(c *ectx) bool {
				cs := structOf(fileOf(c.p, fb), sn)
				if cs == nil {
					return false
				}
				for k, x := range cs.Fields {
					if x.ID == id {
						if x.Req == idl.ReqOptional {
							return false
						}
						cs.Fields = append(cs.Fields[:k:k], cs.Fields[k+1:]...)
						return true
					}
				}
				return false
			})
		}
		if s.Kind != idl.KindUnion {
			var targets []string
			if fl.Req == idl.ReqRequired {
				targets = []string{idl.ReqDefault, idl.ReqOptional}
			} else if fl.Type.Name != sn { // a struct cannot require itself
				targets = []string{idl.ReqRequired}
			}
			for _, to := range targets {
				to, from := to, fl.Req
				en.add("flip-requiredness", fb, site+": "+reqName(from)+" -> "+reqName(to), shape+"/"+reqName(from)+">"+reqName(to), []string{fkey}, func(c *ectx) bool {
					x := get(c.p)
					if x == nil || x.Req != from {
						return false
					}
					x.Req = to
					return true
				})
			}
		}
		en.add("rename-field", fb, site, shape, []string{fkey}, func(c *ectx) bool {
			x := get(c.p)
			if x == nil {
				return false
			}
			x.Name = c.name("zqRenamed")
			return true
		})
		if s.Kind != idl.KindUnion {
			if fl.Default != nil {
				en.add("change-default", fb, site, shape+"/remove", []string{fkey}, func(c *ectx) bool {
					x := get(c.p)
					if x == nil || x.Default == nil {
						return false
					}
					x.Default = nil
					return true
				})
				if nv := mutateScalar(fl.Default); nv != nil {
					en.add("change-default", fb, site, shape+"/change", []string{fkey}, func(c *ectx) bool {
						x := get(c.p)
						if x == nil || x.Default == nil {
							return false
						}
						x.Default = nv
						return true
					})
				}
			} else if lit := literalForBase(fl.Type.Name); lit != nil {
				tn := fl.Type.Name
				en.add("change-default", fb, site, shape+"/add", []string{fkey}, func(c *ectx) bool {
					x := get(c.p)
					if x == nil || x.Default != nil || x.Type.Name != tn {
						return false
					}
					x.Default = lit
					return true
				})
			}
		}
		en.slotEdits(f, &slot{kind: "field", op: "retype-field", file: fb, site: site, shape: shape, key: fkey, declIx: di, declName: sn, self: sn,
			get: func(pp *idl.Program) (**idl.Type, *idl.Field) {
				x := get(pp)
				if x == nil {
					return nil, nil
				}
				return &x.Type, x
			}})
	}
}

func reqName(r string) string {
	if r == "" {
		return "default"
	}
	return r
}

func literalForBase(name string) interface{} {
	switch name {
	case "bool":
		return true
	case "byte", "i16", "i32", "i64":
		return int64(7)
	case "double":
		return 2.5
	case "string":
		return "zq"
	}
	return nil
}

func mutateScalar(v interface{}) interface{} {
	switch x := v.(type) {
	case bool:
		return !x
	case int64:
		if x > 0 {
			return x - 1
		}
		return x + 1
	case float64:
		return x + 1
	case string:
		return x + "z"
	}
	return nil
}

// ---------------------------------------------------------------------------
// enums, constants, typedef declarations
// ---------------------------------------------------------------------------

func maxEnumValue(e *idl.Enum) int {
	m := -1
	for _, v := range e.Values {
		if v.Value > m {
			m = v.Value
		}
	}
	return m
}

func (en *enumerator) enumLevel(f *idl.File, e *idl.Enum, declPos string) {
	p := en.p
	fb, name := f.Base, e.Name
	ekey := fb + "/" + name
	baseMax := maxEnumValue(e)
	numbering := "implicit"
	for _, v := range e.Values {
		if v.Explicit {
			numbering = "explicit"
		}
	}
	for i, v := range e.Values {
		i, v := i, v
		val, vname := v.Value, v.Name
		vkey := fmt.Sprintf("%s/v:%d", ekey, val)
		site := fmt.Sprintf("enum %s.%s=%d", name, vname, val)
		shape := "enum/" + posClass(i, len(e.Values)) + "/" + numbering
		if len(e.Values) >= 2 {
			if _, nested := variantRefs(p, f, name, vname); nested == 0 {
				en.add("remove-enum-value", fb, site, shape, []string{vkey}, func(c *ectx) bool {
					cf := fileOf(c.p, fb)
					ce := enumOf(cf, name)
					if ce == nil || len(ce.Values) < 2 {
						return false
					}
					for k, x := range ce.Values {
						if x.Value != val {
							continue
						}
						if _, nested := variantRefs(c.p, cf, name, x.Name); nested > 0 {
							return false
						}
						ce.Values = append(ce.Values[:k:k], ce.Values[k+1:]...)
						// keep the numbers of the survivors
						next := 0
						for _, y := range ce.Values {
							if !y.Explicit && y.Value != next {
								y.Explicit = true
							}
							next = y.Value + 1
						}
						replaceVariantRefs(c.p, cf, name, x.Name, ce.Values[0].Name)
						return true
					}
					return false
				})
			}
		}
		// same name, new number: the old number disappears
		en.add("renumber-enum-value", fb, site+" -> fresh number", shape, []string{vkey}, func(c *ectx) bool {
			ce := enumOf(fileOf(c.p, fb), name)
			if ce == nil {
				return false
			}
			for _, x := range ce.Values {
				if x.Value != val {
					continue
				}
				m := maxEnumValue(ce)
				if baseMax > m {
					m = baseMax
				}
				x.Value, x.Explicit = m+1, true
				next := 0
				for _, y := range ce.Values { // the others keep their numbers
					if !y.Explicit && y.Value != next {
						y.Explicit = true
					}
					next = y.Value + 1
				}
				return true
			}
			return false
		})
		// an implicit variant removed from the middle: the later ones shift
		// down, every surviving name is still there, the LAST number is gone
		if i+1 < len(e.Values) && !e.Values[i+1].Explicit {
			if _, nested := variantRefs(p, f, name, vname); nested == 0 {
				en.add("remove-enum-value", fb, site+", later variants shift", shape+"/shift", []string{vkey, ekey + "/shift", ekey + "/+v"}, func(c *ectx) bool {
					cf := fileOf(c.p, fb)
					ce := enumOf(cf, name)
					if ce == nil || len(ce.Values) < 2 {
						return false
					}
					for k, x := range ce.Values {
						if x.Value != val {
							continue
						}
						if k+1 >= len(ce.Values) || ce.Values[k+1].Explicit {
							return false
						}
						if _, nested := variantRefs(c.p, cf, name, x.Name); nested > 0 {
							return false
						}
						ce.Values = append(ce.Values[:k:k], ce.Values[k+1:]...)
						next := 0
						for _, y := range ce.Values {
							if !y.Explicit {
								y.Value = next
							}
							next = y.Value + 1
						}
						replaceVariantRefs(c.p, cf, name, x.Name, ce.Values[0].Name)
						return true
					}
					return false
				}).Quals = []string{"later-variants-shift"}
			}
		}
		en.add("rename-enum-variant", fb, site, shape, []string{vkey}, func(c *ectx) bool {
			cf := fileOf(c.p, fb)
			ce := enumOf(cf, name)
			if ce == nil {
				return false
			}
			for _, x := range ce.Values {
				if x.Value == val {
					nn := strings.ToUpper(c.name("ZQ_RENAMED"))
					replaceVariantRefs(c.p, cf, name, x.Name, nn)
					x.Name = nn
					return true
				}
			}
			return false
		})
	}
	en.add("add-enum-value-end", fb, "enum "+name+" +value", "enum/end/"+numbering, []string{ekey + "/+v"}, func(c *ectx) bool {
		ce := enumOf(fileOf(c.p, fb), name)
		if ce == nil {
			return false
		}
		m := maxEnumValue(ce)
		if baseMax > m {
			m = baseMax // never reuse the number of a variant removed by another edit of the script
		}
		next := 0
		if n := len(ce.Values); n > 0 {
			next = ce.Values[n-1].Value + 1
		}
		ce.Values = append(ce.Values, &idl.EnumValue{Name: strings.ToUpper(c.name("ZQ_ADDED")), Value: m + 1, Explicit: numbering == "explicit" || m+1 != next})
		return true
	})
}

func (en *enumerator) constLevel(f *idl.File, k *idl.Const) {
	fb, name := f.Base, k.Name
	key := []string{fb + "/c:" + name}
	en.add("remove-const", fb, "const "+name, "const", key, func(c *ectx) bool {
		return removeDecl(fileOf(c.p, fb), name) // constants are never referenced by the generated programs
	})
	var nv interface{}
	kind := "const/scalar"
	switch x := k.Value.(type) {
	case idl.Ident:
		// another variant of the same enum
		if r := en.p.Lookup(f, k.Type.Name); r != nil && r.Enum != nil && len(r.Enum.Values) >= 2 {
			parts := strings.Split(string(x), ".")
			for _, v := range r.Enum.Values {
				if v.Name != parts[len(parts)-1] {
					parts[len(parts)-1] = v.Name
					nv = idl.Ident(strings.Join(parts, "."))
					break
				}
			}
		}
		kind = "const/enum"
	case []interface{}:
		if len(x) > 0 {
			nv = idl.CloneValue(x[:len(x)-1])
		}
		kind = "const/list"
	case []idl.KV:
		if len(x) > 0 {
			nv = idl.CloneValue(x[:len(x)-1])
		}
		kind = "const/map"
	default:
		nv = mutateScalar(k.Value)
		if iv, ok := nv.(int64); ok && (iv > 127 || iv < -128) && k.Type.Name == "byte" {
			nv = int64(1)
		}
	}
	if nv != nil {
		en.add("change-const-value", fb, "const "+name, kind, key, func(c *ectx) bool {
			ck := constOf(fileOf(c.p, fb), name)
			if ck == nil {
				return false
			}
			ck.Value = idl.CloneValue(nv)
			return true
		})
	}
	widen := map[string]string{"byte": "i16", "i16": "i32", "i32": "i64"}
	// an element type of a container constant (second level or deeper):
	// widened, or narrowed when every number of the value still fits
	narrow := map[string]string{"i64": "i32", "i32": "i16"}
	limit := map[string]int64{"i32": 1 << 31, "i16": 1 << 15}
	var maxAbs int64
	var scan func(v interface{})
	scan = func(v interface{}) {
		switch x := v.(type) {
		case int64:
			if x < 0 {
				x = -x
			}
			if x > maxAbs {
				maxAbs = x
			}
		case []interface{}:
			for _, e := range x {
				scan(e)
			}
		case []idl.KV:
			for _, e := range x {
				scan(e.Key)
				scan(e.Value)
			}
		}
	}
	scan(k.Value)
	for _, nd := range typeNodes(k.Type) {
		nd := nd
		if nd.path == "" {
			continue
		}
		var tos []string
		if to, ok := widen[nd.t.Name]; ok {
			tos = append(tos, to)
		}
		if to, ok := narrow[nd.t.Name]; ok && maxAbs < limit[to] {
			tos = append(tos, to)
		}
		from := nd.t.Name
		for _, to := range tos {
			to := to
			dir := "widen"
			if narrow[from] == to {
				dir = "narrow"
			}
			en.add("change-const-type", fb, fmt.Sprintf("const %s type@%q: %s -> %s", name, nd.path, from, to), "const/"+dir+"/"+pathKind(nd.path), key, func(c *ectx) bool {
				ck := constOf(fileOf(c.p, fb), name)
				if ck == nil {
					return false
				}
				n := navigate(ck.Type, nd.path)
				if n == nil || n.Name != from {
					return false
				}
				n.Name = to
				return true
			}).Quals = []string{"nested"}
		}
	}
	if to, ok := widen[k.Type.Name]; ok {
		en.add("change-const-type", fb, "const "+name+": "+k.Type.Name+" -> "+to, "const/widen", key, func(c *ectx) bool {
			ck := constOf(fileOf(c.p, fb), name)
			if ck == nil || ck.Type.Name != k.Type.Name {
				return false
			}
			ck.Type = idl.T(to)
			return true
		})
	}
}

// typedefUsers lists the files with at least one audited type position that
// depends on the typedef (directly or through typedef chains).
func typedefUsers(p *idl.Program, of *idl.File, name string) []string {
	var out []string
	for _, g := range p.Files {
		used := false
		eachCheckedType(g, func(t *idl.Type, _ *idl.Field) {
			if mentionsTypedef(p, g, t, of, name, 0) {
				used = true
			}
		})
		if used {
			out = append(out, g.Base)
		}
	}
	return out
}

func (en *enumerator) typedefLevel(f *idl.File, di int, td *idl.TypeDef) {
	p := en.p
	fb, name := f.Base, td.Name
	tkey := fb + "/td:" + name
	users := typedefUsers(p, f, name)
	constUse, keyUse := false, false
	for _, g := range p.Files {
		for _, k := range g.Consts() {
			if mentionsTypedef(p, g, k.Type, f, name, 0) {
				constUse = true
			}
		}
		eachType(g, func(t *idl.Type) {
			for _, nd := range typeNodes(t) {
				if nd.key && mentionsTypedef(p, g, nd.t, f, name, 0) {
					keyUse = true
				}
			}
		})
	}

	// --- retarget (breaking, seen through the uses) ---
	if len(users) > 0 && !constUse {
		for _, nd := range typeNodes(td.Type) {
			nd := nd
			oldStr := nd.t.String()
			s := &slot{kind: "typedef", file: fb, declIx: di, declName: name}
			var nt *idl.Type
			if nd.path == "" && keyUse {
				// the alias is used as a map key / set element somewhere: stay keyable
				nt = en.candidate(f, s, true, nd.t)
				if nt != nil && !idl.IsBase(nt.Name) {
					nt = nil
				}
			} else {
				nt = en.candidate(f, s, nd.key, nd.t)
			}
			if nt == nil {
				continue
			}
			kind := "typedef/" + pathKind(nd.path)
			if len(users) > 1 || users[0] != fb {
				kind += "/used-across-files"
			}
			e := en.add("retarget-typedef", fb, fmt.Sprintf("typedef %s target@%q: %s -> %s", name, nd.path, oldStr, nt), kind, []string{tkey}, func(c *ectx) bool {
				cf := fileOf(c.p, fb)
				if cf == nil {
					return false
				}
				ctd := typedefOf(cf, name)
				if ctd == nil {
					return false
				}
				n := navigate(ctd.Type, nd.path)
				if n == nil || n.String() != oldStr || !typeValid(c.p, cf, nt, nd.key) || resolved(c.p, cf, nt) == resolved(c.p, cf, n) {
					return false
				}
				// constants typed through the alias would need new values: not an applicable site
				for _, g := range c.p.Files {
					for _, k := range g.Consts() {
						if mentionsTypedef(c.p, g, k.Type, cf, name, 0) {
							return false
						}
					}
				}
				*n = *nt.Clone()
				// default values of fields typed through the alias no longer fit
				for _, g := range c.p.Files {
					eachCheckedType(g, func(t *idl.Type, fld *idl.Field) {
						if fld != nil && fld.Default != nil && mentionsTypedef(c.p, g, t, cf, name, 0) {
							fld.Default = nil
						}
					})
				}
				return true
			})
			e.Affects = users
			e.tdName = name
			e.Quals = []string{"via-typedef"}
			if nd.path != "" {
				e.Quals = append(e.Quals, "nested")
			}
		}
	}

	// --- introduce an alias inside the target (compatible) ---
	en.slotEdits(f, &slot{kind: "typedef", file: fb, site: "typedef " + name, shape: "target", key: tkey, declIx: di, declName: name,
		get: func(pp *idl.Program) (**idl.Type, *idl.Field) {
			cf := fileOf(pp, fb)
			if cf == nil {
				return nil, nil
			}
			ctd := typedefOf(cf, name)
			if ctd == nil {
				return nil, nil
			}
			return &ctd.Type, nil
		}})

	// --- remove the typedef: inline every use, delete the declaration (compatible) ---
	keys := []string{tkey}
	kind := "typedef/unused"
	if len(users) > 0 {
		kind = "typedef/used"
	}
	en.add("remove-typedef", fb, "typedef "+name, kind, keys, func(c *ectx) bool {
		cf := fileOf(c.p, fb)
		if cf == nil || typedefOf(cf, name) == nil {
			return false
		}
		trial := c.p.Clone()
		tf := fileOf(trial, fb)
		ok := true
		for _, g := range trial.Files {
			eachType(g, func(t *idl.Type) {
				for _, nd := range typeNodes(t) {
					if !nd.t.IsContainer() && mentionsName(trial, g, nd.t, tf, name) {
						if !inlineAt(trial, g, nd.t, nd.key) {
							ok = false
						}
					}
				}
			})
		}
		if !ok || referenced(trial, tf, name, false) {
			return false
		}
		removeDecl(tf, name)
		c.p.Files = trial.Files
		return true
	})
}

// ---------------------------------------------------------------------------
// services
// ---------------------------------------------------------------------------

// visibleExceptions lists the exception type names usable from file f.
func visibleExceptions(p *idl.Program, f *idl.File) []string {
	var out []string
	for _, g := range p.Files {
		if g != f && !includesFile(f, g.Base) {
			continue
		}
		for _, s := range g.Structs() {
			if s.Kind == idl.KindException {
				if g == f {
					out = append(out, s.Name)
				} else {
					out = append(out, g.Base+"."+s.Name)
				}
			}
		}
	}
	return out
}

func unusedException(p *idl.Program, f *idl.File, m *idl.Method) string {
	used := map[string]bool{}
	for _, t := range m.Throws {
		used[resolved(p, f, t.Type)] = true
	}
	for _, x := range visibleExceptions(p, f) {
		if !used[resolved(p, f, idl.T(x))] {
			return x
		}
	}
	return ""
}

func (en *enumerator) serviceLevel(f *idl.File, di int, s *idl.Service, declPos string) {
	p := en.p
	fb, sn := f.Base, s.Name
	skey := fb + "/" + sn
	if len(extendedBy(p, f, sn)) == 0 {
		for _, op := range []string{"remove-service", "rename-service"} {
			op := op
			en.add(op, fb, "service "+sn, "service/decl-"+declPos, []string{skey}, func(c *ectx) bool {
				cf := fileOf(c.p, fb)
				cs := serviceOf(cf, sn)
				if cs == nil || len(extendedBy(c.p, cf, sn)) > 0 {
					return false
				}
				if op == "remove-service" {
					return removeDecl(cf, sn)
				}
				cs.Name = c.name("ZqRenamedSvc")
				return true
			})
		}
	}
	// extends
	var parents []string
	for i, d := range f.Decls {
		if i >= di {
			break
		}
		if d.Service != nil {
			parents = append(parents, d.Service.Name)
		}
	}
	for _, g := range p.Files {
		if g != f && includesFile(f, g.Base) {
			for _, x := range g.Services() {
				parents = append(parents, g.Base+"."+x.Name)
			}
		}
	}
	own := map[string]bool{}
	for _, m := range s.Methods {
		own[strings.ToLower(m.Name)] = true
	}
	var okParents []string
	for _, par := range parents {
		if par == s.Extends {
			continue
		}
		clash := false
		for _, inh := range inheritedMethods(p, f, par) {
			if own[strings.ToLower(inh)] {
				clash = true
			}
		}
		if !clash {
			okParents = append(okParents, par)
		}
	}
	ekey := []string{skey + "/ext"}
	setExtends := func(to string, wantOld func(string) bool) func(c *ectx) bool {
		return func(c *ectx) bool {
			cf := fileOf(c.p, fb)
			cs := serviceOf(cf, sn)
			if cs == nil || !wantOld(cs.Extends) {
				return false
			}
			if to != "" {
				if findService(c.p, cf, to) == nil {
					return false
				}
				mine := map[string]bool{}
				for _, m := range cs.Methods {
					mine[strings.ToLower(m.Name)] = true
				}
				for _, inh := range inheritedMethods(c.p, cf, to) {
					if mine[strings.ToLower(inh)] {
						return false
					}
				}
			}
			cs.Extends = to
			return true
		}
	}
	if s.Extends != "" {
		old := s.Extends
		en.add("remove-extends", fb, "service "+sn+" extends "+old, "service/extends"+acrossTag(old), ekey, setExtends("", func(cur string) bool { return cur == old }))
		if len(okParents) > 0 {
			to := okParents[en.rng.Intn(len(okParents))]
			en.add("change-extends", fb, "service "+sn+" extends "+old+" -> "+to, "service/extends"+acrossTag(old)+">"+strings.TrimPrefix(acrossTag(to), "-"), ekey, setExtends(to, func(cur string) bool { return cur == old }))
		}
		// re-parenting onto a different service that has the same short name
		// (another include, or local vs included): every such parent
		short := func(x string) string { return x[strings.LastIndex(x, ".")+1:] }
		for _, to := range okParents {
			to := to
			if short(to) == short(old) {
				e := en.add("change-extends", fb, "service "+sn+" extends "+old+" -> "+to, "service/extends"+acrossTag(old)+">"+strings.TrimPrefix(acrossTag(to), "-")+"/same-short-name", ekey, setExtends(to, func(cur string) bool { return cur == old }))
				e.Quals = []string{"same-short-name"}
			}
		}
	} else if len(okParents) > 0 {
		to := okParents[en.rng.Intn(len(okParents))]
		en.add("add-extends", fb, "service "+sn+" extends +"+to, "service/extends"+acrossTag(to), ekey, setExtends(to, func(cur string) bool { return cur == "" }))
	}

	en.add("add-method-end", fb, "service "+sn+" +method", "service/end", []string{skey + "/+m"}, func(c *ectx) bool {
		cs := serviceOf(fileOf(c.p, fb), sn)
		if cs == nil {
			return false
		}
		cs.Methods = append(cs.Methods, &idl.Method{Name: c.name("zqAddedMethod"), Ret: idl.T("i32"), Args: []*idl.Field{{ID: 1, Name: "zqArg", Type: idl.T("string")}}})
		return true
	})

	for mi, m := range s.Methods {
		mi, m := mi, m
		mn := m.Name
		mkey := skey + "/m:" + mn
		mpos := posClass(mi, len(s.Methods))
		msite := "service " + sn + "." + mn
		getM := func(pp *idl.Program) *idl.Method {
			cf := fileOf(pp, fb)
			if cf == nil {
				return nil
			}
			return methodOf(serviceOf(cf, sn), mn)
		}
		retKind := "void"
		if m.Oneway {
			retKind = "oneway"
		} else if m.Ret != nil {
			retKind = "returns"
		}
		en.add("remove-method", fb, msite, "method/"+mpos, []string{mkey}, func(c *ectx) bool {
			cs := serviceOf(fileOf(c.p, fb), sn)
			if cs == nil {
				return false
			}
			for k, x := range cs.Methods {
				if x.Name == mn {
					cs.Methods = append(cs.Methods[:k:k], cs.Methods[k+1:]...)
					return true
				}
			}
			return false
		})
		en.add("rename-method", fb, msite, "method/"+mpos, []string{mkey}, func(c *ectx) bool {
			x := getM(c.p)
			if x == nil {
				return false
			}
			x.Name = c.name("zqRenamedMethod")
			return true
		})
		// oneway
		if m.Oneway {
			en.add("flip-oneway", fb, msite+": oneway -> void", "method/"+mpos+"/oneway>twoway", []string{mkey + "/oneway", mkey + "/ret", mkey + "/throws"}, func(c *ectx) bool {
				x := getM(c.p)
				if x == nil || !x.Oneway {
					return false
				}
				x.Oneway = false
				return true
			})
		} else if m.Ret == nil && len(m.Throws) == 0 {
			en.add("flip-oneway", fb, msite+": void -> oneway", "method/"+mpos+"/twoway>oneway", []string{mkey + "/oneway", mkey + "/ret", mkey + "/throws"}, func(c *ectx) bool {
				x := getM(c.p)
				if x == nil || x.Oneway || x.Ret != nil || len(x.Throws) > 0 {
					return false
				}
				x.Oneway = true
				return true
			})
		}
		// return type
		rkey := mkey + "/ret"
		if m.Ret != nil {
			en.add("retype-return", fb, msite+": "+m.Ret.String()+" -> void", "return/"+mpos+"/T>void", []string{rkey}, func(c *ectx) bool {
				x := getM(c.p)
				if x == nil || x.Ret == nil {
					return false
				}
				x.Ret = nil
				return true
			})
			en.slotEdits(f, &slot{kind: "return", op: "retype-return", file: fb, site: msite + " return", shape: mpos, key: rkey, declIx: di, declName: sn,
				get: func(pp *idl.Program) (**idl.Type, *idl.Field) {
					x := getM(pp)
					if x == nil || x.Ret == nil {
						return nil, nil
					}
					return &x.Ret, nil
				}})
		} else if !m.Oneway {
			if nt := en.candidate(f, &slot{declIx: di}, false, idl.T("void")); nt != nil {
				en.add("retype-return", fb, msite+": void -> "+nt.String(), "return/"+mpos+"/void>T", []string{rkey}, func(c *ectx) bool {
					x := getM(c.p)
					if x == nil || x.Ret != nil || x.Oneway || !typeValid(c.p, fileOf(c.p, fb), nt, false) {
						return false
					}
					x.Ret = nt.Clone()
					return true
				})
			}
		}
		// arguments
		baseMaxArg := maxFieldID(m.Args)
		en.add("add-arg-end", fb, msite+" +arg", "arg/end/"+retKind, []string{mkey + "/+a"}, func(c *ectx) bool {
			x := getM(c.p)
			if x == nil {
				return false
			}
			id := maxFieldID(x.Args)
			if baseMaxArg > id {
				id = baseMaxArg
			}
			x.Args = append(x.Args, &idl.Field{ID: id + 1, Name: c.name("zqAddedArg"), Type: idl.T("bool")})
			return true
		})
		for ai, a := range m.Args {
			ai, a := ai, a
			id := a.ID
			akey := fmt.Sprintf("%s/a:%d", mkey, id)
			asite := fmt.Sprintf("%s(%s#%d)", msite, a.Name, id)
			shape := posClass(ai, len(m.Args))
			getA := func(pp *idl.Program) *idl.Field {
				x := getM(pp)
				if x == nil {
					return nil
				}
				return fieldByID(x.Args, id)
			}
			en.add("remove-arg", fb, asite, "arg/"+shape, []string{akey}, func(c *ectx) bool {
				x := getM(c.p)
				if x == nil {
					return false
				}
				for k, y := range x.Args {
					if y.ID == id {
						x.Args = append(x.Args[:k:k], x.Args[k+1:]...)
						return true
					}
				}
				return false
			})
			en.add("rename-arg", fb, asite, "arg/"+shape, []string{akey}, func(c *ectx) bool {
				y := getA(c.p)
				if y == nil {
					return false
				}
				y.Name = c.name("zqRenamedArg")
				return true
			})
			en.slotEdits(f, &slot{kind: "arg", op: "retype-arg", file: fb, site: asite, shape: shape, key: akey, declIx: di, declName: sn,
				get: func(pp *idl.Program) (**idl.Type, *idl.Field) {
					y := getA(pp)
					if y == nil {
						return nil, nil
					}
					return &y.Type, y
				}})
		}
		// exceptions: every edit of one throws list shares a key (the ∅ / non-∅ rule couples them)
		tkey := mkey + "/throws"
		baseMaxExc := maxFieldID(m.Throws)
		addExc := func(c *ectx, x *idl.Method) bool {
			cf := fileOf(c.p, fb)
			ex := unusedException(c.p, cf, x)
			if ex == "" {
				return false
			}
			id := maxFieldID(x.Throws)
			if baseMaxExc > id {
				id = baseMaxExc
			}
			x.Throws = append(x.Throws, &idl.Field{ID: id + 1, Name: c.name("zqExc"), Type: idl.T(ex)})
			return true
		}
		if !m.Oneway && unusedException(p, f, m) != "" {
			if m.Ret == nil && len(m.Throws) == 0 {
				kind, quals := "throws/"+mpos+"/void-none", []string(nil)
				if en.empty[emptyKey(fb, sn, mn)] {
					kind, quals = kind+"/empty-clause", []string{"empty-throws-clause"}
				}
				en.add("add-first-exception-to-void", fb, msite+" throws +", kind, []string{tkey, mkey + "/ret", mkey + "/oneway"}, func(c *ectx) bool {
					x := getM(c.p)
					if x == nil || x.Oneway || x.Ret != nil || len(x.Throws) != 0 {
						return false
					}
					return addExc(c, x)
				}).Quals = quals
			} else {
				kind := "throws/" + mpos + "/" + retKind + fmt.Sprintf("-has%d", len(m.Throws))
				en.add("add-exception-end", fb, msite+" throws +", kind, []string{tkey, mkey + "/ret", mkey + "/oneway"}, func(c *ectx) bool {
					x := getM(c.p)
					if x == nil || x.Oneway || (x.Ret == nil && len(x.Throws) == 0) {
						return false
					}
					return addExc(c, x)
				})
			}
		}
		if m.Ret == nil && len(m.Throws) > 0 {
			n := "one"
			if len(m.Throws) > 1 {
				n = "many"
			}
			en.add("remove-all-exceptions-of-void", fb, msite+" throws -all", "throws/"+mpos+"/void-"+n, []string{tkey, mkey + "/ret", mkey + "/oneway"}, func(c *ectx) bool {
				x := getM(c.p)
				if x == nil || x.Ret != nil || len(x.Throws) == 0 {
					return false
				}
				x.Throws = nil
				return true
			})
			en.add("remove-all-exceptions-of-void", fb, msite+" throws -all, clause kept: throws ()", "throws/"+mpos+"/void-"+n+"/leaving-empty-clause", []string{tkey, mkey + "/ret", mkey + "/oneway"}, func(c *ectx) bool {
				x := getM(c.p)
				if x == nil || x.Ret != nil || len(x.Throws) == 0 {
					return false
				}
				x.Throws = nil
				c.empty[emptyKey(fb, sn, mn)] = true
				return true
			}).Quals = []string{"empty-throws-clause"}
		}
		if !m.Oneway && len(m.Throws) == 0 {
			// the other spelling of "no exceptions"
			dir := "add-clause"
			if en.empty[emptyKey(fb, sn, mn)] {
				dir = "remove-clause"
			}
			en.add("toggle-empty-throws", fb, msite+" throws () "+dir, "throws/"+mpos+"/"+retKind+"/"+dir, []string{tkey, mkey + "/ret", mkey + "/oneway"}, func(c *ectx) bool {
				x := getM(c.p)
				if x == nil || x.Oneway || len(x.Throws) > 0 {
					return false
				}
				k := emptyKey(fb, sn, mn)
				c.empty[k] = !c.empty[k]
				return true
			}).Quals = []string{"empty-throws-clause"}
		}
		for ti, t := range m.Throws {
			ti, t := ti, t
			id := t.ID
			xsite := fmt.Sprintf("%s throws %s#%d", msite, t.Name, id)
			shape := posClass(ti, len(m.Throws)) + "/" + retKind
			getT := func(pp *idl.Program) *idl.Field {
				x := getM(pp)
				if x == nil {
					return nil
				}
				return fieldByID(x.Throws, id)
			}
			en.add("rename-exception-field", fb, xsite, "exception/"+shape, []string{tkey}, func(c *ectx) bool {
				y := getT(c.p)
				if y == nil {
					return false
				}
				y.Name = c.name("zqRenamedExc")
				return true
			})
			if nx := unusedException(p, f, m); nx != "" {
				en.add("retype-exception", fb, xsite+": "+t.Type.String()+" -> "+nx, "exception/"+shape, []string{tkey}, func(c *ectx) bool {
					x, y := getM(c.p), getT(c.p)
					if x == nil || y == nil {
						return false
					}
					cf := fileOf(c.p, fb)
					cur := unusedException(c.p, cf, x)
					if cur == "" {
						return false
					}
					y.Type = idl.T(cur)
					return true
				})
			}
		}
	}
}

func acrossTag(ext string) string {
	if strings.Contains(ext, ".") {
		return "-include"
	}
	return "-local"
}

// ---------------------------------------------------------------------------
// scopes
// ---------------------------------------------------------------------------

func (en *enumerator) scopeLevel(f *idl.File, di int, s *idl.Scope, declPos string) {
	fb, sn := f.Base, s.Name
	skey := fb + "/" + sn
	getS := func(pp *idl.Program) *idl.Scope {
		cf := fileOf(pp, fb)
		if cf == nil {
			return nil
		}
		return scopeOf(cf, sn)
	}
	en.add("remove-scope", fb, "scope "+sn, "scope/decl-"+declPos, []string{skey}, func(c *ectx) bool {
		if getS(c.p) == nil {
			return false
		}
		return removeDecl(fileOf(c.p, fb), sn)
	})
	en.add("rename-scope", fb, "scope "+sn, "scope/decl-"+declPos, []string{skey}, func(c *ectx) bool {
		x := getS(c.p)
		if x == nil {
			return false
		}
		x.Name = c.name("ZqRenamedScope")
		return true
	})
	// prefix
	pkey := []string{skey + "/prefix"}
	old := s.Prefix
	var toks []string
	if old != "" {
		toks = strings.Split(old, ".")
	}
	isVar := func(t string) bool { return strings.HasPrefix(t, "{") && strings.HasSuffix(t, "}") }
	setPrefix := func(variant string, build func() []string) *edit {
		nt := build()
		if nt == nil {
			return nil
		}
		np := strings.Join(nt, ".")
		if np == old {
			return nil
		}
		return en.add("change-prefix", fb, fmt.Sprintf("scope %s prefix %q -> %q", sn, old, np), "prefix/"+variant, pkey, func(c *ectx) bool {
			x := getS(c.p)
			if x == nil || x.Prefix != old {
				return false
			}
			x.Prefix = np
			return true
		})
	}
	cp := func() []string { return append([]string{}, toks...) }
	firstIdx := func(want bool) int {
		for i, t := range toks {
			if isVar(t) == want {
				return i
			}
		}
		return -1
	}
	lastIdx := func(want bool) int {
		for i := len(toks) - 1; i >= 0; i-- {
			if isVar(toks[i]) == want {
				return i
			}
		}
		return -1
	}
	if old == "" {
		setPrefix("none>static", func() []string { return []string{"zqtopic"} })
		setPrefix("none>variable", func() []string { return []string{"{zqvar}"} })
	} else {
		setPrefix("removed", func() []string { return []string{} })
		setPrefix("static-appended", func() []string { return append(cp(), "zqtail") })
		setPrefix("static-prepended", func() []string { return append([]string{"zqhead"}, toks...) })
		setPrefix("variable-appended", func() []string { return append(cp(), "{zqvar}") })
		if len(toks) > 1 {
			setPrefix("last-token-dropped", func() []string { return cp()[:len(toks)-1] })
			setPrefix("first-token-dropped", func() []string { return cp()[1:] })
		}
		for _, which := range []string{"first", "last"} {
			i := firstIdx(false)
			if which == "last" {
				i = lastIdx(false)
			}
			if i >= 0 && (which == "first" || i != firstIdx(false)) {
				setPrefix("static-changed-"+which, func() []string { n := cp(); n[i] = n[i] + "x"; return n })
				setPrefix("static>variable-"+which, func() []string { n := cp(); n[i] = "{zqv}"; return n })
			}
			j := firstIdx(true)
			if which == "last" {
				j = lastIdx(true)
			}
			if j >= 0 && (which == "first" || j != firstIdx(true)) {
				setPrefix("variable>static-"+which, func() []string { n := cp(); n[j] = strings.Trim(n[j], "{}"); return n })
				if len(toks) > 1 {
					setPrefix("variable-dropped-"+which, func() []string { n := cp(); return append(n[:j:j], n[j+1:]...) })
				}
			}
		}
		if i, j := firstIdx(false), firstIdx(true); i >= 0 && j >= 0 {
			setPrefix("static-and-variable-swapped", func() []string { n := cp(); n[i], n[j] = n[j], n[i]; return n })
		}
		if i, j := firstIdx(false), lastIdx(false); i >= 0 && j > i && toks[i] != toks[j] {
			setPrefix("two-statics-swapped", func() []string { n := cp(); n[i], n[j] = n[j], n[i]; return n })
		}
		if i := firstIdx(false); i >= 0 {
			setPrefix("static-case-changed", func() []string {
				n := cp()
				sw := strings.ToUpper(n[i])
				if sw == n[i] {
					sw = strings.ToLower(n[i])
				}
				n[i] = sw
				return n
			})
		}
	}
	// a literal segment that is spelled like a variable of the same prefix
	// ("user.{user}.events"): the literal and the variable renamed together to
	// one new name - the literal changed, so this is breaking
	for j, tv := range toks {
		if !isVar(tv) {
			continue
		}
		for i, tl := range toks {
			if !isVar(tl) && tl == strings.Trim(tv, "{}") {
				i, j := i, j
				if e := setPrefix("literal-and-same-named-variable-renamed", func() []string { n := cp(); n[i] = "zqrenamed"; n[j] = "{zqrenamed}"; return n }); e != nil {
					e.Quals = []string{"literal-shares-variable-name"}
				}
				break
			}
		}
	}
	wordLike := func(t string) bool {
		for _, r := range t {
			if !(r == '_' || r >= '0' && r <= '9' || r >= 'a' && r <= 'z' || r >= 'A' && r <= 'Z') {
				return false
			}
		}
		return t != ""
	}
	vi := 0
	for i, t := range toks {
		if !isVar(t) {
			continue
		}
		i := i
		which := fmt.Sprintf("var%d-of-%d", vi, len(s.PrefixVars()))
		vi++
		var quals []string
		for _, l := range toks {
			if !isVar(l) && strings.Contains(l, strings.Trim(t, "{}")) {
				quals = []string{"variable-name-occurs-in-literal"}
				which += "/name-occurs-in-literal"
				break
			}
		}
		en.add("rename-prefix-variable", fb, fmt.Sprintf("scope %s prefix %q variable %s", sn, old, t), "prefix/"+which+"/"+posClass(i, len(toks)), pkey, func(c *ectx) bool {
			x := getS(c.p)
			if x == nil || x.Prefix != old {
				return false
			}
			n := cp()
			n[i] = "{" + c.name("zqVar") + "}"
			x.Prefix = strings.Join(n, ".")
			return true
		}).Quals = quals
		// ... and renamed to the spelling of a literal segment of the prefix
		for _, l := range toks {
			l := l
			taken := false
			for _, o := range toks {
				if o == "{"+l+"}" {
					taken = true
				}
			}
			if isVar(l) || !wordLike(l) || taken {
				continue
			}
			en.add("rename-prefix-variable", fb, fmt.Sprintf("scope %s prefix %q variable %s -> {%s}", sn, old, t, l), "prefix/"+which+"/to-literal-name", pkey, func(c *ectx) bool {
				x := getS(c.p)
				if x == nil || x.Prefix != old {
					return false
				}
				n := cp()
				n[i] = "{" + l + "}"
				x.Prefix = strings.Join(n, ".")
				return true
			}).Quals = []string{"variable-name-occurs-in-literal"}
			break
		}
	}
	if vi > 1 {
		en.add("rename-prefix-variable", fb, fmt.Sprintf("scope %s prefix %q all variables", sn, old), "prefix/all-variables", pkey, func(c *ectx) bool {
			x := getS(c.p)
			if x == nil || x.Prefix != old {
				return false
			}
			n := cp()
			for i := range n {
				if isVar(n[i]) {
					n[i] = "{" + c.name("zqVar") + "}"
				}
			}
			x.Prefix = strings.Join(n, ".")
			return true
		})
	}
	// operations
	en.add("add-operation", fb, "scope "+sn+" +operation", "operation/end", []string{skey + "/+o"}, func(c *ectx) bool {
		x := getS(c.p)
		if x == nil {
			return false
		}
		x.Ops = append(x.Ops, &idl.Operation{Name: c.name("ZqAddedOp"), Type: idl.T("string")})
		return true
	})
	for oi, o := range s.Ops {
		oi, o := oi, o
		on := o.Name
		okey := skey + "/o:" + on
		osite := "scope " + sn + "." + on
		opos := posClass(oi, len(s.Ops))
		en.add("remove-operation", fb, osite, "operation/"+opos, []string{okey}, func(c *ectx) bool {
			x := getS(c.p)
			if x == nil {
				return false
			}
			for k, y := range x.Ops {
				if y.Name == on {
					x.Ops = append(x.Ops[:k:k], x.Ops[k+1:]...)
					return true
				}
			}
			return false
		})
		en.add("rename-operation", fb, osite, "operation/"+opos, []string{okey}, func(c *ectx) bool {
			y := opOf(getS(c.p), on)
			if y == nil {
				return false
			}
			y.Name = c.name("ZqRenamedOp")
			return true
		})
		en.slotEdits(f, &slot{kind: "operation", op: "retype-operation", file: fb, site: osite, shape: opos, key: okey, declIx: di, declName: sn,
			get: func(pp *idl.Program) (**idl.Type, *idl.Field) {
				y := opOf(getS(pp), on)
				if y == nil {
					return nil, nil
				}
				return &y.Type, nil
			}})
	}
}
