package main

import (
	"fmt"
	"sort"
	"strings"

	"verif/idl"
)

// ---- look-ups in a (possibly already edited) program -----------------------

func fileOf(p *idl.Program, base string) *idl.File { return p.File(base) }

func declIndex(f *idl.File, name string) int {
	for i, d := range f.Decls {
		if d.Name() == name {
			return i
		}
	}
	return -1
}

func structOf(f *idl.File, name string) *idl.Struct {
	for _, d := range f.Decls {
		if d.Struct != nil && d.Struct.Name == name {
			return d.Struct
		}
	}
	return nil
}

func enumOf(f *idl.File, name string) *idl.Enum {
	for _, d := range f.Decls {
		if d.Enum != nil && d.Enum.Name == name {
			return d.Enum
		}
	}
	return nil
}

func typedefOf(f *idl.File, name string) *idl.TypeDef {
	for _, d := range f.Decls {
		if d.TypeDef != nil && d.TypeDef.Name == name {
			return d.TypeDef
		}
	}
	return nil
}

func constOf(f *idl.File, name string) *idl.Const {
	for _, d := range f.Decls {
		if d.Const != nil && d.Const.Name == name {
			return d.Const
		}
	}
	return nil
}

func serviceOf(f *idl.File, name string) *idl.Service {
	for _, d := range f.Decls {
		if d.Service != nil && d.Service.Name == name {
			return d.Service
		}
	}
	return nil
}

func scopeOf(f *idl.File, name string) *idl.Scope {
	for _, d := range f.Decls {
		if d.Scope != nil && d.Scope.Name == name {
			return d.Scope
		}
	}
	return nil
}

func methodOf(s *idl.Service, name string) *idl.Method {
	if s == nil {
		return nil
	}
	for _, m := range s.Methods {
		if m.Name == name {
			return m
		}
	}
	return nil
}

func opOf(s *idl.Scope, name string) *idl.Operation {
	if s == nil {
		return nil
	}
	for _, o := range s.Ops {
		if o.Name == name {
			return o
		}
	}
	return nil
}

func fieldByID(fs []*idl.Field, id int) *idl.Field {
	for _, f := range fs {
		if f.ID == id {
			return f
		}
	}
	return nil
}

func removeDecl(f *idl.File, name string) bool {
	i := declIndex(f, name)
	if i < 0 {
		return false
	}
	f.Decls = append(f.Decls[:i:i], f.Decls[i+1:]...)
	return true
}

func insertDecl(f *idl.File, at int, d *idl.Decl) {
	if at < 0 || at > len(f.Decls) {
		at = len(f.Decls)
	}
	f.Decls = append(f.Decls, nil)
	copy(f.Decls[at+1:], f.Decls[at:])
	f.Decls[at] = d
}

func includesFile(f *idl.File, base string) bool {
	for _, inc := range f.Includes {
		b := inc.Path
		if k := strings.LastIndex(b, "."); k > 0 {
			b = b[:k]
		}
		if b == base {
			return true
		}
	}
	return false
}

// closure returns the base names of f and of every file it includes,
// transitively.
func closure(p *idl.Program, base string) map[string]bool {
	out := map[string]bool{}
	var rec func(b string)
	rec = func(b string) {
		if out[b] {
			return
		}
		out[b] = true
		f := p.File(b)
		if f == nil {
			return
		}
		for _, g := range p.Files {
			if includesFile(f, g.Base) {
				rec(g.Base)
			}
		}
	}
	rec(base)
	return out
}

func posClass(i, n int) string {
	switch {
	case n == 1:
		return "only"
	case i == 0:
		return "first"
	case i == n-1:
		return "last"
	}
	return "middle"
}

// ---- types -------------------------------------------------------------------

// resolved is the fully resolved (typedef-free, file-qualified) spelling of a
// type; two types are "the same on the wire and for the audit" iff their
// resolved spellings are equal.  Used only to make sure that a retyping edit
// is a real change and that a typedef edit is not.
func resolved(p *idl.Program, f *idl.File, t *idl.Type) string {
	if t == nil {
		return "void"
	}
	u, uf := p.Underlying(f, t)
	switch u.Name {
	case "map":
		return "map<" + resolved(p, uf, u.Key) + "," + resolved(p, uf, u.Val) + ">"
	case "list":
		return "list<" + resolved(p, uf, u.Val) + ">"
	case "set":
		return "set<" + resolved(p, uf, u.Val) + ">"
	}
	if idl.IsBase(u.Name) {
		return u.Name
	}
	r := p.Lookup(uf, u.Name)
	if r == nil {
		return "?" + u.Name
	}
	local := u.Name
	if i := strings.IndexByte(local, '.'); i >= 0 {
		local = local[i+1:]
	}
	return r.File.Base + "." + local
}

// typeValid reports whether every name in t resolves from file f (and the
// include is declared), map keys / set elements are keyable.
func typeValid(p *idl.Program, f *idl.File, t *idl.Type, key bool) bool {
	if t == nil {
		return false
	}
	switch t.Name {
	case "map":
		return !key && t.Key != nil && t.Val != nil && typeValid(p, f, t.Key, true) && typeValid(p, f, t.Val, false)
	case "list":
		return !key && t.Val != nil && typeValid(p, f, t.Val, false)
	case "set":
		return !key && t.Val != nil && typeValid(p, f, t.Val, true)
	}
	if idl.IsBase(t.Name) {
		return !key || t.Name != "binary"
	}
	if i := strings.IndexByte(t.Name, '.'); i >= 0 {
		if !includesFile(f, t.Name[:i]) {
			return false
		}
	}
	r := p.Lookup(f, t.Name)
	if r == nil {
		return false
	}
	if key {
		if r.Enum != nil {
			return true
		}
		if r.TypeDef != nil {
			u, uf := p.Underlying(f, t)
			if idl.IsBase(u.Name) {
				return u.Name != "binary"
			}
			ur := p.Lookup(uf, u.Name)
			return !u.IsContainer() && ur != nil && ur.Enum != nil
		}
		return false
	}
	if r.Struct != nil && r.Struct.Kind == idl.KindException {
		return false
	}
	return true
}

// node is one position inside a type expression: the path from the root
// ('k' = map key, 'v' = map / list / set element).
type node struct {
	path string
	t    *idl.Type
	key  bool // the position must hold a keyable type
}

func typeNodes(t *idl.Type) []node {
	var out []node
	var rec func(t *idl.Type, path string, key bool)
	rec = func(t *idl.Type, path string, key bool) {
		if t == nil {
			return
		}
		out = append(out, node{path, t, key})
		switch t.Name {
		case "map":
			rec(t.Key, path+"k", true)
			rec(t.Val, path+"v", false)
		case "list":
			rec(t.Val, path+"v", false)
		case "set":
			rec(t.Val, path+"v", true)
		}
	}
	rec(t, "", false)
	return out
}

func navigate(t *idl.Type, path string) *idl.Type {
	for _, c := range path {
		if t == nil {
			return nil
		}
		switch c {
		case 'k':
			if t.Name != "map" {
				return nil
			}
			t = t.Key
		case 'v':
			if !t.IsContainer() {
				return nil
			}
			t = t.Val
		}
	}
	return t
}

func pathKind(path string) string {
	if path == "" {
		return "d0"
	}
	last := "val"
	if path[len(path)-1] == 'k' {
		last = "key"
	}
	return fmt.Sprintf("d%d-%s", len(path), last)
}

// mentionsName reports whether t names (syntactically, from file f) the
// declaration `name` of file `of`.
func mentionsName(p *idl.Program, f *idl.File, t *idl.Type, of *idl.File, name string) bool {
	if t == nil {
		return false
	}
	if t.IsContainer() {
		return mentionsName(p, f, t.Key, of, name) || mentionsName(p, f, t.Val, of, name)
	}
	if idl.IsBase(t.Name) {
		return false
	}
	if f == of && t.Name == name {
		return true
	}
	return t.Name == of.Base+"."+name
}

// mentionsTypedef reports whether t, written in file f, depends on the
// typedef `name` of file `of`, directly or through typedef chains.
func mentionsTypedef(p *idl.Program, f *idl.File, t *idl.Type, of *idl.File, name string, depth int) bool {
	if t == nil || depth > 32 {
		return false
	}
	if t.IsContainer() {
		return mentionsTypedef(p, f, t.Key, of, name, depth) || mentionsTypedef(p, f, t.Val, of, name, depth)
	}
	if idl.IsBase(t.Name) {
		return false
	}
	r := p.Lookup(f, t.Name)
	if r == nil || r.TypeDef == nil {
		return false
	}
	if r.File == of && r.TypeDef.Name == name {
		return true
	}
	return mentionsTypedef(p, r.File, r.TypeDef.Type, of, name, depth+1)
}

// eachCheckedType calls fn for every type position of file f that the audit
// documents as checked: struct-like fields, arguments, return types, thrown
// exceptions, operation types.  fld is the field holding the type (nil for
// returns and operations).
func eachCheckedType(f *idl.File, fn func(t *idl.Type, fld *idl.Field)) {
	for _, d := range f.Decls {
		switch {
		case d.Struct != nil:
			for _, fl := range d.Struct.Fields {
				fn(fl.Type, fl)
			}
		case d.Service != nil:
			for _, m := range d.Service.Methods {
				if m.Ret != nil {
					fn(m.Ret, nil)
				}
				for _, a := range m.Args {
					fn(a.Type, a)
				}
				for _, a := range m.Throws {
					fn(a.Type, a)
				}
			}
		case d.Scope != nil:
			for _, o := range d.Scope.Ops {
				fn(o.Type, nil)
			}
		}
	}
}

// eachType calls fn for every type expression of file f (checked positions,
// typedef targets, constant types).
func eachType(f *idl.File, fn func(t *idl.Type)) {
	eachCheckedType(f, func(t *idl.Type, _ *idl.Field) { fn(t) })
	for _, d := range f.Decls {
		switch {
		case d.TypeDef != nil:
			fn(d.TypeDef.Type)
		case d.Const != nil:
			fn(d.Const.Type)
		}
	}
}

// renameInType rewrites every occurrence of the type name `from` by `to`.
func renameInType(t *idl.Type, from, to string) {
	if t == nil {
		return
	}
	if t.IsContainer() {
		renameInType(t.Key, from, to)
		renameInType(t.Val, from, to)
		return
	}
	if t.Name == from {
		t.Name = to
	}
}

// ---- constant values ---------------------------------------------------------

func mapIdents(v interface{}, fn func(idl.Ident) idl.Ident) interface{} {
	switch x := v.(type) {
	case idl.Ident:
		return fn(x)
	case []interface{}:
		for i := range x {
			x[i] = mapIdents(x[i], fn)
		}
		return x
	case []idl.KV:
		for i := range x {
			x[i].Key = mapIdents(x[i].Key, fn)
			x[i].Value = mapIdents(x[i].Value, fn)
		}
		return x
	}
	return v
}

// eachValue calls fn for every constant value slot (constant values, field
// defaults) of the program with the file that holds it.
func eachValue(p *idl.Program, fn func(f *idl.File, v *interface{})) {
	for _, f := range p.Files {
		for _, d := range f.Decls {
			switch {
			case d.Const != nil:
				fn(f, &d.Const.Value)
			case d.Struct != nil:
				for _, fl := range d.Struct.Fields {
					if fl.Default != nil {
						fn(f, &fl.Default)
					}
				}
			case d.Service != nil:
				for _, m := range d.Service.Methods {
					for _, a := range m.Args {
						if a.Default != nil {
							fn(f, &a.Default)
						}
					}
				}
			}
		}
	}
}

// variantRefs counts references to enum variant E.V of file ef: scalar
// (the whole value is the identifier) and nested (inside a list / map literal).
func variantRefs(p *idl.Program, ef *idl.File, enum, variant string) (scalar, nested int) {
	eachValue(p, func(f *idl.File, v *interface{}) {
		want := idl.Ident(enum + "." + variant)
		if f != ef {
			want = idl.Ident(ef.Base + "." + enum + "." + variant)
		}
		if id, ok := (*v).(idl.Ident); ok {
			if id == want {
				scalar++
			}
			return
		}
		mapIdents(idl.CloneValue(*v), func(i idl.Ident) idl.Ident {
			if i == want {
				nested++
			}
			return i
		})
	})
	return
}

func replaceVariantRefs(p *idl.Program, ef *idl.File, enum, from, to string) {
	eachValue(p, func(f *idl.File, v *interface{}) {
		pre := ""
		if f != ef {
			pre = ef.Base + "."
		}
		*v = mapIdents(*v, func(i idl.Ident) idl.Ident {
			if i == idl.Ident(pre+enum+"."+from) {
				return idl.Ident(pre + enum + "." + to)
			}
			return i
		})
	})
}

// ---- whole-program validity (the check's own net under the edit scripts) ------

func validateProgram(p *idl.Program) error {
	for _, f := range p.Files {
		names := map[string]bool{}
		for _, d := range f.Decls {
			n := d.Name()
			if n == "" || names[strings.ToLower(n)] {
				return fmt.Errorf("%s: duplicate or empty declaration name %q", f.Base, n)
			}
			names[strings.ToLower(n)] = true
		}
		checkFields := func(where string, fs []*idl.Field, exc bool) error {
			ids, ns := map[int]bool{}, map[string]bool{}
			for _, fl := range fs {
				if ids[fl.ID] || ns[fl.Name] || fl.ID <= 0 {
					return fmt.Errorf("%s: duplicate field id/name %d %s", where, fl.ID, fl.Name)
				}
				ids[fl.ID], ns[fl.Name] = true, true
				if exc {
					r := p.Lookup(f, fl.Type.Name)
					if r == nil || r.Struct == nil || r.Struct.Kind != idl.KindException {
						return fmt.Errorf("%s: %s is not an exception", where, fl.Type)
					}
					if i := strings.IndexByte(fl.Type.Name, '.'); i >= 0 && !includesFile(f, fl.Type.Name[:i]) {
						return fmt.Errorf("%s: %s not included", where, fl.Type)
					}
				} else if !typeValid(p, f, fl.Type, false) {
					return fmt.Errorf("%s: invalid type %s", where, fl.Type)
				}
			}
			return nil
		}
		for _, d := range f.Decls {
			switch {
			case d.TypeDef != nil:
				if !typeValid(p, f, d.TypeDef.Type, false) {
					return fmt.Errorf("%s: typedef %s: invalid type %s", f.Base, d.TypeDef.Name, d.TypeDef.Type)
				}
				if mentionsTypedef(p, f, d.TypeDef.Type, f, d.TypeDef.Name, 0) {
					return fmt.Errorf("%s: typedef %s is cyclic", f.Base, d.TypeDef.Name)
				}
			case d.Const != nil:
				if !typeValid(p, f, d.Const.Type, false) {
					return fmt.Errorf("%s: const %s: invalid type %s", f.Base, d.Const.Name, d.Const.Type)
				}
			case d.Enum != nil:
				vs, ns := map[int]bool{}, map[string]bool{}
				if len(d.Enum.Values) == 0 {
					return fmt.Errorf("%s: enum %s is empty", f.Base, d.Enum.Name)
				}
				next := 0
				for _, v := range d.Enum.Values {
					if !v.Explicit && v.Value != next {
						return fmt.Errorf("%s: enum %s: implicit value of %s is %d in the model but %d in the text", f.Base, d.Enum.Name, v.Name, v.Value, next)
					}
					if vs[v.Value] || ns[v.Name] {
						return fmt.Errorf("%s: enum %s: duplicate variant %s=%d", f.Base, d.Enum.Name, v.Name, v.Value)
					}
					vs[v.Value], ns[v.Name] = true, true
					next = v.Value + 1
				}
			case d.Struct != nil:
				if d.Struct.Kind == idl.KindUnion && len(d.Struct.Fields) == 0 {
					return fmt.Errorf("%s: empty union %s", f.Base, d.Struct.Name)
				}
				if err := checkFields(f.Base+"/"+d.Struct.Name, d.Struct.Fields, false); err != nil {
					return err
				}
				for _, fl := range d.Struct.Fields {
					if fl.Type.Name == d.Struct.Name && fl.Req != idl.ReqOptional {
						return fmt.Errorf("%s: struct %s contains itself", f.Base, d.Struct.Name)
					}
				}
			case d.Service != nil:
				s := d.Service
				if s.Extends != "" && findService(p, f, s.Extends) == nil {
					return fmt.Errorf("%s: service %s extends unknown %s", f.Base, s.Name, s.Extends)
				}
				ms := map[string]bool{}
				for _, inh := range inheritedMethods(p, f, s.Extends) {
					ms[strings.ToLower(inh)] = true
				}
				for _, m := range s.Methods {
					if ms[strings.ToLower(m.Name)] {
						return fmt.Errorf("%s: service %s: duplicate method %s", f.Base, s.Name, m.Name)
					}
					ms[strings.ToLower(m.Name)] = true
					if m.Oneway && (m.Ret != nil || len(m.Throws) > 0) {
						return fmt.Errorf("%s: oneway %s.%s returns or throws", f.Base, s.Name, m.Name)
					}
					if m.Ret != nil && !typeValid(p, f, m.Ret, false) {
						return fmt.Errorf("%s: %s.%s: invalid return type %s", f.Base, s.Name, m.Name, m.Ret)
					}
					if err := checkFields(f.Base+"/"+s.Name+"."+m.Name+" args", m.Args, false); err != nil {
						return err
					}
					if err := checkFields(f.Base+"/"+s.Name+"."+m.Name+" throws", m.Throws, true); err != nil {
						return err
					}
				}
			case d.Scope != nil:
				os := map[string]bool{}
				for _, o := range d.Scope.Ops {
					if os[strings.ToLower(o.Name)] {
						return fmt.Errorf("%s: scope %s: duplicate operation %s", f.Base, d.Scope.Name, o.Name)
					}
					os[strings.ToLower(o.Name)] = true
					if !typeValid(p, f, o.Type, false) {
						return fmt.Errorf("%s: %s.%s: invalid type %s", f.Base, d.Scope.Name, o.Name, o.Type)
					}
				}
			}
		}
	}
	// identifiers used as values
	var err error
	eachValue(p, func(f *idl.File, v *interface{}) {
		mapIdents(idl.CloneValue(*v), func(i idl.Ident) idl.Ident {
			parts := strings.Split(string(i), ".")
			ef := f
			if len(parts) == 3 {
				ef = p.File(parts[0])
				parts = parts[1:]
				if ef == nil || !includesFile(f, ef.Base) {
					err = fmt.Errorf("%s: value %s: unknown include", f.Base, i)
					return i
				}
			}
			if len(parts) != 2 {
				err = fmt.Errorf("%s: value %s: not Enum.VARIANT", f.Base, i)
				return i
			}
			e := enumOf(ef, parts[0])
			ok := false
			if e != nil {
				for _, ev := range e.Values {
					if ev.Name == parts[1] {
						ok = true
					}
				}
			}
			if !ok {
				err = fmt.Errorf("%s: value %s names no enum variant", f.Base, i)
			}
			return i
		})
	})
	return err
}

// findService resolves an extends clause written in file f.
func findService(p *idl.Program, f *idl.File, ext string) *idl.Service {
	s, _ := findServiceFile(p, f, ext)
	return s
}

func findServiceFile(p *idl.Program, f *idl.File, ext string) (*idl.Service, *idl.File) {
	if ext == "" {
		return nil, nil
	}
	target, name := f, ext
	if i := strings.IndexByte(ext, '.'); i >= 0 {
		target = p.File(ext[:i])
		name = ext[i+1:]
		if target == nil || !includesFile(f, target.Base) {
			return nil, nil
		}
	}
	return serviceOf(target, name), target
}

func inheritedMethods(p *idl.Program, f *idl.File, ext string) []string {
	var out []string
	for depth := 0; ext != "" && depth < 32; depth++ {
		s, sf := findServiceFile(p, f, ext)
		if s == nil {
			return out
		}
		for _, m := range s.Methods {
			out = append(out, m.Name)
		}
		ext, f = s.Extends, sf
	}
	return out
}

// extendedBy lists "file/Service" of every service whose extends clause
// resolves to service `name` of file `of`.
func extendedBy(p *idl.Program, of *idl.File, name string) []string {
	var out []string
	for _, f := range p.Files {
		for _, s := range f.Services() {
			if t, tf := findServiceFile(p, f, s.Extends); t != nil && tf == of && t.Name == name {
				out = append(out, f.Base+"/"+s.Name)
			}
		}
	}
	sort.Strings(out)
	return out
}
