package main

import (
	"math/rand"
	"os"
	"path/filepath"
	"strings"

	"verif/idl"
)

// A method without exceptions can be spelled `void m()` or `void m() throws ()`;
// the model (verif/idl) has one representation for both, so the spelling is
// kept beside the program: the set of "file/Service.method" rendered with an
// empty throws clause.

const emptyThrowsSentinel = "zqEMPTYTHROWSzq"

func emptyKey(file, svc, method string) string { return file + "/" + svc + "." + method }

func copyFlags(m map[string]bool) map[string]bool {
	out := make(map[string]bool, len(m))
	for k, v := range m {
		if v {
			out[k] = true
		}
	}
	return out
}

// drawEmptyThrows picks about a third of the methods without exceptions
// (one-way methods excepted) of a base program.
func drawEmptyThrows(p *idl.Program, rng *rand.Rand) map[string]bool {
	out := map[string]bool{}
	for _, f := range p.Files {
		for _, s := range f.Services() {
			for _, m := range s.Methods {
				if !m.Oneway && len(m.Throws) == 0 && rng.Intn(3) == 0 {
					out[emptyKey(f.Base, s.Name, m.Name)] = true
				}
			}
		}
	}
	return out
}

// writeProgram is idl.WriteProgram plus the empty throws clauses: a marked
// method gets a sentinel exception, whose line is cut from the rendered text
// ("throws (" newline ")" remains).
func writeProgram(p *idl.Program, dir string, st idl.Style, empty map[string]bool) (string, error) {
	q := p
	injected := false
	if len(empty) > 0 {
		q = p.Clone()
		for _, f := range q.Files {
			for _, s := range f.Services() {
				for _, m := range s.Methods {
					if empty[emptyKey(f.Base, s.Name, m.Name)] && !m.Oneway && len(m.Throws) == 0 {
						m.Throws = []*idl.Field{{ID: 1, Name: emptyThrowsSentinel, Type: idl.T("zqNoType")}}
						injected = true
					}
				}
			}
		}
	}
	if err := os.MkdirAll(dir, 0o755); err != nil {
		return "", err
	}
	for _, f := range q.Files {
		text := idl.RenderFile(f, st)
		if injected && strings.Contains(text, emptyThrowsSentinel) {
			lines := strings.Split(text, "\n")
			kept := lines[:0]
			for _, l := range lines {
				if !strings.Contains(l, emptyThrowsSentinel) {
					kept = append(kept, l)
				}
			}
			text = strings.Join(kept, "\n")
		}
		if err := os.WriteFile(filepath.Join(dir, f.FileName()), []byte(text), 0o644); err != nil {
			return "", err
		}
	}
	return filepath.Join(dir, p.Root().FileName()), nil
}
