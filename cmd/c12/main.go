// Command c12 monitors property C12: a request / publish whose framed size
// exceeds the transport's limit is not transmitted and fails with
// REQUEST_TOO_LARGE, an oversize response reaches the caller as
// RESPONSE_TOO_LARGE (never as a timeout or truncated data), a message within
// the limit is never rejected, and client and server keep working afterwards
// (DESIGN.md §4 C12).
//
// Thin driver: emits Go for /verif/fixtures with the compiler under test,
// builds /verif/harness/c12 against the runtime under test and runs it; the
// harness binary is the monitor and writes evidence/C12.json.
package main

import (
	"fmt"
	"os"
	"path/filepath"

	"verif/emit"
	"verif/ev"
)

func main() {
	h, err := emit.NewHarness("c12")
	if err != nil {
		fmt.Println("INCONCLUSIVE property=C12 cannot create the harness module:", err)
		os.Exit(2)
	}
	if r := h.Gen("", filepath.Join(ev.Root(), "fixtures"), "main.frugal", ""); r.ExitCode != 0 || r.TimedOut {
		fmt.Println("INCONCLUSIVE property=C12 the compiler under test failed on the fixture IDL:", r.Stdout, r.Stderr)
		os.Exit(2)
	}
	// the same IDL once more with the generator's "slim" option (struct-typed
	// fields are then written through frugal.WriteStructWithContext & co.):
	// packages vh/gen/slim/base and vh/gen/slim/mainsvc
	if r := h.Gen("slim", filepath.Join(ev.Root(), "fixtures"), "main.frugal", "slim"); r.ExitCode != 0 || r.TimedOut {
		fmt.Println("INCONCLUSIVE property=C12 the compiler under test failed on the fixture IDL with -gen go:slim:", r.Stdout, r.Stderr)
		os.Exit(2)
	}
	if err := h.CopySources(filepath.Join(ev.Root(), "harness/e2e"), "e2e"); err != nil {
		fmt.Println(err)
		os.Exit(2)
	}
	if err := h.CopySources(filepath.Join(ev.Root(), "harness/c12"), "c12"); err != nil {
		fmt.Println(err)
		os.Exit(2)
	}
	if os.Getenv("VERIF_VET") != "" {
		if out, err := h.Vet("./c12"); err != nil {
			fmt.Println("go vet:", out)
			os.Exit(2)
		}
	}
	bin, out, err := h.Build("./c12", "c12.bin", false)
	if err != nil {
		fmt.Println("BUILD-FAILED property=C12 (emitted code + monitor do not build against the tree under test)")
		fmt.Println(out)
		os.Exit(2)
	}
	code := emit.ExecHarness(bin, os.Args[1:]...)
	if code != 0 && code != 1 && code != 3 {
		fmt.Printf("INCONCLUSIVE property=C12 the monitor process ended abnormally (exit %d)\n", code)
	}
	os.Exit(code)
}
