package main

import (
	"fmt"
	"sort"
	"strconv"
	"sync"

	frugal "github.com/Workiva/frugal/lib/go"

	"verif/ev"
)

// stageRespMerge: response headers reach one shared context concurrently
// through both of their writers — AddResponseHeader and
// FProtocol.ReadResponseHeader (a received v0 header block) — with distinct
// names per write, plus one counter header per goroutine that it overwrites
// every time. Set semantics afterwards: every completed write must be there
// (the counter with its last value) and nothing else. A writer that publishes
// a stale copy of the map loses somebody else's completed write.
func stageRespMerge(run *ev.Run, p params, ids *idCollector) {
	rounds, G, N := p.cloneRounds, 8, 250
	reported := map[string]bool{}
	total, viaAdd, viaRead := 0, 0, 0
	for round := 0; round < rounds; round++ {
		origin := "new"
		var ctx frugal.FContext
		if round%2 == 1 {
			origin = "received"
			var err error
			ctx, err = readCtx(frugal.VerifMarshalHeaders(map[string]string{"_opid": "5", "_cid": "rm"}))
			if err != nil {
				run.Inconclusive("resp-merge: ReadRequestHeader failed: " + err.Error())
				continue
			}
		} else {
			ctx = frugal.NewFContext("rm")
		}
		ids.one(ctx, srcCloneConc, 0, round)
		initial := copyMap(ctx.ResponseHeaders())
		// goroutine g: even = AddResponseHeader, odd = ReadResponseHeader;
		// in the last rounds everybody reads (reader against reader)
		reader := func(g int) bool { return g%2 == 1 || round%5 == 4 }
		blocks := make([][][]byte, G)
		for g := 0; g < G; g++ {
			if !reader(g) {
				continue
			}
			blocks[g] = make([][]byte, N)
			for i := 0; i < N; i++ {
				blocks[g][i] = frugal.VerifMarshalHeaders(map[string]string{
					fmt.Sprintf("h%d-%d", g, i): fmt.Sprintf("v%d-%d", g, i),
					"c" + strconv.Itoa(g):       strconv.Itoa(i),
					"_opid":                     "12345", // must be ignored
				})
			}
		}
		errs := make([]string, G)
		bar := &spinBarrier{n: int32(G)}
		var wg sync.WaitGroup
		for g := 0; g < G; g++ {
			wg.Add(1)
			go func(g int) {
				defer wg.Done()
				cname := "c" + strconv.Itoa(g)
				bar.wait()
				for i := 0; i < N; i++ {
					if i%64 == 0 {
						tick()
					}
					if reader(g) {
						if err := responseReader(blocks[g][i]).ReadResponseHeader(ctx); err != nil {
							errs[g] = err.Error()
							return
						}
					} else {
						ctx.AddResponseHeader(fmt.Sprintf("h%d-%d", g, i), fmt.Sprintf("v%d-%d", g, i))
						ctx.AddResponseHeader(cname, strconv.Itoa(i))
					}
				}
			}(g)
		}
		wg.Wait()
		run.Eval(1)
		failed := false
		for g, e := range errs {
			if e != "" {
				run.Inconclusive(fmt.Sprintf("resp-merge: ReadResponseHeader failed in goroutine %d: %s", g, e))
				failed = true
			}
		}
		if failed {
			continue
		}
		final := ctx.ResponseHeaders()
		want := copyMap(initial)
		writer := map[string]string{}
		for g := 0; g < G; g++ {
			api := "AddResponseHeader"
			if reader(g) {
				api = "ReadResponseHeader"
				viaRead += N
			} else {
				viaAdd += N
			}
			for i := 0; i < N; i++ {
				k := fmt.Sprintf("h%d-%d", g, i)
				want[k] = fmt.Sprintf("v%d-%d", g, i)
				writer[k] = api
			}
			want["c"+strconv.Itoa(g)] = strconv.Itoa(N - 1)
			writer["c"+strconv.Itoa(g)] = api + " (counter, last value)"
		}
		total += G * N
		var lost, wrong, foreign []string
		for k, v := range want {
			got, ok := final[k]
			switch {
			case !ok:
				lost = append(lost, fmt.Sprintf("%s=%s written by %s", k, v, writer[k]))
			case got != v:
				wrong = append(wrong, fmt.Sprintf("%s is %q, last completed write %q by %s", k, got, v, writer[k]))
			}
		}
		for k, v := range final {
			if _, ok := want[k]; !ok {
				foreign = append(foreign, fmt.Sprintf("%s=%s", k, v))
			}
		}
		sort.Strings(lost)
		sort.Strings(wrong)
		sort.Strings(foreign)
		head := func(x []string) []string {
			if len(x) > 12 {
				return x[:12]
			}
			return x
		}
		shape := fmt.Sprintf("origin=%s goroutines=%d (ReadResponseHeader writers: %s) writes_each=%d", origin, G,
			map[bool]string{true: "all", false: "odd goroutines"}[round%5 == 4], N)
		if len(lost)+len(wrong) > 0 && !reported["lost"] {
			reported["lost"] = true
			run.Violation("C17:resp-merge:lost-write",
				fmt.Sprintf("round %d: after all writers returned, %d of %d completed response-header writes on one shared context are missing and %d show an older value (AddResponseHeader and ReadResponseHeader running concurrently)", round, len(lost), len(want)-len(initial), len(wrong)),
				map[string]interface{}{"round": round, "shape": shape, "missing": head(lost), "stale": head(wrong), "seed": run.Seed})
		}
		if len(foreign) > 0 && !reported["foreign"] {
			reported["foreign"] = true
			run.Violation("C17:resp-merge:foreign-header", fmt.Sprintf("round %d: response headers nobody wrote appeared", round),
				map[string]interface{}{"round": round, "shape": shape, "foreign": head(foreign)})
		}
		run.Distinct("resp-merge " + shape)
	}
	run.Add("resp_merge_rounds", rounds)
	run.Add("resp_merge_distinct_headers_written", total)
	run.Add("resp_merge_written_via_AddResponseHeader", viaAdd)
	run.Add("resp_merge_written_via_ReadResponseHeader", viaRead)
}
