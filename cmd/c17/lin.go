package main

import (
	"fmt"
	"hash/fnv"
	"math/rand"
	"runtime"
	"sort"
	"strconv"
	"strings"
	"sync"
	"time"

	frugal "github.com/Workiva/frugal/lib/go"
	"github.com/anishathalye/porcupine"

	"verif/ev"
)

// client operations of a history
const (
	opWQ = iota // AddRequestHeader(k, v)
	opRQ        // RequestHeader(k)
	opWP        // AddResponseHeader(k, v)
	opRP        // ResponseHeader(k)
	opSQ        // RequestHeaders()
	opSP        // ResponseHeaders()
	opST        // SetTimeout(v ms)
	opGT        // Timeout()
	opCL        // Clone(), then the private clone is read
	opRR        // FProtocol.ReadResponseHeader(ctx) of a block carrying k=v: a writer of response headers
	opKinds
)

var opNames = [opKinds]string{"AddReq", "GetReq", "AddResp", "GetResp", "ReqHeaders", "RespHeaders", "SetTimeout", "Timeout", "Clone", "ReadResponseHeader"}

type linOp struct {
	kind  int
	key   string
	val   string
	pause int // busy iterations before the call, so that goroutines interleave
}

type linRec struct {
	g         int
	op        linOp
	call, ret int64
	out       string
	ok        bool
	snapQ     map[string]string
	snapP     map[string]string
}

// register model: one partition = one (space, key); spaces: Q request
// headers, P response headers, T the timeout.
type regIn struct {
	write bool
	val   string
}
type regOut struct {
	val string
	ok  bool
}
type regState struct {
	val string
	ok  bool
}

var regModel = porcupine.Model{
	Init: func() interface{} { return regState{} },
	Step: func(st, in, out interface{}) (bool, interface{}) {
		s := st.(regState)
		i := in.(regIn)
		if i.write {
			return true, regState{val: i.val, ok: true}
		}
		o := out.(regOut)
		if !s.ok {
			return !o.ok, s
		}
		return o.ok && o.val == s.val, s
	},
	Equal: func(a, b interface{}) bool { return a.(regState) == b.(regState) },
}

type linMode struct {
	name    string
	weights [opKinds]int
}

var linModes = []linMode{
	{"mixed", [opKinds]int{6, 6, 4, 4, 2, 2, 2, 2, 1, 2}},
	{"write-heavy", [opKinds]int{10, 3, 6, 2, 1, 1, 2, 1, 1, 3}},
	{"read-heavy", [opKinds]int{3, 10, 2, 6, 1, 1, 1, 2, 1, 1}},
	{"snapshot-heavy", [opKinds]int{6, 1, 4, 1, 5, 4, 1, 0, 2, 1}},
	{"clone-heavy", [opKinds]int{6, 1, 4, 1, 1, 1, 1, 0, 6, 1}},
	{"timeout", [opKinds]int{2, 1, 1, 1, 1, 0, 8, 8, 2, 0}},
	{"response-readers", [opKinds]int{1, 1, 6, 6, 0, 3, 0, 0, 1, 6}},
}

type linCase struct {
	h       int
	mode    string
	G, K    int
	scripts [][]linOp
}

func genLinCase(rng *rand.Rand, h int) *linCase {
	m := linModes[rng.Intn(len(linModes))]
	G := []int{2, 2, 3, 4, 4, 6, 8}[rng.Intn(7)]
	K := 1 + rng.Intn(3)
	per := 3 + rng.Intn(12)
	if per*G > 60 {
		per = 60 / G
	}
	tot := 0
	for _, w := range m.weights {
		tot += w
	}
	c := &linCase{h: h, mode: m.name, G: G, K: K}
	for g := 0; g < G; g++ {
		var s []linOp
		for i := 0; i < per; i++ {
			r := rng.Intn(tot)
			kind := 0
			for r >= m.weights[kind] {
				r -= m.weights[kind]
				kind++
			}
			op := linOp{kind: kind, key: "k" + strconv.Itoa(rng.Intn(K)), pause: []int{0, 0, 10, 50, 200, 1000}[rng.Intn(6)]}
			switch kind {
			case opWQ, opWP, opRR:
				op.val = fmt.Sprintf("v%d.%d.%d", h, g, i) // unique per write
			case opST:
				op.key = ""
				op.val = strconv.Itoa(1 + g*100 + i) // unique whole milliseconds, never 5000
			case opGT, opSQ, opSP, opCL:
				op.key = ""
			}
			s = append(s, op)
		}
		c.scripts = append(c.scripts, s)
	}
	return c
}

// execLin runs the scripts on one fresh shared context; timestamps come from
// one monotonic clock, taken immediately around each call. Every goroutine
// records into its own slice.
func execLin(c *linCase, ids *idCollector) [][]linRec {
	ctx := frugal.NewFContext("lin")
	ids.one(ctx, srcLin, 0, c.h)
	wep := ctx.(frugal.FContextWithEphemeralProperties)
	base := time.Now()
	recs := make([][]linRec, c.G)
	bar := &spinBarrier{n: int32(c.G)}
	var wg sync.WaitGroup
	for g := 0; g < c.G; g++ {
		wg.Add(1)
		go func(g int) {
			defer wg.Done()
			script := c.scripts[g]
			out := make([]linRec, len(script))
			clones := make([]frugal.FContext, len(script))
			blocks := make([][]byte, len(script))
			for i, op := range script {
				if op.kind == opRR { // the incoming op id must be ignored by ReadResponseHeader
					blocks[i] = frugal.VerifMarshalHeaders(map[string]string{op.key: op.val, "_opid": "77"})
				}
			}
			bar.wait()
			spin := 0
			for i, op := range script {
				r := &out[i]
				r.g, r.op = g, op
				for n := 0; n < op.pause; n++ {
					spin += n
				}
				switch op.kind {
				case opWQ:
					r.call = time.Since(base).Nanoseconds()
					ctx.AddRequestHeader(op.key, op.val)
					r.ret = time.Since(base).Nanoseconds()
				case opRQ:
					r.call = time.Since(base).Nanoseconds()
					r.out, r.ok = ctx.RequestHeader(op.key)
					r.ret = time.Since(base).Nanoseconds()
				case opWP:
					r.call = time.Since(base).Nanoseconds()
					ctx.AddResponseHeader(op.key, op.val)
					r.ret = time.Since(base).Nanoseconds()
				case opRP:
					r.call = time.Since(base).Nanoseconds()
					r.out, r.ok = ctx.ResponseHeader(op.key)
					r.ret = time.Since(base).Nanoseconds()
				case opSQ:
					r.call = time.Since(base).Nanoseconds()
					r.snapQ = ctx.RequestHeaders()
					r.ret = time.Since(base).Nanoseconds()
				case opSP:
					r.call = time.Since(base).Nanoseconds()
					r.snapP = ctx.ResponseHeaders()
					r.ret = time.Since(base).Nanoseconds()
				case opST:
					ms, _ := strconv.Atoi(op.val)
					d := time.Duration(ms) * time.Millisecond
					r.call = time.Since(base).Nanoseconds()
					ctx.SetTimeout(d)
					r.ret = time.Since(base).Nanoseconds()
				case opGT:
					r.call = time.Since(base).Nanoseconds()
					d := ctx.Timeout()
					r.ret = time.Since(base).Nanoseconds()
					r.out, r.ok = strconv.FormatInt(int64(d/time.Millisecond), 10), true
				case opRR:
					fp := responseReader(blocks[i])
					r.call = time.Since(base).Nanoseconds()
					err := fp.ReadResponseHeader(ctx)
					r.ret = time.Since(base).Nanoseconds()
					r.ok = err == nil
				case opCL:
					var cl frugal.FContext
					r.call = time.Since(base).Nanoseconds()
					if i%2 == 0 {
						cl = wep.Clone()
					} else {
						cl = frugal.Clone(ctx)
					}
					r.ret = time.Since(base).Nanoseconds()
					clones[i] = cl
				}
			}
			// the clones are private to this goroutine: read them afterwards
			for i, cl := range clones {
				if cl != nil {
					out[i].snapQ = cl.RequestHeaders()
					out[i].snapP = cl.ResponseHeaders()
					out[i].out = strconv.FormatInt(int64(cl.Timeout()/time.Millisecond), 10)
					ids.one(cl, srcLin, g, c.h)
				}
			}
			if spin == -1 {
				runtime.Gosched()
			}
			recs[g] = out
		}(g)
	}
	wg.Wait()
	return recs
}

type linVerdict struct {
	c         *linCase
	opString  string
	contended bool
	clientOps int
	modelOps  int
	result    porcupine.CheckResult
	badPart   string
	witness   []string
	foreign   string
}

func describeOp(part string, o porcupine.Operation) string {
	in := o.Input.(regIn)
	if in.write {
		via := ""
		if m, _ := o.Metadata.(string); m != "" {
			via = " via " + m
		}
		return fmt.Sprintf("[%d,%d] g%d write %s = %q%s", o.Call, o.Return, o.ClientId, part, in.val, via)
	}
	out := o.Output.(regOut)
	return fmt.Sprintf("[%d,%d] g%d read  %s -> (%q,%v) via %v", o.Call, o.Return, o.ClientId, part, out.val, out.ok, o.Metadata)
}

// judgeLin converts the records to per-partition register histories and
// checks each with porcupine.
func judgeLin(c *linCase, recs [][]linRec) *linVerdict {
	v := &linVerdict{c: c, result: porcupine.Ok}
	parts := map[string][]porcupine.Operation{}
	add := func(part string, g int, in regIn, out regOut, call, ret int64, via string) {
		parts[part] = append(parts[part], porcupine.Operation{ClientId: g, Input: in, Output: out, Call: call, Return: ret, Metadata: via})
	}
	// state established by NewFContext before the history starts
	add("T", 0, regIn{write: true, val: "5000"}, regOut{}, -2, -1, "NewFContext")
	keys := make([]string, c.K)
	for i := range keys {
		keys[i] = "k" + strconv.Itoa(i)
	}
	isKey := func(k string) bool {
		for _, x := range keys {
			if x == k {
				return true
			}
		}
		return false
	}
	snapshot := func(space string, r linRec, m map[string]string, via string) {
		for _, k := range keys {
			val, ok := m[k]
			add(space+":"+k, r.g, regIn{}, regOut{val: val, ok: ok}, r.call, r.ret, via)
		}
		for k := range m {
			if !isKey(k) && !strings.HasPrefix(k, "_") && v.foreign == "" {
				v.foreign = fmt.Sprintf("%s returned a header %q=%q nobody wrote", via, k, m[k])
			}
		}
	}
	var flat []linRec
	for _, rs := range recs {
		flat = append(flat, rs...)
	}
	sort.SliceStable(flat, func(a, b int) bool { return flat[a].call < flat[b].call })
	var sb strings.Builder
	for _, r := range flat {
		v.clientOps++
		fmt.Fprintf(&sb, "%d%c%s ", r.g, "WRwrSsTtCP"[r.op.kind], r.op.key)
		switch r.op.kind {
		case opWQ:
			add("Q:"+r.op.key, r.g, regIn{write: true, val: r.op.val}, regOut{}, r.call, r.ret, "")
		case opRQ:
			add("Q:"+r.op.key, r.g, regIn{}, regOut{val: r.out, ok: r.ok}, r.call, r.ret, "RequestHeader")
		case opWP:
			add("P:"+r.op.key, r.g, regIn{write: true, val: r.op.val}, regOut{}, r.call, r.ret, "")
		case opRP:
			add("P:"+r.op.key, r.g, regIn{}, regOut{val: r.out, ok: r.ok}, r.call, r.ret, "ResponseHeader")
		case opRR:
			if !r.ok && v.foreign == "" {
				v.foreign = "ReadResponseHeader rejected a valid header block"
			}
			add("P:"+r.op.key, r.g, regIn{write: true, val: r.op.val}, regOut{}, r.call, r.ret, "ReadResponseHeader")
		case opSQ:
			snapshot("Q", r, r.snapQ, "RequestHeaders")
		case opSP:
			snapshot("P", r, r.snapP, "ResponseHeaders")
		case opST:
			add("T", r.g, regIn{write: true, val: r.op.val}, regOut{}, r.call, r.ret, "")
		case opGT:
			add("T", r.g, regIn{}, regOut{val: r.out, ok: true}, r.call, r.ret, "Timeout")
		case opCL:
			snapshot("Q", r, r.snapQ, "Clone.RequestHeaders")
			snapshot("P", r, r.snapP, "Clone.ResponseHeaders")
			add("T", r.g, regIn{}, regOut{val: r.out, ok: true}, r.call, r.ret, "Clone.Timeout")
		}
	}
	v.opString = sb.String()
	names := make([]string, 0, len(parts))
	for name := range parts {
		names = append(names, name)
	}
	sort.Strings(names)
	for _, name := range names {
		ops := parts[name]
		v.modelOps += len(ops)
		// real concurrency on this register: a write overlapping another op
		for i := range ops {
			if !ops[i].Input.(regIn).write {
				continue
			}
			for j := range ops {
				if i != j && ops[i].Call <= ops[j].Return && ops[j].Call <= ops[i].Return {
					v.contended = true
				}
			}
		}
		res, _ := porcupine.CheckOperationsVerbose(regModel, ops, 10*time.Second)
		if res == porcupine.Ok {
			continue
		}
		if res == porcupine.Illegal || v.result == porcupine.Ok {
			v.result = res
			v.badPart = name
			sorted := append([]porcupine.Operation(nil), ops...)
			sort.SliceStable(sorted, func(a, b int) bool { return sorted[a].Call < sorted[b].Call })
			v.witness = v.witness[:0]
			for _, o := range sorted {
				v.witness = append(v.witness, describeOp(name, o))
			}
		}
		if res == porcupine.Illegal {
			break
		}
	}
	return v
}

func stageLin(run *ev.Run, p params, ids *idCollector) {
	rng := run.Rand("lin")
	cases := make([]*linCase, p.linHistories)
	for h := range cases {
		cases[h] = genLinCase(rng, h)
	}
	// Histories are produced one at a time (so that each one gets the cores)
	// and judged by a pool.
	workers := runtime.NumCPU() / 2
	if workers < 2 {
		workers = 2
	}
	type job struct {
		c    *linCase
		recs [][]linRec
	}
	jobs := make(chan job, 64)
	verdicts := make(chan *linVerdict, 64)
	var wg sync.WaitGroup
	for w := 0; w < workers; w++ {
		wg.Add(1)
		go func() {
			defer wg.Done()
			for j := range jobs {
				verdicts <- judgeLin(j.c, j.recs)
				tick()
			}
		}()
	}
	done := make(chan struct{})
	var ok, illegal, unknown, contended, clientOps, modelOps int
	opStrings := map[uint64]struct{}{}
	go func() {
		defer close(done)
		for v := range verdicts {
			run.Eval(1)
			clientOps += v.clientOps
			modelOps += v.modelOps
			run.Distinct(fmt.Sprintf("lin mode=%s G=%d K=%d", v.c.mode, v.c.G, v.c.K))
			hs := fnv.New64a()
			hs.Write([]byte(v.opString))
			if _, seen := opStrings[hs.Sum64()]; !seen {
				opStrings[hs.Sum64()] = struct{}{}
			}
			if v.contended {
				contended++
				run.Distinct(fmt.Sprintf("lin-history %016x", hs.Sum64()))
			}
			if v.c.h < 2 {
				run.Sample(map[string]interface{}{"stage": "lin", "history": v.c.h, "mode": v.c.mode, "goroutines": v.c.G, "keys": v.c.K, "ops_in_call_order": v.opString})
			}
			if v.foreign != "" {
				run.Violation("C17:lin:foreign-header", v.foreign, map[string]interface{}{"history": v.c.h, "ops_in_call_order": v.opString})
			}
			switch v.result {
			case porcupine.Ok:
				ok++
			case porcupine.Illegal:
				illegal++
				space := strings.SplitN(v.badPart, ":", 2)[0]
				run.Violation("C17:lin:illegal:"+space,
					fmt.Sprintf("history %d (mode %s, %d goroutines, %d keys) on one shared FContext is not linearizable on register %s", v.c.h, v.c.mode, v.c.G, v.c.K, v.badPart),
					map[string]interface{}{"history": v.c.h, "register": v.badPart, "ops_ns_from_start": v.witness, "all_ops_in_call_order": v.opString})
			default:
				unknown++
				run.Inconclusive(fmt.Sprintf("lin: porcupine timed out on history %d register %s", v.c.h, v.badPart))
			}
		}
	}()
	for _, c := range cases {
		jobs <- job{c, execLin(c, ids)}
		tick()
	}
	close(jobs)
	wg.Wait()
	close(verdicts)
	<-done
	run.Add("lin_histories", len(cases))
	run.Add("lin_ok", ok)
	run.Add("lin_illegal", illegal)
	run.Add("lin_unknown", unknown)
	run.Add("lin_histories_with_overlapping_write", contended)
	run.Add("lin_client_ops", clientOps)
	run.Add("lin_register_ops_checked", modelOps)
	run.Set("lin_distinct_op_strings", len(opStrings))
	if contended == 0 {
		run.Inconclusive("lin: no history had a write overlapping another operation on the same register (nothing concurrent was observed)")
	}
}
