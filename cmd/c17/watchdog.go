package main

import (
	"bufio"
	"fmt"
	"io"
	"os"
	"os/exec"
	"regexp"
	"sort"
	"strings"
	"sync"
	"sync/atomic"
	"syscall"
	"time"
)

// Progress discipline: every workload calls tick() at natural points (every
// few hundred operations, every history, every clone round). A heartbeat
// goroutine reports on stderr, about once a second, only when the counter
// moved. The process that started this one watches that stream: when nothing
// completed for the silence limit it asks for a goroutine dump (SIGQUIT) and
// decides from the dump whether a logical blocked-forever condition holds.
// The case list never depends on these clocks.

var progressCount atomic.Int64

func tick() { progressCount.Add(1) }

// startHeartbeat reports progress on stderr while the process lives.
func startHeartbeat() {
	go func() {
		last := int64(-1)
		for {
			time.Sleep(time.Second)
			if n := progressCount.Load(); n != last {
				last = n
				fmt.Fprintf(os.Stderr, "C17-PROGRESS %d\n", n)
			}
		}
	}()
}

const (
	silenceQuick    = 20 * time.Second
	silenceThorough = 30 * time.Second
)

func silenceLimit(thorough bool) time.Duration {
	if thorough {
		return silenceThorough
	}
	return silenceQuick
}

// monitored is what became of a watched child process.
type monitored struct {
	text      string // stderr without marker lines (capped)
	lastStage string
	stalled   bool // the progress watchdog fired (SIGQUIT dump is in text)
	hardLimit bool // the overall limit fired
	exitCode  int
	err       error
}

// runMonitored starts cmd, relays its progress to onProgress and enforces the
// silence and overall limits. cmd.Stderr must be unset.
func runMonitored(cmd *exec.Cmd, silence, hard time.Duration, onProgress func()) monitored {
	var m monitored
	pr, err := cmd.StderrPipe()
	if err != nil {
		m.err = err
		return m
	}
	if err := cmd.Start(); err != nil {
		m.err = err
		return m
	}
	var lastActivity atomic.Int64
	lastActivity.Store(time.Now().UnixNano())
	buf := &cappedBuffer{max: 8 << 20}
	var stageMu sync.Mutex
	readerDone := make(chan struct{})
	go func() {
		defer close(readerDone)
		br := bufio.NewReaderSize(pr, 64<<10)
		for {
			ln, err := br.ReadString('\n')
			if ln != "" {
				switch {
				case strings.HasPrefix(ln, "C17-PROGRESS "):
					lastActivity.Store(time.Now().UnixNano())
					if onProgress != nil {
						onProgress()
					}
				case strings.HasPrefix(ln, "C17-STAGE "):
					lastActivity.Store(time.Now().UnixNano())
					if onProgress != nil {
						onProgress()
					}
					stageMu.Lock()
					m.lastStage = strings.TrimSpace(strings.TrimPrefix(ln, "C17-STAGE "))
					stageMu.Unlock()
				default:
					io.WriteString(buf, ln)
				}
			}
			if err != nil {
				return
			}
		}
	}()
	start := time.Now()
	var quitAt time.Time
	tk := time.NewTicker(250 * time.Millisecond)
	defer tk.Stop()
loop:
	for {
		select {
		case <-readerDone:
			break loop
		case now := <-tk.C:
			switch {
			case !quitAt.IsZero():
				if now.Sub(quitAt) > 10*time.Second {
					cmd.Process.Kill()
				}
			case now.Sub(start) > hard:
				m.hardLimit = true
				quitAt = now
				cmd.Process.Kill()
			case now.Sub(time.Unix(0, lastActivity.Load())) > silence:
				m.stalled = true
				quitAt = now
				cmd.Process.Signal(syscall.SIGQUIT) // the Go runtime dumps every goroutine and exits
			}
		}
	}
	werr := cmd.Wait()
	if werr != nil {
		m.exitCode = -1
		if ee, ok := werr.(*exec.ExitError); ok {
			m.exitCode = ee.ExitCode()
		}
		m.err = werr
	}
	m.text = buf.String()
	return m
}

var goroutineHeadRe = regexp.MustCompile(`^goroutine (\d+)[^\[\n]*\[([^\],]+)[^\]]*\]:`) // SIGQUIT dumps add "gp=… m=…" before the state

var mutexParkStates = map[string]bool{
	"sync.RWMutex.RLock": true, "sync.RWMutex.Lock": true, "sync.Mutex.Lock": true, "semacquire": true,
}

// dumpVerdict is the logical reading of a goroutine dump.
type dumpVerdict struct {
	inCtx    int      // goroutines with an FContextImpl frame
	parked   int      // of those, parked acquiring a mutex
	methods  []string // outermost FContextImpl method of the parked ones, sorted, unique
	others   []string // states of the FContextImpl goroutines that are not parked on a mutex
	excerpt  string
	deadlock bool
}

// classifyDump decides whether the dump shows a deadlocked FContext: there
// are goroutines inside (*FContextImpl) methods and every one of them is
// parked acquiring the context's mutex — the only goroutines that could hold
// that mutex are inside those methods, so nobody can ever release it.
func classifyDump(dump string) dumpVerdict {
	var v dumpVerdict
	const marker = "lib/go.(*FContextImpl)."
	seen := map[string]bool{}
	shown := map[string]bool{}
	var ex strings.Builder
	for _, blk := range strings.Split(dump, "\n\n") {
		blk = strings.TrimLeft(blk, "\n")
		m := goroutineHeadRe.FindStringSubmatch(blk)
		if m == nil {
			continue
		}
		outer := ""
		for _, ln := range strings.Split(blk, "\n") {
			if i := strings.Index(ln, marker); i >= 0 {
				f := ln[i+len(marker):]
				if j := strings.Index(f, "("); j > 0 {
					f = f[:j]
				}
				outer = strings.TrimSpace(f) // later lines are outer frames
			}
		}
		if outer == "" {
			continue
		}
		v.inCtx++
		if !mutexParkStates[m[2]] {
			v.others = append(v.others, m[2]+" in "+outer)
			continue
		}
		v.parked++
		if !seen[outer] {
			seen[outer] = true
			v.methods = append(v.methods, outer)
		}
		if !shown[outer] && ex.Len() < 6000 {
			shown[outer] = true
			ex.WriteString(blk)
			ex.WriteString("\n\n")
		}
	}
	sort.Strings(v.methods)
	v.excerpt = ex.String()
	v.deadlock = v.inCtx > 0 && v.parked == v.inCtx
	return v
}

// saveDump keeps the dump in the scratch directory (removed by ./check).
func saveDump(dir, name, text string) string {
	path := dir + "/" + name
	if err := os.WriteFile(path, []byte(text), 0o644); err != nil {
		return ""
	}
	return path
}
