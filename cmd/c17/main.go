// Command c17 monitors property C17: op ids are unique under any concurrent
// use, concurrent header reads/writes on one FContext never corrupt it, and a
// clone is fully independent of its original (DESIGN.md §4 C17).
//
// Process layout:
//
//	supervisor (this binary, no extra argument)
//	  └─ worker (same binary, "--worker"): stages uniq, lin, clone, race;
//	       owns the ev.Run and writes the evidence
//	       └─ race child ($VERIF_VRT_RACE, "--race-stage"): the same kind of
//	            concurrent workloads under the race detector
//
// The supervisor exists because a broken FContext can end the process with
// "fatal error: concurrent map writes", which cannot be recovered in-process;
// the supervisor turns such a death into a verdict.
package main

import (
	"bytes"
	"encoding/json"
	"fmt"
	"os"
	"os/exec"
	"strings"
	"sync"
	"time"

	"verif/ev"
)

func main() {
	tier := ev.ArgTier()
	rest := ev.ArgRest()
	for i, a := range rest {
		switch a {
		case "--race-stage":
			os.Exit(raceChildMain(tier))
		case "--worker":
			os.Exit(workerMain(tier))
		case "--replay":
			// Histories depend on the scheduler, so a replay re-runs the whole
			// tier with the recorded seed; the replay file itself holds the
			// witness history.
			if i+1 < len(rest) {
				if b, err := os.ReadFile(rest[i+1]); err == nil {
					var r struct {
						Seed int64  `json:"seed"`
						Tier string `json:"tier"`
					}
					if json.Unmarshal(b, &r) == nil && r.Seed != 0 {
						os.Setenv("VERIF_SEED", fmt.Sprint(r.Seed))
						if r.Tier != "" {
							tier = r.Tier
						}
					}
				}
			}
		}
	}
	os.Exit(supervise(tier))
}

// params are the tier bounds; the case list is a pure function of (seed, tier).
type params struct {
	uniqG, uniqN         int // goroutines × contexts each
	linHistories         int
	cloneScripts         int
	cloneRounds          int // concurrent clone rounds
	cloneMutators        int
	cloneWrites          int
	cloneCloners         int
	clonesPerCloner      int
	raceG, raceN, raceCt int // race child: goroutines, ops each, shared contexts
}

func tierParams(thorough bool) params {
	if thorough {
		return params{uniqG: 256, uniqN: 10000, linHistories: 5000, cloneScripts: 60000,
			cloneRounds: 200, cloneMutators: 4, cloneWrites: 3000, cloneCloners: 4, clonesPerCloner: 300,
			raceG: 64, raceN: 20000, raceCt: 8}
	}
	return params{uniqG: 64, uniqN: 2000, linHistories: 200, cloneScripts: 3000,
		cloneRounds: 20, cloneMutators: 4, cloneWrites: 3000, cloneCloners: 4, clonesPerCloner: 300,
		raceG: 16, raceN: 3000, raceCt: 4}
}

func workerMain(tier string) int {
	run := ev.New("C17", tier, "exploration")
	run.Rule("four oracles over real concurrent executions. uniq: G goroutines produce contexts through 7 ways (NewFContext, frugal.Clone of an own / custom context, method Clone of a shared mutated context, ReadRequestHeader of marshalled and of WriteRequestHeader-written blocks, clone chains); every _opid of the whole run (all stages) must parse as uint64 and be pairwise different. lin: short histories (<= 60 client ops, 2-8 goroutines, 1-3 keys) of Add/Get request and response headers, SetTimeout/Timeout, RequestHeaders/ResponseHeaders snapshots and Clone on one shared context, time-stamped at the client boundary and checked with porcupine against a per-key register (values unique per write; a snapshot / clone is one read per key). clone: random construction + mutation scripts over trees of clones (both Clone forms, created / received / custom originals), every untouched member must equal its snapshot; and clone-while-mutated rounds (single writer per key: clones must hold only written values, per-key monotonic, and stay frozen afterwards). race: the same kinds of workload in a -race child, zero reports required. distinct = uniq (way,G) shapes + contended history op-strings + lin shapes + clone script shapes + race workloads")
	run.Assume("porcupine v1.3.0 decides linearizability of the recorded histories correctly; time.Since on one base is a monotonic clock shared by all goroutines")
	run.Assume("the Go race detector reports only real races; it can miss races the schedule did not exercise")
	p := tierParams(run.Thorough())
	ids := &idCollector{}

	startHeartbeat()
	// VERIF_C17_STAGES (debugging aid): comma list of stages to run; default all.
	want := func(name string) bool {
		f := os.Getenv("VERIF_C17_STAGES")
		if f == "" {
			return true
		}
		for _, x := range strings.Split(f, ",") {
			if x == name {
				return true
			}
		}
		return false
	}
	if want("uniq") {
		stage("uniq")
		stageUniq(run, p, ids)
	}
	if want("lin") {
		stage("lin")
		stageLin(run, p, ids)
	}
	if want("clone") {
		stage("clone-seq")
		stageCloneSeq(run, p, ids)
		stage("clone-conc")
		stageCloneConc(run, p, ids)
	}
	if want("resp-merge") {
		stage("resp-merge")
		stageRespMerge(run, p, ids)
	}
	if want("long-history") {
		stage("long-history")
		stageLongHistory(run, ids)
	}
	stage("opid-set")
	ids.check(run)
	if want("race") {
		stage("race")
		stageRace(run, p)
	}
	stage("done")
	return run.Finish()
}

// stage leaves a marker on stderr so that the supervisor can tell where a
// crashed worker was.
func stage(name string) { fmt.Fprintf(os.Stderr, "C17-STAGE %s\n", name) }

// cappedBuffer keeps the first max bytes written to it (goroutine dumps of a
// crashed worker can be huge).
type cappedBuffer struct {
	mu  sync.Mutex
	buf bytes.Buffer
	max int
}

func (c *cappedBuffer) Write(p []byte) (int, error) {
	c.mu.Lock()
	defer c.mu.Unlock()
	if room := c.max - c.buf.Len(); room > 0 {
		if len(p) > room {
			c.buf.Write(p[:room])
		} else {
			c.buf.Write(p)
		}
	}
	return len(p), nil
}

func (c *cappedBuffer) String() string { c.mu.Lock(); defer c.mu.Unlock(); return c.buf.String() }

// topFrugalFrame returns the first frugal function named in a stack text.
func topFrugalFrame(text string) string {
	const p = "github.com/Workiva/frugal/lib/go."
	for _, ln := range strings.Split(text, "\n") {
		i := strings.Index(ln, p)
		if i < 0 {
			continue
		}
		f := ln[i+len(p):]
		if j := strings.LastIndex(f, "("); j > 0 {
			f = f[:j]
		}
		return strings.TrimSpace(f)
	}
	return ""
}

func mentionsContext(text string) bool {
	return strings.Contains(text, "lib/go/context.go") || strings.Contains(text, "FContextImpl")
}

func supervise(tier string) int {
	ownScratch := ""
	if os.Getenv("VERIF_SCRATCH_DIR") == "" {
		if d, err := os.MkdirTemp("/var/tmp", "verif-c17-"); err == nil {
			os.Setenv("VERIF_SCRATCH_DIR", d)
			ownScratch = d
		}
	}
	code := superviseWorker(tier)
	if ownScratch != "" {
		os.RemoveAll(ownScratch)
	}
	return code
}

// judgeStall turns a fired progress watchdog into a verdict: a violation only
// when the goroutine dump establishes that an FContext is deadlocked,
// inconclusive otherwise.
func judgeStall(run *ev.Run, who string, m monitored, silence time.Duration) {
	run.Eval(1)
	path := saveDump(ev.ScratchDir(), "c17-"+who+"-goroutines.txt", m.text)
	v := classifyDump(m.text)
	run.Set(who+"_stalled_in_stage", m.lastStage)
	run.Set(who+"_dump_goroutines_in_FContextImpl", v.inCtx)
	run.Set(who+"_dump_parked_on_context_mutex", v.parked)
	if v.deadlock {
		run.Violation("C17:deadlock:"+strings.Join(v.methods, ","),
			fmt.Sprintf("the %s completed no operation for %v in stage %q; its goroutine dump shows %d goroutines inside (*FContextImpl) methods, all of them parked acquiring the context's mutex (outermost methods: %s): the shared context is deadlocked under concurrent Clone / header access and can never be used again",
				who, silence, m.lastStage, v.parked, strings.Join(v.methods, ", ")),
			map[string]interface{}{"stage": m.lastStage, "seed": ev.Seed(), "tier": run.Tier, "parked_goroutines": v.parked,
				"outermost_methods": v.methods, "dump_excerpt": v.excerpt, "dump_file": path})
		return
	}
	why := "no goroutine is inside an (*FContextImpl) method"
	if v.inCtx > 0 {
		why = fmt.Sprintf("%d of %d goroutines inside (*FContextImpl) are not parked on its mutex (%s)", v.inCtx-v.parked, v.inCtx, strings.Join(v.others, "; "))
	}
	run.Inconclusive(fmt.Sprintf("%s completed no operation for %v in stage %q and was stopped; no FContext deadlock established: %s", who, silence, m.lastStage, why))
}

func superviseWorker(tier string) int {
	thorough := ev.Tier(tier) == "thorough"
	limit := 15 * time.Minute
	if thorough {
		limit = 45 * time.Minute
	}
	silence := silenceLimit(thorough)
	cmd := exec.Command(os.Args[0], tier, "--worker")
	cmd.Stdout = os.Stdout
	cmd.Env = append(os.Environ(), "GOTRACEBACK=all")
	m := runMonitored(cmd, silence, limit, nil)
	if m.err != nil && m.exitCode == 0 {
		run := ev.New("C17", tier, "exploration")
		run.Inconclusive("cannot run the worker process: " + m.err.Error())
		return run.Finish()
	}
	code := m.exitCode
	if !m.stalled && !m.hardLimit && (code == 0 || code == 1 || code == 3) {
		// normal verdicts; show anything unexpected the worker said
		for _, ln := range strings.Split(m.text, "\n") {
			if ln != "" {
				fmt.Fprintln(os.Stderr, ln)
			}
		}
		return code
	}
	lastStage := m.lastStage
	if m.stalled || m.hardLimit {
		run := ev.New("C17", tier, "exploration")
		run.Rule("the worker process stopped making progress; the supervisor asked for a goroutine dump and classifies it")
		if m.hardLimit {
			run.Inconclusive(fmt.Sprintf("worker exceeded the overall %v limit in stage %q", limit, lastStage))
			return run.Finish()
		}
		judgeStall(run, "worker", m, silence)
		return run.Finish()
	}
	rest := strings.Split(m.text, "\n")
	// The worker died on its own: fatal error or panic.
	text := m.text
	head := text
	if len(head) > 6000 {
		head = head[:6000]
	}
	if lines := strings.SplitN(head, "\n", 41); len(lines) > 40 {
		fmt.Fprintln(os.Stderr, strings.Join(lines[:40], "\n"))
	} else {
		fmt.Fprintln(os.Stderr, head)
	}
	run := ev.New("C17", tier, "exploration")
	run.Rule("the worker process died; the supervisor classifies its death and still runs the race stage")
	run.Set("worker_died_in_stage", lastStage)
	run.Set("worker_exit_code", code)
	first := ""
	for _, ln := range rest {
		if strings.HasPrefix(ln, "fatal error:") || strings.HasPrefix(ln, "panic:") {
			first = ln
			break
		}
	}
	// only the crashing goroutine's stack (up to the first blank line after it)
	crashStack := head
	if i := strings.Index(text, first); first != "" && i >= 0 {
		crashStack = text[i:]
		if j := strings.Index(crashStack, "\n\ngoroutine "); j > 0 {
			// keep the first goroutine (the one that crashed)
			k := strings.Index(crashStack[j+2:], "\n\n")
			if k > 0 {
				crashStack = crashStack[:j+2+k]
			}
		}
		if len(crashStack) > 6000 {
			crashStack = crashStack[:6000]
		}
	}
	// A "concurrent map" abort is attributed to the library even when the
	// aborting goroutine is the monitor iterating an accessor's result: the
	// monitor shares no map between goroutines except those handed out by
	// FContext accessors (its own records are per goroutine or mutex-guarded,
	// which the race stage confirms on every run).
	concMap := strings.Contains(first, "concurrent map")
	if first != "" && (mentionsContext(crashStack) || concMap) {
		run.Eval(1)
		kind := "crash"
		if concMap {
			kind = "concurrent-map"
		}
		run.Violation("C17:fatal:"+kind+":"+topFrugalFrame(crashStack),
			fmt.Sprintf("the process died in stage %q with %q inside FContext code under concurrent use", lastStage, first),
			map[string]interface{}{"stage": lastStage, "seed": ev.Seed(), "tier": ev.Tier(tier), "stderr": crashStack})
		if lastStage != "race" {
			stageRace(run, tierParams(run.Thorough()))
		}
		return run.Finish()
	}
	run.Inconclusive(fmt.Sprintf("worker died (exit %d) in stage %q without FContext frames in the crashing stack: %s", code, lastStage, first))
	return run.Finish()
}
