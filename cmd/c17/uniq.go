package main

import (
	"bytes"
	"fmt"
	"math/rand"
	"runtime"
	"sort"
	"strconv"
	"sync"
	"sync/atomic"
	"time"

	frugal "github.com/Workiva/frugal/lib/go"
	"github.com/apache/thrift/lib/go/thrift"

	"verif/ev"
)

// customCtx is a thread-safe FContext that is NOT an
// FContextWithEphemeralProperties, so frugal.Clone takes its generic path.
// Like FContextImpl it keeps the timeout in the "_timeout" request header
// (the only place WriteRequestHeader would send it from).
type customCtx struct {
	mu   sync.RWMutex
	req  map[string]string
	resp map[string]string
}

func newCustomCtx(cid string) *customCtx {
	return &customCtx{
		req:  map[string]string{"_cid": cid, "_opid": "0", "_timeout": "5000"},
		resp: map[string]string{},
	}
}

func (c *customCtx) CorrelationID() string {
	c.mu.RLock()
	defer c.mu.RUnlock()
	return c.req["_cid"]
}
func (c *customCtx) AddRequestHeader(n, v string) frugal.FContext {
	c.mu.Lock()
	c.req[n] = v
	c.mu.Unlock()
	return c
}
func (c *customCtx) RequestHeader(n string) (string, bool) {
	c.mu.RLock()
	defer c.mu.RUnlock()
	v, ok := c.req[n]
	return v, ok
}
func (c *customCtx) RequestHeaders() map[string]string {
	c.mu.RLock()
	defer c.mu.RUnlock()
	return copyMap(c.req)
}
func (c *customCtx) AddResponseHeader(n, v string) frugal.FContext {
	c.mu.Lock()
	c.resp[n] = v
	c.mu.Unlock()
	return c
}
func (c *customCtx) ResponseHeader(n string) (string, bool) {
	c.mu.RLock()
	defer c.mu.RUnlock()
	v, ok := c.resp[n]
	return v, ok
}
func (c *customCtx) ResponseHeaders() map[string]string {
	c.mu.RLock()
	defer c.mu.RUnlock()
	return copyMap(c.resp)
}
func (c *customCtx) SetTimeout(d time.Duration) frugal.FContext {
	c.mu.Lock()
	c.req["_timeout"] = strconv.FormatInt(int64(d/time.Millisecond), 10)
	c.mu.Unlock()
	return c
}
func (c *customCtx) Timeout() time.Duration {
	c.mu.RLock()
	s := c.req["_timeout"]
	c.mu.RUnlock()
	n, err := strconv.ParseInt(s, 10, 64)
	if err != nil {
		return 5 * time.Second
	}
	return time.Duration(n) * time.Millisecond
}

func copyMap(m map[string]string) map[string]string {
	o := make(map[string]string, len(m))
	for k, v := range m {
		o[k] = v
	}
	return o
}

// spinBarrier releases n goroutines as simultaneously as possible.
type spinBarrier struct {
	n       int32
	arrived int32
}

func (b *spinBarrier) wait() {
	atomic.AddInt32(&b.arrived, 1)
	for i := 0; atomic.LoadInt32(&b.arrived) < b.n; i++ {
		if i%64 == 63 {
			runtime.Gosched()
		}
	}
}

var protoFactory = frugal.NewFProtocolFactory(thrift.NewTBinaryProtocolFactoryConf(nil))

// readCtx feeds a header block to a fresh FProtocol (a fresh one per call:
// ReadRequestHeader shares the protocol's ephemeral-properties map with the
// context it returns, by design).
func readCtx(block []byte) (frugal.FContext, error) {
	tb := &thrift.TMemoryBuffer{Buffer: bytes.NewBuffer(append([]byte(nil), block...))}
	return protoFactory.GetProtocol(tb).ReadRequestHeader()
}

// responseReader returns a fresh FProtocol positioned on a header block, ready
// for ReadResponseHeader.
func responseReader(block []byte) *frugal.FProtocol {
	tb := &thrift.TMemoryBuffer{Buffer: bytes.NewBuffer(append([]byte(nil), block...))}
	return protoFactory.GetProtocol(tb)
}

// writeThenRead sends ctx's request headers through WriteRequestHeader and
// receives them with ReadRequestHeader.
func writeThenRead(ctx frugal.FContext) (frugal.FContext, error) {
	buf := thrift.NewTMemoryBuffer()
	if err := protoFactory.GetProtocol(buf).WriteRequestHeader(ctx); err != nil {
		return nil, err
	}
	return readCtx(buf.Bytes())
}

// ways a context (and so an op id) comes into being
const (
	srcNew = iota
	srcFnCloneOwn
	srcMethCloneShared
	srcFnCloneCustom
	srcReadMarshal
	srcReadWritten
	srcCloneChain
	srcLin
	srcCloneSeq
	srcCloneConc
	srcLongHistory
	srcCount
)

var srcNames = [srcCount]string{"NewFContext", "frugal.Clone(own)", "shared.Clone()", "frugal.Clone(custom)",
	"ReadRequestHeader(marshalHeaders)", "ReadRequestHeader(WriteRequestHeader)", "clone-chain",
	"lin-stage", "clone-seq-stage", "clone-conc-stage", "long-history-stage"}

type idRec struct {
	id  uint64
	i   uint32
	g   uint16
	src uint8
}

// idCollector gathers every op id seen in the run. Producers batch locally
// and add under the mutex, so the collector is never the race.
type idCollector struct {
	mu   sync.Mutex
	recs []idRec
	bad  []string
}

func (c *idCollector) add(batch []idRec, bad []string) {
	c.mu.Lock()
	c.recs = append(c.recs, batch...)
	c.bad = append(c.bad, bad...)
	c.mu.Unlock()
}

// opidOf extracts the request op id of ctx.
func opidOf(ctx frugal.FContext) (uint64, string) {
	s, ok := ctx.RequestHeader("_opid")
	if !ok {
		return 0, "no _opid request header"
	}
	n, err := strconv.ParseUint(s, 10, 64)
	if err != nil {
		return 0, fmt.Sprintf("_opid %q is not a uint64", s)
	}
	return n, ""
}

// one records the op id of a context created outside the uniq stage.
func (c *idCollector) one(ctx frugal.FContext, src uint8, g, i int) {
	n, bad := opidOf(ctx)
	if bad != "" {
		c.add(nil, []string{srcNames[src] + ": " + bad})
		return
	}
	c.add([]idRec{{id: n, i: uint32(i), g: uint16(g), src: src}}, nil)
}

func (c *idCollector) check(run *ev.Run) {
	c.mu.Lock()
	defer c.mu.Unlock()
	run.Set("opids_collected", len(c.recs))
	perSrc := map[string]int{}
	for _, r := range c.recs {
		perSrc[srcNames[r.src]]++
	}
	run.Set("opids_by_way", perSrc)
	if len(c.bad) > 0 {
		n := len(c.bad)
		if n > 10 {
			n = 10
		}
		run.Violation("C17:opid:malformed", fmt.Sprintf("%d contexts carry no op id or one that is not a uint64", len(c.bad)), c.bad[:n])
	}
	recs := c.recs
	sort.Slice(recs, func(a, b int) bool { return recs[a].id < recs[b].id })
	dups := 0
	var wit []map[string]interface{}
	for i := 1; i < len(recs); i++ {
		if recs[i].id == recs[i-1].id {
			dups++
			if len(wit) < 10 {
				a, b := recs[i-1], recs[i]
				wit = append(wit, map[string]interface{}{"opid": a.id,
					"first":  fmt.Sprintf("%s goroutine=%d n=%d", srcNames[a.src], a.g, a.i),
					"second": fmt.Sprintf("%s goroutine=%d n=%d", srcNames[b.src], b.g, b.i)})
			}
		}
	}
	run.Set("opids_distinct", len(recs)-dups)
	if len(recs) > 0 {
		run.Set("opid_min", recs[0].id)
		run.Set("opid_max", recs[len(recs)-1].id)
	}
	if dups > 0 {
		run.Violation("C17:opid:duplicate",
			fmt.Sprintf("%d of %d contexts produced in this process share an op id with another one", dups, len(recs)),
			map[string]interface{}{"collected": len(recs), "duplicates": dups, "examples": wit})
	}
}

// stageUniq: G goroutines produce N contexts each through every way a context
// is created, cloned or received.
func stageUniq(run *ev.Run, p params, ids *idCollector) {
	G, N := p.uniqG, p.uniqN
	seedRng := run.Rand("uniq")
	seeds := make([]int64, G)
	for g := range seeds {
		seeds[g] = seedRng.Int63()
	}
	shared := frugal.NewFContext("c17-shared")
	ids.one(shared, srcNew, 0, 0)
	sharedCustom := newCustomCtx("c17-custom")
	bar := &spinBarrier{n: int32(G)}
	var wg sync.WaitGroup
	perWay := make([][srcCount]int, G)
	errs := make([]string, G)
	for g := 0; g < G; g++ {
		wg.Add(1)
		go func(g int) {
			defer wg.Done()
			rng := rand.New(rand.NewSource(seeds[g]))
			own := frugal.NewFContext("")
			chain := frugal.Clone(own)
			batch := make([]idRec, 0, N+2)
			var bad []string
			note := func(ctx frugal.FContext, src uint8, i int) {
				n, b := opidOf(ctx)
				if b != "" {
					bad = append(bad, srcNames[src]+": "+b)
					return
				}
				batch = append(batch, idRec{id: n, i: uint32(i), g: uint16(g), src: src})
				perWay[g][src]++
			}
			note(own, srcNew, 0)
			note(chain, srcFnCloneOwn, 0)
			// an incoming block with an op id that collides with local ones on purpose
			block := frugal.VerifMarshalHeaders(map[string]string{"_opid": strconv.Itoa(1 + rng.Intn(1000)), "_cid": "in-" + strconv.Itoa(g), "k": "v"})
			bar.wait()
			for i := 1; i <= N; i++ {
				if i%256 == 0 {
					tick()
				}
				way := uint8(rng.Intn(7))
				var ctx frugal.FContext
				var err error
				switch way {
				case srcNew:
					if rng.Intn(2) == 0 {
						ctx = frugal.NewFContext("")
					} else {
						ctx = frugal.NewFContext("cid")
					}
				case srcFnCloneOwn:
					ctx = frugal.Clone(own)
				case srcMethCloneShared:
					if rng.Intn(3) == 0 { // the shared original is written meanwhile
						switch rng.Intn(4) {
						case 0:
							shared.AddRequestHeader("k"+strconv.Itoa(rng.Intn(4)), strconv.Itoa(i))
						case 1:
							shared.AddResponseHeader("k"+strconv.Itoa(rng.Intn(4)), strconv.Itoa(i))
						case 2:
							shared.SetTimeout(time.Duration(1+rng.Intn(9000)) * time.Millisecond)
						case 3:
							shared.(frugal.FContextWithEphemeralProperties).AddEphemeralProperty(rng.Intn(4), i)
						}
					}
					ctx = shared.(frugal.FContextWithEphemeralProperties).Clone()
				case srcFnCloneCustom:
					if rng.Intn(4) == 0 {
						sharedCustom.AddRequestHeader("k"+strconv.Itoa(rng.Intn(4)), strconv.Itoa(i))
					}
					ctx = frugal.Clone(sharedCustom)
				case srcReadMarshal:
					ctx, err = readCtx(block)
				case srcReadWritten:
					ctx, err = writeThenRead(own)
				case srcCloneChain:
					if rng.Intn(2) == 0 {
						chain = frugal.Clone(chain)
					} else {
						chain = chain.(frugal.FContextWithEphemeralProperties).Clone()
					}
					ctx = chain
				}
				if err != nil || ctx == nil {
					errs[g] = fmt.Sprintf("%s failed: %v", srcNames[way], err)
					continue
				}
				note(ctx, way, i)
			}
			ids.add(batch, bad)
		}(g)
	}
	wg.Wait()
	total := 0
	for w := 0; w < srcCount; w++ {
		n := 0
		for g := 0; g < G; g++ {
			n += perWay[g][w]
		}
		if n > 0 {
			run.Distinct(fmt.Sprintf("uniq way=%s G=%d", srcNames[w], G))
			total += n
		}
	}
	for _, e := range errs {
		if e != "" {
			run.Inconclusive("uniq: " + e)
			break
		}
	}
	run.Eval(total)
	run.Add("uniq_contexts_produced", total)
	run.Set("uniq_goroutines", G)
	run.Set("uniq_contexts_per_goroutine", N)
}
