package main

import (
	"bytes"
	"encoding/json"
	"fmt"
	"math/rand"
	"os"
	"os/exec"
	"path/filepath"
	"strconv"
	"strings"
	"sync"
	"time"

	frugal "github.com/Workiva/frugal/lib/go"
	"github.com/apache/thrift/lib/go/thrift"

	"verif/ev"
)

// ---------------------------------------------------------------- child ---

type raceChildResult struct {
	Ops        int            `json:"ops"`
	ByWorkload map[string]int `json:"by_workload"`
	ByCall     map[string]int `json:"by_call"`
}

var raceCalls = []string{"AddRequestHeader", "RequestHeader", "RequestHeaders", "AddResponseHeader", "ResponseHeader",
	"ResponseHeaders", "SetTimeout", "Timeout", "CorrelationID", "AddEphemeralProperty", "EphemeralProperty",
	"EphemeralProperties", "Clone()", "frugal.Clone", "WriteRequestHeader", "WriteResponseHeader", "ToContext", "ReadResponseHeader"}

// raceChildMain runs in the -race build. All harness state is private to a
// goroutine or merged after wg.Wait, so every report concerns the library.
func raceChildMain(tier string) int {
	p := tierParams(ev.Tier(tier) == "thorough")
	seed := ev.Seed()
	res := raceChildResult{ByWorkload: map[string]int{}, ByCall: map[string]int{}}
	startHeartbeat()

	// workload 1: every accessor / mutator on a few shared contexts
	ctxs := make([]frugal.FContext, p.raceCt)
	for i := range ctxs {
		if i%2 == 1 {
			c, err := readCtx(frugal.VerifMarshalHeaders(map[string]string{"_opid": "3", "_cid": "rx" + strconv.Itoa(i), "k0": "init"}))
			if err != nil {
				fmt.Fprintln(os.Stderr, "race child: ReadRequestHeader:", err)
				return 2
			}
			ctxs[i] = c
		} else {
			ctxs[i] = frugal.NewFContext("race" + strconv.Itoa(i))
		}
	}
	counts := make([][]int, p.raceG)
	var wg sync.WaitGroup
	bar := &spinBarrier{n: int32(p.raceG)}
	for g := 0; g < p.raceG; g++ {
		wg.Add(1)
		go func(g int) {
			defer wg.Done()
			rng := rand.New(rand.NewSource(seed*7919 + int64(g)))
			cnt := make([]int, len(raceCalls))
			sink := 0
			bar.wait()
			for i := 0; i < p.raceN; i++ {
				if i%128 == 0 {
					tick()
				}
				ctx := ctxs[rng.Intn(len(ctxs))]
				w := ctx.(frugal.FContextWithEphemeralProperties)
				k := "k" + strconv.Itoa(rng.Intn(4))
				v := strconv.Itoa(g) + "." + strconv.Itoa(i)
				call := rng.Intn(len(raceCalls))
				// clones and writes to the wire are dearer: make them rarer
				if call >= 12 && rng.Intn(3) != 0 {
					call = rng.Intn(12)
				}
				cnt[call]++
				switch call {
				case 0:
					ctx.AddRequestHeader(k, v)
				case 1:
					s, _ := ctx.RequestHeader(k)
					sink += len(s)
				case 2:
					for a, b := range ctx.RequestHeaders() {
						sink += len(a) + len(b)
					}
				case 3:
					ctx.AddResponseHeader(k, v)
				case 4:
					s, _ := ctx.ResponseHeader(k)
					sink += len(s)
				case 5:
					for a, b := range ctx.ResponseHeaders() {
						sink += len(a) + len(b)
					}
				case 6:
					ctx.SetTimeout(time.Duration(1+rng.Intn(9000)) * time.Millisecond)
				case 7:
					sink += int(ctx.Timeout())
				case 8:
					sink += len(ctx.CorrelationID())
				case 9:
					w.AddEphemeralProperty(k, i)
				case 10:
					if x, ok := w.EphemeralProperty(k); ok && x != nil {
						sink++
					}
				case 11:
					for a := range w.EphemeralProperties() {
						if a != nil {
							sink++
						}
					}
				case 12:
					cl := w.Clone()
					cl.AddRequestHeader(k, "clone").AddResponseHeader(k, "clone")
					cl.(frugal.FContextWithEphemeralProperties).AddEphemeralProperty(k, "clone")
					for a, b := range cl.RequestHeaders() {
						sink += len(a) + len(b)
					}
				case 13:
					cl := frugal.Clone(ctx)
					cl.AddRequestHeader(k, "clone").AddResponseHeader(k, "clone").SetTimeout(time.Millisecond)
					for a, b := range cl.ResponseHeaders() {
						sink += len(a) + len(b)
					}
				case 14:
					buf := thrift.NewTMemoryBuffer()
					if err := protoFactory.GetProtocol(buf).WriteRequestHeader(ctx); err == nil {
						sink += buf.Len()
					}
				case 15:
					buf := thrift.NewTMemoryBuffer()
					if err := protoFactory.GetProtocol(buf).WriteResponseHeader(ctx); err == nil {
						sink += buf.Len()
					}
				case 16:
					_, cancel := frugal.ToContext(ctx)
					cancel()
				case 17:
					if err := responseReader(frugal.VerifMarshalHeaders(map[string]string{k: v, "r" + k: v, "_opid": "9"})).ReadResponseHeader(ctx); err == nil {
						sink++
					}
				}
			}
			if sink == -1 {
				fmt.Fprintln(os.Stderr, "unreachable")
			}
			counts[g] = cnt
		}(g)
	}
	wg.Wait()
	for _, cnt := range counts {
		for i, n := range cnt {
			res.ByCall[raceCalls[i]] += n
			res.ByWorkload["shared-context"] += n
		}
	}

	// workload 2: contexts come into being concurrently (the op id counter)
	produced := make([]int, p.raceG)
	bar2 := &spinBarrier{n: int32(p.raceG)}
	custom := newCustomCtx("race-custom")
	for g := 0; g < p.raceG; g++ {
		wg.Add(1)
		go func(g int) {
			defer wg.Done()
			rng := rand.New(rand.NewSource(seed*104729 + int64(g)))
			own := frugal.NewFContext("")
			block := frugal.VerifMarshalHeaders(map[string]string{"_opid": "1", "_cid": "c"})
			n := 0
			bar2.wait()
			for i := 0; i < p.raceN/2; i++ {
				if i%128 == 0 {
					tick()
				}
				switch rng.Intn(5) {
				case 0:
					frugal.NewFContext("")
				case 1:
					own = frugal.Clone(own)
				case 2:
					if _, err := readCtx(block); err != nil {
						continue
					}
				case 3:
					if _, err := writeThenRead(own); err != nil {
						continue
					}
				case 4:
					custom.AddRequestHeader("k", strconv.Itoa(i))
					frugal.Clone(custom)
				}
				n++
			}
			produced[g] = n
		}(g)
	}
	wg.Wait()
	for _, n := range produced {
		res.ByWorkload["producers"] += n
	}

	// workload 3: single-writer mutators against cloners (as stage clone-conc)
	for round := 0; round < 4; round++ {
		orig := frugal.NewFContext("cw")
		ow := orig.(frugal.FContextWithEphemeralProperties)
		done := make([]int, 8)
		bar3 := &spinBarrier{n: 8}
		for g := 0; g < 8; g++ {
			wg.Add(1)
			go func(g int) {
				defer wg.Done()
				bar3.wait()
				n := 0
				for i := 0; i < p.raceN/4; i++ {
					if i%128 == 0 {
						tick()
					}
					if g < 4 {
						s := strconv.Itoa(i)
						orig.AddRequestHeader("q"+strconv.Itoa(g), s)
						orig.AddResponseHeader("p"+strconv.Itoa(g), s)
						ow.AddEphemeralProperty(g, i)
						orig.SetTimeout(time.Duration(i) * time.Millisecond)
					} else {
						var cl frugal.FContext
						if i%2 == 0 {
							cl = ow.Clone()
						} else {
							cl = frugal.Clone(orig)
						}
						cl.AddRequestHeader("q0", "c").AddResponseHeader("p0", "c").SetTimeout(time.Second)
						cl.(frugal.FContextWithEphemeralProperties).AddEphemeralProperty(0, "c")
						_ = cl.RequestHeaders()
						_ = cl.Timeout()
					}
					n++
				}
				done[g] = n
			}(g)
		}
		wg.Wait()
		for _, n := range done {
			res.ByWorkload["clone-while-mutated"] += n
		}
	}
	for _, n := range res.ByWorkload {
		res.Ops += n
	}
	b, _ := json.Marshal(res)
	fmt.Printf("C17-RACE-CHILD %s\n", b)
	return 0
}

// --------------------------------------------------------------- parent ---

// raceReports extracts the "WARNING: DATA RACE" blocks of a race log.
func raceReports(text string) []string {
	var out []string
	for _, blk := range strings.Split(text, "==================") {
		if strings.Contains(blk, "WARNING: DATA RACE") {
			out = append(out, strings.TrimSpace(blk))
		}
	}
	return out
}

func stageRace(run *ev.Run, p params) {
	bin := os.Getenv("VERIF_VRT_RACE")
	if bin == "" {
		run.Set("race_stage", "skipped: VERIF_VRT_RACE is not set (./check always sets it for C17)")
		return
	}
	dir := filepath.Join(ev.ScratchDir(), "c17-race")
	os.MkdirAll(dir, 0o755)
	limit := 10 * time.Minute
	if run.Thorough() {
		limit = 30 * time.Minute
	}
	cmd := exec.Command(bin, run.Tier, "--race-stage")
	cmd.Env = append(os.Environ(), "GORACE=halt_on_error=0 exitcode=0 log_path="+filepath.Join(dir, "race"), "GOTRACEBACK=all")
	var stdout bytes.Buffer
	cmd.Stdout = &stdout
	silence := silenceLimit(run.Thorough())
	m := runMonitored(cmd, silence, limit, tick) // the child's progress is this process's progress
	if m.err != nil && m.exitCode == 0 {
		run.Inconclusive("race: cannot run " + bin + ": " + m.err.Error())
		return
	}
	werr := m.err
	etxt := m.text
	run.Eval(1)

	// race reports
	files, _ := filepath.Glob(filepath.Join(dir, "race*"))
	var reports []string
	for _, f := range files {
		if b, err := os.ReadFile(f); err == nil {
			reports = append(reports, raceReports(string(b))...)
		}
	}
	reports = append(reports, raceReports(etxt)...) // in case log_path was not honoured
	lib, harness := 0, 0
	for _, r := range reports {
		wit := r
		if len(wit) > 5000 {
			wit = wit[:5000]
		}
		if mentionsContext(r) {
			lib++
			run.Violation("C17:race:"+topFrugalFrame(r), "the race detector reports a data race in FContext code under concurrent use of one context / concurrent creation of contexts",
				map[string]interface{}{"report": wit, "seed": run.Seed, "tier": run.Tier})
		} else {
			harness++
			run.Inconclusive("race: a report without FContext frames (monitor or other library code): " + strings.SplitN(strings.TrimSpace(strings.TrimPrefix(wit, "WARNING: DATA RACE")), "\n", 2)[0])
			run.Sample(map[string]interface{}{"stage": "race", "unattributed_report": wit})
		}
	}
	run.Add("race_reports", len(reports))
	run.Add("race_reports_in_fcontext_code", lib)
	run.Add("race_reports_elsewhere", harness)
	run.Set("race_stage", "ran "+filepath.Base(bin))

	// the child's own account of what it did
	var res raceChildResult
	for _, ln := range strings.Split(stdout.String(), "\n") {
		if strings.HasPrefix(ln, "C17-RACE-CHILD ") {
			json.Unmarshal([]byte(strings.TrimPrefix(ln, "C17-RACE-CHILD ")), &res)
		}
	}
	run.Add("race_child_ops", res.Ops)
	run.Set("race_child_ops_by_workload", res.ByWorkload)
	run.Set("race_child_ops_by_call", res.ByCall)
	for w, n := range res.ByWorkload {
		if n > 0 {
			run.Distinct("race workload=" + w)
		}
	}

	// the child's death
	if m.hardLimit {
		run.Inconclusive(fmt.Sprintf("race: child exceeded the overall %v limit", limit))
		return
	}
	if m.stalled {
		judgeStall(run, "race-child", m, silence)
		return
	}
	if i := strings.Index(etxt, "fatal error: concurrent map"); i >= 0 {
		tail := etxt[i:]
		if len(tail) > 5000 {
			tail = tail[:5000]
		}
		// The harness shares no map between goroutines except those handed
		// out by FContext accessors, so the map is the library's.
		run.Violation("C17:fatal:concurrent-map:"+topFrugalFrame(tail), "the runtime aborted the race child: "+strings.SplitN(tail, "\n", 2)[0]+" on an FContext map under concurrent use",
			map[string]interface{}{"stderr": tail, "seed": run.Seed, "tier": run.Tier})
		return
	}
	if werr != nil {
		head := etxt
		if len(head) > 3000 {
			head = head[:3000]
		}
		if mentionsContext(head) && strings.Contains(head, "panic:") {
			run.Violation("C17:fatal:crash:"+topFrugalFrame(head), "the race child panicked inside FContext code", map[string]interface{}{"stderr": head, "seed": run.Seed})
			return
		}
		run.Inconclusive("race: child failed: " + werr.Error() + ": " + strings.SplitN(head, "\n", 2)[0])
		return
	}
	if res.Ops == 0 {
		run.Inconclusive("race: the child reported no operations")
	}
}
