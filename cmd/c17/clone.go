package main

import (
	"encoding/hex"
	"fmt"
	"math/rand"
	"reflect"
	"sort"
	"strconv"
	"strings"
	"sync"
	"time"

	frugal "github.com/Workiva/frugal/lib/go"

	"verif/ev"
)

// ctxState is everything observable of a context.
type ctxState struct {
	req, resp map[string]string
	timeout   time.Duration
	eph       map[interface{}]interface{} // nil when the context has no ephemeral properties
}

func snapCtx(c frugal.FContext) ctxState {
	// the accessors are documented to return copies; copy again so that a
	// snapshot can never alias the context it is compared with later
	s := ctxState{req: copyMap(c.RequestHeaders()), resp: copyMap(c.ResponseHeaders()), timeout: c.Timeout()}
	if w, ok := c.(frugal.FContextWithEphemeralProperties); ok {
		s.eph = map[interface{}]interface{}{}
		for k, v := range w.EphemeralProperties() {
			s.eph[k] = v
		}
	}
	return s
}

func hexMap(m map[string]string) [][2]string {
	out := make([][2]string, 0, len(m))
	for k, v := range m {
		out = append(out, [2]string{hex.EncodeToString([]byte(k)), hex.EncodeToString([]byte(v))})
	}
	sort.Slice(out, func(i, j int) bool { return out[i][0] < out[j][0] })
	return out
}

func (s ctxState) witness() map[string]interface{} {
	w := map[string]interface{}{"request_hex": hexMap(s.req), "response_hex": hexMap(s.resp), "timeout_ns": int64(s.timeout), "timeout": s.timeout.String()}
	if s.eph != nil {
		w["ephemeral"] = fmt.Sprintf("%#v", s.eph)
	}
	return w
}

func diffMaps(what string, a, b map[string]string, skip string) string {
	for k, v := range a {
		if k == skip {
			continue
		}
		if w, ok := b[k]; !ok {
			return fmt.Sprintf("%s header %q is missing", what, k)
		} else if w != v {
			return fmt.Sprintf("%s header %q is %q, expected %q", what, k, w, v)
		}
	}
	for k := range b {
		if k == skip {
			continue
		}
		if _, ok := a[k]; !ok {
			return fmt.Sprintf("%s header %q appeared (value %q)", what, k, b[k])
		}
	}
	return ""
}

// diff compares an expected state with an observed one ("" when equal).
// skipOpid leaves the request op id out; eph is compared when both have it.
func (s ctxState) diff(got ctxState, skipOpid bool) string {
	skip := "\x00none"
	if skipOpid {
		skip = "_opid"
	}
	if d := diffMaps("request", s.req, got.req, skip); d != "" {
		return d
	}
	if d := diffMaps("response", s.resp, got.resp, "\x00none"); d != "" {
		return d
	}
	if s.timeout != got.timeout {
		return fmt.Sprintf("timeout is %v, expected %v", got.timeout, s.timeout)
	}
	if s.eph != nil && got.eph != nil && !reflect.DeepEqual(s.eph, got.eph) {
		return fmt.Sprintf("ephemeral properties are %#v, expected %#v", got.eph, s.eph)
	}
	return ""
}

type ephKey struct{ A int }

func randString(rng *rand.Rand) string {
	switch r := rng.Intn(100); {
	case r < 6:
		return ""
	case r < 50:
		n := 1 + rng.Intn(10)
		b := make([]byte, n)
		for i := range b {
			b[i] = byte(32 + rng.Intn(95))
		}
		return string(b)
	case r < 70:
		runes := []rune("éßЖ中日本語🙂𝄞\u0000\u007f")
		n := 1 + rng.Intn(6)
		var sb strings.Builder
		for i := 0; i < n; i++ {
			sb.WriteRune(runes[rng.Intn(len(runes))])
		}
		return sb.String()
	case r < 95:
		n := 1 + rng.Intn(16)
		b := make([]byte, n)
		for i := range b {
			b[i] = byte(rng.Intn(256))
		}
		return string(b)
	default:
		b := make([]byte, 200+rng.Intn(2000))
		for i := range b {
			b[i] = byte(rng.Intn(256))
		}
		return string(b)
	}
}

var keyPool = []string{"a", "b", "c", "user-id", "", "x-trace", "_cid", "_opid", "\x00", "日本"}

func randKey(rng *rand.Rand) string {
	if rng.Intn(3) == 0 {
		return randString(rng)
	}
	return keyPool[rng.Intn(len(keyPool))]
}

func randRespKey(rng *rand.Rand) string { return randKey(rng) }

func randEph(rng *rand.Rand) interface{} {
	switch rng.Intn(5) {
	case 0:
		return rng.Intn(5)
	case 1:
		return ephKey{rng.Intn(3)}
	case 2:
		return nil
	default:
		return keyPool[rng.Intn(4)]
	}
}

func randEphKey(rng *rand.Rand) interface{} {
	for {
		if k := randEph(rng); k != nil {
			return k
		}
	}
}

var timeoutPool = []time.Duration{
	// whole milliseconds
	0, time.Millisecond, 7 * time.Millisecond, 250 * time.Millisecond, 5 * time.Second, 5001 * time.Millisecond, time.Minute, 24 * time.Hour,
	// not whole milliseconds, sub-millisecond, negative
	1500 * time.Microsecond, 999 * time.Microsecond, 500 * time.Microsecond, time.Nanosecond, 999999 * time.Nanosecond,
	2000345678 * time.Nanosecond, time.Minute + time.Nanosecond, 1001 * time.Microsecond,
	-time.Nanosecond, -1500 * time.Microsecond, -time.Millisecond, -time.Second,
}

func randTimeout(rng *rand.Rand) time.Duration {
	if rng.Intn(4) == 0 {
		return time.Duration(rng.Int63n(int64(10*time.Second))) - time.Duration(rng.Intn(2))*time.Second // any nanosecond value in [-1s, 10s)
	}
	return timeoutPool[rng.Intn(len(timeoutPool))]
}

// mutation is one step of a script.
type mutation struct {
	kind   string // req, resp, timeout, eph
	k, v   string
	d      time.Duration // SetTimeout argument: any duration, not only whole milliseconds
	ek, ev interface{}
}

func (m mutation) String() string {
	switch m.kind {
	case "req":
		return fmt.Sprintf("AddRequestHeader(hex %x, hex %x)", m.k, m.v)
	case "resp":
		return fmt.Sprintf("AddResponseHeader(hex %x, hex %x)", m.k, m.v)
	case "timeout":
		return fmt.Sprintf("SetTimeout(%dns = %v)", int64(m.d), m.d)
	}
	return fmt.Sprintf("AddEphemeralProperty(%#v, %#v)", m.ek, m.ev)
}

func randMutation(rng *rand.Rand, withEph bool) mutation {
	n := 4
	if !withEph {
		n = 3
	}
	switch rng.Intn(n) {
	case 0:
		k := randKey(rng)
		for k == "_timeout" {
			k = randKey(rng)
		}
		v := randString(rng)
		if k == "_opid" {
			v = "user-" + v // never a number, so it cannot coincide with a fresh op id
		}
		return mutation{kind: "req", k: k, v: v}
	case 1:
		return mutation{kind: "resp", k: randRespKey(rng), v: randString(rng)}
	case 2:
		return mutation{kind: "timeout", d: randTimeout(rng)}
	}
	return mutation{kind: "eph", ek: randEphKey(rng), ev: randEph(rng)}
}

// apply performs m on ctx and on the model state of ctx.
func (m mutation) apply(ctx frugal.FContext, model *ctxState) {
	switch m.kind {
	case "req":
		ctx.AddRequestHeader(m.k, m.v)
		model.req[m.k] = m.v
	case "resp":
		ctx.AddResponseHeader(m.k, m.v)
		model.resp[m.k] = m.v
	case "timeout":
		ctx.SetTimeout(m.d)
		if m.d >= 0 && m.d%time.Millisecond == 0 {
			// whole milliseconds are representable exactly: the value is predicted
			model.timeout = m.d
			// both implementations keep the timeout in this header
			model.req["_timeout"] = strconv.FormatInt(int64(m.d/time.Millisecond), 10)
		} else {
			// Sub-millisecond, fractional and negative durations: what
			// Timeout() makes of them is not C17's concern. The model takes
			// what the context itself reports right after its own SetTimeout
			// (the script is sequential); the oracles are that a clone taken
			// later reports the same Timeout() and "_timeout" header, and that
			// nobody else's change alters them.
			model.timeout = ctx.Timeout()
			if v, ok := ctx.RequestHeader("_timeout"); ok {
				model.req["_timeout"] = v
			} else {
				delete(model.req, "_timeout")
			}
		}
	case "eph":
		ctx.(frugal.FContextWithEphemeralProperties).AddEphemeralProperty(m.ek, m.ev)
		model.eph[m.ek] = m.ev
	}
}

type member struct {
	ctx  frugal.FContext
	name string
}

// cloneSeqCase builds an original, grows a tree of clones and mutates random
// members; returns a signature suffix, a failure text and the step log.
func cloneSeqCase(rng *rand.Rand, n int, ids *idCollector) (shape, sig, msg string, log []string, states map[string]interface{}) {
	origin := []string{"new", "new-cid", "received", "custom"}[rng.Intn(4)]
	var root frugal.FContext
	switch origin {
	case "new":
		root = frugal.NewFContext("")
	case "new-cid":
		root = frugal.NewFContext(randString(rng))
	case "custom":
		root = newCustomCtx("custom-" + strconv.Itoa(n))
		root.AddRequestHeader("_opid", strconv.Itoa(rng.Intn(50)))
	case "received":
		h := map[string]string{"_opid": strconv.Itoa(rng.Intn(50)), "_cid": "rx"}
		for i, m := 0, rng.Intn(5); i < m; i++ {
			k := randKey(rng)
			if k != "_opid" {
				h[k] = randString(rng)
			}
		}
		var err error
		root, err = readCtx(frugal.VerifMarshalHeaders(h))
		if err != nil {
			return "", "C17:clone:read-failed", "ReadRequestHeader rejected a valid block: " + err.Error(), []string{fmt.Sprintf("headers hex %v", hexMap(h))}, nil
		}
	}
	log = append(log, "origin "+origin)
	_, rootEph := root.(frugal.FContextWithEphemeralProperties)
	model := snapCtx(root)
	for i, m := 0, rng.Intn(8); i < m; i++ {
		mu := randMutation(rng, rootEph)
		if mu.kind == "req" && mu.k == "_opid" {
			continue
		}
		mu.apply(root, &model)
		log = append(log, "root: "+mu.String())
	}
	members := []member{{root, "root"}}
	forms := ""
	steps := 1 + rng.Intn(4)
	mutatedSides := ""
	fail := func(s, m string) (string, string, string, []string, map[string]interface{}) {
		st := map[string]interface{}{}
		for _, mb := range members {
			st[mb.name] = snapCtx(mb.ctx).witness()
		}
		return "", s, m, log, st
	}
	for s := 0; s < steps; s++ {
		// (a) clone a random member
		pi := rng.Intn(len(members))
		parent := members[pi]
		before := snapCtx(parent.ctx)
		form := "func"
		var cl frugal.FContext
		if w, ok := parent.ctx.(frugal.FContextWithEphemeralProperties); ok && rng.Intn(2) == 0 {
			form = "method"
			cl = w.Clone()
		} else {
			cl = frugal.Clone(parent.ctx)
		}
		forms += form[:1]
		name := fmt.Sprintf("%s.%s%d", parent.name, form[:1], s)
		log = append(log, fmt.Sprintf("%s = clone(%s) by %s", name, parent.name, form))
		members = append(members, member{cl, name})
		ids.one(cl, srcCloneSeq, 0, n)
		got := snapCtx(cl)
		if d := before.diff(got, true); d != "" {
			return fail("C17:clone:not-equal:"+form, fmt.Sprintf("fresh clone %s differs from its original: %s", name, d))
		}
		if before.eph == nil && len(got.eph) != 0 {
			return fail("C17:clone:not-equal:"+form, "clone of a context without ephemeral properties has some")
		}
		if got.req["_opid"] == before.req["_opid"] {
			return fail("C17:clone:same-opid:"+form, fmt.Sprintf("fresh clone %s carries its original's op id %q", name, got.req["_opid"]))
		}
		if d := before.diff(snapCtx(parent.ctx), false); d != "" {
			return fail("C17:clone:original-changed:"+form, fmt.Sprintf("cloning changed the original %s: %s", parent.name, d))
		}
		// (b) mutate a random member, all others must stay as they were
		ti := rng.Intn(len(members))
		target := members[ti]
		if ti == 0 {
			mutatedSides += "o"
		} else {
			mutatedSides += "c"
		}
		snaps := make([]ctxState, len(members))
		for i, mb := range members {
			snaps[i] = snapCtx(mb.ctx)
		}
		tm := snaps[ti]
		tm.req, tm.resp = copyMap(tm.req), copyMap(tm.resp)
		_, tEph := target.ctx.(frugal.FContextWithEphemeralProperties)
		if tEph {
			e := make(map[interface{}]interface{}, len(tm.eph))
			for k, v := range tm.eph {
				e[k] = v
			}
			tm.eph = e
		}
		for i, m := 0, 1+rng.Intn(10); i < m; i++ {
			mu := randMutation(rng, tEph)
			mu.apply(target.ctx, &tm)
			log = append(log, target.name+": "+mu.String())
		}
		for i, mb := range members {
			if i == ti {
				if d := tm.diff(snapCtx(mb.ctx), false); d != "" {
					return fail("C17:clone:lost-update", fmt.Sprintf("%s does not show its own mutations: %s", mb.name, d))
				}
				continue
			}
			if d := snaps[i].diff(snapCtx(mb.ctx), false); d != "" {
				rel := "clone"
				if i == 0 {
					rel = "original"
				}
				return fail("C17:clone:not-independent:"+rel+"-changed", fmt.Sprintf("mutating %s changed %s: %s", target.name, mb.name, d))
			}
		}
	}
	shape = fmt.Sprintf("clone-seq origin=%s forms=%s mutated=%s", origin, forms, mutatedSides)
	return shape, "", "", log, nil
}

// fieldTimeoutCtx keeps its timeout in a field instead of the "_timeout"
// header; used only for an informational probe.
type fieldTimeoutCtx struct {
	*customCtx
	d time.Duration
}

func (c *fieldTimeoutCtx) SetTimeout(d time.Duration) frugal.FContext { c.d = d; return c }
func (c *fieldTimeoutCtx) Timeout() time.Duration                     { return c.d }

func stageCloneSeq(run *ev.Run, p params, ids *idCollector) {
	rng := run.Rand("clone-seq")
	reported := map[string]bool{}
	for n := 0; n < p.cloneScripts; n++ {
		if n%64 == 0 {
			tick()
		}
		shape, sig, msg, log, states := cloneSeqCase(rng, n, ids)
		run.Eval(1)
		if sig != "" {
			if !reported[sig] {
				reported[sig] = true
				run.Violation(sig, msg, map[string]interface{}{"script": n, "steps": log, "states": states})
			}
			continue
		}
		run.Distinct(shape)
		if n < 2 {
			run.Sample(map[string]interface{}{"stage": "clone-seq", "script": n, "steps": log})
		}
	}
	run.Add("clone_scripts", p.cloneScripts)
	// what the tree under test makes of some timeouts, original vs both clone
	// forms (observed, for the record; the verdicts come from the scripts)
	probe := map[string]string{}
	for _, d := range []time.Duration{1500 * time.Microsecond, 999 * time.Microsecond, 2000345678 * time.Nanosecond, 0, -1500 * time.Microsecond} {
		c := frugal.NewFContext("probe").SetTimeout(d)
		h, _ := c.RequestHeader("_timeout")
		probe[fmt.Sprintf("SetTimeout(%v)", d)] = fmt.Sprintf("original %v (_timeout=%s), frugal.Clone %v, method Clone %v", c.Timeout(), h,
			frugal.Clone(c).Timeout(), c.(frugal.FContextWithEphemeralProperties).Clone().Timeout())
	}
	run.Set("timeout_probe", probe)
	// informational: a foreign FContext that does not keep its timeout in the
	// "_timeout" header loses it through frugal.Clone (it would not reach the
	// wire either); recorded, not judged.
	ft := &fieldTimeoutCtx{customCtx: newCustomCtx("ft"), d: 1234 * time.Millisecond}
	run.Set("note_clone_of_foreign_ctx_with_field_timeout_keeps_timeout", frugal.Clone(ft).Timeout() == ft.Timeout())
}

// stageCloneConc clones an original while it is being mutated. Every key has
// exactly one writer with increasing sequence numbers, so for each cloner the
// values seen per key must be written values, non-decreasing from one clone
// to the next; clones are then mutated privately and must stay exactly as
// left while the original keeps changing, and nothing written to a clone may
// reach the original.
func stageCloneConc(run *ev.Run, p params, ids *idCollector) {
	M, W, C, L := p.cloneMutators, p.cloneWrites, p.cloneCloners, p.clonesPerCloner
	type problem struct{ sig, msg, wit string }
	var pmu sync.Mutex
	var problems []problem
	report := func(sig, msg, wit string) {
		pmu.Lock()
		problems = append(problems, problem{sig, msg, wit})
		pmu.Unlock()
	}
	intermediate := 0
	clonesTotal := 0
	for round := 0; round < p.cloneRounds; round++ {
		cid := "cid-" + strconv.Itoa(round)
		var orig frugal.FContext
		origin := "new"
		if round%3 == 2 {
			origin = "received"
			var err error
			orig, err = readCtx(frugal.VerifMarshalHeaders(map[string]string{"_opid": "7", "_cid": cid}))
			if err != nil {
				run.Inconclusive("clone-conc: ReadRequestHeader failed: " + err.Error())
				continue
			}
		} else {
			orig = frugal.NewFContext(cid)
		}
		ids.one(orig, srcCloneConc, 0, round)
		ow := orig.(frugal.FContextWithEphemeralProperties)
		origOpid, _ := orig.RequestHeader("_opid")
		bar := &spinBarrier{n: int32(M + C)}
		var wg sync.WaitGroup
		for m := 0; m < M; m++ {
			wg.Add(1)
			go func(m int) {
				defer wg.Done()
				q, pk, e := "q"+strconv.Itoa(m), "p"+strconv.Itoa(m), "e"+strconv.Itoa(m)
				bar.wait()
				for s := 1; s <= W; s++ {
					if s%256 == 0 {
						tick()
					}
					ss := strconv.Itoa(s)
					orig.AddRequestHeader(q, q+"|"+ss)
					orig.AddResponseHeader(pk, pk+"|"+ss)
					ow.AddEphemeralProperty(e, s)
					if m == 0 {
						orig.SetTimeout(time.Duration(s) * time.Millisecond)
					}
				}
			}(m)
		}
		seqOf := func(k, v string) (int, bool) {
			if !strings.HasPrefix(v, k+"|") {
				return 0, false
			}
			n, err := strconv.Atoi(v[len(k)+1:])
			return n, err == nil && n >= 1 && n <= W
		}
		type kept struct {
			ctx   frugal.FContext
			state ctxState
			name  string
		}
		keptAll := make([][]kept, C)
		inter := make([]int, C)
		for c := 0; c < C; c++ {
			wg.Add(1)
			go func(c int) {
				defer wg.Done()
				last := map[string]int{}
				mono := func(where, k string, n int, j int) {
					if n < last[where+k] {
						report("C17:clone-conc:went-back", fmt.Sprintf("round %d cloner %d clone %d: %s %q shows write #%d after an earlier clone showed #%d of the same single writer", round, c, j, where, k, n, last[where+k]), "")
					}
					last[where+k] = n
				}
				var batch []idRec
				var bad []string
				bar.wait()
				for j := 0; j < L; j++ {
					if j%32 == 0 {
						tick()
					}
					var cl frugal.FContext
					if (c+j)%2 == 0 {
						cl = ow.Clone()
					} else {
						cl = frugal.Clone(orig)
					}
					st := snapCtx(cl)
					id, b := opidOf(cl)
					if b != "" {
						bad = append(bad, "clone-conc: "+b)
					} else {
						batch = append(batch, idRec{id: id, i: uint32(j), g: uint16(c), src: srcCloneConc})
					}
					if st.req["_opid"] == origOpid {
						report("C17:clone-conc:same-opid", fmt.Sprintf("round %d: clone carries the original's op id %s", round, origOpid), "")
					}
					mid := false
					for k, v := range st.req {
						switch {
						case k == "_cid":
							if v != cid {
								report("C17:clone-conc:corrupt", fmt.Sprintf("round %d: clone has _cid %q, original %q", round, v, cid), "")
							}
						case k == "_opid" || k == "_timeout":
						case len(k) >= 2 && k[0] == 'q':
							n, ok := seqOf(k, v)
							if !ok {
								report("C17:clone-conc:corrupt", fmt.Sprintf("round %d: clone request header %q=%q was never written to the original", round, k, v), "")
								continue
							}
							mono("req", k, n, j)
							mid = mid || n < W
						default:
							report("C17:clone-conc:corrupt", fmt.Sprintf("round %d: clone has a request header %q=%q nobody wrote", round, k, v), "")
						}
					}
					for k, v := range st.resp {
						if k == "_opid" || k == "_cid" {
							continue
						}
						n, ok := seqOf(k, v)
						if !ok || k[0] != 'p' {
							report("C17:clone-conc:corrupt", fmt.Sprintf("round %d: clone response header %q=%q was never written to the original", round, k, v), "")
							continue
						}
						mono("resp", k, n, j)
					}
					for k, v := range st.eph {
						ks, _ := k.(string)
						n, ok := v.(int)
						if !ok || len(ks) < 2 || ks[0] != 'e' || n < 1 || n > W {
							report("C17:clone-conc:corrupt", fmt.Sprintf("round %d: clone ephemeral property %#v=%#v was never written to the original", round, k, v), "")
							continue
						}
						mono("eph", ks, n, j)
					}
					if ms := int64(st.timeout / time.Millisecond); ms != 5000 {
						if ms < 1 || ms > int64(W) || st.timeout%time.Millisecond != 0 {
							report("C17:clone-conc:corrupt", fmt.Sprintf("round %d: clone timeout %v was never set on the original", round, st.timeout), "")
						} else {
							mono("timeout", "", int(ms), j)
						}
					}
					if mid {
						inter[c]++
					}
					// private mutation of the clone
					tag := fmt.Sprintf("clone|%d|%d", c, j)
					cl.AddRequestHeader("q0", tag).AddResponseHeader("p0", tag).SetTimeout(777777 * time.Millisecond)
					cl.(frugal.FContextWithEphemeralProperties).AddEphemeralProperty("e0", tag)
					st.req["q0"], st.resp["p0"], st.timeout, st.eph["e0"] = tag, tag, 777777*time.Millisecond, tag
					st.req["_timeout"] = "777777"
					if j%8 == 0 {
						keptAll[c] = append(keptAll[c], kept{cl, st, fmt.Sprintf("round %d cloner %d clone %d", round, c, j)})
					}
				}
				ids.add(batch, bad)
			}(c)
		}
		wg.Wait()
		// afterwards: the original shows exactly the last writes, nothing of the clones
		fin := snapCtx(orig)
		for m := 0; m < M; m++ {
			q, pk, e := "q"+strconv.Itoa(m), "p"+strconv.Itoa(m), "e"+strconv.Itoa(m)
			ws := strconv.Itoa(W)
			if fin.req[q] != q+"|"+ws || fin.resp[pk] != pk+"|"+ws || fin.eph[e] != W {
				report("C17:clone-conc:original-changed", fmt.Sprintf("round %d: after all writers finished the original shows %q %q %#v for writer %d, expected its last write #%d", round, fin.req[q], fin.resp[pk], fin.eph[e], m, W), "")
			}
		}
		if fin.timeout != time.Duration(W)*time.Millisecond {
			report("C17:clone-conc:original-changed", fmt.Sprintf("round %d: original timeout %v, expected the last one set (%dms)", round, fin.timeout, W), "")
		}
		if v, _ := orig.RequestHeader("_opid"); v != origOpid {
			report("C17:clone-conc:original-changed", fmt.Sprintf("round %d: original op id changed from %s to %s while being cloned", round, origOpid, v), "")
		}
		for c := 0; c < C; c++ {
			intermediate += inter[c]
			clonesTotal += L
			for _, k := range keptAll[c] {
				if d := k.state.diff(snapCtx(k.ctx), false); d != "" {
					report("C17:clone-conc:not-independent:clone-changed", k.name+" changed after it was taken, while only the original and other clones were written: "+d, "")
				}
			}
		}
		run.Eval(1)
		run.Distinct(fmt.Sprintf("clone-conc origin=%s M=%d C=%d", origin, M, C))
	}
	seen := map[string]bool{}
	for _, pr := range problems {
		if !seen[pr.sig] {
			seen[pr.sig] = true
			run.Violation(pr.sig, pr.msg, map[string]interface{}{"mutators": M, "writes_each": W, "cloners": C, "clones_each": L, "occurrences_all_signatures": len(problems)})
		}
	}
	run.Add("clone_conc_rounds", p.cloneRounds)
	run.Add("clone_conc_clones", clonesTotal)
	run.Add("clone_conc_clones_of_intermediate_state", intermediate)
	if p.cloneRounds > 0 && intermediate == 0 {
		run.Inconclusive("clone-conc: no clone was taken while the original was between its first and last write (no concurrency observed)")
	}
}
