package main

// Long histories: the ids handed out after 2^16, 2^31, 2^32, 2^33, 2^53 and
// 2^63 allocations in one process.  Performing 2^32 allocations takes tens of
// minutes and 2^53 is out of reach, so the monitor moves the process-wide
// counter to just below each position through the verif hook
// frugal.VerifSetNextOpID (at a quiescent point: nothing else creates
// contexts) and lets the real code hand out the ids across the position, from
// several goroutines.  Positions are visited in ascending order and only when
// they lie ahead of what the process has already handed out, so the stage can
// never cause a repetition itself; every id it sees goes into the run-wide
// set, where it must differ from every id of every context created before
// (those contexts are still alive: the collector holds their ids).

import (
	"fmt"
	"sync"

	frugal "github.com/Workiva/frugal/lib/go"

	"verif/ev"
)

func stageLongHistory(run *ev.Run, ids *idCollector) {
	positions := []uint64{1 << 16, 1 << 31, 1 << 32, 1 << 33, 1 << 53, 1 << 63}
	visited, skipped := []string{}, 0
	for pi, pos := range positions {
		cur, bad := opidOf(frugal.NewFContext(""))
		if bad != "" {
			run.Inconclusive("long-history stage: " + bad)
			return
		}
		if cur+64 >= pos-8 {
			skipped++ // the process is already past it: the ordinary stages covered it
			continue
		}
		frugal.VerifSetNextOpID(pos - 8)
		var wg sync.WaitGroup
		for g := 0; g < 4; g++ {
			wg.Add(1)
			go func(g int) {
				defer wg.Done()
				var last frugal.FContext
				for i := 0; i < 8; i++ {
					var ctx frugal.FContext
					switch i % 3 {
					case 0:
						ctx = frugal.NewFContext("")
					case 1:
						ctx = frugal.Clone(last)
					default:
						ctx = last.(frugal.FContextWithEphemeralProperties).Clone()
					}
					last = ctx
					ids.one(ctx, srcLongHistory, g, pi*100+i)
				}
			}(g)
		}
		wg.Wait()
		visited = append(visited, fmt.Sprintf("2^%d", map[uint64]int{1 << 16: 16, 1 << 31: 31, 1 << 32: 32, 1 << 33: 33, 1 << 53: 53, 1 << 63: 63}[pos]))
		run.Eval(1)
		run.Distinct("long-history position " + visited[len(visited)-1])
	}
	run.Set("long_history_positions_crossed", visited)
	run.Set("long_history_positions_already_passed", skipped)
}
