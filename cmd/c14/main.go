// Command c14 monitors property C14: for every request frame with decodable
// headers the server produces exactly one well-formed reply carrying the
// request's op id (REPLY, or EXCEPTION of the appropriate type), concurrently
// produced replies are never interleaved, and a failing request never affects
// later requests or other connections (DESIGN.md §4 C14).
//
// Thin driver: emits Go for /verif/fixtures with the compiler under test,
// builds /verif/harness/c14 against the runtime under test and runs it.  The
// thorough tier additionally builds the monitor with -race and runs a sample
// of the sequences under the race detector; the number of reports is recorded
// in the evidence as a diagnostic.
package main

import (
	"fmt"
	"io"
	"os"
	"os/exec"
	"path/filepath"
	"strings"

	"verif/emit"
	"verif/ev"
)

func main() {
	tier := ev.Tier(ev.ArgTier())
	h, err := emit.NewHarness("c14")
	if err != nil {
		fmt.Println("INCONCLUSIVE property=C14 cannot create the harness module:", err)
		os.Exit(2)
	}
	if r := h.Gen("", filepath.Join(ev.Root(), "fixtures"), "main.frugal", ""); r.ExitCode != 0 || r.TimedOut {
		fmt.Println("INCONCLUSIVE property=C14 the compiler under test failed on the fixture IDL:", r.Stdout, r.Stderr)
		os.Exit(2)
	}
	for _, d := range []string{"e2e", "c14"} {
		if err := h.CopySources(filepath.Join(ev.Root(), "harness", d), d); err != nil {
			fmt.Println(err)
			os.Exit(2)
		}
	}
	if os.Getenv("VERIF_VET") != "" {
		if out, err := h.Vet("./c14"); err != nil {
			fmt.Println("go vet:", out)
			os.Exit(2)
		}
	}
	bin, out, err := h.Build("./c14", "c14.bin", false)
	if err != nil {
		fmt.Println("BUILD-FAILED property=C14 (emitted code + monitor do not build against the tree under test)")
		fmt.Println(out)
		os.Exit(2)
	}
	raceCode := 0
	if tier == "thorough" && len(os.Args) <= 2 {
		rbin, out, err := h.Build("./c14", "c14-race.bin", true)
		if err != nil {
			fmt.Println("NOTE property=C14 the -race build failed; the race sample is skipped:", out)
		} else {
			logBase := filepath.Join(ev.ScratchDir(), "race")
			cmd := exec.Command(rbin, "thorough", "--limit", "420")
			cmd.Env = append(os.Environ(), "GORACE=halt_on_error=0 log_path="+logBase, "VERIF_OUT="+filepath.Join(ev.ScratchDir(), "race-out"))
			b, err := cmd.CombinedOutput()
			if ee, ok := err.(*exec.ExitError); ok {
				raceCode = ee.ExitCode()
			}
			for _, l := range strings.Split(string(b), "\n") {
				if strings.HasPrefix(l, "VIOLATION") || strings.HasPrefix(l, "  signature") || strings.HasPrefix(l, "  what") || strings.HasPrefix(l, "SUMMARY") {
					fmt.Println("[race sample]", l)
				}
			}
			reports := 0
			logs, _ := filepath.Glob(logBase + ".*")
			for _, f := range logs {
				c, _ := os.ReadFile(f)
				reports += strings.Count(string(c), "WARNING: DATA RACE")
				if reports > 0 && len(c) > 0 {
					lines := strings.Split(string(c), "\n")
					if len(lines) > 30 {
						lines = lines[:30]
					}
					fmt.Println("[race sample] first report:\n" + strings.Join(lines, "\n"))
				}
			}
			os.Setenv("C14_RACE_REPORTS", fmt.Sprint(reports))
			os.Setenv("C14_RACE_SAMPLE", "first 420 sequences of the thorough list under -race")
			fmt.Printf("NOTE property=C14 race sample: 420 sequences, %d race reports, exit %d\n", reports, raceCode)
		}
	}
	progress := filepath.Join(ev.ScratchDir(), "c14-progress.log")
	os.Setenv("C14_PROGRESS", progress)
	// the monitor runs as a child with its stderr kept: a fatal error inside
	// the runtime under test (e.g. "concurrent map read and map write") cannot
	// be recovered in-process and has to be attributed from the outside
	var errBuf tailBuffer
	cmd := exec.Command(bin, os.Args[1:]...)
	cmd.Stdout, cmd.Stderr = os.Stdout, io.MultiWriter(os.Stderr, &errBuf)
	cmd.Env = os.Environ()
	code := 0
	if err := cmd.Run(); err != nil {
		code = 2
		if ee, ok := err.(*exec.ExitError); ok {
			code = ee.ExitCode()
		}
	}
	if code != 0 && code != 1 && code != 3 {
		code = crashed(bin, tier, progress, code, errBuf.String())
	}
	if code == 0 && raceCode == 1 {
		fmt.Println("VIOLATION property=C14 only the -race sample run showed a violation (see [race sample] lines)")
		code = 1
	}
	os.Exit(code)
}

// crashed handles a monitor process that died (a panic in a server goroutine
// of the runtime under test takes the whole process down): every sequence that
// was running is re-run alone; one that kills the process again on its own is
// reported as a violation with the stack as witness.
// tailBuffer keeps the first 256 KiB written to it.
type tailBuffer struct{ b []byte }

func (t *tailBuffer) Write(p []byte) (int, error) {
	if room := 256*1024 - len(t.b); room > 0 {
		if len(p) < room {
			room = len(p)
		}
		t.b = append(t.b, p[:room]...)
	}
	return len(p), nil
}
func (t *tailBuffer) String() string { return string(t.b) }

// crashHead extracts the fatal error / panic and the stack of the goroutine it
// happened in; inRuntime tells whether that stack runs through the library
// under test, fn is the innermost library function on it.
func crashHead(text string) (head string, inRuntime bool, fn string) {
	i := strings.Index(text, "fatal error:")
	if j := strings.Index(text, "panic:"); i < 0 || (j >= 0 && j < i) {
		i = j
	}
	if i < 0 {
		return "", false, ""
	}
	lines := strings.Split(text[i:], "\n")
	// the first goroutine block after the message is the faulting one
	end, seenG := len(lines), false
	for k, l := range lines {
		if strings.HasPrefix(l, "goroutine ") {
			if seenG {
				end = k
				break
			}
			seenG = true
		}
	}
	if end > 60 {
		end = 60
	}
	for _, l := range lines[:end] {
		if k := strings.Index(l, "github.com/Workiva/frugal/lib/go."); k >= 0 && !strings.HasPrefix(l, "\t") {
			inRuntime = true
			if fn == "" {
				fn = l[k+len("github.com/Workiva/frugal/lib/go."):]
				if p := strings.Index(fn, "("); p > 0 && !strings.HasPrefix(fn, "(") {
					fn = fn[:p]
				} else if strings.HasPrefix(fn, "(") {
					if q := strings.Index(fn[1:], "("); q > 0 {
						fn = fn[:q+1]
					}
				}
			}
		}
	}
	return strings.Join(lines[:end], "\n"), inRuntime, fn
}

func crashed(bin, tier, progress string, code int, stderr string) int {
	type cand struct{ id, leg, proto, mode string }
	open := map[string]cand{}
	var order []string
	b, _ := os.ReadFile(progress)
	for _, l := range strings.Split(string(b), "\n") {
		f := strings.Fields(l)
		if len(f) != 5 {
			continue
		}
		if f[0] == "S" {
			open[f[1]] = cand{f[1], f[2], f[3], f[4]}
			order = append(order, f[1])
		} else {
			delete(open, f[1])
		}
	}
	run := ev.New("C14", tier, "exploration")
	run.Rule("fallback evidence written by the driver: the monitor process died; the sequences running at that moment were re-run one at a time")
	found := false
	// the crash of the full run itself: if the faulting goroutine was inside the
	// runtime under test, that is the violation - whether or not a single
	// sequence reproduces it (a data race between two requests need not)
	if head, inRuntime, fn := crashHead(stderr); inRuntime {
		var running []string
		for _, id := range order {
			if c, ok := open[id]; ok {
				running = append(running, fmt.Sprintf("%s (%s/%s %s)", c.id, c.leg, c.proto, c.mode))
			}
		}
		first := strings.SplitN(head, "\n", 2)[0]
		run.Eval(len(running) + 1)
		run.Distinct("crash:" + fn)
		run.Distinct("crash-first-line:" + first)
		found = true
		run.Violation("C14:server-crashed:"+fn, "the process serving the requests died inside the runtime under test: "+first+" - no request in flight on any connection is answered any more",
			map[string]interface{}{"stack_of_the_faulting_goroutine": head, "sequences_in_flight": running, "regenerate": "VERIF_SEED=<seed> ./check C14 " + tier + " (sequence ids as listed; --seq <id> runs one alone)"})
	}
	for _, id := range order {
		c, ok := open[id]
		if !ok {
			continue
		}
		delete(open, id)
		cmd := exec.Command(bin, tier, "--seq", c.id)
		cmd.Env = append(os.Environ(), "VERIF_OUT="+filepath.Join(ev.ScratchDir(), "crash-out"), "C14_PROGRESS=")
		out, err := cmd.CombinedOutput()
		run.Eval(1)
		run.Distinct(c.leg + ":" + c.proto + ":" + c.mode + ":" + c.id)
		ee, isExit := err.(*exec.ExitError)
		if !isExit || ee.ExitCode() == 0 || ee.ExitCode() == 1 || ee.ExitCode() == 3 {
			continue
		}
		text := string(out)
		i := strings.Index(text, "panic:")
		if j := strings.Index(text, "fatal error:"); i < 0 || (j >= 0 && j < i) {
			i = j
		}
		if i < 0 {
			continue
		}
		lines := strings.Split(text[i:], "\n")
		if len(lines) > 40 {
			lines = lines[:40]
		}
		head := strings.Join(lines, "\n")
		inRuntime := false
		for k, l := range lines {
			if k >= 14 {
				break
			}
			if strings.Contains(l, "github.com/Workiva/frugal/lib/go.") {
				inRuntime = true
			}
		}
		if !inRuntime {
			run.Inconclusive("sequence " + c.id + " kills the monitor process, but the stack does not start in the runtime under test:\n" + head)
			continue
		}
		found = true
		run.Violation("C14:server-crashed:"+c.leg+":"+c.proto, "a request sequence with decodable headers crashes the server process: "+lines[0],
			map[string]interface{}{"sequence": c.id, "leg": c.leg, "proto": c.proto, "mode": c.mode, "stack": head,
				"regenerate": "VERIF_SEED=<seed> ./check C14 " + tier + " --seq " + c.id})
	}
	if !found {
		run.Inconclusive(fmt.Sprintf("the monitor process ended abnormally (exit %d) and no single sequence reproduces it", code))
	}
	return run.Finish()
}
