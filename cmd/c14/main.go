// Command c14 monitors property C14: for every request frame with decodable
// headers the server produces exactly one well-formed reply carrying the
// request's op id (REPLY, or EXCEPTION of the appropriate type), concurrently
// produced replies are never interleaved, and a failing request never affects
// later requests or other connections (DESIGN.md §4 C14).
//
// Thin driver: emits Go for /verif/fixtures with the compiler under test,
// builds /verif/harness/c14 against the runtime under test and runs it.  The
// thorough tier additionally builds the monitor with -race and runs a sample
// of the sequences under the race detector; the number of reports is recorded
// in the evidence as a diagnostic.
package main

import (
	"fmt"
	"os"
	"os/exec"
	"path/filepath"
	"strings"

	"verif/emit"
	"verif/ev"
)

func main() {
	tier := ev.Tier(ev.ArgTier())
	h, err := emit.NewHarness("c14")
	if err != nil {
		fmt.Println("INCONCLUSIVE property=C14 cannot create the harness module:", err)
		os.Exit(2)
	}
	if r := h.Gen("", filepath.Join(ev.Root(), "fixtures"), "main.frugal", ""); r.ExitCode != 0 || r.TimedOut {
		fmt.Println("INCONCLUSIVE property=C14 the compiler under test failed on the fixture IDL:", r.Stdout, r.Stderr)
		os.Exit(2)
	}
	for _, d := range []string{"e2e", "c14"} {
		if err := h.CopySources(filepath.Join(ev.Root(), "harness", d), d); err != nil {
			fmt.Println(err)
			os.Exit(2)
		}
	}
	if os.Getenv("VERIF_VET") != "" {
		if out, err := h.Vet("./c14"); err != nil {
			fmt.Println("go vet:", out)
			os.Exit(2)
		}
	}
	bin, out, err := h.Build("./c14", "c14.bin", false)
	if err != nil {
		fmt.Println("BUILD-FAILED property=C14 (emitted code + monitor do not build against the tree under test)")
		fmt.Println(out)
		os.Exit(2)
	}
	raceCode := 0
	if tier == "thorough" && len(os.Args) <= 2 {
		rbin, out, err := h.Build("./c14", "c14-race.bin", true)
		if err != nil {
			fmt.Println("NOTE property=C14 the -race build failed; the race sample is skipped:", out)
		} else {
			logBase := filepath.Join(ev.ScratchDir(), "race")
			cmd := exec.Command(rbin, "thorough", "--limit", "420")
			cmd.Env = append(os.Environ(), "GORACE=halt_on_error=0 log_path="+logBase, "VERIF_OUT="+filepath.Join(ev.ScratchDir(), "race-out"))
			b, err := cmd.CombinedOutput()
			if ee, ok := err.(*exec.ExitError); ok {
				raceCode = ee.ExitCode()
			}
			for _, l := range strings.Split(string(b), "\n") {
				if strings.HasPrefix(l, "VIOLATION") || strings.HasPrefix(l, "  signature") || strings.HasPrefix(l, "  what") || strings.HasPrefix(l, "SUMMARY") {
					fmt.Println("[race sample]", l)
				}
			}
			reports := 0
			logs, _ := filepath.Glob(logBase + ".*")
			for _, f := range logs {
				c, _ := os.ReadFile(f)
				reports += strings.Count(string(c), "WARNING: DATA RACE")
				if reports > 0 && len(c) > 0 {
					lines := strings.Split(string(c), "\n")
					if len(lines) > 30 {
						lines = lines[:30]
					}
					fmt.Println("[race sample] first report:\n" + strings.Join(lines, "\n"))
				}
			}
			os.Setenv("C14_RACE_REPORTS", fmt.Sprint(reports))
			os.Setenv("C14_RACE_SAMPLE", "first 420 sequences of the thorough list under -race")
			fmt.Printf("NOTE property=C14 race sample: 420 sequences, %d race reports, exit %d\n", reports, raceCode)
		}
	}
	code := emit.ExecHarness(bin, os.Args[1:]...)
	if code != 0 && code != 1 && code != 3 {
		fmt.Printf("INCONCLUSIVE property=C14 the monitor process ended abnormally (exit %d)\n", code)
	}
	if code == 0 && raceCode == 1 {
		fmt.Println("VIOLATION property=C14 only the -race sample run showed a violation (see [race sample] lines)")
		code = 1
	}
	os.Exit(code)
}
