package main

// The fixed fidelity fixture: a small two-file program compiled with the
// compiler under test next to the random programs.  The monitor for it is
// /verif/harness/c03/fidelity.go, run in a child process of its own: every case
// is announced before it runs, so a crash of the serving side is a violation
// attributed to the case in flight (the run continues without that kind of
// case), never the end of the check.

import (
	"bufio"
	"bytes"
	"context"
	"encoding/json"
	"fmt"
	"os"
	"os/exec"
	"path/filepath"
	"strings"
	"time"

	"verif/emit"
	"verif/ev"
	"verif/stubgen"
)

const fxBaseIDL = `namespace go wbase

exception WOops {
  1: string why
}

struct WItem {
  1: i64 id,
  2: string name
}

service WBase {
  string basePing(1: string s) throws (1: WOops o),
  binary baseBlob(1: binary b),
  WItem baseFind(1: i64 id) throws (1: WOops o),
  list<WItem> baseList(1: string prefix),
  map<string, WItem> baseIndex(1: string prefix)
}
`

const fxMainIDL = `include "wbase.frugal"

namespace go wfid

union WChoice {
  1: i32 n,
  2: string s,
  3: wbase.WItem item
}

service WFid extends wbase.WBase {
  string echo(1: string s, 2: i32 n) throws (1: wbase.WOops o),
  binary blob(1: binary b, 2: i32 n),
  wbase.WItem find(1: i64 id) throws (1: wbase.WOops o),
  WChoice choose(1: i32 n),
  list<wbase.WItem> search(1: string prefix),
  set<string> tags(1: string prefix),
  map<string, i32> counts(1: string prefix) throws (1: wbase.WOops o)
}
`

type fxCfg struct {
	Seed      int64    `json:"seed"`
	Thorough  bool     `json:"thorough"`
	Out       string   `json:"out"`
	Skip      []string `json:"skip"`
	SkipKinds []string `json:"skip_kinds"`
}

type fxLine struct {
	T        string                 `json:"t"`
	Key      string                 `json:"key,omitempty"`
	Info     map[string]interface{} `json:"info,omitempty"`
	Sig      string                 `json:"sig,omitempty"`
	What     string                 `json:"what,omitempty"`
	Witness  interface{}            `json:"witness,omitempty"`
	Calls    int                    `json:"calls,omitempty"`
	Outcomes map[string]int         `json:"outcomes,omitempty"`
	Distinct []string               `json:"distinct,omitempty"`
}

// crashHead returns the panic / fatal error message and the first lines of the
// dying goroutine's trace.
func crashHead(out string, n int) string {
	if i := strings.Index(out, "panic: "); i >= 0 {
		out = out[i:]
	} else if i := strings.Index(out, "fatal error: "); i >= 0 {
		out = out[i:]
	}
	return firstLines(out, n)
}

// runFidelity builds the fixture's harness and runs it; results go into run.
func runFidelity(run *ev.Run) {
	h, err := emit.NewHarness("c03fx")
	if err != nil {
		run.Inconclusive("fidelity fixture: " + err.Error())
		return
	}
	src := filepath.Join(h.Dir, "src", "fx")
	os.MkdirAll(src, 0o755)
	os.WriteFile(filepath.Join(src, "wbase.frugal"), []byte(fxBaseIDL), 0o644)
	os.WriteFile(filepath.Join(src, "wfid.frugal"), []byte(fxMainIDL), 0o644)
	if r := h.Gen("fx", src, "wfid.frugal", ""); r.ExitCode != 0 {
		run.Violation("C03:core-program-not-compilable", "the compiler rejected the fidelity fixture: "+firstLines(strings.TrimSpace(r.Stdout+r.Stderr), 5), map[string]interface{}{"wbase.frugal": fxBaseIDL, "wfid.frugal": fxMainIDL})
		return
	}
	if err := h.CopySources(filepath.Join(ev.Root(), "harness", "c03"), "c03"); err != nil {
		run.Inconclusive("fidelity fixture: " + err.Error())
		return
	}
	paths, err := stubgen.GenerateTree(filepath.Join(h.Dir, "gen"), "vh/gen")
	if err != nil {
		run.Inconclusive("fidelity fixture: " + err.Error())
		return
	}
	var imp strings.Builder
	imp.WriteString("package main\n\nimport (\n")
	for _, p := range paths {
		fmt.Fprintf(&imp, "\t_ %q\n", p)
	}
	imp.WriteString(")\n")
	os.WriteFile(filepath.Join(h.Dir, "c03", "zz_imports.go"), []byte(imp.String()), 0o644)
	bin, out, err := h.Build("./c03", "c03.bin", false)
	if err != nil {
		if strings.Contains(out, "gen/fx/") {
			run.Violation("C03:core-program-not-compilable", "the Go emitted for the fidelity fixture does not build: "+firstLines(out, 8), map[string]interface{}{"wbase.frugal": fxBaseIDL, "wfid.frugal": fxMainIDL})
		} else {
			run.Inconclusive("fidelity fixture: harness build failed: " + firstLines(out, 10))
		}
		return
	}
	cfg := fxCfg{Seed: run.Seed, Thorough: run.Thorough()}
	calls := 0
	outcomes := map[string]int{}
	crashes := 0
	for attempt := 0; ; attempt++ {
		cfg.Out = filepath.Join(h.Dir, fmt.Sprintf("fidelity-%d.jsonl", attempt))
		cf := filepath.Join(h.Dir, fmt.Sprintf("fidelity-%d.json", attempt))
		b, _ := json.Marshal(cfg)
		os.WriteFile(cf, b, 0o644)
		ctx, cancel := context.WithTimeout(context.Background(), 20*time.Minute)
		cmd := exec.CommandContext(ctx, bin, "fidelity", cf)
		cmd.Env = os.Environ()
		var stdio bytes.Buffer
		cmd.Stdout, cmd.Stderr = &stdio, &stdio
		runErr := cmd.Run()
		timedOut := ctx.Err() != nil
		cancel()
		// what the child decided before it ended
		started := map[string]map[string]interface{}{}
		var order []string
		finished := false
		if f, err := os.Open(cfg.Out); err == nil {
			sc := bufio.NewScanner(f)
			sc.Buffer(make([]byte, 1<<20), 64<<20)
			for sc.Scan() {
				var l fxLine
				if json.Unmarshal(sc.Bytes(), &l) != nil {
					continue
				}
				switch l.T {
				case "start":
					started[l.Key] = l.Info
					order = append(order, l.Key)
				case "done":
					delete(started, l.Key)
					cfg.Skip = append(cfg.Skip, l.Key)
				case "violation":
					run.Violation(l.Sig, l.What, l.Witness)
				case "inconclusive":
					run.Inconclusive("fidelity fixture: " + l.What)
				case "end":
					finished = true
				case "counts":
					calls += l.Calls
					for k, v := range l.Outcomes {
						outcomes[k] += v
						run.Distinct("outcome " + k)
					}
					for _, d := range l.Distinct {
						run.Distinct(d)
					}
				}
			}
			f.Close()
		}
		if runErr == nil && finished {
			break
		}
		text := stdio.String()
		crashed := strings.Contains(text, "panic: ") || strings.Contains(text, "fatal error: ")
		var inFlight string
		for i := len(order) - 1; i >= 0 && inFlight == ""; i-- {
			if _, ok := started[order[i]]; ok {
				inFlight = order[i]
			}
		}
		if timedOut || !crashed || inFlight == "" {
			run.Inconclusive(fmt.Sprintf("fidelity fixture: the harness ended without a verdict (%v, case in flight %q): %s", runErr, inFlight, firstLines(text, 10)))
			break
		}
		crashes++
		parts := strings.Split(inFlight, "|")
		head := crashHead(text, 14)
		wit := map[string]interface{}{"case": started[inFlight], "crash": head, "wbase.frugal": fxBaseIDL, "wfid.frugal": fxMainIDL}
		if parts[0] == "nil" && len(parts) == 4 {
			run.Violation("C03:nil-return:"+parts[1]+":serving-side-crash", fmt.Sprintf("WFid.%s on %s: the handler returned (nil, nil) for a result of kind %s and the process hosting the server went down instead of answering: %s", parts[2], parts[3], parts[1], firstLines(head, 2)), wit)
			cfg.SkipKinds = append(cfg.SkipKinds, parts[1])
		} else {
			run.Violation("C03:frame-size-sweep:process-crash", fmt.Sprintf("%s: the process hosting emitted client and server code went down: %s", inFlight, firstLines(head, 2)), wit)
			cfg.Skip = append(cfg.Skip, inFlight)
		}
		if crashes >= 12 {
			break // every kind of case has had its chance
		}
	}
	run.Eval(calls)
	run.Set("fidelity_fixture_calls_by_outcome", outcomes)
	run.Set("fidelity_fixture_process_crashes", crashes)
}
