// Command c03 decides property C03 (a call through generated client and
// server code is faithful end to end) on random IDL programs: see
// /verif/harness/c03 for the monitor that runs against the emitted code.
package main

import (
	"encoding/json"
	"fmt"
	"os"
	"os/exec"
	"path/filepath"
	"sort"
	"strings"
	"sync"

	"verif/emitbatch"
	"verif/ev"
	"verif/rig"
)

type batch struct {
	Programs []emitbatch.ProgSpec `json:"programs"`
	Calls    int                  `json:"calls_per_method"`
	Legs     [][2]string          `json:"legs"`
	Seed     int64                `json:"seed"`
	Out      string               `json:"out"`
}

type violation struct {
	Sig     string      `json:"sig"`
	What    string      `json:"what"`
	Witness interface{} `json:"witness"`
}

type progResult struct {
	Sub          string         `json:"sub"`
	Features     []string       `json:"features"`
	Services     int            `json:"services"`
	Methods      int            `json:"methods"`
	Inherited    int            `json:"inherited_methods"`
	Calls        int            `json:"calls"`
	Outcomes     map[string]int `json:"outcomes"`
	Legs         map[string]int `json:"legs"`
	OnewayChecks int            `json:"oneway_no_reply_checks"`
	Skipped      []string       `json:"skipped"`
	Inconclusive []string       `json:"inconclusive"`
	Violations   []violation    `json:"violations"`
	Sample       interface{}    `json:"sample,omitempty"`
}

func main() {
	run := ev.New("C03", ev.ArgTier(), "exploration")
	run.Rule("random valid IDL programs with services (extends chains within and across files, oneway, void, throws, 0..4 arguments of every type) are compiled with the compiler under test; every own and inherited method is called through the emitted client over legs of the transport x protocol matrix against the emitted processor and a stub handler; per call: handler invoked exactly once (by correlation id), arguments equal (model-guided wire trees), caller observes exactly the handler's outcome (value / declared exception / INTERNAL_ERROR for an undeclared error / the handler's own application exception type / nothing but a zero value for (nil, nil)), no reply frame for a successful oneway. A fixed two-file fixture (service extending an included one) adds, in a child process of its own: request and reply payloads (string, binary, declared exception) of own and inherited methods swept in one-byte steps across the 4096-byte boundaries on pipe and tcp for every protocol, and (nil, nil) for every kind of nillable result (struct, union, list, set, map, binary) on every transport x protocol; a crash of the serving side is attributed to the case in flight. distinct = (outcome class, leg) pairs + program feature vectors")
	run.Assume("Apache Thrift Go library; embedded nats-server; verif/idl model, verif/gocodec reflection mapping, verif/stubgen stubs derived from the emitted interfaces")
	nProgs, perBatch, calls := 6, 6, 4
	var legs [][2]string
	all := [][2]string{}
	for _, k := range rig.RPCKinds {
		for _, p := range rig.Protocols {
			all = append(all, [2]string{k, p})
		}
	}
	if run.Thorough() {
		nProgs, perBatch, calls = 120, 8, 8
		legs = all
	} else {
		// in-memory adapter leg with binary + two legs rotating with the seed
		legs = [][2]string{{"pipe", "binary"}}
		i := int(run.Seed) % len(all)
		if i < 0 {
			i = -i
		}
		for n := 0; len(legs) < 3; n++ {
			c := all[(i*2+1+n*5)%len(all)]
			if c != legs[0] && (len(legs) < 2 || c != legs[1]) {
				legs = append(legs, c)
			}
		}
	}
	rng := run.Rand("c03-programs")
	var specs []emitbatch.ProgSpec
	for i := 0; i < nProgs; i++ {
		cfg := "core"
		if i%2 == 1 {
			cfg = "core+argmods" // method arguments with optional / required modifiers and defaults
		}
		specs = append(specs, emitbatch.ProgSpec{Sub: fmt.Sprintf("p%d", i), Seed: rng.Int63(), Cfg: cfg})
	}
	// the fixed witness program of the known dependency defect runs on every invocation
	specs = append(specs, emitbatch.ProgSpec{Sub: fmt.Sprintf("p%d", nProgs), Seed: 0, Cfg: "witness:specialdouble"})
	var wg sync.WaitGroup
	sem := make(chan struct{}, 4)
	// the fixed fidelity fixture (frame sizes across buffer boundaries, nil
	// results of every kind on every leg) is built and run next to the batches
	wg.Add(1)
	go func() {
		defer wg.Done()
		runFidelity(run)
	}()
	var mu sync.Mutex
	rejected, uncompilable := 0, 0
	var problems []string
	totals := map[string]int{}
	outcomes := map[string]int{}
	legCalls := map[string]int{}
	for bi := 0; bi*perBatch < len(specs); bi++ {
		bs := specs[bi*perBatch : min(len(specs), (bi+1)*perBatch)]
		wg.Add(1)
		sem <- struct{}{}
		go func(bi int, bs []emitbatch.ProgSpec) {
			defer wg.Done()
			defer func() { <-sem }()
			br, err := emitbatch.Build(fmt.Sprintf("c03b%d", bi), "c03", bs, "", false)
			mu.Lock()
			defer mu.Unlock()
			if err != nil {
				run.Inconclusive(fmt.Sprintf("batch %d: %v", bi, err))
				return
			}
			rejected += len(br.Rejected)
			uncompilable += len(br.Uncompilable)
			if len(problems) < 4 {
				problems = append(problems, br.Rejected...)
				problems = append(problems, br.Uncompilable...)
			}
			if br.Bin == "" {
				return
			}
			bt := batch{Programs: br.Live, Calls: calls, Legs: legs, Seed: run.Seed, Out: filepath.Join(br.H.Dir, "results.json")}
			b, _ := json.Marshal(bt)
			bf := filepath.Join(br.H.Dir, "batch.json")
			os.WriteFile(bf, b, 0o644)
			mu.Unlock()
			cmd := exec.Command(br.Bin, bf)
			cmd.Env = os.Environ()
			o, err := cmd.CombinedOutput()
			mu.Lock()
			if err != nil {
				out := string(o)
				if strings.Contains(out, "panic:") || strings.Contains(out, "fatal error:") {
					// the calls announced and not closed were in flight when the process died
					flying, nilFlying := inFlight(bt.Out + ".progress")
					sig := "C03:harness-process-crash"
					if nilFlying {
						sig = "C03:nil-return:serving-side-crash"
					}
					run.Violation(sig, fmt.Sprintf("the process hosting emitted client/server code crashed with %d calls in flight (%s): %s", len(flying), strings.Join(flying, "; "), crashHead(out, 25)), map[string]interface{}{"batch": bi, "programs": br.Live, "calls_in_flight": flying})
				} else {
					run.Inconclusive(fmt.Sprintf("batch %d: harness failed: %v: %s", bi, err, firstLines(out, 10)))
				}
				// the programs decided before the process ended still count
			}
			rb, rerr := os.ReadFile(bt.Out)
			if rerr != nil {
				if err == nil {
					run.Inconclusive(rerr.Error())
				}
				return
			}
			var res []*progResult
			json.Unmarshal(rb, &res)
			for _, r := range res {
				run.Eval(r.Calls)
				totals["services"] += r.Services
				totals["methods"] += r.Methods
				totals["inherited_methods"] += r.Inherited
				totals["oneway_no_reply_checks"] += r.OnewayChecks
				for k, v := range r.Outcomes {
					outcomes[k] += v
				}
				for k, v := range r.Legs {
					legCalls[k] += v
					for o := range r.Outcomes {
						run.Distinct("outcome " + o + " on " + k)
					}
				}
				run.Distinct("program features: " + strings.Join(r.Features, ","))
				for _, s := range r.Skipped {
					run.Violation("C03:emitted-service-missing", "no unambiguous emitted service for an IDL service: "+s, map[string]interface{}{"program": r.Sub})
				}
				for _, s := range r.Inconclusive {
					run.Inconclusive(r.Sub + ": " + s)
				}
				for _, v := range r.Violations {
					run.Violation(v.Sig, v.What, v.Witness)
				}
				if r.Sample != nil {
					run.Sample(r.Sample)
				}
			}
		}(bi, bs)
	}
	wg.Wait()
	for k, v := range totals {
		run.Set(k, v)
	}
	run.Set("calls_by_outcome", outcomes)
	run.Set("calls_by_leg", legCalls)
	var ls []string
	for _, l := range legs {
		ls = append(ls, l[0]+"/"+l[1])
	}
	sort.Strings(ls)
	run.Set("legs", ls)
	run.Set("programs", nProgs)
	run.Set("programs_rejected_by_the_compiler_(C11)", rejected)
	run.Set("programs_whose_emitted_go_does_not_compile_(C11)", uncompilable)
	if rejected+uncompilable > 0 {
		run.Violation("C03:core-program-not-compilable", fmt.Sprintf("%d core programs were rejected by the compiler and the emitted Go of %d does not build: %s", rejected, uncompilable, strings.Join(problems, " | ")), map[string]interface{}{"problems": problems})
	}
	os.Exit(run.Finish())
}

// inFlight reads a harness progress file: calls announced ("S token class
// what") and not closed ("D token"); the second result tells whether one of
// them had a handler returning (nil, nil).
func inFlight(file string) ([]string, bool) {
	b, err := os.ReadFile(file)
	if err != nil {
		return nil, false
	}
	open := map[string]string{}
	var order []string
	for _, l := range strings.Split(string(b), "\n") {
		f := strings.Split(l, "\t")
		switch {
		case len(f) == 4 && f[0] == "S":
			open[f[1]] = f[2] + ": " + f[3] + " [" + f[1] + "]"
			order = append(order, f[1])
		case len(f) == 2 && f[0] == "D":
			delete(open, f[1])
		}
	}
	var out []string
	nilFlying := false
	for _, t := range order {
		if d, ok := open[t]; ok {
			out = append(out, d)
			nilFlying = nilFlying || strings.HasPrefix(d, "nil-value: ")
			delete(open, t)
		}
	}
	return out, nilFlying
}

func min(a, b int) int {
	if a < b {
		return a
	}
	return b
}

func firstLines(s string, n int) string {
	l := strings.Split(s, "\n")
	if len(l) > n {
		l = l[:n]
	}
	return strings.Join(l, "\n")
}
