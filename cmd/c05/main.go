// Command c05 builds the fixture harness (code emitted by the compiler under
// test + harness/e2e + harness/c05) and runs the C05 monitor: no received byte
// sequence can crash or wedge a Frugal process.
package main

import (
	"fmt"
	"os"
	"path/filepath"

	"verif/emit"
	"verif/ev"
)

func main() {
	h, err := emit.NewHarness("c05")
	if err != nil {
		fmt.Println(err)
		os.Exit(2)
	}
	if r := h.Gen("", filepath.Join(ev.Root(), "fixtures"), "main.frugal", ""); r.ExitCode != 0 {
		fmt.Println("frugal failed:", r.Stdout, r.Stderr)
		os.Exit(2)
	}
	if err := h.CopySources(filepath.Join(ev.Root(), "harness/e2e"), "e2e"); err != nil {
		fmt.Println(err)
		os.Exit(2)
	}
	if err := h.CopySources(filepath.Join(ev.Root(), "harness/c05"), "c05"); err != nil {
		fmt.Println(err)
		os.Exit(2)
	}
	// the STOMP leg needs the broker of verif/rig
	drop := "stomp_off.go"
	if _, err := os.Stat(filepath.Join(ev.Root(), "rig/stomp_broker.go")); err != nil {
		drop = "stomp_on.go"
	}
	os.Remove(filepath.Join(h.Dir, "c05", drop))
	// pure Go binary: no glibc arenas and 8 MB thread stacks, so that the memory
	// limit the children give themselves measures the Go heap
	os.Setenv("CGO_ENABLED", "0")
	bin, out, err := h.Build("./c05", "c05.bin", false)
	if err != nil {
		fmt.Println("build failed:", out)
		fmt.Println("BUILD-FAILED property=C05 (the harness does not build against " + ev.RepoDir() + ")")
		os.Exit(2)
	}
	if out, err := h.Vet("./c05"); err != nil {
		fmt.Println("go vet of the harness:", out)
		os.Exit(2)
	}
	os.Exit(emit.ExecHarness(bin, os.Args[1:]...))
}
