// Command vrt hosts the runtime monitors, one sub-command per property.
package main

import (
	"fmt"
	"os"
	"sort"
)

type checkFn func(tier string, args []string) int

var checks = map[string]checkFn{}

func register(id string, fn checkFn) { checks[id] = fn }

func main() {
	if len(os.Args) < 2 {
		ids := []string{}
		for k := range checks {
			ids = append(ids, k)
		}
		sort.Strings(ids)
		fmt.Fprintf(os.Stderr, "usage: vrt <id> <quick|thorough> [args]; ids: %v\n", ids)
		os.Exit(2)
	}
	id := os.Args[1]
	tier := "quick"
	if len(os.Args) > 2 {
		tier = os.Args[2]
	}
	var rest []string
	if len(os.Args) > 3 {
		rest = os.Args[3:]
	}
	fn, ok := checks[id]
	if !ok {
		fmt.Fprintf(os.Stderr, "unknown check %q\n", id)
		os.Exit(2)
	}
	os.Exit(fn(tier, rest))
}
