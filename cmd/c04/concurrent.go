package main

import (
	"encoding/json"
	"fmt"
	"io"
	"math/rand"
	"os"
	"os/exec"
	"runtime"
	"strconv"
	"strings"
	"sync"
	"sync/atomic"

	frugal "github.com/Workiva/frugal/lib/go"
	"github.com/apache/thrift/lib/go/thrift"

	"verif/ev"
	"verif/wire"
)

// The built-in context (FContextImpl) is documented as usable from several
// goroutines.  A request header block written for it while another goroutine
// replaces one header must still be the documented encoding of one of the
// maps the context held: every value the mutator stores for the name "k" is
// tagged with its own length, so a block is legal iff it parses completely
// under the reference layout, carries the fixed headers unchanged and a "k"
// value that is one of the stored ones.  The leg runs in a child process
// because the Go runtime answers an unsynchronised map access with a fatal
// error that no recover() sees.

type c04concResult struct {
	Writes      int            `json:"writes"`
	StreamReads int            `json:"concurrent_stream_reads"`
	Bad         string         `json:"bad,omitempty"`
	BadHex      string         `json:"bad_hex,omitempty"`
	SeenValues  map[string]int `json:"seen_value_lengths"`
}

func c04value(n int) string {
	p := strconv.Itoa(n) + ":"
	if n < len(p) {
		n = len(p)
	}
	return p + strings.Repeat("v", n-len(p))
}

func c04concurrentChild(seed int64, writes int) int {
	rng := rand.New(rand.NewSource(seed))
	pf := frugal.NewFProtocolFactory(thrift.NewTBinaryProtocolFactoryConf(nil))
	res := c04concResult{SeenValues: map[string]int{}}
	lens := []int{4, 9, 40, 300, 5000, 48000}
	rounds := 8
	for r := 0; r < rounds && res.Bad == ""; r++ {
		ctx := frugal.NewFContext("cid-" + strconv.Itoa(r))
		fixed := map[string]string{}
		for i, n := 0, rng.Intn(6); i < n; i++ {
			k, v := "h"+strconv.Itoa(i), c04string(rng, "ascii", rng.Intn(30))
			ctx.AddRequestHeader(k, v)
			fixed[k] = v
		}
		ctx.AddRequestHeader("k", c04value(lens[0]))
		base := ctx.RequestHeaders()
		var stop int32
		var wg sync.WaitGroup
		mseed := rng.Int63()
		wg.Add(1)
		go func() {
			defer wg.Done()
			mr := rand.New(rand.NewSource(mseed))
			for atomic.LoadInt32(&stop) == 0 {
				ctx.AddRequestHeader("k", c04value(lens[mr.Intn(len(lens))]))
			}
		}()
		for w := 0; w < writes/rounds; w++ {
			buf := thrift.NewTMemoryBuffer()
			if err := pf.GetProtocol(buf).WriteRequestHeader(ctx); err != nil {
				res.Bad = "WriteRequestHeader failed while another goroutine replaced a header: " + err.Error()
				break
			}
			res.Writes++
			b := buf.Bytes()
			pairs, used, err := wire.DecodeHeaders(b)
			bad := ""
			if err != nil {
				bad = "block does not parse under the documented layout: " + err.Error()
			} else if used != len(b) {
				bad = fmt.Sprintf("stray bytes: %d written, %d belong to the header block", len(b), used)
			} else {
				m, dup := wire.PairsToMap(pairs)
				kv := m["k"]
				n, _ := strconv.Atoi(strings.SplitN(kv, ":", 2)[0])
				switch {
				case dup:
					bad = "a name occurs twice"
				case kv != c04value(n):
					bad = fmt.Sprintf("value of k (%d bytes) is none of the values the context ever held", len(kv))
				case len(m) != len(base):
					bad = fmt.Sprintf("%d headers written, the context holds %d", len(m), len(base))
				default:
					for k, v := range base {
						if k != "k" && m[k] != v {
							bad = "header " + k + " differs from the context's"
						}
					}
					res.SeenValues[strconv.Itoa(len(kv))]++
				}
			}
			if bad != "" {
				res.Bad = bad
				if len(b) > 256 {
					b = b[:256]
				}
				res.BadHex = fmt.Sprintf("%x", b)
				break
			}
		}
		atomic.StoreInt32(&stop, 1)
		wg.Wait()
	}
	// Independent streams read at the same time: every reader owns its bytes,
	// so what one reader decodes cannot depend on what another one is reading.
	// The streams hand their bytes over a few at a time (a socket does) and the
	// blocks have different totals.
	if res.Bad == "" {
		readers := 8
		per := writes / 8
		var rwg sync.WaitGroup
		var mu sync.Mutex
		for g := 0; g < readers; g++ {
			rwg.Add(1)
			grng := rand.New(rand.NewSource(rng.Int63()))
			go func(g int, grng *rand.Rand) {
				defer rwg.Done()
				for i := 0; i < per; i++ {
					H := map[string]string{"_opid": strconv.Itoa(g*1000000 + i), "g": c04value(4 + grng.Intn(300))}
					for k, n := 0, grng.Intn(4); k < n; k++ {
						H["u"+strconv.Itoa(k)] = c04string(grng, "ascii", grng.Intn(40))
					}
					block := wire.EncodeHeaders(wire.MapToPairs(H))
					payload := []byte{0, 0, 0, 1, byte(g)}
					r := &dribble{b: append(append([]byte(nil), block...), payload...), step: 1 + grng.Intn(3)}
					got, err := frugal.VerifReadHeader(r)
					bad := ""
					switch {
					case err != nil:
						bad = "a well-formed block read while other streams were being read was rejected: " + err.Error()
					case !mapsEqual(got, H):
						bad = "a block read while other streams were being read decoded to a different map"
					case len(r.b)-r.off != len(payload):
						bad = fmt.Sprintf("a block read while other streams were being read left %d bytes of its stream, the payload has %d", len(r.b)-r.off, len(payload))
					}
					mu.Lock()
					res.StreamReads++
					if bad != "" && res.Bad == "" {
						res.Bad = bad
						if len(block) > 256 {
							block = block[:256]
						}
						res.BadHex = fmt.Sprintf("%x", block)
					}
					stop := res.Bad != ""
					mu.Unlock()
					if stop {
						return
					}
				}
			}(g, grng)
		}
		rwg.Wait()
	}
	json.NewEncoder(os.Stdout).Encode(res)
	return 0
}

// dribble hands its bytes over step at a time and yields in between.
type dribble struct {
	b    []byte
	off  int
	step int
}

func (d *dribble) Read(p []byte) (int, error) {
	if d.off >= len(d.b) {
		return 0, io.EOF
	}
	n := d.step
	if n > len(p) {
		n = len(p)
	}
	if n > len(d.b)-d.off {
		n = len(d.b) - d.off
	}
	copy(p, d.b[d.off:d.off+n])
	d.off += n
	runtime.Gosched()
	return n, nil
}

// c04concurrent runs the child and folds its verdict into the run.
func c04concurrent(run *ev.Run) {
	writes := 4000
	if run.Thorough() {
		writes = 80000
	}
	seed := run.Rand("c04-concurrent").Int63()
	cmd := exec.Command(os.Args[0], "concurrent-child", strconv.FormatInt(seed, 10), strconv.Itoa(writes))
	var stderr strings.Builder
	cmd.Stderr = &stderr
	out, err := cmd.Output()
	var res c04concResult
	if jerr := json.Unmarshal(out, &res); err != nil || jerr != nil {
		tail := stderr.String()
		if i := strings.Index(tail, "\n\n"); i > 0 && i < 2000 {
			tail = tail[:i]
		} else if len(tail) > 2000 {
			tail = tail[:2000]
		}
		if strings.Contains(tail, "fatal error: concurrent map") || strings.Contains(tail, "panic:") {
			run.Violation("C04:concurrent-writer:crash", "writing the request headers of a context while another goroutine replaces one of its headers killed the process", map[string]interface{}{"seed": seed, "stderr": tail})
		} else {
			run.Inconclusive("concurrent writer child did not report: " + fmt.Sprint(err) + " " + tail)
		}
		return
	}
	run.Eval(res.Writes)
	run.Eval(res.StreamReads)
	run.Set("concurrent_stream_reads_checked", res.StreamReads)
	run.Set("concurrent_writer_blocks_checked", res.Writes)
	run.Set("concurrent_writer_value_lengths_observed", res.SeenValues)
	for l := range res.SeenValues {
		run.Distinct("concurrent k-len=" + l)
	}
	if res.Bad != "" {
		sig := "C04:concurrent-writer"
		if strings.Contains(res.Bad, "other streams") {
			sig = "C04:concurrent-stream-readers"
		}
		run.Violation(sig, res.Bad, map[string]interface{}{"seed": seed, "block_hex_prefix": res.BadHex})
	} else if len(res.SeenValues) < 2 {
		run.Inconclusive("concurrent writer leg observed a single header state only")
	}
}
