package main

import (
	"encoding/json"
	"fmt"
	"math/rand"
	"os"
	"os/exec"
	"strconv"
	"strings"
	"sync"
	"sync/atomic"

	frugal "github.com/Workiva/frugal/lib/go"
	"github.com/apache/thrift/lib/go/thrift"

	"verif/ev"
	"verif/wire"
)

// The built-in context (FContextImpl) is documented as usable from several
// goroutines.  A request header block written for it while another goroutine
// replaces one header must still be the documented encoding of one of the
// maps the context held: every value the mutator stores for the name "k" is
// tagged with its own length, so a block is legal iff it parses completely
// under the reference layout, carries the fixed headers unchanged and a "k"
// value that is one of the stored ones.  The leg runs in a child process
// because the Go runtime answers an unsynchronised map access with a fatal
// error that no recover() sees.

type c04concResult struct {
	Writes     int            `json:"writes"`
	Bad        string         `json:"bad,omitempty"`
	BadHex     string         `json:"bad_hex,omitempty"`
	SeenValues map[string]int `json:"seen_value_lengths"`
}

func c04value(n int) string {
	p := strconv.Itoa(n) + ":"
	if n < len(p) {
		n = len(p)
	}
	return p + strings.Repeat("v", n-len(p))
}

func c04concurrentChild(seed int64, writes int) int {
	rng := rand.New(rand.NewSource(seed))
	pf := frugal.NewFProtocolFactory(thrift.NewTBinaryProtocolFactoryConf(nil))
	res := c04concResult{SeenValues: map[string]int{}}
	lens := []int{4, 9, 40, 300, 5000, 48000}
	rounds := 8
	for r := 0; r < rounds && res.Bad == ""; r++ {
		ctx := frugal.NewFContext("cid-" + strconv.Itoa(r))
		fixed := map[string]string{}
		for i, n := 0, rng.Intn(6); i < n; i++ {
			k, v := "h"+strconv.Itoa(i), c04string(rng, "ascii", rng.Intn(30))
			ctx.AddRequestHeader(k, v)
			fixed[k] = v
		}
		ctx.AddRequestHeader("k", c04value(lens[0]))
		base := ctx.RequestHeaders()
		var stop int32
		var wg sync.WaitGroup
		mseed := rng.Int63()
		wg.Add(1)
		go func() {
			defer wg.Done()
			mr := rand.New(rand.NewSource(mseed))
			for atomic.LoadInt32(&stop) == 0 {
				ctx.AddRequestHeader("k", c04value(lens[mr.Intn(len(lens))]))
			}
		}()
		for w := 0; w < writes/rounds; w++ {
			buf := thrift.NewTMemoryBuffer()
			if err := pf.GetProtocol(buf).WriteRequestHeader(ctx); err != nil {
				res.Bad = "WriteRequestHeader failed while another goroutine replaced a header: " + err.Error()
				break
			}
			res.Writes++
			b := buf.Bytes()
			pairs, used, err := wire.DecodeHeaders(b)
			bad := ""
			if err != nil {
				bad = "block does not parse under the documented layout: " + err.Error()
			} else if used != len(b) {
				bad = fmt.Sprintf("stray bytes: %d written, %d belong to the header block", len(b), used)
			} else {
				m, dup := wire.PairsToMap(pairs)
				kv := m["k"]
				n, _ := strconv.Atoi(strings.SplitN(kv, ":", 2)[0])
				switch {
				case dup:
					bad = "a name occurs twice"
				case kv != c04value(n):
					bad = fmt.Sprintf("value of k (%d bytes) is none of the values the context ever held", len(kv))
				case len(m) != len(base):
					bad = fmt.Sprintf("%d headers written, the context holds %d", len(m), len(base))
				default:
					for k, v := range base {
						if k != "k" && m[k] != v {
							bad = "header " + k + " differs from the context's"
						}
					}
					res.SeenValues[strconv.Itoa(len(kv))]++
				}
			}
			if bad != "" {
				res.Bad = bad
				if len(b) > 256 {
					b = b[:256]
				}
				res.BadHex = fmt.Sprintf("%x", b)
				break
			}
		}
		atomic.StoreInt32(&stop, 1)
		wg.Wait()
	}
	json.NewEncoder(os.Stdout).Encode(res)
	return 0
}

// c04concurrent runs the child and folds its verdict into the run.
func c04concurrent(run *ev.Run) {
	writes := 4000
	if run.Thorough() {
		writes = 80000
	}
	seed := run.Rand("c04-concurrent").Int63()
	cmd := exec.Command(os.Args[0], "concurrent-child", strconv.FormatInt(seed, 10), strconv.Itoa(writes))
	var stderr strings.Builder
	cmd.Stderr = &stderr
	out, err := cmd.Output()
	var res c04concResult
	if jerr := json.Unmarshal(out, &res); err != nil || jerr != nil {
		tail := stderr.String()
		if i := strings.Index(tail, "\n\n"); i > 0 && i < 2000 {
			tail = tail[:i]
		} else if len(tail) > 2000 {
			tail = tail[:2000]
		}
		if strings.Contains(tail, "fatal error: concurrent map") || strings.Contains(tail, "panic:") {
			run.Violation("C04:concurrent-writer:crash", "writing the request headers of a context while another goroutine replaces one of its headers killed the process", map[string]interface{}{"seed": seed, "stderr": tail})
		} else {
			run.Inconclusive("concurrent writer child did not report: " + fmt.Sprint(err) + " " + tail)
		}
		return
	}
	run.Eval(res.Writes)
	run.Set("concurrent_writer_blocks_checked", res.Writes)
	run.Set("concurrent_writer_value_lengths_observed", res.SeenValues)
	for l := range res.SeenValues {
		run.Distinct("concurrent k-len=" + l)
	}
	if res.Bad != "" {
		run.Violation("C04:concurrent-writer", res.Bad, map[string]interface{}{"seed": seed, "block_hex_prefix": res.BadHex})
	} else if len(res.SeenValues) < 2 {
		run.Inconclusive("concurrent writer leg observed a single header state only")
	}
}
