package main

import (
	"bytes"
	"fmt"
	"math/rand"
	"strconv"
	"strings"
	"unicode/utf8"

	frugal "github.com/Workiva/frugal/lib/go"
	"github.com/apache/thrift/lib/go/thrift"

	"verif/wire"
)

// The reserved names _opid and _cid are entries of the header map like any
// other: protocol.md gives their values no grammar, and the peer that wrote a
// request need not be the Go runtime (another language runtime, a proxy, a
// recorded test vector).  The receiving side treats the request's op id as an
// opaque string that it hands back in the reply; only the *caller's* registry
// interprets the op ids it issued itself.  This file adds that dimension: op
// ids / correlation ids that are not what NewFContext would have produced,
// and the oracle for the one reader that moves a header value somewhere else
// (ReadRequestHeader: request _opid -> response headers -> reply block).

// opidShape names the class of an op id text.  It is used for signatures and
// evidence only, never to decide a verdict.
func opidShape(s string) string {
	if n, err := strconv.ParseUint(s, 10, 64); err == nil && strconv.FormatUint(n, 10) == s {
		return "canonical"
	}
	digits := func(t string) bool {
		if t == "" {
			return false
		}
		for i := 0; i < len(t); i++ {
			if t[i] < '0' || t[i] > '9' {
				return false
			}
		}
		return true
	}
	switch {
	case s == "":
		return "empty"
	case digits(s):
		if _, err := strconv.ParseUint(s, 10, 64); err == nil {
			return "leading-zeros"
		}
		return "out-of-range"
	case (s[0] == '+' || s[0] == '-') && digits(s[1:]):
		return "signed"
	case strings.TrimSpace(s) != s && digits(strings.TrimSpace(s)):
		return "padded"
	case utf8.ValidString(s):
		return "opaque-text"
	default:
		return "opaque-bytes"
	}
}

func c04opid(rng *rand.Rand, class string) string {
	switch r := rng.Intn(100); {
	case r < 40:
		return fmt.Sprint(rng.Uint64())
	case r < 48:
		return strings.Repeat("0", 1+rng.Intn(4)) + fmt.Sprint(rng.Intn(1000))
	case r < 54:
		return []string{"+", "-"}[rng.Intn(2)] + fmt.Sprint(rng.Intn(100000))
	case r < 60:
		pad := []string{" ", "\t", "\n", "\r\n"}[rng.Intn(4)]
		if rng.Intn(2) == 0 {
			return pad + fmt.Sprint(rng.Intn(100000))
		}
		return fmt.Sprint(rng.Intn(100000)) + pad
	case r < 68:
		return fmt.Sprint(rng.Uint64()|1<<63) + fmt.Sprint(rng.Intn(10)) // >= 9.2e19 > 2^64-1
	case r < 74:
		return ""
	case r < 86:
		const hexd = "0123456789abcdef"
		var b strings.Builder
		for i, n := 0, 4+rng.Intn(32); i < n; i++ {
			if i%9 == 8 {
				b.WriteByte('-')
				continue
			}
			b.WriteByte(hexd[rng.Intn(16)])
		}
		return b.String()
	default:
		return c04string(rng, class, c04lens[rng.Intn(len(c04lens))])
	}
}

func c04cid(rng *rand.Rand, class string) string {
	switch r := rng.Intn(100); {
	case r < 50:
		return c04string(rng, "ascii", 22)
	case r < 60:
		return ""
	default:
		return c04string(rng, class, c04lens[rng.Intn(len(c04lens))])
	}
}

// requestReadsByOpidShape counts the request header blocks that went through
// ReadRequestHeader, by the shape of the op id they carried (evidence).
var requestReadsByOpidShape = map[string]int{}

// c04requestLeg: a request header block (which carries an op id) read by
// ReadRequestHeader.  Every header other than _opid is a request header of the
// returned context, unchanged; the context has a fresh op id of its own; the
// request's op id is, byte for byte, the _opid response header; the payload
// behind the block is untouched; and the reply block written from that
// context is the documented encoding of the context's response headers, so it
// carries the op id exactly as the caller sent it.
func c04requestLeg(pf *frugal.FProtocolFactory, wname string, stream []byte, H map[string]string, payload []byte) (string, string) {
	sent := H["_opid"]
	shape := opidShape(sent)
	requestReadsByOpidShape[shape]++
	leg := wname + "->ReadRequestHeader"
	note := ""
	if shape != "canonical" {
		leg += "(foreign _opid)"
		note = fmt.Sprintf(" [request _opid %q, shape %s]", sent, shape)
	}
	tb := &thrift.TMemoryBuffer{Buffer: bytes.NewBuffer(append([]byte(nil), stream...))}
	ctx, err := pf.GetProtocol(tb).ReadRequestHeader()
	if err != nil {
		return leg, "a well-formed request header block is refused: " + err.Error() + note
	}
	gotReq := ctx.RequestHeaders()
	wantReq := copyMap(H)
	delete(wantReq, "_opid")
	newOp, hasNew := gotReq["_opid"]
	delete(gotReq, "_opid")
	if !mapsEqual(gotReq, wantReq) {
		return leg, "request headers differ" + note
	}
	if !hasNew || newOp == "" {
		return leg, "no fresh op id" + note
	}
	if v, ok := ctx.ResponseHeader("_opid"); !ok || v != sent {
		return leg, fmt.Sprintf("response _opid is not the request's: got %q (present=%v)", v, ok) + note
	}
	if !bytes.Equal(tb.Bytes(), payload) {
		return leg, "payload after the headers consumed or altered" + note
	}
	retain(leg, gotReq, wantReq)

	// the reply written from that context
	ob := thrift.NewTMemoryBuffer()
	if err := pf.GetProtocol(ob).WriteResponseHeader(ctx); err != nil {
		return leg + "->WriteResponseHeader", err.Error() + note
	}
	pairs, used, err := wire.DecodeHeaders(ob.Bytes())
	if err != nil || used != ob.Len() {
		return leg + "->WriteResponseHeader", fmt.Sprintf("reply block does not parse under the documented layout: %v (%d of %d bytes)", err, used, ob.Len()) + note
	}
	m, dup := wire.PairsToMap(pairs)
	if dup || !mapsEqual(m, ctx.ResponseHeaders()) {
		return leg + "->WriteResponseHeader", "pairs of the reply block differ from the context's response headers" + note
	}
	if v, ok := m["_opid"]; !ok || v != sent {
		return leg + "->WriteResponseHeader", fmt.Sprintf("reply block carries _opid %q (present=%v), the request carried %q", v, ok, sent)
	}
	return "", ""
}

// c04reservedSpace is a small enumerated sub-space, the same for every seed:
// op id texts of every shape x correlation ids (absent, empty, ASCII,
// multi-byte) x with / without an ordinary multi-byte header.
func c04reservedSpace() []*c04case {
	opids := []string{
		"0", "1", "42", "18446744073709551615",
		"007", "00", "000000000000000000001",
		"+7", "-1", "-0",
		" 7", "7 ", "7\n", "\t7",
		"18446744073709551616", "99999999999999999999999999", strings.Repeat("9", 4096),
		"",
		"a1b2-c3", "0x1f", "1e3", "7.0", "1_000", "3f2b6c1e-8d0a-4f7e-9b1a-5c2d7e8f9a0b",
		"７", "٧٧", "opération-🙂",
		"\x00", "7\x007", "\xff\xfe", "\x00\x00\x00\x01",
	}
	type cid struct {
		v       string
		present bool
	}
	cids := []cid{{"", false}, {"", true}, {"cid-1", true}, {"ид-中", true}}
	var out []*c04case
	for _, o := range opids {
		for _, c := range cids {
			for extra := 0; extra < 2; extra++ {
				h := map[string]string{"_opid": o}
				if c.present {
					h["_cid"] = c.v
				}
				if extra == 1 {
					h["héllo"] = "wörld"
				}
				isUTF8 := utf8.ValidString(o)
				out = append(out, &c04case{I: -2, H: h, Payload: []byte{0x80, 1, 0, 1, 0, 0, 0, 3, 'a', 'd', 'd'}, Class: "reserved", UTF8: isUTF8})
			}
		}
	}
	return out
}
