package main

// Sessions: ONE FProtocol object reads (and, in the written direction, writes)
// a whole sequence of messages, the way a connection-oriented server or client
// uses it: header block, Thrift payload, header block, Thrift payload, ...
// Every block must come back as the map that was written and every payload
// must follow untouched, whatever the sizes of the blocks read earlier through
// the same object (growing, shrinking, alternating, equal).

import (
	"bytes"
	"context"
	"encoding/hex"
	"fmt"
	"math/rand"
	"sort"

	frugal "github.com/Workiva/frugal/lib/go"
	"github.com/apache/thrift/lib/go/thrift"

	"verif/ev"
	"verif/wire"
)

type sessMsg struct {
	H       map[string]string
	Block   []byte
	Payload string
	Tag     int32
	Request bool
}

func sessionOrderName(o int) string {
	return []string{"random", "shrinking", "growing", "alternating-long-short", "equal-then-shorter"}[o%5]
}

func c04sessions(run *ev.Run, cases []*c04case, legsFailed map[string]bool) {
	rng := run.Rand("c04-sessions")
	var pool []*c04case
	for _, c := range cases {
		if len(c.H) <= 60 {
			pool = append(pool, c)
		}
	}
	if len(pool) < 8 {
		run.Inconclusive("too few header maps for the session leg")
		return
	}
	n := 300
	if run.Thorough() {
		n = 6000
	}
	// (not the JSON protocol: Apache Thrift's TJSONProtocol reads its transport
	// through a bufio.Reader of its own, so on an unframed stream it reads ahead
	// into the next message whatever Frugal does -- message boundaries exist
	// for it only with one message per frame, which the end-to-end checks cover)
	inner := map[string]thrift.TProtocolFactory{
		"binary":  thrift.NewTBinaryProtocolFactoryConf(nil),
		"compact": thrift.NewTCompactProtocolFactoryConf(nil),
	}
	names := []string{"binary", "compact"}
	sessions, msgsRead, shrinkSteps := 0, 0, 0
	for i := 0; i < n; i++ {
		pname := names[i%2]
		pf := frugal.NewFProtocolFactory(inner[pname])
		order := i / 2 % 5
		writer := []string{"ref", "go"}[rng.Intn(2)]
		k := 2 + rng.Intn(6)
		var ms []*sessMsg
		for j := 0; j < k; j++ {
			c := pool[rng.Intn(len(pool))]
			m := &sessMsg{H: copyMap(c.H), Tag: int32(rng.Int31()), Request: rng.Intn(2) == 0}
			m.Payload = c04string(rng, "ascii", []int{0, 1, 7, 64, 300}[rng.Intn(5)])
			if m.Request {
				if _, ok := m.H["_opid"]; !ok {
					m.H["_opid"] = fmt.Sprint(1 + rng.Intn(1000))
				}
			}
			if order == 4 && j > 0 && j < k-1 {
				m.H = copyMap(ms[0].H)
				m.Request = ms[0].Request
			}
			m.Block = wire.EncodeHeaders(wire.MapToPairs(m.H))
			ms = append(ms, m)
		}
		switch order {
		case 1:
			sort.SliceStable(ms, func(a, b int) bool { return len(ms[a].Block) > len(ms[b].Block) })
		case 2:
			sort.SliceStable(ms, func(a, b int) bool { return len(ms[a].Block) < len(ms[b].Block) })
		case 3:
			sort.SliceStable(ms, func(a, b int) bool { return len(ms[a].Block) > len(ms[b].Block) })
			var alt []*sessMsg
			for lo, hi := 0, len(ms)-1; lo <= hi; lo, hi = lo+1, hi-1 {
				alt = append(alt, ms[lo])
				if lo != hi {
					alt = append(alt, ms[hi])
				}
			}
			ms = alt
		case 4:
			sort.SliceStable(ms[len(ms)-1:], func(a, b int) bool { return false })
			// last message: the shortest block of the pool draw
			short := &sessMsg{H: map[string]string{"_opid": "7"}, Tag: 7, Request: ms[0].Request, Payload: "tail"}
			short.Block = wire.EncodeHeaders(wire.MapToPairs(short.H))
			ms[len(ms)-1] = short
		}
		// the stream
		wbuf := thrift.NewTMemoryBuffer()
		wp := pf.GetProtocol(wbuf) // ONE writer object for the whole session
		ctxb := context.Background()
		for _, m := range ms {
			if writer == "ref" {
				wbuf.Write(m.Block)
			} else {
				var err error
				if m.Request {
					err = wp.WriteRequestHeader(&mapCtx{req: m.H})
				} else {
					err = wp.WriteResponseHeader(&mapCtx{resp: m.H})
				}
				if err != nil {
					leg := "session:" + writer + "-writer"
					if !legsFailed[leg] {
						legsFailed[leg] = true
						run.Violation("C04:"+leg, "one FProtocol writing a sequence of header blocks: "+err.Error(), map[string]interface{}{"pairs": hexPairs(m.H)})
					}
					break
				}
			}
			wp.WriteString(ctxb, m.Payload)
			wp.WriteI32(ctxb, m.Tag)
			wp.Flush(ctxb)
		}
		stream := append([]byte(nil), wbuf.Bytes()...)
		readers := map[string]thrift.TTransport{"memory": &thrift.TMemoryBuffer{Buffer: bytes.NewBuffer(append([]byte(nil), stream...))}}
		for tn, tt := range wrappedReaders(stream) {
			readers[tn] = tt
		}
		for tname, tt := range readers {
			rp := pf.GetProtocol(tt) // ONE reader object for the whole session
			prev := -1
			for j, m := range ms {
				leg := fmt.Sprintf("session:%s-written->one-FProtocol-reads-a-sequence", writer)
				fail := func(what string) {
					if legsFailed[leg] {
						return
					}
					legsFailed[leg] = true
					var sizes []int
					for _, x := range ms {
						sizes = append(sizes, len(x.Block))
					}
					run.Violation("C04:"+leg, fmt.Sprintf("message %d of %d read through one FProtocol (%s over %s; header block sizes in order %v, order class %s): %s", j+1, len(ms), pname, tname, sizes, sessionOrderName(order), what),
						map[string]interface{}{"stream_hex": hex.EncodeToString(stream), "protocol": pname, "transport": tname, "message_index": j, "block_sizes": sizes, "pairs": hexPairs(m.H)})
				}
				var got map[string]string
				want := copyMap(m.H)
				if m.Request {
					ctx, err := rp.ReadRequestHeader()
					if err != nil {
						fail("ReadRequestHeader refused a well-formed block: " + err.Error())
						break
					}
					got = ctx.RequestHeaders()
					delete(got, "_opid")
					delete(want, "_opid")
					if v, _ := ctx.ResponseHeader("_opid"); v != m.H["_opid"] {
						fail(fmt.Sprintf("response _opid %q is not the request's %q", v, m.H["_opid"]))
						break
					}
				} else {
					rc := &mapCtx{}
					if err := rp.ReadResponseHeader(rc); err != nil {
						fail("ReadResponseHeader refused a well-formed block: " + err.Error())
						break
					}
					got = rc.added
					if got == nil {
						got = map[string]string{}
					}
					delete(want, "_opid")
				}
				if !mapsEqual(got, want) {
					fail("headers differ from the block on the wire")
					break
				}
				s, err := rp.ReadString(ctxb)
				if err != nil || s != m.Payload {
					fail(fmt.Sprintf("the Thrift payload after the header block was consumed or altered (string: err=%v, got %d bytes, want %d)", err, len(s), len(m.Payload)))
					break
				}
				tag, err := rp.ReadI32(ctxb)
				if err != nil || tag != m.Tag {
					fail(fmt.Sprintf("the Thrift payload after the header block was consumed or altered (i32: err=%v, got %d, want %d)", err, tag, m.Tag))
					break
				}
				msgsRead++
				if prev >= 0 && len(m.Block) < prev {
					shrinkSteps++
				}
				prev = len(m.Block)
			}
		}
		sessions++
		run.Eval(1)
		run.Distinct(fmt.Sprintf("session proto=%s writer=%s order=%s k=%s", pname, writer, sessionOrderName(order), bucket(k)))
	}
	run.Set("session_sequences", sessions)
	run.Set("session_messages_read_through_a_reused_fprotocol", msgsRead)
	run.Set("session_steps_where_the_block_is_shorter_than_the_previous_one", shrinkSteps)
	if shrinkSteps == 0 {
		run.Inconclusive("no session read a shorter header block after a longer one")
	}
}

var _ = rand.Int
